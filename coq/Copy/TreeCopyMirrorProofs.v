(* C19 -- fs.mirror.mirror at tree level (Copy/TreeCopy.v): proofs for ALL trees.
   M0 mirror_level_assoc, M1 mirror_node_lookup, M2 mirror_node_uniq, M3 mirror_exact_replica_u,
   M4 mirror_newer_replica_u, M5 mirror_idempotent_u, M6 mirror_total. *)
From Coq Require Import List NArith ZArith Bool Arith Lia.
From PyFS Require Import Base.PyStr Base.Outcome FS.Tree FS.Wf FS.TreeLemmas Copy.CopyCond Copy.TreeCopy Copy.TreeCopyBase.
Import ListNotations.

Definition uniq_opt (d : option node) : Prop :=
  match d with Some t => uniq t | None => True end.

(* what mirror_node reads from the destination node *)
Definition dents_of (d : option node) : list (str * node) :=
  match d with Some (Dir de _) => de | _ => [] end.
Definition dm_of (now : option Z) (d : option node) : option Z :=
  match d with Some (Dir _ m) => m | _ => now end.

(* standalone copy of the inner `fix sub` of mirror_node *)
Section MSub.
  Variables (cn pt : bool) (now : option Z).
  Fixpoint msub (l acc : list (str * node)) : list (str * node) :=
    match l with
    | [] => acc
    | (k, n) :: r =>
      match n with
      | Dir _ _ => msub r (assoc_set k (mirror_node cn pt now n (assoc k acc)) acc)
      | File _ _ => msub r acc
      end
    end.
End MSub.

Lemma mirror_node_dir cn pt now sents sm d :
  mirror_node cn pt now (Dir sents sm) d =
  Dir (msub cn pt now sents (mirror_level cn pt now sents (dents_of d))) (dm_of now d).
Proof. reflexivity. Qed.

(* ------------------------------------------------------------------ small list facts *)
Lemma assoc_In_NoDup {A} k (v : A) l : NoDup (keys l) -> In (k, v) l -> assoc k l = Some v.
Proof.
  induction l as [|[x w] r IH]; simpl; intros Hnd Hin; [contradiction|].
  inversion Hnd as [|? ? Hn Hr]; subst.
  destruct Hin as [Heq|Hin].
  - inversion Heq; subst. rewrite str_eqb_refl. reflexivity.
  - destruct (str_eqb k x) eqn:E.
    + apply str_eqb_eq in E. subst x. exfalso. apply Hn.
      apply in_map_iff. exists (k, v). split; [reflexivity|exact Hin].
    + apply IH; assumption.
Qed.

Lemma Forall_assoc_del {A} (P : str * A -> Prop) k l : Forall P l -> Forall P (assoc_del k l).
Proof.
  intro H. rewrite Forall_forall in *. intros x Hx. apply H. eapply In_assoc_del. exact Hx.
Qed.

Lemma Forall_uniq_assoc (l : list (str * node)) k :
  Forall (fun kn => uniq (snd kn)) l -> uniq_opt (assoc k l).
Proof.
  intro H. destruct (assoc k l) as [n|] eqn:E; simpl; [|exact I].
  apply assoc_some_In in E. rewrite Forall_forall in H. apply (H _ E).
Qed.

Lemma uniq_opt_dents d :
  uniq_opt d -> NoDup (keys (dents_of d)) /\ Forall (fun kn => uniq (snd kn)) (dents_of d).
Proof.
  destruct d as [[dd dm|de dm]|]; simpl; intro H.
  - split; constructor.
  - apply (uniq_dir de dm). exact H.
  - split; constructor.
Qed.

Lemma dents_of_assoc d k :
  match d with Some (Dir ents _) => assoc k ents | _ => None end = assoc k (dents_of d).
Proof. destruct d as [[dd dm|de dm]|]; reflexivity. Qed.

Section M.
  Variables (cn pt : bool) (now : option Z).

  (* ---------------------------------------------------------------- the "Copy files" loop *)
  Lemma mirror_files_nodup : forall sents dst0 acc,
    NoDup (keys acc) -> NoDup (keys (mirror_files cn pt now sents dst0 acc)).
  Proof.
    induction sents as [|[k n] r IH]; intros dst0 acc H; cbn [mirror_files]; [exact H|].
    destruct n as [data m|e m]; [|apply IH; exact H].
    destruct (assoc k dst0) as [[data' m'|de dm]|].
    - destruct (keep_file cn data m data' m'); apply IH; [exact H|apply NoDup_keys_assoc_set; exact H].
    - apply IH. apply NoDup_keys_assoc_set. apply NoDup_keys_assoc_del. exact H.
    - apply IH. apply NoDup_keys_assoc_set. exact H.
  Qed.

  Lemma mirror_files_forall (P : str * node -> Prop) :
    (forall k data m, P (k, File data m)) ->
    forall sents dst0 acc, Forall P acc -> Forall P (mirror_files cn pt now sents dst0 acc).
  Proof.
    intro HP. induction sents as [|[k n] r IH]; intros dst0 acc H; cbn [mirror_files]; [exact H|].
    destruct n as [data m|e m]; [|apply IH; exact H].
    destruct (assoc k dst0) as [[data' m'|de dm]|].
    - destruct (keep_file cn data m data' m'); apply IH; [exact H|].
      apply Forall_assoc_set; [exact H|apply HP].
    - apply IH. apply Forall_assoc_set; [apply Forall_assoc_del; exact H|apply HP].
    - apply IH. apply Forall_assoc_set; [exact H|apply HP].
  Qed.

  Lemma mirror_files_assoc : forall sents dst0 acc k, NoDup (keys sents) ->
    assoc k (mirror_files cn pt now sents dst0 acc) =
    match assoc k sents with
    | Some (File data m) =>
      match assoc k dst0 with
      | Some (File data' m') =>
        if keep_file cn data m data' m' then assoc k acc
        else Some (copied pt now data m (Some (File data' m')))
      | _ => Some (copied pt now data m None)
      end
    | _ => assoc k acc
    end.
  Proof.
    induction sents as [|[k0 n] r IH]; intros dst0 acc k Hnd; [reflexivity|].
    change (NoDup (k0 :: keys r)) in Hnd.
    inversion Hnd as [|? ? Hn Hr]; subst.
    cbn [mirror_files assoc].
    destruct (str_eqb k k0) eqn:E.
    - apply str_eqb_eq in E. subst k0.
      assert (Hr0 : assoc k r = None) by (apply assoc_notin_none; exact Hn).
      destruct n as [data m|e m].
      + destruct (assoc k dst0) as [[data' m'|de dm]|].
        * destruct (keep_file cn data m data' m'); rewrite IH by exact Hr; rewrite Hr0;
            [reflexivity|apply assoc_set_same].
        * rewrite IH by exact Hr. rewrite Hr0. apply assoc_set_same.
        * rewrite IH by exact Hr. rewrite Hr0. apply assoc_set_same.
      + rewrite IH by exact Hr. rewrite Hr0. reflexivity.
    - apply str_eqb_neq in E.
      destruct n as [data m|e m].
      + destruct (assoc k0 dst0) as [[data' m'|de dm]|].
        * destruct (keep_file cn data m data' m'); rewrite IH by exact Hr; [reflexivity|].
          rewrite assoc_set_other by exact E. reflexivity.
        * rewrite IH by exact Hr. rewrite assoc_set_other by exact E.
          rewrite assoc_del_other by exact E. reflexivity.
        * rewrite IH by exact Hr. rewrite assoc_set_other by exact E. reflexivity.
      + rewrite IH by exact Hr. reflexivity.
  Qed.

  (* ---------------------------------------------------------------- the "Make directories" loop *)
  Lemma mirror_dirs_nodup : forall sents dst0 acc,
    NoDup (keys acc) -> NoDup (keys (mirror_dirs now sents dst0 acc)).
  Proof.
    induction sents as [|[k n] r IH]; intros dst0 acc H; cbn [mirror_dirs]; [exact H|].
    destruct n as [data m|e m]; [apply IH; exact H|].
    destruct (assoc k dst0) as [[data' m'|de dm]|].
    - apply IH. apply NoDup_keys_assoc_del. exact H.
    - apply IH. exact H.
    - apply IH. apply NoDup_keys_assoc_set. exact H.
  Qed.

  Lemma mirror_dirs_forall (P : str * node -> Prop) :
    (forall k, P (k, Dir [] now)) ->
    forall sents dst0 acc, Forall P acc -> Forall P (mirror_dirs now sents dst0 acc).
  Proof.
    intro HP. induction sents as [|[k n] r IH]; intros dst0 acc H; cbn [mirror_dirs]; [exact H|].
    destruct n as [data m|e m]; [apply IH; exact H|].
    destruct (assoc k dst0) as [[data' m'|de dm]|].
    - apply IH. apply Forall_assoc_del. exact H.
    - apply IH. exact H.
    - apply IH. apply Forall_assoc_set; [exact H|apply HP].
  Qed.

  Lemma mirror_dirs_assoc : forall sents dst0 acc k, NoDup (keys sents) -> NoDup (keys acc) ->
    assoc k (mirror_dirs now sents dst0 acc) =
    match assoc k sents with
    | Some (Dir _ _) =>
      match assoc k dst0 with
      | Some (Dir _ _) => assoc k acc
      | Some (File _ _) => None
      | None => Some (Dir [] now)
      end
    | _ => assoc k acc
    end.
  Proof.
    induction sents as [|[k0 n] r IH]; intros dst0 acc k Hnd Ha; [reflexivity|].
    change (NoDup (k0 :: keys r)) in Hnd.
    inversion Hnd as [|? ? Hn Hr]; subst.
    cbn [mirror_dirs assoc].
    destruct (str_eqb k k0) eqn:E.
    - apply str_eqb_eq in E. subst k0.
      assert (Hr0 : assoc k r = None) by (apply assoc_notin_none; exact Hn).
      destruct n as [data m|e m].
      + rewrite IH by assumption. rewrite Hr0. reflexivity.
      + destruct (assoc k dst0) as [[data' m'|de dm]|].
        * rewrite IH by (try assumption; apply NoDup_keys_assoc_del; exact Ha).
          rewrite Hr0. apply assoc_del_same. exact Ha.
        * rewrite IH by assumption. rewrite Hr0. reflexivity.
        * rewrite IH by (try assumption; apply NoDup_keys_assoc_set; exact Ha).
          rewrite Hr0. apply assoc_set_same.
    - apply str_eqb_neq in E.
      destruct n as [data m|e m].
      + rewrite IH by assumption. reflexivity.
      + destruct (assoc k0 dst0) as [[data' m'|de dm]|].
        * rewrite IH by (try assumption; apply NoDup_keys_assoc_del; exact Ha).
          rewrite assoc_del_other by exact E. reflexivity.
        * rewrite IH by assumption. reflexivity.
        * rewrite IH by (try assumption; apply NoDup_keys_assoc_set; exact Ha).
          rewrite assoc_set_other by exact E. reflexivity.
  Qed.

  (* ---------------------------------------------------------------- "Remove any remaining" *)
  Lemma mirror_extras_nodup : forall snames dst0 acc,
    NoDup (keys acc) -> NoDup (keys (mirror_extras snames dst0 acc)).
  Proof.
    induction dst0 as [|[k n] r IH]; intros acc H; cbn [mirror_extras]; [exact H|].
    destruct (existsb (str_eqb k) snames); apply IH; [exact H|].
    apply NoDup_keys_assoc_del. exact H.
  Qed.

  Lemma mirror_extras_forall (P : str * node -> Prop) : forall snames dst0 acc,
    Forall P acc -> Forall P (mirror_extras snames dst0 acc).
  Proof.
    induction dst0 as [|[k n] r IH]; intros acc H; cbn [mirror_extras]; [exact H|].
    destruct (existsb (str_eqb k) snames); apply IH; [exact H|].
    apply Forall_assoc_del. exact H.
  Qed.

  Lemma mirror_extras_in : forall snames dst0 acc k, In k snames ->
    assoc k (mirror_extras snames dst0 acc) = assoc k acc.
  Proof.
    induction dst0 as [|[k0 n] r IH]; intros acc k Hin; cbn [mirror_extras]; [reflexivity|].
    destruct (existsb (str_eqb k0) snames) eqn:Ex.
    - apply IH; exact Hin.
    - rewrite IH by exact Hin. apply assoc_del_other. intro Heq. subst k0.
      apply existsb_str_In in Hin. congruence.
  Qed.

  Lemma mirror_extras_notin : forall snames dst0 acc k, ~ In k snames -> NoDup (keys acc) ->
    assoc k (mirror_extras snames dst0 acc) =
    match assoc k dst0 with Some _ => None | None => assoc k acc end.
  Proof.
    induction dst0 as [|[k0 n] r IH]; intros acc k Hni Hnd; cbn [mirror_extras assoc]; [reflexivity|].
    destruct (existsb (str_eqb k0) snames) eqn:Ex.
    - destruct (str_eqb k k0) eqn:E.
      + apply str_eqb_eq in E. subst k0. apply existsb_str_In in Ex. contradiction.
      + apply IH; assumption.
    - rewrite IH by (try assumption; apply NoDup_keys_assoc_del; exact Hnd).
      destruct (str_eqb k k0) eqn:E.
      + apply str_eqb_eq in E. subst k0. rewrite assoc_del_same by exact Hnd.
        destruct (assoc k r); reflexivity.
      + apply str_eqb_neq in E. rewrite assoc_del_other by exact E. reflexivity.
  Qed.

  (* ---------------------------------------------------------------- M0 *)
  Lemma mirror_level_nodup sents dents :
    NoDup (keys dents) -> NoDup (keys (mirror_level cn pt now sents dents)).
  Proof.
    intro H. unfold mirror_level.
    apply mirror_extras_nodup, mirror_dirs_nodup, mirror_files_nodup. exact H.
  Qed.

  Lemma mirror_level_forall sents dents :
    Forall (fun kn => uniq (snd kn)) dents ->
    Forall (fun kn => uniq (snd kn)) (mirror_level cn pt now sents dents).
  Proof.
    intro H. unfold mirror_level.
    apply mirror_extras_forall. apply mirror_dirs_forall.
    - intro k. simpl. split; [constructor|exact I].
    - apply mirror_files_forall; [|exact H]. intros k data m. exact I.
  Qed.

  Lemma mirror_level_assoc : forall sents dents k,
    NoDup (keys sents) -> NoDup (keys dents) ->
    assoc k (mirror_level cn pt now sents dents) =
    match assoc k sents with
    | Some (File data m) => Some (mirror_node cn pt now (File data m) (assoc k dents))
    | Some (Dir _ _) => match assoc k dents with
                        | Some (Dir de dm) => Some (Dir de dm)
                        | Some (File _ _) => None
                        | None => Some (Dir [] now)
                        end
    | None => None
    end.
  Proof.
    intros sents dents k Hs Hd. unfold mirror_level.
    assert (Hfn : NoDup (keys (mirror_files cn pt now sents dents dents)))
      by (apply mirror_files_nodup; exact Hd).
    destruct (assoc k sents) as [[data m|e m]|] eqn:Es.
    - rewrite mirror_extras_in by (eapply assoc_some_in; exact Es).
      rewrite mirror_dirs_assoc by assumption. rewrite Es.
      rewrite mirror_files_assoc by assumption. rewrite Es.
      cbn [mirror_node].
      destruct (assoc k dents) as [[data' m'|de dm]|]; try reflexivity.
      destruct (keep_file cn data m data' m'); reflexivity.
    - rewrite mirror_extras_in by (eapply assoc_some_in; exact Es).
      rewrite mirror_dirs_assoc by assumption. rewrite Es.
      rewrite mirror_files_assoc by assumption. rewrite Es.
      destruct (assoc k dents) as [[data' m'|de dm]|]; reflexivity.
    - rewrite mirror_extras_notin;
        [|apply assoc_none_notin; exact Es|apply mirror_dirs_nodup; exact Hfn].
      rewrite mirror_dirs_assoc by assumption. rewrite Es.
      rewrite mirror_files_assoc by assumption. rewrite Es.
      destruct (assoc k dents) as [x|]; reflexivity.
  Qed.

  (* ---------------------------------------------------------------- the `sub` loop *)
  Lemma msub_nodup : forall l acc, NoDup (keys acc) -> NoDup (keys (msub cn pt now l acc)).
  Proof.
    induction l as [|[k n] r IH]; intros acc H; cbn [msub]; [exact H|].
    destruct n as [data m|e m]; apply IH; [exact H|].
    apply NoDup_keys_assoc_set. exact H.
  Qed.

  Lemma msub_assoc : forall l acc k, NoDup (keys l) ->
    assoc k (msub cn pt now l acc) =
    match assoc k l with
    | Some (Dir e m) => Some (mirror_node cn pt now (Dir e m) (assoc k acc))
    | _ => assoc k acc
    end.
  Proof.
    induction l as [|[k0 n] r IH]; intros acc k Hnd; [reflexivity|].
    change (NoDup (k0 :: keys r)) in Hnd.
    inversion Hnd as [|? ? Hn Hr]; subst.
    cbn [msub assoc].
    destruct (str_eqb k k0) eqn:E.
    - apply str_eqb_eq in E. subst k0.
      assert (Hr0 : assoc k r = None) by (apply assoc_notin_none; exact Hn).
      destruct n as [data m|e m]; rewrite IH by exact Hr; rewrite Hr0; [reflexivity|].
      apply assoc_set_same.
    - apply str_eqb_neq in E.
      destruct n as [data m|e m]; rewrite IH by exact Hr; [reflexivity|].
      rewrite assoc_set_other by exact E. reflexivity.
  Qed.

  Lemma msub_forall : forall l acc,
    Forall (fun kn => forall d, uniq_opt d -> uniq (mirror_node cn pt now (snd kn) d)) l ->
    Forall (fun kn => uniq (snd kn)) acc ->
    Forall (fun kn => uniq (snd kn)) (msub cn pt now l acc).
  Proof.
    induction l as [|[k n] r IH]; intros acc Hl Ha; cbn [msub]; [exact Ha|].
    inversion Hl as [|? ? Hn Hr]; subst. cbn [snd] in Hn.
    destruct n as [data m|e m]; apply IH; try assumption.
    apply Forall_assoc_set; [exact Ha|]. cbn [snd]. apply Hn.
    apply Forall_uniq_assoc. exact Ha.
  Qed.

  (* a missing destination, a destination file (removed before the walk arrives) and a fresh
     empty directory are the same thing for a source directory *)
  Lemma mirror_node_dir_none e m dd dm :
    mirror_node cn pt now (Dir e m) (Some (File dd dm)) = mirror_node cn pt now (Dir e m) None.
  Proof. reflexivity. Qed.

  Lemma mirror_node_dir_fresh e m :
    mirror_node cn pt now (Dir e m) (Some (Dir [] now)) = mirror_node cn pt now (Dir e m) None.
  Proof. reflexivity. Qed.

  (* the per-directory fact *)
  Lemma mirror_dir_assoc sents dents k :
    NoDup (keys sents) -> NoDup (keys dents) ->
    assoc k (msub cn pt now sents (mirror_level cn pt now sents dents)) =
    match assoc k sents with
    | Some sn => Some (mirror_node cn pt now sn (assoc k dents))
    | None => None
    end.
  Proof.
    intros Hs Hd. rewrite msub_assoc by exact Hs.
    rewrite mirror_level_assoc by assumption.
    destruct (assoc k sents) as [[data m|e m]|]; try reflexivity.
    destruct (assoc k dents) as [[dd dm|de dm]|]; reflexivity.
  Qed.

  Lemma mirror_node_file_shape data m d :
    exists a b, mirror_node cn pt now (File data m) d = File a b.
  Proof.
    cbn [mirror_node]. destruct d as [[dd dm|de dm]|]; unfold copied; eauto.
    destruct (keep_file cn data m dd dm); eauto.
  Qed.

  Lemma is_dir_mirror_node s d : is_dir (mirror_node cn pt now s d) = is_dir s.
  Proof.
    destruct s as [data m|e m]; [|reflexivity].
    destruct (mirror_node_file_shape data m d) as (a & b & H). rewrite H. reflexivity.
  Qed.

  (* ---------------------------------------------------------------- M1 *)
  Theorem mirror_node_lookup : forall s d p, uniq s -> uniq_opt d ->
    lookup (mirror_node cn pt now s d) p =
    match lookup s p with
    | Some s' => Some (mirror_node cn pt now s' (olookup d p))
    | None => None
    end.
  Proof.
    intros s d p. revert s d. induction p as [|k rest IH]; intros s d Hs Hd.
    - cbn [lookup]. rewrite olookup_nil. reflexivity.
    - destruct s as [data m|sents sm].
      + destruct (mirror_node_file_shape data m d) as (a & b & H). rewrite H. reflexivity.
      + rewrite mirror_node_dir. rewrite !lookup_dir_cons.
        destruct (uniq_opt_dents d Hd) as [Hdn Hdf].
        assert (Hsn : NoDup (keys sents)) by exact (proj1 (proj1 (uniq_dir sents sm) Hs)).
        rewrite mirror_dir_assoc by assumption.
        rewrite olookup_cons, dents_of_assoc.
        destruct (assoc k sents) as [sn|] eqn:Es; [|reflexivity].
        cbn [olookup]. apply IH.
        * eapply uniq_assoc; eassumption.
        * apply Forall_uniq_assoc. exact Hdf.
  Qed.

  (* ---------------------------------------------------------------- M2 *)
  Theorem mirror_node_uniq : forall s d, uniq s -> uniq_opt d -> uniq (mirror_node cn pt now s d).
  Proof.
    induction s as [data m|sents sm IH] using node_ind'; intros d Hs Hd.
    - destruct (mirror_node_file_shape data m d) as (a & b & H). rewrite H. exact I.
    - rewrite mirror_node_dir. apply uniq_dir.
      destruct (uniq_opt_dents d Hd) as [Hdn Hdf].
      apply uniq_dir in Hs. destruct Hs as [Hsn Hsf].
      split.
      + apply msub_nodup, mirror_level_nodup. exact Hdn.
      + apply msub_forall; [|apply mirror_level_forall; exact Hdf].
        rewrite Forall_forall in *. intros kn Hin d' Hd'. apply (IH kn Hin); [|exact Hd'].
        apply Hsf. exact Hin.
  Qed.

  (* ---------------------------------------------------------------- loops that change nothing *)
  Lemma mirror_files_id : forall sents dst0 acc,
    (forall k data m, In (k, File data m) sents ->
       exists data' m', assoc k dst0 = Some (File data' m') /\
         (keep_file cn data m data' m' = true \/
          assoc k acc = Some (copied pt now data m (Some (File data' m'))))) ->
    mirror_files cn pt now sents dst0 acc = acc.
  Proof.
    induction sents as [|[k n] r IH]; intros dst0 acc H; cbn [mirror_files]; [reflexivity|].
    assert (Hr : forall k data m, In (k, File data m) r ->
       exists data' m', assoc k dst0 = Some (File data' m') /\
         (keep_file cn data m data' m' = true \/
          assoc k acc = Some (copied pt now data m (Some (File data' m')))))
      by (intros k1 d1 m1 Hin; apply H; right; exact Hin).
    destruct n as [data m|e m]; [|apply IH; exact Hr].
    destruct (H k data m (or_introl eq_refl)) as (data' & m' & Hd & Hk).
    rewrite Hd. destruct (keep_file cn data m data' m') eqn:Ek.
    - apply IH; exact Hr.
    - destruct Hk as [Hk|Hk]; [discriminate|]. rewrite assoc_set_id by exact Hk. apply IH; exact Hr.
  Qed.

  Lemma mirror_dirs_id : forall sents dst0 acc,
    (forall k e m, In (k, Dir e m) sents -> exists de dm, assoc k dst0 = Some (Dir de dm)) ->
    mirror_dirs now sents dst0 acc = acc.
  Proof.
    induction sents as [|[k n] r IH]; intros dst0 acc H; cbn [mirror_dirs]; [reflexivity|].
    assert (Hr : forall k e m, In (k, Dir e m) r -> exists de dm, assoc k dst0 = Some (Dir de dm))
      by (intros k1 e1 m1 Hin; eapply H; right; exact Hin).
    destruct n as [data m|e m]; [apply IH; exact Hr|].
    destruct (H k e m (or_introl eq_refl)) as (de & dm & Hd).
    rewrite Hd. apply IH; exact Hr.
  Qed.

  Lemma mirror_extras_id : forall snames dst0 acc,
    (forall k, In k (keys dst0) -> In k snames) -> mirror_extras snames dst0 acc = acc.
  Proof.
    induction dst0 as [|[k n] r IH]; intros acc H; cbn [mirror_extras]; [reflexivity|].
    assert (Hk : existsb (str_eqb k) snames = true)
      by (apply existsb_str_In; apply H; left; reflexivity).
    rewrite Hk. apply IH. intros k1 Hin. apply H. right. exact Hin.
  Qed.

  Lemma msub_id : forall l acc,
    (forall k e m, In (k, Dir e m) l ->
       exists t, assoc k acc = Some t /\ mirror_node cn pt now (Dir e m) (Some t) = t) ->
    msub cn pt now l acc = acc.
  Proof.
    induction l as [|[k n] r IH]; intros acc H; cbn [msub]; [reflexivity|].
    assert (Hr : forall k e m, In (k, Dir e m) r ->
       exists t, assoc k acc = Some t /\ mirror_node cn pt now (Dir e m) (Some t) = t)
      by (intros k1 e1 m1 Hin; apply H; right; exact Hin).
    destruct n as [data m|e m]; [apply IH; exact Hr|].
    destruct (H k e m (or_introl eq_refl)) as (t & Ha & Ht).
    rewrite Ha, Ht. rewrite assoc_set_id by exact Ha. apply IH; exact Hr.
  Qed.
End M.

Print Assumptions mirror_node_lookup.
Print Assumptions mirror_node_uniq.

(* ------------------------------------------------------------------ M3 *)
Theorem mirror_exact_replica_u : forall pt now src dst,
  is_dir src = true -> is_dir dst = true -> uniq src -> uniq dst ->
  exists d', mirror false pt now src dst = Ok d' /\ content_eq pt d' src.
Proof.
  intros pt now src dst Hs Hd Us Ud.
  destruct src as [|sents sm]; [discriminate|]. destruct dst as [|dents dm]; [discriminate|].
  eexists. split; [reflexivity|].
  intro p. rewrite mirror_node_lookup by assumption.
  destruct (lookup (Dir sents sm) p) as [[data m|e m]|]; cbn [osame]; [| |exact I].
  - cbn [mirror_node]. unfold keep_file. cbn [andb].
    assert (Hc : forall old, same_kind pt (copied pt now data m old) (File data m)).
    { intro old. unfold copied, stamp. simpl. split; [reflexivity|]. intro H. rewrite H. reflexivity. }
    destruct (olookup (Some (Dir dents dm)) p) as [[dd dm'|de dm']|]; apply Hc.
  - rewrite mirror_node_dir. exact I.
Qed.
Print Assumptions mirror_exact_replica_u.

(* ------------------------------------------------------------------ M4 *)
Theorem mirror_newer_replica_u : forall pt now src dst,
  is_dir src = true -> is_dir dst = true -> uniq src -> uniq dst ->
  exists d', mirror true pt now src dst = Ok d' /\
    (forall p, match lookup src p, lookup d' p with
               | Some a, Some b => is_dir a = is_dir b | None, None => True | _, _ => False end) /\
    (forall p data m, lookup src p = Some (File data m) ->
       lookup d' p = Some (match lookup dst p with
                           | Some (File data' m') =>
                             if mirror_compare (size_of data) (size_of data') m m'
                             then File data (stamp pt now m data (Some (File data' m')))
                             else File data' m'
                           | _ => File data (stamp pt now m data None)
                           end)).
Proof.
  intros pt now src dst Hs Hd Us Ud.
  destruct src as [|sents sm]; [discriminate|]. destruct dst as [|dents dm]; [discriminate|].
  eexists. split; [reflexivity|]. split.
  - intro p. rewrite mirror_node_lookup by assumption.
    destruct (lookup (Dir sents sm) p) as [s'|]; [|exact I].
    symmetry. apply is_dir_mirror_node.
  - intros p data m Hl. rewrite mirror_node_lookup by assumption. rewrite Hl.
    cbn [olookup mirror_node]. f_equal.
    destruct (lookup (Dir dents dm) p) as [[data' m'|de dm']|]; try reflexivity.
    unfold keep_file. cbn [andb].
    destruct (mirror_compare (size_of data) (size_of data') m m'); reflexivity.
Qed.
Print Assumptions mirror_newer_replica_u.

(* ------------------------------------------------------------------ M5 *)
Lemma mirror_node_file_fix cn pt now now2 data m d :
  pt = true \/ now2 = now ->
  mirror_node cn pt now2 (File data m) (Some (mirror_node cn pt now (File data m) d)) =
  mirror_node cn pt now (File data m) d.
Proof.
  intro Hpn.
  assert (Hst : forall old, stamp pt now2 m data (Some (File data (stamp pt now m data old))) =
                            stamp pt now m data old).
  { intro old. unfold stamp. destruct pt; [reflexivity|].
    destruct Hpn as [H|H]; [discriminate|]. subst now2. destruct data; reflexivity. }
  assert (Hcop : forall old,
             mirror_node cn pt now2 (File data m) (Some (copied pt now data m old)) =
             copied pt now data m old).
  { intro old. unfold copied. cbn [mirror_node]. unfold copied. rewrite Hst.
    destruct (keep_file cn data m data (stamp pt now m data old)); reflexivity. }
  cbn [mirror_node].
  destruct d as [[data' m'|de dm]|]; try apply Hcop.
  destruct (keep_file cn data m data' m') eqn:Ek; [|apply Hcop].
  cbn [mirror_node]. rewrite Ek. reflexivity.
Qed.

Lemma mirror_node_fix cn pt now now2 : pt = true \/ now2 = now ->
  forall s, uniq s -> forall d, uniq_opt d ->
  mirror_node cn pt now2 s (Some (mirror_node cn pt now s d)) = mirror_node cn pt now s d.
Proof.
  intro Hpn. induction s as [data m|sents sm IH] using node_ind'; intros Hs d Hd.
  - apply mirror_node_file_fix. exact Hpn.
  - rewrite (mirror_node_dir cn pt now sents sm d).
    destruct (uniq_opt_dents d Hd) as [Hdn Hdf].
    assert (Hsn : NoDup (keys sents)) by exact (proj1 (proj1 (uniq_dir sents sm) Hs)).
    set (dents := dents_of d) in *.
    set (E1 := msub cn pt now sents (mirror_level cn pt now sents dents)).
    assert (HE1 : forall k, assoc k E1 =
              match assoc k sents with
              | Some sn => Some (mirror_node cn pt now sn (assoc k dents))
              | None => None
              end) by (intro k; apply mirror_dir_assoc; assumption).
    rewrite mirror_node_dir. cbn [dents_of dm_of]. f_equal.
    assert (Hlevel : mirror_level cn pt now2 sents E1 = E1).
    { unfold mirror_level.
      rewrite mirror_files_id.
      - rewrite mirror_dirs_id.
        + apply mirror_extras_id. intros k Hin.
          apply assoc_in_keys_some in Hin. destruct Hin as [v Hv].
          rewrite HE1 in Hv. destruct (assoc k sents) as [sn|] eqn:Es; [|discriminate].
          eapply assoc_some_in. exact Es.
        + intros k e m Hin. apply (assoc_In_NoDup _ _ _ Hsn) in Hin.
          rewrite HE1, Hin. rewrite mirror_node_dir. eauto.
      - intros k data m Hin. apply (assoc_In_NoDup _ _ _ Hsn) in Hin.
        rewrite HE1, Hin.
        destruct (mirror_node_file_shape cn pt now data m (assoc k dents)) as (a & b & Hab).
        exists a, b. split; [rewrite Hab; reflexivity|].
        assert (Hfix := mirror_node_file_fix cn pt now now2 data m (assoc k dents) Hpn).
        rewrite Hab in *. cbn [mirror_node] in Hfix.
        destruct (keep_file cn data m a b); [left; reflexivity|right].
        rewrite Hfix. reflexivity. }
    rewrite Hlevel. apply msub_id.
    intros k e m Hin.
    assert (Ha := assoc_In_NoDup _ _ _ Hsn Hin).
    exists (mirror_node cn pt now (Dir e m) (assoc k dents)). split.
    + rewrite HE1, Ha. reflexivity.
    + rewrite Forall_forall in IH. apply (IH (k, Dir e m) Hin).
      * eapply uniq_assoc; eassumption.
      * apply Forall_uniq_assoc. exact Hdf.
Qed.

Lemma same_kind_mirror_twice cn pt now now2 s x :
  same_kind false (mirror_node cn pt now2 s (Some (mirror_node cn pt now s x)))
                  (mirror_node cn pt now s x).
Proof.
  destruct s as [data m|e m]; [|rewrite !mirror_node_dir; exact I].
  assert (Hcop : forall old, same_kind false
            (mirror_node cn pt now2 (File data m) (Some (copied pt now data m old)))
            (copied pt now data m old)).
  { intro old. unfold copied. cbn [mirror_node]. unfold copied.
    destruct (keep_file cn data m data (stamp pt now m data old)); simpl; split; try reflexivity;
      discriminate. }
  cbn [mirror_node].
  destruct x as [[data' m'|de dm]|]; try apply Hcop.
  destruct (keep_file cn data m data' m') eqn:Ek; [|apply Hcop].
  cbn [mirror_node]. rewrite Ek. apply same_kind_refl.
Qed.

Theorem mirror_idempotent_u : forall cn pt now now2 src dst d1,
  uniq src -> uniq dst -> mirror cn pt now src dst = Ok d1 ->
  (pt = true \/ now2 = now -> mirror cn pt now2 src d1 = Ok d1) /\
  (exists d2, mirror cn pt now2 src d1 = Ok d2 /\ content_eq false d2 d1).
Proof.
  intros cn pt now now2 src dst d1 Us Ud H.
  destruct src as [|sents sm]; [discriminate|]. destruct dst as [|dents dm]; [discriminate|].
  assert (H1 : mirror_node cn pt now (Dir sents sm) (Some (Dir dents dm)) = d1)
    by (change (Ok (mirror_node cn pt now (Dir sents sm) (Some (Dir dents dm))) = Ok d1) in H;
        injection H as H; exact H).
  clear H.
  assert (Hshape : exists e1 m1, d1 = Dir e1 m1)
    by (subst d1; rewrite mirror_node_dir; eauto).
  destruct Hshape as (e1 & m1 & He1).
  assert (Hrun : mirror cn pt now2 (Dir sents sm) d1 =
                 Ok (mirror_node cn pt now2 (Dir sents sm) (Some d1)))
    by (rewrite He1; reflexivity).
  assert (U1 : uniq d1) by (subst d1; apply mirror_node_uniq; assumption).
  split.
  - intro Hpn. rewrite Hrun. f_equal. rewrite <- H1.
    apply mirror_node_fix; assumption.
  - eexists. split; [exact Hrun|].
    assert (Hl1 : forall p, lookup d1 p =
              match lookup (Dir sents sm) p with
              | Some s' => Some (mirror_node cn pt now s' (olookup (Some (Dir dents dm)) p))
              | None => None
              end) by (intro p; rewrite <- H1; apply mirror_node_lookup; assumption).
    intro p. rewrite mirror_node_lookup by assumption.
    cbn [olookup]. rewrite (Hl1 p).
    destruct (lookup (Dir sents sm) p) as [s'|]; [|exact I].
    cbn [osame]. apply same_kind_mirror_twice.
Qed.
Print Assumptions mirror_idempotent_u.

(* ------------------------------------------------------------------ M6 *)
Theorem mirror_total : forall cn pt now src dst,
  (is_dir src = true /\ is_dir dst = true -> exists d', mirror cn pt now src dst = Ok d') /\
  (forall e, mirror cn pt now src dst <> Err e) /\
  (forall d', mirror cn pt now src dst = Ok d' -> is_dir src = true /\ is_dir dst = true /\ is_dir d' = true).
Proof.
  intros cn pt now src dst. split; [|split].
  - intros [Hs Hd]. destruct src; [discriminate|]. destruct dst; [discriminate|].
    eexists. reflexivity.
  - intros e. destruct src, dst; discriminate.
  - intros d' H. destruct src as [|sents sm]; [discriminate|]. destruct dst as [|dents dm]; [discriminate|].
    inversion H. repeat split; reflexivity.
Qed.
Print Assumptions mirror_total.
