(* C19 -- shared lemmas for the tree-level copy / mirror proofs: association lists, `uniq`,
   `lookup` through directories, and the content equality `content_eq` (an equivalence). *)
From Coq Require Import List NArith ZArith Bool Arith Lia.
From PyFS Require Import Base.PyStr Base.Outcome FS.Tree FS.Wf FS.TreeLemmas Copy.CopyCond Copy.TreeCopy.
Import ListNotations.

(* ------------------------------------------------------------------ association lists *)
Lemma assoc_del_other {A} k k' (l : list (str * A)) : k' <> k -> assoc k' (assoc_del k l) = assoc k' l.
Proof.
  intro Hne. induction l as [|[x v] r IH]; simpl; [reflexivity|].
  destruct (str_eqb k x) eqn:E.
  - apply str_eqb_eq in E. subst x.
    destruct (str_eqb k' k) eqn:E2; [apply str_eqb_eq in E2; contradiction|reflexivity].
  - simpl. destruct (str_eqb k' x); [reflexivity|exact IH].
Qed.

Lemma assoc_notin_none {A} k (l : list (str * A)) : ~ In k (keys l) -> assoc k l = None.
Proof.
  induction l as [|[x v] r IH]; simpl; intro H; [reflexivity|].
  destruct (str_eqb k x) eqn:E.
  - apply str_eqb_eq in E. subst. tauto.
  - apply IH. tauto.
Qed.

Lemma assoc_del_same {A} k (l : list (str * A)) : NoDup (keys l) -> assoc k (assoc_del k l) = None.
Proof.
  induction l as [|[x v] r IH]; simpl; intro H; [reflexivity|].
  inversion H as [|? ? Hn Hr]; subst.
  destruct (str_eqb k x) eqn:E.
  - apply str_eqb_eq in E. subst x. apply assoc_notin_none. exact Hn.
  - simpl. rewrite E. apply IH. exact Hr.
Qed.

Lemma assoc_del_absent {A} k (l : list (str * A)) : assoc k l = None -> assoc_del k l = l.
Proof.
  induction l as [|[x v] r IH]; simpl; intro H; [reflexivity|].
  destruct (str_eqb k x) eqn:E; [discriminate|]. rewrite IH by exact H. reflexivity.
Qed.

Lemma assoc_set_id {A} k (v : A) l : assoc k l = Some v -> assoc_set k v l = l.
Proof.
  induction l as [|[x w] r IH]; simpl; intro H; [discriminate|].
  destruct (str_eqb k x) eqn:E.
  - apply str_eqb_eq in E. subst x. inversion H; subst. reflexivity.
  - rewrite IH by exact H. reflexivity.
Qed.

Lemma NoDup_keys_assoc_set {A} k (v : A) l : NoDup (keys l) -> NoDup (keys (assoc_set k v l)).
Proof.
  induction l as [|[x w] r IH]; simpl; intro H.
  - constructor; [intros []|constructor].
  - inversion H as [|? ? Hn Hr]; subst. destruct (str_eqb k x) eqn:E.
    + apply str_eqb_eq in E. subst x. simpl. constructor; assumption.
    + simpl. constructor; [|apply IH; exact Hr].
      intro Hin. apply Hn. clear - Hin E.
      induction r as [|[y u] r IH]; simpl in *.
      * destruct Hin as [Hx|[]]. subst. rewrite str_eqb_refl in E. discriminate.
      * destruct (str_eqb k y) eqn:E2; simpl in *.
        -- apply str_eqb_eq in E2. subst y. exact Hin.
        -- destruct Hin as [Hx|Hin]; [left; exact Hx|right; apply IH; exact Hin].
Qed.

Lemma existsb_str_In k l : existsb (str_eqb k) l = true <-> In k l.
Proof.
  rewrite existsb_exists. split.
  - intros [x [Hin E]]. apply str_eqb_eq in E. subst. exact Hin.
  - intro H. exists k. split; [exact H|apply str_eqb_refl].
Qed.

Lemma assoc_in_keys_some {A} k (l : list (str * A)) : In k (keys l) -> exists v, assoc k l = Some v.
Proof.
  induction l as [|[x v] r IH]; simpl; intro H; [contradiction|].
  destruct (str_eqb k x) eqn:E; [eexists; reflexivity|].
  destruct H as [H|H]; [subst; rewrite str_eqb_refl in E; discriminate|apply IH; exact H].
Qed.

(* ------------------------------------------------------------------ uniq *)
Lemma uniq_dir ents m :
  uniq (Dir ents m) <-> NoDup (keys ents) /\ Forall (fun kn => uniq (snd kn)) ents.
Proof.
  simpl.
  assert (forall l : list (str * node),
             (fix all (l : list (str * node)) : Prop :=
                match l with [] => True | (_, n) :: r => uniq n /\ all r end) l
             <-> Forall (fun kn => uniq (snd kn)) l) as Hall.
  { induction l as [|[k n] r IH].
    - split; auto.
    - split.
      + intros [H1 H2]. constructor; [exact H1|now apply IH].
      + intro H. inversion H; subst. split; [assumption|now apply IH]. }
  rewrite Hall. tauto.
Qed.

Lemma uniq_assoc ents m k n : uniq (Dir ents m) -> assoc k ents = Some n -> uniq n.
Proof.
  intros H Ha. apply uniq_dir in H as [_ H].
  apply assoc_some_In in Ha. rewrite Forall_forall in H. now apply H in Ha.
Qed.

Lemma wf_node_uniq : forall t, wf_node t -> uniq t.
Proof.
  induction t as [d m|ents m IH] using node_ind'; intro H; [exact I|].
  apply wf_node_dir in H as (Hnd & _ & Hall). apply uniq_dir. split; [exact Hnd|].
  rewrite Forall_forall in *. intros kn Hin. apply (IH kn Hin). apply Hall. exact Hin.
Qed.

Lemma uniq_lookup p : forall t n, uniq t -> lookup t p = Some n -> uniq n.
Proof.
  induction p as [|c rest IH]; intros t n Hu Hl; simpl in Hl.
  - inversion Hl; subst. exact Hu.
  - destruct t as [d m|ents m]; [discriminate|].
    destruct (assoc c ents) as [ch|] eqn:Ea; [|discriminate].
    apply (IH ch); [eapply uniq_assoc; eassumption|exact Hl].
Qed.

Lemma uniq_olookup d p n : match d with Some t => uniq t | None => True end ->
  olookup d p = Some n -> uniq n.
Proof. destruct d as [t|]; simpl; [apply uniq_lookup|discriminate]. Qed.

(* ------------------------------------------------------------------ lookup *)
Lemma lookup_dir_cons ents m k rest :
  lookup (Dir ents m) (k :: rest) = olookup (assoc k ents) rest.
Proof. simpl. destruct (assoc k ents); reflexivity. Qed.

Lemma lookup_file_cons d m k rest : lookup (File d m) (k :: rest) = None.
Proof. reflexivity. Qed.

Lemma olookup_nil o : olookup o [] = o.
Proof. destruct o; reflexivity. Qed.

Lemma olookup_none p : olookup None p = None.
Proof. reflexivity. Qed.

Lemma olookup_cons o k rest :
  olookup o (k :: rest) =
  olookup (match o with Some (Dir ents _) => assoc k ents | _ => None end) rest.
Proof.
  destruct o as [[d m|ents m]|]; simpl; reflexivity.
Qed.

(* ------------------------------------------------------------------ content equality *)
Lemma same_kind_refl times a : same_kind times a a.
Proof. destruct a; simpl; auto. Qed.

Lemma same_kind_sym times a b : same_kind times a b -> same_kind times b a.
Proof.
  destruct a, b; simpl; auto. intros [H1 H2]. split; [auto|]. intro H. symmetry. auto.
Qed.

Lemma same_kind_trans times a b c : same_kind times a b -> same_kind times b c -> same_kind times a c.
Proof.
  destruct a, b, c; simpl; auto; try contradiction.
  intros [H1 H2] [H3 H4]. split; [congruence|]. intro H. rewrite H2, H4 by exact H. reflexivity.
Qed.

Lemma osame_refl times a : osame times a a.
Proof. destruct a; simpl; [apply same_kind_refl|exact I]. Qed.

Lemma osame_sym times a b : osame times a b -> osame times b a.
Proof. destruct a, b; simpl; auto. apply same_kind_sym. Qed.

Lemma osame_trans times a b c : osame times a b -> osame times b c -> osame times a c.
Proof. destruct a, b, c; simpl; auto; try contradiction. apply same_kind_trans. Qed.

Theorem content_eq_refl times a : content_eq times a a.
Proof. intro p. apply osame_refl. Qed.

Theorem content_eq_sym times a b : content_eq times a b -> content_eq times b a.
Proof. intros H p. apply osame_sym. apply H. Qed.

Theorem content_eq_trans times a b c :
  content_eq times a b -> content_eq times b c -> content_eq times a c.
Proof. intros H1 H2 p. eapply osame_trans; [apply H1|apply H2]. Qed.

(* comparing times is the finer relation *)
Lemma content_eq_weaken a b : content_eq true a b -> content_eq false a b.
Proof.
  intros H p. specialize (H p). destruct (lookup a p) as [[d1 m1|e1 m1]|], (lookup b p) as [[d2 m2|e2 m2]|];
    simpl in *; auto. destruct H as [H _]. split; [exact H|discriminate].
Qed.

(* _compare says "same": equal sizes, both times known, the source not newer *)
Lemma mirror_compare_false s1 s2 m1 m2 :
  mirror_compare s1 s2 m1 m2 = false <->
  s1 = s2 /\ exists a b, m1 = Some a /\ m2 = Some b /\ (a <= b)%Z.
Proof.
  unfold mirror_compare. destruct (Z.eqb_spec s1 s2) as [E|E]; simpl.
  - destruct m1 as [a|], m2 as [b|]; split; intro H; try discriminate;
      try (destruct H as (_ & a' & b' & H1 & H2 & _); discriminate).
    + split; [exact E|]. exists a, b. repeat split. rewrite Z.gtb_ltb in H. apply Z.ltb_ge in H. exact H.
    + destruct H as (_ & a' & b' & H1 & H2 & Hle). inversion H1; inversion H2; subst.
      rewrite Z.gtb_ltb. apply Z.ltb_ge. exact Hle.
  - split; [discriminate|]. intros [H _]. contradiction.
Qed.
