(* C19 -- tree-level model of the cross-filesystem functions fs.copy.copy_fs / copy_fs_if
   (= copy_dir_if "/" "/": copy_structure, then the per-file loop) and fs.mirror.mirror (_mirror),
   between two DIFFERENT filesystem objects, default Walker (no filters, no max_depth: mirror with a
   depth-limited walker is a recorded finding and is left out), workers = 0.

   Both filesystems are trees (FS/Tree.v: File data mtime | Dir entries mtime); modification times
   are `option Z` (None = unknown / missing).  `now` is the time a freshly written file or a freshly
   made directory receives (MemoryFS: time.time() at creation / on write).

   What the destination primitives do (fs/memoryfs.py; OSFS agrees on everything used here):
     makedir(p, recreate=True)   entry missing: append an empty directory (mtime now);
                                 entry present: opendir(p): a directory is kept as it is,
                                 a FILE raises DirectoryExpected
     upload / openbin(p, "w")    entry missing: append a file; a file is truncated and rewritten IN
                                 PLACE (mtime now); a DIRECTORY raises FileExpected
     copy_modified_time          setinfo(p, modified = the source's raw value, None included)
     remove / removetree         the entry (and everything below) disappears from its directory
     a directory's own mtime     never changes when its children change

   Walk order.  The Python code walks the source breadth first; the functions below recurse into each
   sub-directory (depth first).  The operations performed for different source directories touch
   different destination directories, so the final tree is the same; an error aborts the whole call
   and every error raised in one phase has the same class, so the reported class is the same too.
   (Entry ORDER inside a destination directory is the model's own choice; observations are compared
   up to order, as `tree_eqb` does.)  On an error only the class is modelled, not the half-done
   destination. *)
From Coq Require Import List NArith ZArith Bool Arith.
From PyFS Require Import Base.PyStr Base.Outcome FS.Tree Copy.CopyCond.
Import ListNotations.

Definition size_of (d : bytes) : Z := Z.of_nat (List.length d).

(* mtime of a file written by copy_file_internal over [old] (what the destination held at that name;
   None: nothing, or a directory that was removed first).  preserve_time: copy_modified_time sets the
   source's value.  Otherwise the time of the last write() call: MemoryFS stamps modified_time in
   _MemoryFile.write/truncate only, NOT when openbin(path, "w") empties an existing file, and copying
   zero bytes performs no write -- so an EMPTY source file written over an existing file leaves that
   file's old time (FS/Mem.v mem_open models the same); a new entry is born with the current time. *)
Definition stamp (preserve_time : bool) (now m : option Z) (data : bytes) (old : option node)
  : option Z :=
  if preserve_time then m
  else match data, old with
       | [], Some (File _ om) => om
       | _, _ => now
       end.

Definition copied (preserve_time : bool) (now : option Z) (data : bytes) (m : option Z)
           (old : option node) : node :=
  File data (stamp preserve_time now m data old).

(* what _copy_is_necessary sees at a destination path: getmodified / exists work on directories too *)
Definition dst_state (d : option node) : option (option Z) :=
  match d with Some n => Some (node_mt n) | None => None end.

(* ================================================================== fs/mirror.py _mirror *)
Section Mirror.
  Variables (copy_if_newer preserve_time : bool) (now : option Z).

  (* `if copy_if_newer and not _compare(_file, dst_file): continue` *)
  Definition keep_file (data : bytes) (m : option Z) (data' : bytes) (m' : option Z) : bool :=
    copy_if_newer && negb (mirror_compare (size_of data) (size_of data') m m').

  (* One iteration of `for path, dirs, files in walk`.  dst0 = the dict built from
     dst_fs.scandir(path) at the start of the iteration, acc = the entries of the destination
     directory as they evolve.

     # Copy files
     for _file in files:
         dst_file = dst.pop(_file.name, None)
         if dst_file is not None:
             if dst_file.is_dir: dst_fs.removetree(_path)
             elif copy_if_newer and not _compare(_file, dst_file): continue
         copy_file(src_fs, _path, dst_fs, _path, preserve_time)                      *)
  Fixpoint mirror_files (sents dst0 acc : list (str * node)) : list (str * node) :=
    match sents with
    | [] => acc
    | (k, File data m) :: r =>
      match assoc k dst0 with
      | Some (Dir _ _) =>
        mirror_files r dst0 (assoc_set k (copied preserve_time now data m None) (assoc_del k acc))
      | Some (File data' m') =>
        if keep_file data m data' m' then mirror_files r dst0 acc
        else mirror_files r dst0
               (assoc_set k (copied preserve_time now data m (Some (File data' m'))) acc)
      | None => mirror_files r dst0 (assoc_set k (copied preserve_time now data m None) acc)
      end
    | (_, Dir _ _) :: r => mirror_files r dst0 acc
    end.

  (* # Make directories
     for _dir in dirs:
         dst_dir = dst.pop(_dir.name, None)
         if dst_dir is not None:
             if not dst_dir.is_dir: dst_fs.remove(_path)      # the directory is NOT made here: the
         else:                                                # walk reaches it later, scandir raises
             dst_fs.makedir(_path, recreate=True)             # ResourceNotFound -> makedir(path)   *)
  Fixpoint mirror_dirs (sents dst0 acc : list (str * node)) : list (str * node) :=
    match sents with
    | [] => acc
    | (k, Dir _ _) :: r =>
      match assoc k dst0 with
      | Some (Dir _ _) => mirror_dirs r dst0 acc
      | Some (File _ _) => mirror_dirs r dst0 (assoc_del k acc)
      | None => mirror_dirs r dst0 (assoc_set k (Dir [] now) acc)
      end
    | (_, File _ _) :: r => mirror_dirs r dst0 acc
    end.

  (* # Remove any remaining resources
     while dst: _, info = dst.popitem(); removetree / remove
     (what is left in the dict: the names of dst0 that no source entry popped) *)
  Fixpoint mirror_extras (snames : list str) (dst0 acc : list (str * node)) : list (str * node) :=
    match dst0 with
    | [] => acc
    | (k, _) :: r =>
      if existsb (str_eqb k) snames then mirror_extras snames r acc
      else mirror_extras snames r (assoc_del k acc)
    end.

  Definition mirror_level (sents dents : list (str * node)) : list (str * node) :=
    mirror_extras (keys sents) dents (mirror_dirs sents dents (mirror_files sents dents dents)).

  (* s: a source node, d: what the destination holds at the same path when the walk gets there.
     For a source directory:  d = Some (Dir ..): scandir succeeds;  otherwise (missing -- or a file,
     which the parent's iteration has removed before the walk arrives): `except ResourceNotFound:
     dst_fs.makedir(path); dst = {}`.
     For a source file (used for the statement of the theorems; the root is a directory): the node
     the "Copy files" loop leaves at that name. *)
  Fixpoint mirror_node (s : node) (d : option node) : node :=
    match s with
    | File data m =>
      match d with
      | Some (File data' m') =>
        if keep_file data m data' m' then File data' m'
        else copied preserve_time now data m (Some (File data' m'))
      | _ => copied preserve_time now data m None
      end
    | Dir sents _ =>
      let dents := match d with Some (Dir de _) => de | _ => [] end in
      let dm := match d with Some (Dir _ m) => m | _ => now end in
      Dir ((fix sub (l : list (str * node)) (acc : list (str * node)) : list (str * node) :=
              match l with
              | [] => acc
              | (k, n) :: r =>
                match n with
                | Dir _ _ => sub r (assoc_set k (mirror_node n (assoc k acc)) acc)
                | File _ _ => sub r acc
                end
              end) sents (mirror_level sents dents)) dm
    end.

  (* the roots of both filesystems are directories *)
  Definition mirror (src dst : node) : outcome node :=
    match src, dst with
    | Dir _ _, Dir _ _ => Ok (mirror_node src (Some dst))
    | _, _ => Crash Unreachable
    end.
End Mirror.

(* ================================================================== fs/copy.py copy_fs_if *)
Section CopyFs.
  Variables (c : cond) (preserve_time : bool) (now : option Z).

  (* copy_structure:  _dst_fs.makedirs("/", recreate=True)
                      for dir_path in walker.dirs(_src_fs, "/"):
                          _dst_fs.makedir(dir_path, recreate=True)
     s: a source DIRECTORY, d: the destination at the same path (its parent exists: it was made
     just before).  Result: the destination node at that path. *)
  Fixpoint cs_node (s : node) (d : option node) : outcome node :=
    match s with
    | File _ _ => Crash Unreachable
    | Dir sents _ =>
      match d with
      | Some (File _ _) => Err DirectoryExpected
      | _ =>
        let dents := match d with Some (Dir de _) => de | _ => [] end in
        let dm := match d with Some (Dir _ m) => m | _ => now end in
        match (fix sub (l : list (str * node)) (acc : list (str * node))
                 : outcome (list (str * node)) :=
                 match l with
                 | [] => Ok acc
                 | (k, n) :: r =>
                   match n with
                   | Dir _ _ =>
                     match cs_node n (assoc k acc) with
                     | Ok n' => sub r (assoc_set k n' acc)
                     | Err e => Err e
                     | Crash x => Crash x
                     end
                   | File _ _ => sub r acc
                   end
                 end) sents dents with
        | Ok ents => Ok (Dir ents dm)
        | Err e => Err e
        | Crash x => Crash x
        end
      end
    end.

  (* for path in walker.files(_src_fs, "/"):
         if _copy_is_necessary(_src_fs, path, _dst_fs, path, condition):
             copier.copy(_src_fs, path, _dst_fs, path)        # workers = 0: copy_file_internal
     s: a source directory, d: the destination at the same path after copy_structure. *)
  Fixpoint cf_node (s : node) (d : option node) : outcome node :=
    match s with
    | File _ _ => Crash Unreachable
    | Dir sents _ =>
      match d with
      | Some (Dir dents dm) =>
        match (fix sub (l : list (str * node)) (acc : list (str * node))
                 : outcome (list (str * node)) :=
                 match l with
                 | [] => Ok acc
                 | (k, n) :: r =>
                   match n with
                   | File data m =>
                     if copy_is_necessary c m (dst_state (assoc k acc)) then
                       match assoc k acc with
                       | Some (Dir _ _) => Err FileExpected
                       | old => sub r (assoc_set k (copied preserve_time now data m old) acc)
                       end
                     else sub r acc
                   | Dir _ _ =>
                     match cf_node n (assoc k acc) with
                     | Ok n' => sub r (assoc_set k n' acc)
                     | Err e => Err e
                     | Crash x => Crash x
                     end
                   end
                 end) sents dents with
        | Ok ents => Ok (Dir ents dm)
        | Err e => Err e
        | Crash x => Crash x
        end
      | _ => Crash Unreachable          (* copy_structure has made every source directory *)
      end
    end.

  Definition copy_fs_if (src dst : node) : outcome node :=
    match src, dst with
    | Dir _ _, Dir _ _ =>
      match cs_node src (Some dst) with
      | Ok d1 => cf_node src (Some d1)
      | Err e => Err e
      | Crash x => Crash x
      end
    | _, _ => Crash Unreachable
    end.
End CopyFs.

Definition copy_fs (preserve_time : bool) (now : option Z) (src dst : node) : outcome node :=
  copy_fs_if Always preserve_time now src dst.

(* copy_dir / copy_dir_if with source and destination sub-paths are not modelled at tree level (the
   per-file rule for them is Copy/CopyCond.v's copy_loop). *)

(* ================================================================== vocabulary of the theorems *)

Definition olookup (o : option node) (p : list str) : option node :=
  match o with Some t => lookup t p | None => None end.

(* unique names in every directory (the part of FS/Wf.v's wf_node that matters here) *)
Fixpoint uniq (t : node) : Prop :=
  match t with
  | File _ _ => True
  | Dir ents _ =>
    NoDup (keys ents) /\
    (fix all (l : list (str * node)) : Prop :=
       match l with [] => True | (_, n) :: r => uniq n /\ all r end) ents
  end.

(* two nodes agree on type and, for files, on the bytes (and on the mtime when [times]) *)
Definition same_kind (times : bool) (a b : node) : Prop :=
  match a, b with
  | File d1 m1, File d2 m2 => d1 = d2 /\ (times = true -> m1 = m2)
  | Dir _ _, Dir _ _ => True
  | _, _ => False
  end.

Definition osame (times : bool) (a b : option node) : Prop :=
  match a, b with
  | Some x, Some y => same_kind times x y
  | None, None => True
  | _, _ => False
  end.

(* "exact replica": the same paths, the same types, the same bytes in every file (and the same file
   mtimes when [times]); directory mtimes and entry order are not compared *)
Definition content_eq (times : bool) (a b : node) : Prop :=
  forall p, osame times (lookup a p) (lookup b p).

(* a source directory meets a destination file / a source file that has to be copied meets a
   destination directory *)
Definition dir_clash (src dst : node) : Prop :=
  exists p se sm dd dm, lookup src p = Some (Dir se sm) /\ lookup dst p = Some (File dd dm).

Definition file_clash (c : cond) (src dst : node) : Prop :=
  exists p data m de dm,
    lookup src p = Some (File data m) /\ lookup dst p = Some (Dir de dm) /\
    copy_is_necessary c m (Some dm) = true.
