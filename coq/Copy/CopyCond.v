(* C19 -- the copy conditions of fs/copy.py (_copy_is_necessary, l.465-510), the per-file
   loop of copy_dir_if, and the comparison used by fs/mirror.py (_compare).

   src_mtime : option Z            modification time of the source file (None: unknown; the source
                                   exists, it was just listed by the walker)
   dst       : option (option Z)   None            destination path missing
                                                   (dst_fs.getmodified raises ResourceNotFound,
                                                    dst_fs.exists is False)
                                   Some None       destination exists, modification time unknown
                                   Some (Some t)   destination exists with modification time t *)
From Coq Require Import List ZArith Bool.
From PyFS Require Import Base.PyStr.
Import ListNotations.
Local Open Scope Z_scope.

Inductive cond := Always | Newer | Older | Exists | NotExists.

(* the strings accepted by _copy_is_necessary; anything else raises ValueError *)
Definition cond_name (c : cond) : list nat :=
  match c with
  | Always => [97;108;119;97;121;115]%nat
  | Newer => [110;101;119;101;114]%nat
  | Older => [111;108;100;101;114]%nat
  | Exists => [101;120;105;115;116;115]%nat
  | NotExists => [110;111;116;95;101;120;105;115;116;115]%nat
  end.

(* Code, branch by branch:

     if condition == "always": return True
     elif condition == "newer":
         try:
             src_modified = src_fs.getmodified(src_path)
             dst_modified = dst_fs.getmodified(dst_path)
         except ResourceNotFound:
             return True
         else:
             return (src_modified is None or dst_modified is None
                     or src_modified > dst_modified)
     elif condition == "older":      ... same with  src_modified < dst_modified
     elif condition == "exists":     return dst_fs.exists(dst_path)
     elif condition == "not_exists": return not dst_fs.exists(dst_path)            *)
Definition copy_is_necessary (c : cond) (src_mtime : option Z) (dst : option (option Z)) : bool :=
  match c with
  | Always => true
  | Newer =>
    match dst with
    | None => true                                   (* except ResourceNotFound *)
    | Some dst_modified =>
      match src_mtime with
      | None => true                                 (* src_modified is None *)
      | Some s =>
        match dst_modified with
        | None => true                               (* dst_modified is None *)
        | Some d => Z.gtb s d                        (* src_modified > dst_modified *)
        end
      end
    end
  | Older =>
    match dst with
    | None => true
    | Some dst_modified =>
      match src_mtime with
      | None => true
      | Some s =>
        match dst_modified with
        | None => true
        | Some d => Z.ltb s d                        (* src_modified < dst_modified *)
        end
      end
    end
  | Exists => match dst with None => false | Some _ => true end
  | NotExists => negb (match dst with None => false | Some _ => true end)
  end.

(* Specification, from the documentation of copy_file_if:
     "always"      The source file is always copied.
     "newer"       The last modification time of the source file must be newer than that of the
                   destination file. If either file has no modification time, the copy is
                   performed always.
     "older"       ... must be older ... If either file has no modification time, the copy is
                   performed always.
     "exists"      The source file is only copied if a file of the same path already exists.
     "not_exists"  The source file is only copied if no file of the same path already exists.
   A missing destination has no modification time, so "newer"/"older" copy. *)
Definition dst_exists (dst : option (option Z)) : bool :=
  match dst with Some _ => true | None => false end.

(* both times, when both files have one *)
Definition both_times (src_mtime : option Z) (dst : option (option Z)) : option (Z * Z) :=
  match src_mtime, dst with
  | Some s, Some (Some d) => Some (s, d)
  | _, _ => None
  end.

Definition cond_spec (c : cond) (src_mtime : option Z) (dst : option (option Z)) : bool :=
  match c with
  | Always => true
  | Newer => match both_times src_mtime dst with Some (s, d) => Z.ltb d s | None => true end
  | Older => match both_times src_mtime dst with Some (s, d) => Z.ltb s d | None => true end
  | Exists => dst_exists dst
  | NotExists => negb (dst_exists dst)
  end.

(* ------------------------------------------------------------------ copy_dir_if's loop

   for dir_path in walker.files(_src_fs, _src_path):
       copy_path = combine(_dst_path, frombase(_src_path, dir_path))
       if _copy_is_necessary(_src_fs, dir_path, _dst_fs, copy_path, condition):
           copier.copy(_src_fs, dir_path, _dst_fs, copy_path)
           on_copy(_src_fs, dir_path, _dst_fs, copy_path)

   A file is (bytes, mtime).  The destination is a finite map from paths to files; `now` is the
   modification time a freshly written file receives when preserve_time is off. *)
Definition file := (list N * option Z)%type.
Definition fmap := str -> option file.

Definition mtime_at (m : fmap) (p : str) : option (option Z) :=
  match m p with Some f => Some (snd f) | None => None end.

Definition write (m : fmap) (p : str) (f : file) : fmap :=
  fun q => if str_eqb p q then Some f else m q.

Definition copied_file (preserve_time : bool) (now : option Z) (f : file) : file :=
  (fst f, if preserve_time then snd f else now).

(* returns the new destination and the on_copy calls, in order *)
Fixpoint copy_loop (c : cond) (preserve_time : bool) (now : option Z)
         (walked : list (str * file)) (dst : fmap) : fmap * list str :=
  match walked with
  | [] => (dst, [])
  | (p, f) :: rest =>
    if copy_is_necessary c (snd f) (mtime_at dst p) then
      let r := copy_loop c preserve_time now rest (write dst p (copied_file preserve_time now f)) in
      (fst r, p :: snd r)
    else copy_loop c preserve_time now rest dst
  end.

(* ------------------------------------------------------------------ fs/mirror.py _compare

     if info1.size != info2.size: return True
     date1 = info1.modified; date2 = info2.modified
     return date1 is None or date2 is None or date1 > date2                          *)
Definition mirror_compare (size1 size2 : Z) (date1 date2 : option Z) : bool :=
  if negb (Z.eqb size1 size2) then true
  else match date1, date2 with
       | None, _ => true
       | _, None => true
       | Some a, Some b => Z.gtb a b
       end.
