(* C19 -- the replica theorems for the tree-level model (Copy/TreeCopy.v), for ALL pairs of
   well-formed trees (FS/Wf.v: `wf t` = the root is a directory and names are unique and valid in
   every directory).  The inductions are in Copy/TreeCopyMirrorProofs.v (mirror) and
   Copy/TreeCopyFsProofs.v (copy_fs_if) under the weaker `uniq` (unique names only); this file states
   the results in the vocabulary of the property, with an evaluated example beside each.

   content_eq times a b   the same paths, the same types, the same bytes in every file, and the same
                          file mtimes when [times]; an equivalence relation (below)
   stamp pt now m data old  the time a copied file carries: m (the source's) when preserve_time, else
                          `now` -- except that an EMPTY file written over an existing file keeps that
                          file's old time (MemoryFS stamps in write(), not when open("w") truncates)

   Not covered: walkers other than the default one (mirror with max_depth is a recorded finding),
   workers > 0 (C09), the half-done destination of a failing copy_fs_if (only the class is modelled),
   entry order inside a directory. *)
From Coq Require Import List NArith ZArith Bool Arith Lia String.
From PyFS Require Import Base.PyStr Base.Outcome Base.Render FS.Tree FS.Ops FS.Agree FS.Wf FS.TreeLemmas
     Copy.CopyCond Copy.CopyCondProofs Copy.TreeCopy Copy.TreeCopyBase
     Copy.TreeCopyMirrorProofs Copy.TreeCopyFsProofs.
Import ListNotations.
Local Open Scope list_scope.

Lemma wf_uniq t : wf t -> uniq t.
Proof. intros [_ H]. apply wf_node_uniq. exact H. Qed.

Lemma wf_is_dir t : wf t -> is_dir t = true.
Proof. intros [H _]. exact H. Qed.

(* ------------------------------------------------------------------ the example pair
   source:       /a (file "S" @5)   /b/c/f (file "SS" @1)   /k (file "KK" @7)   /e (empty file @3)
   destination:  /a/q  (a DIRECTORY where the source has a file)
                 /b    (a FILE where the source has a directory)
                 /extra/f, /ef  (not in the source)      /k (file "kk" @7: same size, same time)
                 /e    (file "old" @9)                                                        *)
Local Open Scope string_scope.
Definition exf (s : string) (m : Z) : node := File (lit s) (Some m).
Definition ex_src : node :=
  Dir [(lit "a", exf "S" 5);
       (lit "b", Dir [(lit "c", Dir [(lit "f", exf "SS" 1)] (Some 3%Z))] (Some 4%Z));
       (lit "k", exf "KK" 7); (lit "e", exf "" 3)] None.
Definition ex_dst : node :=
  Dir [(lit "a", Dir [(lit "q", exf "x" 0)] (Some 9%Z)); (lit "b", exf "D" 1);
       (lit "extra", Dir [(lit "f", exf "e" 0)] None); (lit "ef", exf "e" 0);
       (lit "k", exf "kk" 7); (lit "e", exf "old" 9)] (Some 2%Z).
(* the same without the two file/directory clashes *)
Definition ex_dst2 : node :=
  Dir [(lit "b", Dir [(lit "z", exf "zz" 1)] (Some 1%Z));
       (lit "k", exf "kk" 7); (lit "e", exf "old" 9); (lit "ef", exf "e" 0)] (Some 2%Z).
Definition ex_now : option Z := Some 99%Z.
Local Close Scope string_scope.

Definition ok_and (o : outcome node) (f : node -> bool) : bool :=
  match o with Ok d => f d | _ => false end.
Definition node_is (a : option node) (b : node) : bool :=
  match a with Some x => node_eqb true x b | None => false end.

(* ------------------------------------------------------------------ content_eq is an equivalence *)
Theorem content_eq_equivalence : forall times,
  (forall a, content_eq times a a) /\
  (forall a b, content_eq times a b -> content_eq times b a) /\
  (forall a b c, content_eq times a b -> content_eq times b c -> content_eq times a c).
Proof.
  intro times. split; [|split].
  - apply content_eq_refl.
  - apply content_eq_sym.
  - apply content_eq_trans.
Qed.
Print Assumptions content_eq_equivalence.

(* ------------------------------------------------------------------ mirror, copy_if_newer = False *)

(* The destination becomes an exact replica of the source: extras removed, file/directory conflicts
   resolved, every file with the source's bytes -- and the source's mtimes when preserve_time. *)
Theorem mirror_exact_replica : forall pt now src dst, wf src -> wf dst ->
  exists d', mirror false pt now src dst = Ok d' /\ content_eq pt d' src.
Proof.
  intros pt now src dst Hs Hd.
  apply mirror_exact_replica_u; auto using wf_is_dir, wf_uniq.
Qed.
Print Assumptions mirror_exact_replica.

Example mirror_exact_replica_ex :
  ok_and (mirror false true ex_now ex_src ex_dst)
         (fun d' => tree_eqb false d' ex_src
                    && node_is (lookup d' [lit "b"; lit "c"; lit "f"]) (exf "SS" 1)
                    && node_is (lookup d' [lit "a"]) (exf "S" 5)
                    && match lookup d' [lit "extra"] with None => true | _ => false end) = true.
Proof. vm_compute. reflexivity. Qed.

(* ------------------------------------------------------------------ mirror, copy_if_newer = True *)

(* Exactly the names and types of the source; every file holds the source's bytes, unless the
   destination already had a FILE there for which _compare says "same" -- then that file is kept. *)
Theorem mirror_newer_replica : forall pt now src dst, wf src -> wf dst ->
  exists d', mirror true pt now src dst = Ok d' /\
    (forall p, match lookup src p, lookup d' p with
               | Some a, Some b => is_dir a = is_dir b | None, None => True | _, _ => False end) /\
    (forall p data m, lookup src p = Some (File data m) ->
       lookup d' p = Some (match lookup dst p with
                           | Some (File data' m') =>
                             if mirror_compare (size_of data) (size_of data') m m'
                             then File data (stamp pt now m data (Some (File data' m')))
                             else File data' m'
                           | _ => File data (stamp pt now m data None)
                           end)).
Proof.
  intros pt now src dst Hs Hd.
  apply mirror_newer_replica_u; auto using wf_is_dir, wf_uniq.
Qed.
Print Assumptions mirror_newer_replica.

(* ... and _compare says "same" only for equal sizes with both times known and the source not newer *)
Corollary mirror_newer_keeps_only_settled : forall pt now src dst, wf src -> wf dst ->
  exists d', mirror true pt now src dst = Ok d' /\
    forall p data m, lookup src p = Some (File data m) ->
      (exists t, lookup d' p = Some (File data t)) \/
      (exists data' a b, m = Some a /\ lookup dst p = Some (File data' (Some b)) /\
                         List.length data' = List.length data /\ (a <= b)%Z /\
                         lookup d' p = Some (File data' (Some b))).
Proof.
  intros pt now src dst Hs Hd.
  destruct (mirror_newer_replica pt now src dst Hs Hd) as (d' & Hm & _ & Hf).
  exists d'. split; [exact Hm|]. intros p data m Hp. specialize (Hf p data m Hp).
  destruct (lookup dst p) as [[data' m'|de dm]|] eqn:Ed; try (left; eexists; exact Hf).
  destruct (mirror_compare (size_of data) (size_of data') m m') eqn:Ec; [left; eexists; exact Hf|].
  right. apply mirror_compare_false in Ec as (Hsz & a & b & Ha & Hb & Hle). subst m m'.
  exists data', a, b. repeat split; try assumption; try reflexivity.
  unfold size_of in Hsz. apply Nat2Z.inj in Hsz. symmetry. exact Hsz.
Qed.
Print Assumptions mirror_newer_keeps_only_settled.

Example mirror_newer_replica_ex :
  ok_and (mirror true true ex_now ex_src ex_dst)
         (fun d' => node_is (lookup d' [lit "k"]) (File (lit "kk") (Some 7%Z))      (* kept: same size, not older *)
                    && node_is (lookup d' [lit "e"]) (exf "" 3)                     (* size differs: copied *)
                    && node_is (lookup d' [lit "a"]) (exf "S" 5)                    (* directory replaced *)
                    && tree_eqb false d' (put ex_src [lit "k"] (exf "kk" 7))) = true.
Proof. vm_compute. reflexivity. Qed.

(* ------------------------------------------------------------------ mirroring again changes nothing *)

(* The second pass returns the SAME tree (entry order and directory times included) when
   preserve_time is set, or when no time passed between the passes; whatever time passed, it returns a
   tree with the same paths, types and bytes. *)
Theorem mirror_idempotent : forall cn pt now now2 src dst d1, wf src -> wf dst ->
  mirror cn pt now src dst = Ok d1 ->
  (pt = true \/ now2 = now -> mirror cn pt now2 src d1 = Ok d1) /\
  (exists d2, mirror cn pt now2 src d1 = Ok d2 /\ content_eq false d2 d1).
Proof.
  intros cn pt now now2 src dst d1 Hs Hd. apply mirror_idempotent_u; auto using wf_uniq.
Qed.
Print Assumptions mirror_idempotent.

Example mirror_idempotent_ex :
  ok_and (mirror false true ex_now ex_src ex_dst)
         (fun d1 => ok_and (mirror false true (Some 123%Z) ex_src d1) (fun d2 => node_eqb true d2 d1))
  && ok_and (mirror true false ex_now ex_src ex_dst)
         (fun d1 => ok_and (mirror true false (Some 123%Z) ex_src d1) (fun d2 => tree_eqb true d2 d1)) = true.
Proof. vm_compute. reflexivity. Qed.

(* mirror never fails on two filesystems (no input is rejected); the result is again a tree with
   unique names *)
Theorem mirror_never_fails : forall cn pt now src dst, wf src -> wf dst ->
  exists d', mirror cn pt now src dst = Ok d' /\ is_dir d' = true /\ uniq d'.
Proof.
  intros cn pt now src dst Hs Hd.
  pose proof (wf_uniq _ Hs) as Us. pose proof (wf_uniq _ Hd) as Ud.
  destruct src as [|se sm]; [destruct Hs; discriminate|].
  destruct dst as [|de dm]; [destruct Hd; discriminate|].
  exists (mirror_node cn pt now (Dir se sm) (Some (Dir de dm))).
  split; [reflexivity|]. split.
  - rewrite mirror_node_dir. reflexivity.
  - apply mirror_node_uniq; assumption.
Qed.
Print Assumptions mirror_never_fails.

Example mirror_never_fails_ex :
  ok_and (mirror true false ex_now ex_src ex_dst) is_dir && ok_and (mirror false true None ex_dst ex_src) is_dir = true.
Proof. vm_compute. reflexivity. Qed.

(* ------------------------------------------------------------------ copy_fs_if: the rule *)

(* After a successful copy_fs_if, path by path:
   - a source file: the destination holds the source's bytes iff the documented condition holds on
     (source mtime, what the destination had there: nothing / a node with its mtime -- a DIRECTORY
     counts as existing, with its own mtime); otherwise the destination is as it was at that path;
   - a source directory: a directory (with its old mtime if it existed);
   - anything that is not a path of the source: exactly as before. *)
Theorem copy_fs_if_rule : forall c pt now src dst d', wf src -> wf dst ->
  copy_fs_if c pt now src dst = Ok d' ->
  forall p,
    match lookup src p with
    | Some (File data m) =>
        lookup d' p = if cond_spec c m (dst_state (lookup dst p))
                      then Some (File data (stamp pt now m data (lookup dst p))) else lookup dst p
    | Some (Dir _ _) =>
        exists e', lookup d' p = Some (Dir e' (match lookup dst p with Some (Dir _ dm) => dm | _ => now end))
    | None => lookup d' p = lookup dst p
    end.
Proof.
  intros c pt now src dst d' Hs Hd. apply copy_fs_if_lookup_u; auto using wf_uniq.
Qed.
Print Assumptions copy_fs_if_rule.

Example copy_fs_if_rule_ex :
  ok_and (copy_fs_if Newer true ex_now ex_src ex_dst2)
         (fun d' => node_is (lookup d' [lit "a"]) (exf "S" 5)                  (* missing: copied *)
                    && node_is (lookup d' [lit "k"]) (exf "kk" 7)                (* equal times: not copied *)
                    && node_is (lookup d' [lit "e"]) (exf "old" 9)               (* destination newer: not copied *)
                    && node_is (lookup d' [lit "b"; lit "c"; lit "f"]) (exf "SS" 1)
                    && node_is (lookup d' [lit "b"; lit "z"]) (exf "zz" 1)       (* frame *)
                    && node_is (lookup d' [lit "ef"]) (exf "e" 0))
  && ok_and (copy_fs_if Older false ex_now ex_src ex_dst2)
         (fun d' => node_is (lookup d' [lit "e"]) (File [] (Some 9%Z))         (* copied; empty over a file: old time *)
                    && node_is (lookup d' [lit "a"]) (File (lit "S") ex_now)
                    && node_is (lookup d' [lit "k"]) (exf "kk" 7)) = true.
Proof. vm_compute. reflexivity. Qed.

(* ------------------------------------------------------------------ copy_fs: replica and frame *)
Theorem copy_fs_replica_and_frame : forall pt now src dst d', wf src -> wf dst ->
  copy_fs pt now src dst = Ok d' ->
  (* every source file arrives with its bytes (and its mtime when preserve_time) *)
  (forall p data m, lookup src p = Some (File data m) ->
     lookup d' p = Some (File data (stamp pt now m data (lookup dst p))) /\
     (pt = true -> lookup d' p = Some (File data m))) /\
  (* every source directory exists *)
  (forall p se sm, lookup src p = Some (Dir se sm) -> exists e' m', lookup d' p = Some (Dir e' m')) /\
  (* every destination file at a path that is not a file path of the source is unchanged *)
  (forall p data m, lookup dst p = Some (File data m) ->
     (forall sd sm, lookup src p <> Some (File sd sm)) -> lookup d' p = Some (File data m)) /\
  (* nothing else changes or appears *)
  (forall p, lookup src p = None -> lookup d' p = lookup dst p).
Proof.
  intros pt now src dst d' Hs Hd Hc. unfold copy_fs in Hc.
  pose proof (copy_fs_if_rule Always pt now src dst d' Hs Hd Hc) as R.
  split; [|split; [|split]].
  - intros p data m Hp. specialize (R p). rewrite Hp in R. simpl in R. split; [exact R|].
    intro Ht. rewrite R. unfold stamp. rewrite Ht. reflexivity.
  - intros p se sm Hp. specialize (R p). rewrite Hp in R. destruct R as [e' R]. eauto.
  - intros p data m Hp Hn. specialize (R p).
    destruct (lookup src p) as [[sd sm|se sm]|] eqn:Es.
    + exfalso. apply (Hn sd sm). reflexivity.
    + destruct R as [e' R]. rewrite Hp in R.
      (* a source directory on a destination file: the call would have failed *)
      exfalso.
      destruct (copy_fs_if_outcome_u Always pt now src dst (wf_is_dir _ Hs) (wf_is_dir _ Hd)
                  (wf_uniq _ Hs) (wf_uniq _ Hd)) as [(_ & He)|[(_ & _ & He)|(Hnc & _)]].
      * rewrite He in Hc. discriminate.
      * rewrite He in Hc. discriminate.
      * apply Hnc. exists p, se, sm, data, m. split; assumption.
    + rewrite R. exact Hp.
  - intros p Hp. specialize (R p). rewrite Hp in R. exact R.
Qed.
Print Assumptions copy_fs_replica_and_frame.

Example copy_fs_replica_and_frame_ex :
  ok_and (copy_fs true ex_now ex_src ex_dst2)
         (fun d' => node_is (lookup d' [lit "a"]) (exf "S" 5)
                    && node_is (lookup d' [lit "k"]) (exf "KK" 7)
                    && node_is (lookup d' [lit "e"]) (exf "" 3)
                    && node_is (lookup d' [lit "b"; lit "c"; lit "f"]) (exf "SS" 1)
                    && node_is (lookup d' [lit "b"; lit "z"]) (exf "zz" 1)
                    && node_is (lookup d' [lit "ef"]) (exf "e" 0)
                    && match lookup d' [lit "b"] with Some (Dir _ (Some 1%Z)) => true | _ => false end) = true.
Proof. vm_compute. reflexivity. Qed.

(* ------------------------------------------------------------------ which inputs fail *)

(* copy_fs_if fails exactly on file/directory clashes:
   - a source directory where the destination has a file: DirectoryExpected (copy_structure's
     makedir(recreate=True) -> opendir), whatever the condition;
   - otherwise, a source file THAT THE CONDITION SELECTS where the destination has a directory:
     FileExpected.  (A clash the condition does not select -- e.g. "not_exists", or "newer" against a
     directory with a later mtime -- is silently skipped and the call succeeds.)
   - otherwise it succeeds.  Nothing else is ever raised. *)
Theorem copy_fs_if_outcome : forall c pt now src dst, wf src -> wf dst ->
  (dir_clash src dst /\ copy_fs_if c pt now src dst = Err DirectoryExpected) \/
  (~ dir_clash src dst /\ file_clash c src dst /\ copy_fs_if c pt now src dst = Err FileExpected) \/
  (~ dir_clash src dst /\ ~ file_clash c src dst /\
   exists d', copy_fs_if c pt now src dst = Ok d' /\ is_dir d' = true /\ uniq d').
Proof.
  intros c pt now src dst Hs Hd.
  destruct (copy_fs_if_outcome_u c pt now src dst (wf_is_dir _ Hs) (wf_is_dir _ Hd)
              (wf_uniq _ Hs) (wf_uniq _ Hd)) as [H|[H|(H1 & H2 & d' & H3)]].
  - left. exact H.
  - right. left. exact H.
  - right. right. split; [exact H1|]. split; [exact H2|]. exists d'. split; [exact H3|].
    destruct (copy_fs_if_uniq c pt now src dst d' (wf_uniq _ Hs) (wf_uniq _ Hd) H3) as [Hu Hdir].
    split; assumption.
Qed.
Print Assumptions copy_fs_if_outcome.

Example copy_fs_if_outcome_ex :
  (* both clashes: the directory clash wins *)
  match copy_fs_if Always true ex_now ex_src ex_dst with Err DirectoryExpected => true | _ => false end
  (* only /a: source file on a destination directory (mtime 9; the source's is 5) *)
  && match copy_fs_if Always true ex_now ex_src (Dir [(lit "a", Dir [] (Some 9%Z))] None)
     with Err FileExpected => true | _ => false end
  && match copy_fs_if Exists true ex_now ex_src (Dir [(lit "a", Dir [] (Some 9%Z))] None)
     with Err FileExpected => true | _ => false end
  && match copy_fs_if Older true ex_now ex_src (Dir [(lit "a", Dir [] (Some 9%Z))] None)
     with Err FileExpected => true | _ => false end
  (* not selected: silently skipped, /a stays a directory *)
  && ok_and (copy_fs_if Newer true ex_now ex_src (Dir [(lit "a", Dir [] (Some 9%Z))] None))
            (fun d' => node_is (lookup d' [lit "a"]) (Dir [] (Some 9%Z)))
  && ok_and (copy_fs_if NotExists true ex_now ex_src (Dir [(lit "a", Dir [] (Some 9%Z))] None))
            (fun d' => node_is (lookup d' [lit "a"]) (Dir [] (Some 9%Z))) = true.
Proof. vm_compute. reflexivity. Qed.
