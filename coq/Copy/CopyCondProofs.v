(* C19 -- proofs about the copy conditions (model: Copy/CopyCond.v). *)
From Coq Require Import List ZArith Bool Lia.
From PyFS Require Import Base.PyStr Copy.CopyCond.
Import ListNotations.
Local Open Scope Z_scope.

(* the code computes exactly the documented condition *)
Theorem copy_is_necessary_spec : forall c s d, copy_is_necessary c s d = cond_spec c s d.
Proof.
  intros c s d.
  destruct c; destruct s as [s|]; destruct d as [[d|]|]; simpl; try reflexivity.
  apply Z.gtb_ltb.
Qed.

Theorem always_true : forall s d, copy_is_necessary Always s d = true.
Proof. reflexivity. Qed.

(* both modification times known and different: exactly one of "newer" / "older" copies *)
Theorem newer_older_exclusive : forall s t, s <> t ->
  xorb (copy_is_necessary Newer (Some s) (Some (Some t)))
       (copy_is_necessary Older (Some s) (Some (Some t))) = true.
Proof.
  intros s t H. simpl. rewrite Z.gtb_ltb.
  destruct (Z.ltb_spec t s); destruct (Z.ltb_spec s t); simpl; try reflexivity; lia.
Qed.

Corollary newer_older_exclusive_cases : forall s t, s <> t ->
  (copy_is_necessary Newer (Some s) (Some (Some t)) = true /\
   copy_is_necessary Older (Some s) (Some (Some t)) = false /\ t < s) \/
  (copy_is_necessary Newer (Some s) (Some (Some t)) = false /\
   copy_is_necessary Older (Some s) (Some (Some t)) = true /\ s < t).
Proof.
  intros s t H. simpl. rewrite Z.gtb_ltb.
  destruct (Z.ltb_spec t s) as [H1|H1]; destruct (Z.ltb_spec s t) as [H2|H2].
  - lia.
  - left. repeat split. exact H1.
  - right. repeat split. exact H2.
  - lia.
Qed.

(* equal times: neither copies *)
Theorem newer_older_equal : forall t,
  copy_is_necessary Newer (Some t) (Some (Some t)) = false /\
  copy_is_necessary Older (Some t) (Some (Some t)) = false.
Proof.
  intro t. simpl. rewrite Z.gtb_ltb, Z.ltb_irrefl. split; reflexivity.
Qed.

Theorem exists_not_exists_complement : forall s d,
  copy_is_necessary NotExists s d = negb (copy_is_necessary Exists s d).
Proof. reflexivity. Qed.

(* a missing destination is copied by every condition except "exists" *)
Theorem missing_destination : forall c s,
  copy_is_necessary c s None = match c with Exists => false | _ => true end.
Proof. intros c s. destruct c; destruct s; reflexivity. Qed.

(* an unknown modification time on either side makes "newer" and "older" copy *)
Theorem unknown_time_copies : forall s d,
  both_times s d = None ->
  copy_is_necessary Newer s d = true /\ copy_is_necessary Older s d = true.
Proof.
  intros s d H. rewrite !copy_is_necessary_spec. simpl. rewrite H. split; reflexivity.
Qed.

(* ------------------------------------------------------------------ the loop of copy_dir_if *)

Lemma mtime_at_write_other m p f q : str_eqb p q = false -> mtime_at (write m p f) q = mtime_at m q.
Proof. intro H. unfold mtime_at, write. rewrite H. reflexivity. Qed.

Lemma find_not_in (walked : list (str * file)) q :
  ~ In q (map fst walked) -> find (fun pf => str_eqb (fst pf) q) walked = None.
Proof.
  induction walked as [|[p f] rest IH]; simpl; intro H; [reflexivity|].
  destruct (str_eqb p q) eqn:E.
  - apply str_eqb_eq in E. subst. tauto.
  - apply IH. tauto.
Qed.

Lemma filter_cond_write c (rest : list (str * file)) dst p f' :
  ~ In p (map fst rest) ->
  filter (fun pf => cond_spec c (snd (snd pf)) (mtime_at (write dst p f') (fst pf))) rest =
  filter (fun pf => cond_spec c (snd (snd pf)) (mtime_at dst (fst pf))) rest.
Proof.
  intro Hn. apply filter_ext_in. intros [q g] Hin. simpl.
  rewrite mtime_at_write_other; [reflexivity|].
  apply str_eqb_neq. intro E. subst q. apply Hn. apply in_map_iff. exists (p, g). split; auto.
Qed.

(* After copy_dir_if over distinct source files:
   - on_copy was called exactly for the files satisfying the documented condition against the
     ORIGINAL destination, in walk order;
   - exactly those destination paths now hold the source bytes (with the source time when
     preserve_time is set), every other destination path is unchanged. *)
Theorem copy_loop_spec : forall c pt now walked dst,
  NoDup (map fst walked) ->
  snd (copy_loop c pt now walked dst) =
    map fst (filter (fun pf => cond_spec c (snd (snd pf)) (mtime_at dst (fst pf))) walked) /\
  forall q, fst (copy_loop c pt now walked dst) q =
    match find (fun pf => str_eqb (fst pf) q) walked with
    | Some pf => if cond_spec c (snd (snd pf)) (mtime_at dst q)
                 then Some (copied_file pt now (snd pf)) else dst q
    | None => dst q
    end.
Proof.
  intros c pt now walked. induction walked as [|[p f] rest IH]; intros dst Hnd.
  - simpl. split; [reflexivity|intro q; reflexivity].
  - simpl in Hnd. inversion Hnd as [|? ? Hnotin Hnd']; subst.
    simpl. rewrite copy_is_necessary_spec.
    destruct (cond_spec c (snd f) (mtime_at dst p)) eqn:Ec.
    + destruct (IH (write dst p (copied_file pt now f)) Hnd') as [IHc IHq].
      simpl. split.
      * rewrite IHc. rewrite filter_cond_write by exact Hnotin. reflexivity.
      * intro q. rewrite IHq. destruct (str_eqb p q) eqn:E.
        -- apply str_eqb_eq in E. subst q. rewrite find_not_in by exact Hnotin.
           simpl. rewrite Ec. unfold write. rewrite str_eqb_refl. reflexivity.
        -- rewrite mtime_at_write_other by exact E. unfold write. rewrite E. reflexivity.
    + destruct (IH dst Hnd') as [IHc IHq]. split.
      * exact IHc.
      * intro q. rewrite IHq. destruct (str_eqb p q) eqn:E.
        -- apply str_eqb_eq in E. subst q. rewrite find_not_in by exact Hnotin.
           simpl. rewrite Ec. reflexivity.
        -- reflexivity.
Qed.

(* paths that are not source files are never touched *)
Corollary copy_loop_unrelated : forall c pt now walked dst q,
  NoDup (map fst walked) -> ~ In q (map fst walked) ->
  fst (copy_loop c pt now walked dst) q = dst q.
Proof.
  intros c pt now walked dst q Hnd Hq.
  destruct (copy_loop_spec c pt now walked dst Hnd) as [_ H].
  rewrite H, find_not_in by exact Hq. reflexivity.
Qed.

(* copy_fs / copy_dir (condition "always"): every walked file arrives *)
Corollary copy_loop_always : forall pt now walked dst p f,
  NoDup (map fst walked) -> In (p, f) walked ->
  fst (copy_loop Always pt now walked dst) p = Some (copied_file pt now f).
Proof.
  intros pt now walked dst p f Hnd Hin.
  destruct (copy_loop_spec Always pt now walked dst Hnd) as [_ H]. rewrite H. clear H.
  induction walked as [|[p' f'] rest IH]; [contradiction|].
  simpl in *. inversion Hnd as [|? ? Hnotin Hnd']; subst.
  destruct Hin as [E|Hin].
  - inversion E; subst. rewrite str_eqb_refl. reflexivity.
  - destruct (str_eqb p' p) eqn:E.
    + apply str_eqb_eq in E. subst p'. exfalso. apply Hnotin.
      apply in_map_iff. exists (p, f). split; auto.
    + apply IH; assumption.
Qed.

(* ------------------------------------------------------------------ mirror's _compare *)

(* same size, both times known: the file is re-copied only when the source is strictly newer *)
Theorem mirror_compare_same_size : forall n a b,
  mirror_compare n n (Some a) (Some b) = Z.ltb b a.
Proof. intros n a b. unfold mirror_compare. rewrite Z.eqb_refl. simpl. apply Z.gtb_ltb. Qed.

(* a second mirror pass (destination written at or after the source's time) copies nothing *)
Corollary mirror_compare_settled : forall n a b, a <= b ->
  mirror_compare n n (Some a) (Some b) = false.
Proof. intros n a b H. rewrite mirror_compare_same_size. apply Z.ltb_ge. exact H. Qed.

Theorem mirror_compare_size_differs : forall n m a b, n <> m -> mirror_compare n m a b = true.
Proof.
  intros n m a b H. unfold mirror_compare.
  destruct (Z.eqb_spec n m); [contradiction|reflexivity].
Qed.
