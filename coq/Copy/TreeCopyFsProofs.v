(* C19 -- copy_fs / copy_fs_if at tree level: what copy_structure (cs_node) and the per-file loop
   (cf_node) do at every path, for ALL trees (structural induction, no enumeration). *)
From Coq Require Import List NArith ZArith Bool Arith Lia.
From PyFS Require Import Base.PyStr Base.Outcome FS.Tree FS.Wf FS.TreeLemmas Copy.CopyCond
     Copy.CopyCondProofs Copy.TreeCopy Copy.TreeCopyBase.
Import ListNotations.

Definition uniq_opt (d : option node) : Prop :=
  match d with Some t => uniq t | None => True end.

(* ------------------------------------------------------------------ a generic per-directory loop *)
(* step n o: what to do for the source entry n when the destination holds o under the same name:
   Ok None = leave it, Ok (Some n') = set it to n' *)
Section GSub.
  Variable step : node -> option node -> outcome (option node).

  Fixpoint gsub (l acc : list (str * node)) : outcome (list (str * node)) :=
    match l with
    | [] => Ok acc
    | (k, n) :: r =>
      match step n (assoc k acc) with
      | Ok (Some n') => gsub r (assoc_set k n' acc)
      | Ok None => gsub r acc
      | Err e => Err e
      | Crash x => Crash x
      end
    end.

  Lemma gsub_spec : forall l acc ents, NoDup (keys l) -> gsub l acc = Ok ents ->
    forall k, match assoc k l with
              | Some n => exists r, step n (assoc k acc) = Ok r /\
                                    assoc k ents = match r with Some n' => Some n' | None => assoc k acc end
              | None => assoc k ents = assoc k acc
              end.
  Proof.
    induction l as [|[k0 n0] r IH]; intros acc ents Hnd Hg k.
    - cbn in Hg. inversion Hg; subst. reflexivity.
    - unfold keys in Hnd. cbn [map fst] in Hnd. inversion Hnd as [|? ? Hn Hr]; subst.
      cbn [gsub] in Hg.
      destruct (step n0 (assoc k0 acc)) as [[n'|]|e0|x0] eqn:Es; try discriminate.
      + specialize (IH _ _ Hr Hg k). cbn [assoc]. destruct (str_eqb k k0) eqn:E.
        * apply str_eqb_eq in E. subst k0. exists (Some n'). split; [exact Es|].
          rewrite (assoc_notin_none _ _ Hn) in IH. rewrite IH. apply assoc_set_same.
        * apply str_eqb_neq in E. rewrite (assoc_set_other _ _ _ _ E) in IH. exact IH.
      + specialize (IH _ _ Hr Hg k). cbn [assoc]. destruct (str_eqb k k0) eqn:E.
        * apply str_eqb_eq in E. subst k0. exists None. split; [exact Es|].
          rewrite (assoc_notin_none _ _ Hn) in IH. exact IH.
        * exact IH.
  Qed.

  Lemma gsub_NoDup : forall l acc ents, NoDup (keys acc) -> gsub l acc = Ok ents -> NoDup (keys ents).
  Proof.
    induction l as [|[k0 n0] r IH]; intros acc ents Hnd Hg.
    - cbn in Hg. inversion Hg; subst. exact Hnd.
    - cbn [gsub] in Hg.
      destruct (step n0 (assoc k0 acc)) as [[n'|]|e0|x0] eqn:Es; try discriminate.
      + eapply IH; [|exact Hg]. apply NoDup_keys_assoc_set. exact Hnd.
      + eapply IH; [exact Hnd|exact Hg].
  Qed.

  Lemma gsub_err : forall l acc e, NoDup (keys l) -> gsub l acc = Err e ->
    exists k n, assoc k l = Some n /\ step n (assoc k acc) = Err e.
  Proof.
    induction l as [|[k0 n0] r IH]; intros acc e Hnd Hg.
    - cbn in Hg. discriminate.
    - unfold keys in Hnd. cbn [map fst] in Hnd. inversion Hnd as [|? ? Hn Hr]; subst.
      cbn [gsub] in Hg.
      destruct (step n0 (assoc k0 acc)) as [[n'|]|e0|x0] eqn:Es; try discriminate.
      + destruct (IH _ _ Hr Hg) as (k & n & Hk & Hs). exists k, n.
        assert (Hne : k <> k0) by (intro; subst k; apply Hn; eapply assoc_some_in; exact Hk).
        rewrite (assoc_set_other _ _ _ _ Hne) in Hs. split; [|exact Hs].
        cbn [assoc]. apply str_eqb_neq in Hne. rewrite Hne. exact Hk.
      + destruct (IH _ _ Hr Hg) as (k & n & Hk & Hs). exists k, n.
        assert (Hne : k <> k0) by (intro; subst k; apply Hn; eapply assoc_some_in; exact Hk).
        split; [|exact Hs].
        cbn [assoc]. apply str_eqb_neq in Hne. rewrite Hne. exact Hk.
      + inversion Hg; subst. exists k0, n0. split; [|exact Es].
        cbn [assoc]. rewrite str_eqb_refl. reflexivity.
  Qed.

  Lemma gsub_crash : forall l acc x, NoDup (keys l) -> gsub l acc = Crash x ->
    exists k n, assoc k l = Some n /\ step n (assoc k acc) = Crash x.
  Proof.
    induction l as [|[k0 n0] r IH]; intros acc x Hnd Hg.
    - cbn in Hg. discriminate.
    - unfold keys in Hnd. cbn [map fst] in Hnd. inversion Hnd as [|? ? Hn Hr]; subst.
      cbn [gsub] in Hg.
      destruct (step n0 (assoc k0 acc)) as [[n'|]|e0|x0] eqn:Es; try discriminate.
      + destruct (IH _ _ Hr Hg) as (k & n & Hk & Hs). exists k, n.
        assert (Hne : k <> k0) by (intro; subst k; apply Hn; eapply assoc_some_in; exact Hk).
        rewrite (assoc_set_other _ _ _ _ Hne) in Hs. split; [|exact Hs].
        cbn [assoc]. apply str_eqb_neq in Hne. rewrite Hne. exact Hk.
      + destruct (IH _ _ Hr Hg) as (k & n & Hk & Hs). exists k, n.
        assert (Hne : k <> k0) by (intro; subst k; apply Hn; eapply assoc_some_in; exact Hk).
        split; [|exact Hs].
        cbn [assoc]. apply str_eqb_neq in Hne. rewrite Hne. exact Hk.
      + inversion Hg; subst. exists k0, n0. split; [|exact Es].
        cbn [assoc]. rewrite str_eqb_refl. reflexivity.
  Qed.

  Lemma Forall_assoc_opt (Q : node -> Prop) k (acc : list (str * node)) :
    Forall (fun kn => Q (snd kn)) acc ->
    match assoc k acc with Some x => Q x | None => True end.
  Proof.
    intro H. destruct (assoc k acc) as [x|] eqn:E; [|exact I].
    apply assoc_some_In in E. rewrite Forall_forall in H. apply (H _ E).
  Qed.

  Lemma gsub_Forall (Q : node -> Prop) : forall l acc ents,
    Forall (fun kn => Q (snd kn)) acc ->
    (forall k n o n', In (k, n) l -> match o with Some x => Q x | None => True end ->
                      step n o = Ok (Some n') -> Q n') ->
    gsub l acc = Ok ents -> Forall (fun kn => Q (snd kn)) ents.
  Proof.
    induction l as [|[k0 n0] r IH]; intros acc ents Hacc Hstep Hg.
    - cbn in Hg. inversion Hg; subst. exact Hacc.
    - cbn [gsub] in Hg.
      destruct (step n0 (assoc k0 acc)) as [[n'|]|e0|x0] eqn:Es; try discriminate.
      + eapply IH; [| |exact Hg].
        * apply Forall_assoc_set; [exact Hacc|]. cbn [snd].
          eapply (Hstep k0 n0 (assoc k0 acc) n'); [left; reflexivity| |exact Es].
          apply Forall_assoc_opt. exact Hacc.
        * intros k n o n1 Hin. apply (Hstep k n o n1). right. exact Hin.
      + eapply IH; [exact Hacc| |exact Hg].
        intros k n o n1 Hin. apply (Hstep k n o n1). right. exact Hin.
  Qed.
End GSub.

(* ------------------------------------------------------------------ small facts *)
Definition child (o : option node) (k : str) : option node :=
  match o with Some (Dir ents _) => assoc k ents | _ => None end.

Lemma olookup_child o k rest : olookup o (k :: rest) = olookup (child o k) rest.
Proof. apply olookup_cons. Qed.

Lemma olookup_file_cons data m k rest : olookup (Some (File data m)) (k :: rest) = None.
Proof. reflexivity. Qed.

Lemma uniq_opt_assoc ents k : Forall (fun kn => uniq (snd kn)) ents -> uniq_opt (assoc k ents).
Proof. intro H. apply (Forall_assoc_opt uniq k ents H). Qed.

(* ------------------------------------------------------------------ copy_structure as a gsub *)
Definition cs_step (now : option Z) (n : node) (o : option node) : outcome (option node) :=
  match n with
  | Dir _ _ => match cs_node now n o with Ok n' => Ok (Some n') | Err e => Err e | Crash x => Crash x end
  | File _ _ => Ok None
  end.

Lemma cs_sub_eq now : forall l acc,
  (fix sub (l : list (str * node)) (acc : list (str * node)) : outcome (list (str * node)) :=
     match l with
     | [] => Ok acc
     | (k, n) :: r =>
       match n with
       | Dir _ _ =>
         match cs_node now n (assoc k acc) with
         | Ok n' => sub r (assoc_set k n' acc)
         | Err e => Err e
         | Crash x => Crash x
         end
       | File _ _ => sub r acc
       end
     end) l acc = gsub (cs_step now) l acc.
Proof.
  induction l as [|[k n] r IH]; intro acc; [reflexivity|].
  cbn [gsub]. destruct n as [data m|ents m].
  - cbn [cs_step]. apply IH.
  - cbn -[cs_node assoc assoc_set gsub].
    destruct (cs_node now (Dir ents m) (assoc k acc)) as [n'|e|x]; [apply IH|reflexivity|reflexivity].
Qed.

Lemma cs_node_unfold now sents sm d :
  cs_node now (Dir sents sm) d =
  match d with
  | Some (File _ _) => Err DirectoryExpected
  | _ => match gsub (cs_step now) sents (match d with Some (Dir de _) => de | _ => [] end) with
         | Ok ents => Ok (Dir ents (match d with Some (Dir _ m) => m | _ => now end))
         | Err e => Err e
         | Crash x => Crash x
         end
  end.
Proof.
  destruct d as [[dd dm|de dm]|]; cbn [cs_node]; [reflexivity| |]; rewrite cs_sub_eq; reflexivity.
Qed.

(* ------------------------------------------------------------------ F1: copy_structure, path by path *)
Definition cs_spec (now : option Z) (ls ld1 ld : option node) : Prop :=
  match ls with
  | Some (Dir _ _) =>
    exists e', ld1 = Some (Dir e' (match ld with Some (Dir _ dm) => dm | _ => now end))
  | _ => ld1 = ld
  end.

Definition cs_P (now : option Z) (s : node) : Prop :=
  forall d d1, is_dir s = true -> uniq s -> uniq_opt d -> cs_node now s d = Ok d1 ->
    uniq d1 /\ forall p, cs_spec now (lookup s p) (lookup d1 p) (olookup d p).

Lemma cs_level now sents dents ents :
  Forall (fun kn => cs_P now (snd kn)) sents ->
  NoDup (keys sents) -> Forall (fun kn => uniq (snd kn)) sents ->
  NoDup (keys dents) -> Forall (fun kn => uniq (snd kn)) dents ->
  gsub (cs_step now) sents dents = Ok ents ->
  (NoDup (keys ents) /\ Forall (fun kn => uniq (snd kn)) ents) /\
  forall k rest, cs_spec now (olookup (assoc k sents) rest) (olookup (assoc k ents) rest)
                         (olookup (assoc k dents) rest).
Proof.
  intros IH Hnd Hall Hndd Halld Hg. split.
  - split.
    + eapply gsub_NoDup; eassumption.
    + eapply (gsub_Forall (cs_step now) uniq); [exact Halld| |exact Hg].
      intros k n o n' Hin Ho Hs. destruct n as [data m|se sm']; cbn [cs_step] in Hs; [discriminate|].
      destruct (cs_node now (Dir se sm') o) as [n1|e|x] eqn:E; try discriminate.
      inversion Hs; subst n1.
      rewrite Forall_forall in IH, Hall.
      destruct (IH _ Hin o n' eq_refl (Hall _ Hin) Ho E) as [H _]. exact H.
  - intros k rest. pose proof (gsub_spec _ _ _ _ Hnd Hg k) as Hk.
    destruct (assoc k sents) as [n|] eqn:Ea.
    + destruct Hk as (r & Hs & Hr). destruct n as [data m|se sm']; cbn [cs_step] in Hs.
      * inversion Hs; subst r. rewrite Hr. destruct rest; cbn; reflexivity.
      * destruct (cs_node now (Dir se sm') (assoc k dents)) as [n1|e|x] eqn:E; try discriminate.
        inversion Hs; subst r. rewrite Hr.
        apply assoc_some_In in Ea. rewrite Forall_forall in IH, Hall.
        destruct (IH _ Ea (assoc k dents) n1 eq_refl (Hall _ Ea) (uniq_opt_assoc _ _ Halld) E) as [_ H].
        exact (H rest).
    + rewrite Hk. cbn. reflexivity.
Qed.

Lemma cs_node_main now : forall s, cs_P now s.
Proof.
  induction s as [data m|sents sm IH] using node_ind'; intros d d1 Hd Hu Hud Hcs; [discriminate|].
  rewrite cs_node_unfold in Hcs. apply uniq_dir in Hu as [Hnd Hall].
  destruct d as [[dd dm0|de dm0]|]; [discriminate| |].
  - destruct (gsub (cs_step now) sents de) as [ents|e|x] eqn:Hg; try discriminate.
    inversion Hcs; subst d1. cbn [uniq_opt] in Hud. apply uniq_dir in Hud as [Hndd Halld].
    destruct (cs_level now sents de ents IH Hnd Hall Hndd Halld Hg) as [[H1 H2] H3].
    split; [apply uniq_dir; split; assumption|].
    intros [|k rest].
    + cbn. eexists; reflexivity.
    + rewrite !lookup_dir_cons. rewrite olookup_child. cbn [child]. apply H3.
  - destruct (gsub (cs_step now) sents []) as [ents|e|x] eqn:Hg; try discriminate.
    inversion Hcs; subst d1.
    assert (Hndd : NoDup (keys (@nil (str * node)))) by constructor.
    assert (Halld : Forall (fun kn : str * node => uniq (snd kn)) []) by constructor.
    destruct (cs_level now sents [] ents IH Hnd Hall Hndd Halld Hg) as [[H1 H2] H3].
    split; [apply uniq_dir; split; assumption|].
    intros [|k rest].
    + cbn. eexists; reflexivity.
    + rewrite !lookup_dir_cons. exact (H3 k rest).
Qed.

Theorem cs_node_lookup : forall now s d d1, is_dir s = true -> uniq s -> uniq_opt d ->
  cs_node now s d = Ok d1 ->
  uniq d1 /\
  forall p,
    match lookup s p with
    | Some (Dir _ _) =>
        exists e', lookup d1 p = Some (Dir e' (match olookup d p with Some (Dir _ dm) => dm | _ => now end))
    | _ => lookup d1 p = olookup d p
    end.
Proof. intros now s d d1 Hd Hu Hud Hcs. exact (cs_node_main now s d d1 Hd Hu Hud Hcs). Qed.
Print Assumptions cs_node_lookup.

(* ------------------------------------------------------------------ F2: when copy_structure fails *)
Lemma cs_ok_noclash now : forall s d d1, uniq s -> cs_node now s d = Ok d1 ->
  forall p se sm dd dm, lookup s p = Some (Dir se sm) -> olookup d p = Some (File dd dm) -> False.
Proof.
  induction s as [data m|sents sm0 IH] using node_ind'; intros d d1 Hu Hcs; [discriminate|].
  rewrite cs_node_unfold in Hcs. apply uniq_dir in Hu as [Hnd Hall].
  intros [|k rest] se sm dd dm Hl Ho.
  - rewrite olookup_nil in Ho. subst d. discriminate.
  - rewrite lookup_dir_cons in Hl. rewrite olookup_child in Ho.
    destruct d as [[dd0 dm0|de dm0]|]; [discriminate| |cbn in Ho; discriminate].
    cbn [child] in Ho.
    destruct (gsub (cs_step now) sents de) as [ents|e|x] eqn:Hg; try discriminate.
    pose proof (gsub_spec _ _ _ _ Hnd Hg k) as Hk.
    destruct (assoc k sents) as [n|] eqn:Ea; [|cbn in Hl; discriminate].
    cbn [olookup] in Hl. destruct Hk as (r & Hs & _).
    destruct n as [data m|se' sm']; [destruct rest; discriminate|].
    cbn [cs_step] in Hs.
    destruct (cs_node now (Dir se' sm') (assoc k de)) as [n1|e|x] eqn:E; try discriminate.
    apply assoc_some_In in Ea. rewrite Forall_forall in IH, Hall.
    exact (IH _ Ea (assoc k de) n1 (Hall _ Ea) E rest se sm dd dm Hl Ho).
Qed.

Lemma cs_err now : forall s d e, uniq s -> cs_node now s d = Err e ->
  e = DirectoryExpected /\
  exists p se sm dd dm, lookup s p = Some (Dir se sm) /\ olookup d p = Some (File dd dm).
Proof.
  induction s as [data m|sents sm0 IH] using node_ind'; intros d e Hu Hcs; [discriminate|].
  rewrite cs_node_unfold in Hcs. apply uniq_dir in Hu as [Hnd Hall].
  destruct d as [[dd0 dm0|de dm0]|].
  - inversion Hcs; subst e. split; [reflexivity|]. exists [], sents, sm0, dd0, dm0. split; reflexivity.
  - destruct (gsub (cs_step now) sents de) as [ents|e1|x] eqn:Hg; try discriminate.
    inversion Hcs; subst e1.
    destruct (gsub_err _ _ _ _ Hnd Hg) as (k & n & Ea & Hs).
    destruct n as [data m|se' sm']; cbn [cs_step] in Hs; [discriminate|].
    destruct (cs_node now (Dir se' sm') (assoc k de)) as [n1|e1|x] eqn:E; try discriminate.
    inversion Hs; subst e1.
    pose proof (assoc_some_In _ _ _ Ea) as Hin. rewrite Forall_forall in IH, Hall.
    destruct (IH _ Hin (assoc k de) e (Hall _ Hin) E) as (He & p & se & sm & dd & dm & Hl & Ho).
    split; [exact He|]. exists (k :: p), se, sm, dd, dm. split.
    + rewrite lookup_dir_cons, Ea. exact Hl.
    + rewrite olookup_child. exact Ho.
  - destruct (gsub (cs_step now) sents []) as [ents|e1|x] eqn:Hg; try discriminate.
    inversion Hcs; subst e1.
    destruct (gsub_err _ _ _ _ Hnd Hg) as (k & n & Ea & Hs).
    destruct n as [data m|se' sm']; cbn [cs_step] in Hs; [discriminate|].
    destruct (cs_node now (Dir se' sm') (assoc k [])) as [n1|e1|x] eqn:E; try discriminate.
    inversion Hs; subst e1.
    pose proof (assoc_some_In _ _ _ Ea) as Hin. rewrite Forall_forall in IH, Hall.
    destruct (IH _ Hin (assoc k []) e (Hall _ Hin) E) as (He & p & se & sm & dd & dm & Hl & Ho).
    cbn in Ho. discriminate.
Qed.

Lemma cs_nocrash now : forall s d x, uniq s -> is_dir s = true -> cs_node now s d = Crash x -> False.
Proof.
  induction s as [data m|sents sm0 IH] using node_ind'; intros d x Hu Hd Hcs; [discriminate|].
  rewrite cs_node_unfold in Hcs. apply uniq_dir in Hu as [Hnd Hall].
  destruct d as [[dd0 dm0|de dm0]|]; [discriminate| |].
  - destruct (gsub (cs_step now) sents de) as [ents|e1|x1] eqn:Hg; try discriminate.
    inversion Hcs; subst x1.
    destruct (gsub_crash _ _ _ _ Hnd Hg) as (k & n & Ea & Hs).
    destruct n as [data m|se' sm']; cbn [cs_step] in Hs; [discriminate|].
    destruct (cs_node now (Dir se' sm') (assoc k de)) as [n1|e1|x1] eqn:E; try discriminate.
    inversion Hs; subst x1.
    pose proof (assoc_some_In _ _ _ Ea) as Hin. rewrite Forall_forall in IH, Hall.
    exact (IH _ Hin (assoc k de) x (Hall _ Hin) eq_refl E).
  - destruct (gsub (cs_step now) sents []) as [ents|e1|x1] eqn:Hg; try discriminate.
    inversion Hcs; subst x1.
    destruct (gsub_crash _ _ _ _ Hnd Hg) as (k & n & Ea & Hs).
    destruct n as [data m|se' sm']; cbn [cs_step] in Hs; [discriminate|].
    destruct (cs_node now (Dir se' sm') (assoc k [])) as [n1|e1|x1] eqn:E; try discriminate.
    inversion Hs; subst x1.
    pose proof (assoc_some_In _ _ _ Ea) as Hin. rewrite Forall_forall in IH, Hall.
    exact (IH _ Hin (assoc k []) x (Hall _ Hin) eq_refl E).
Qed.

Theorem cs_node_outcome : forall now s d, is_dir s = true -> uniq s -> uniq_opt d ->
  ((exists p se sm dd dm, lookup s p = Some (Dir se sm) /\ olookup d p = Some (File dd dm))
     /\ cs_node now s d = Err DirectoryExpected) \/
  ((~ exists p se sm dd dm, lookup s p = Some (Dir se sm) /\ olookup d p = Some (File dd dm))
     /\ exists d1, cs_node now s d = Ok d1).
Proof.
  intros now s d Hd Hu Hud. destruct (cs_node now s d) as [d1|e|x] eqn:E.
  - right. split; [|exists d1; reflexivity].
    intros (p & se & sm & dd & dm & Hl & Ho). exact (cs_ok_noclash now s d d1 Hu E p se sm dd dm Hl Ho).
  - left. destruct (cs_err now s d e Hu E) as [He Hex]. subst e. split; [exact Hex|reflexivity].
  - exfalso. exact (cs_nocrash now s d x Hu Hd E).
Qed.
Print Assumptions cs_node_outcome.

(* ------------------------------------------------------------------ the per-file loop as a gsub *)
Definition cf_step (c : cond) (pt : bool) (now : option Z) (n : node) (o : option node)
  : outcome (option node) :=
  match n with
  | File data m =>
    if copy_is_necessary c m (dst_state o) then
      match o with
      | Some (Dir _ _) => Err FileExpected
      | old => Ok (Some (copied pt now data m old))
      end
    else Ok None
  | Dir _ _ =>
    match cf_node c pt now n o with Ok n' => Ok (Some n') | Err e => Err e | Crash x => Crash x end
  end.

Lemma cf_sub_eq c pt now : forall l acc,
  (fix sub (l : list (str * node)) (acc : list (str * node)) : outcome (list (str * node)) :=
     match l with
     | [] => Ok acc
     | (k, n) :: r =>
       match n with
       | File data m =>
         if copy_is_necessary c m (dst_state (assoc k acc)) then
           match assoc k acc with
           | Some (Dir _ _) => Err FileExpected
           | old => sub r (assoc_set k (copied pt now data m old) acc)
           end
         else sub r acc
       | Dir _ _ =>
         match cf_node c pt now n (assoc k acc) with
         | Ok n' => sub r (assoc_set k n' acc)
         | Err e => Err e
         | Crash x => Crash x
         end
       end
     end) l acc = gsub (cf_step c pt now) l acc.
Proof.
  induction l as [|[k n] r IH]; intro acc; [reflexivity|].
  cbn [gsub]. destruct n as [data m|ents m].
  - cbn -[cf_node assoc assoc_set gsub copy_is_necessary dst_state copied].
    destruct (copy_is_necessary c m (dst_state (assoc k acc))); [|apply IH].
    destruct (assoc k acc) as [[od om|oe om]|]; [apply IH|reflexivity|apply IH].
  - cbn -[cf_node assoc assoc_set gsub].
    destruct (cf_node c pt now (Dir ents m) (assoc k acc)) as [n'|e|x]; [apply IH|reflexivity|reflexivity].
Qed.

Lemma cf_node_unfold c pt now sents sm d :
  cf_node c pt now (Dir sents sm) d =
  match d with
  | Some (Dir dents dm) =>
    match gsub (cf_step c pt now) sents dents with
    | Ok ents => Ok (Dir ents dm)
    | Err e => Err e
    | Crash x => Crash x
    end
  | _ => Crash Unreachable
  end.
Proof.
  destruct d as [[dd dm|de dm]|]; cbn [cf_node]; [reflexivity| |reflexivity].
  rewrite cf_sub_eq. reflexivity.
Qed.

(* ------------------------------------------------------------------ the per-file loop, path by path *)
Definition cf_spec (c : cond) (pt : bool) (now : option Z) (ls ld' lo : option node) : Prop :=
  match ls with
  | Some (File data m) =>
    (copy_is_necessary c m (dst_state lo) = true -> forall e dm, lo <> Some (Dir e dm)) /\
    ld' = if copy_is_necessary c m (dst_state lo) then Some (copied pt now data m lo) else lo
  | Some (Dir _ _) => exists e1 e' dm, lo = Some (Dir e1 dm) /\ ld' = Some (Dir e' dm)
  | None => ld' = lo
  end.

Lemma cf_node_main c pt now : forall s o d', uniq s -> cf_node c pt now s o = Ok d' ->
  forall p, cf_spec c pt now (lookup s p) (lookup d' p) (olookup o p).
Proof.
  induction s as [data m|sents sm0 IH] using node_ind'; intros o d' Hu Hcf; [discriminate|].
  rewrite cf_node_unfold in Hcf. apply uniq_dir in Hu as [Hnd Hall].
  destruct o as [[dd0 dm0|de dm0]|]; try discriminate.
  destruct (gsub (cf_step c pt now) sents de) as [ents|e|x] eqn:Hg; try discriminate.
  inversion Hcf; subst d'. intros [|k rest].
  - cbn. exists de, ents, dm0. split; reflexivity.
  - rewrite !lookup_dir_cons. rewrite olookup_child. cbn [child].
    pose proof (gsub_spec _ _ _ _ Hnd Hg k) as Hk.
    destruct (assoc k sents) as [n|] eqn:Ea.
    + destruct Hk as (r & Hs & Hr). destruct n as [data m|se sm']; cbn [cf_step] in Hs.
      * cbn [olookup]. destruct rest as [|k2 rest2].
        -- cbn [lookup]. rewrite !olookup_nil. unfold cf_spec.
           destruct (copy_is_necessary c m (dst_state (assoc k de))) eqn:Ec.
           ++ destruct (assoc k de) as [[od om|oe om]|] eqn:Eo; try discriminate;
                inversion Hs; subst r; (split; [intros _ e1 dm1; discriminate|exact Hr]).
           ++ inversion Hs; subst r. split; [discriminate|exact Hr].
        -- cbn [lookup]. unfold cf_spec. rewrite Hr.
           destruct (copy_is_necessary c m (dst_state (assoc k de))) eqn:Ec.
           ++ destruct (assoc k de) as [[od om|oe om]|] eqn:Eo; try discriminate;
                inversion Hs; subst r; reflexivity.
           ++ inversion Hs; subst r. reflexivity.
      * destruct (cf_node c pt now (Dir se sm') (assoc k de)) as [n1|e|x] eqn:E; try discriminate.
        inversion Hs; subst r. rewrite Hr.
        apply assoc_some_In in Ea. rewrite Forall_forall in IH, Hall.
        exact (IH _ Ea (assoc k de) n1 (Hall _ Ea) E rest).
    + rewrite Hk. cbn. reflexivity.
Qed.

Lemma cf_node_uniq c pt now : forall s o d', uniq s -> uniq_opt o -> cf_node c pt now s o = Ok d' ->
  uniq d' /\ is_dir d' = true.
Proof.
  induction s as [data m|sents sm0 IH] using node_ind'; intros o d' Hu Huo Hcf; [discriminate|].
  rewrite cf_node_unfold in Hcf. apply uniq_dir in Hu as [Hnd Hall].
  destruct o as [[dd0 dm0|de dm0]|]; try discriminate.
  destruct (gsub (cf_step c pt now) sents de) as [ents|e|x] eqn:Hg; try discriminate.
  inversion Hcf; subst d'. split; [|reflexivity].
  cbn [uniq_opt] in Huo. apply uniq_dir in Huo as [Hndd Halld]. apply uniq_dir. split.
  - eapply gsub_NoDup; eassumption.
  - eapply (gsub_Forall (cf_step c pt now) uniq); [exact Halld| |exact Hg].
    intros k n o n' Hin Ho Hs. destruct n as [data m|se sm']; cbn [cf_step] in Hs.
    + destruct (copy_is_necessary c m (dst_state o)); [|discriminate].
      destruct o as [[od om|oe om]|]; try discriminate; inversion Hs; exact I.
    + destruct (cf_node c pt now (Dir se sm') o) as [n1|e|x] eqn:E; try discriminate.
      inversion Hs; subst n1. rewrite Forall_forall in IH, Hall.
      destruct (IH _ Hin o n' (Hall _ Hin) Ho E) as [H _]. exact H.
Qed.

(* ------------------------------------------------------------------ F3, F5 *)
Lemma copy_fs_if_ok_inv c pt now src dst d' : copy_fs_if c pt now src dst = Ok d' ->
  is_dir src = true /\ is_dir dst = true /\
  exists d1, cs_node now src (Some dst) = Ok d1 /\ cf_node c pt now src (Some d1) = Ok d'.
Proof.
  unfold copy_fs_if. destruct src as [sd sm|se sm]; [discriminate|].
  destruct dst as [dd dm|de dm]; [discriminate|].
  destruct (cs_node now (Dir se sm) (Some (Dir de dm))) as [d1|e|x] eqn:E; try discriminate.
  intro H. split; [reflexivity|]. split; [reflexivity|]. exists d1. split; [reflexivity|exact H].
Qed.

(* STATEMENT CHANGED (model change announced by the model's author while this file was written):
   `stamp` now also takes the bytes and the node the destination held under that name (an empty
   file written over an existing file keeps the old time); at a source-file path that node is
   `lookup dst p`, since copy_structure leaves it alone. *)
Theorem copy_fs_if_lookup_u : forall c pt now src dst d', uniq src -> uniq dst ->
  copy_fs_if c pt now src dst = Ok d' ->
  forall p,
    match lookup src p with
    | Some (File data m) =>
        lookup d' p = if cond_spec c m (dst_state (lookup dst p))
                      then Some (File data (stamp pt now m data (lookup dst p))) else lookup dst p
    | Some (Dir _ _) =>
        exists e', lookup d' p = Some (Dir e' (match lookup dst p with Some (Dir _ dm) => dm | _ => now end))
    | None => lookup d' p = lookup dst p
    end.
Proof.
  intros c pt now src dst d' Hus Hud Hc p.
  destruct (copy_fs_if_ok_inv _ _ _ _ _ _ Hc) as (Hds & Hdd & d1 & Hcs & Hcf).
  destruct (cs_node_main now src (Some dst) d1 Hds Hus Hud Hcs) as [Hu1 H1].
  specialize (H1 p). pose proof (cf_node_main c pt now src (Some d1) d' Hus Hcf p) as H2.
  cbn [olookup] in H1, H2. unfold cs_spec in H1. unfold cf_spec in H2.
  destruct (lookup src p) as [[data m|se sm]|].
  - rewrite H1 in H2. destruct H2 as [_ H2]. rewrite <- copy_is_necessary_spec. exact H2.
  - destruct H1 as [e1 H1]. destruct H2 as (e2 & e' & dm & H2 & H3).
    rewrite H1 in H2. inversion H2; subst. exists e'. exact H3.
  - rewrite H2. exact H1.
Qed.
Print Assumptions copy_fs_if_lookup_u.

Theorem copy_fs_if_uniq : forall c pt now src dst d', uniq src -> uniq dst ->
  copy_fs_if c pt now src dst = Ok d' -> uniq d' /\ is_dir d' = true.
Proof.
  intros c pt now src dst d' Hus Hud Hc.
  destruct (copy_fs_if_ok_inv _ _ _ _ _ _ Hc) as (Hds & Hdd & d1 & Hcs & Hcf).
  destruct (cs_node_main now src (Some dst) d1 Hds Hus Hud Hcs) as [Hu1 _].
  exact (cf_node_uniq c pt now src (Some d1) d' Hus Hu1 Hcf).
Qed.
Print Assumptions copy_fs_if_uniq.

(* ------------------------------------------------------------------ F4: when the file loop fails *)
Lemma cf_err c pt now : forall s o e, uniq s -> cf_node c pt now s o = Err e ->
  e = FileExpected /\
  exists p data m de dm, lookup s p = Some (File data m) /\ olookup o p = Some (Dir de dm) /\
                         copy_is_necessary c m (Some dm) = true.
Proof.
  induction s as [data m|sents sm0 IH] using node_ind'; intros o e Hu Hcf; [discriminate|].
  rewrite cf_node_unfold in Hcf. apply uniq_dir in Hu as [Hnd Hall].
  destruct o as [[dd0 dm0|de dm0]|]; try discriminate.
  destruct (gsub (cf_step c pt now) sents de) as [ents|e1|x] eqn:Hg; try discriminate.
  inversion Hcf; subst e1.
  destruct (gsub_err _ _ _ _ Hnd Hg) as (k & n & Ea & Hs).
  destruct n as [data m|se' sm']; cbn [cf_step] in Hs.
  - destruct (copy_is_necessary c m (dst_state (assoc k de))) eqn:Ec; [|discriminate].
    destruct (assoc k de) as [[od om|oe om]|] eqn:Eo; try discriminate.
    inversion Hs; subst e. split; [reflexivity|].
    exists [k], data, m, oe, om. split; [|split].
    + rewrite lookup_dir_cons, Ea. reflexivity.
    + rewrite olookup_child. cbn [child]. rewrite Eo. reflexivity.
    + exact Ec.
  - destruct (cf_node c pt now (Dir se' sm') (assoc k de)) as [n1|e1|x] eqn:E; try discriminate.
    inversion Hs; subst e1.
    pose proof (assoc_some_In _ _ _ Ea) as Hin. rewrite Forall_forall in IH, Hall.
    destruct (IH _ Hin (assoc k de) e (Hall _ Hin) E) as (He & p & data & m & de' & dm' & Hl & Ho & Hc).
    split; [exact He|]. exists (k :: p), data, m, de', dm'. split; [|split].
    + rewrite lookup_dir_cons, Ea. exact Hl.
    + rewrite olookup_child. exact Ho.
    + exact Hc.
Qed.

Lemma cf_nocrash c pt now : forall s o x, uniq s -> is_dir s = true ->
  (forall p se sm, lookup s p = Some (Dir se sm) -> exists e m, olookup o p = Some (Dir e m)) ->
  cf_node c pt now s o = Crash x -> False.
Proof.
  induction s as [data m|sents sm0 IH] using node_ind'; intros o x Hu Hd Hdirs Hcf; [discriminate|].
  rewrite cf_node_unfold in Hcf. apply uniq_dir in Hu as [Hnd Hall].
  destruct (Hdirs [] sents sm0 eq_refl) as (de & dm0 & Ho). rewrite olookup_nil in Ho. subst o.
  destruct (gsub (cf_step c pt now) sents de) as [ents|e1|x1] eqn:Hg; try discriminate.
  inversion Hcf; subst x1.
  destruct (gsub_crash _ _ _ _ Hnd Hg) as (k & n & Ea & Hs).
  destruct n as [data m|se' sm']; cbn [cf_step] in Hs.
  - destruct (copy_is_necessary c m (dst_state (assoc k de))); [|discriminate].
    destruct (assoc k de) as [[od om|oe om]|]; discriminate.
  - destruct (cf_node c pt now (Dir se' sm') (assoc k de)) as [n1|e1|x1] eqn:E; try discriminate.
    inversion Hs; subst x1.
    pose proof (assoc_some_In _ _ _ Ea) as Hin. rewrite Forall_forall in IH, Hall.
    apply (IH _ Hin (assoc k de) x (Hall _ Hin) eq_refl); [|exact E].
    intros p se sm Hl. specialize (Hdirs (k :: p) se sm).
    rewrite lookup_dir_cons, Ea in Hdirs. rewrite olookup_child in Hdirs. exact (Hdirs Hl).
Qed.

Theorem copy_fs_if_outcome_u : forall c pt now src dst,
  is_dir src = true -> is_dir dst = true -> uniq src -> uniq dst ->
  (dir_clash src dst /\ copy_fs_if c pt now src dst = Err DirectoryExpected) \/
  (~ dir_clash src dst /\ file_clash c src dst /\ copy_fs_if c pt now src dst = Err FileExpected) \/
  (~ dir_clash src dst /\ ~ file_clash c src dst /\ exists d', copy_fs_if c pt now src dst = Ok d').
Proof.
  intros c pt now src dst Hds Hdd Hus Hud.
  assert (Hunf : copy_fs_if c pt now src dst =
                 match cs_node now src (Some dst) with
                 | Ok d1 => cf_node c pt now src (Some d1)
                 | Err e => Err e
                 | Crash x => Crash x
                 end).
  { destruct src as [sd sm|se sm]; [discriminate|]. destruct dst as [dd dm|de dm]; [discriminate|].
    reflexivity. }
  rewrite Hunf. clear Hunf.
  destruct (cs_node now src (Some dst)) as [d1|e|x] eqn:Ecs.
  - assert (Hnc : ~ dir_clash src dst).
    { intros (p & se & sm & dd & dm & Hl & Ho).
      exact (cs_ok_noclash now src (Some dst) d1 Hus Ecs p se sm dd dm Hl Ho). }
    destruct (cs_node_main now src (Some dst) d1 Hds Hus Hud Ecs) as [Hu1 H1].
    right. destruct (cf_node c pt now src (Some d1)) as [d'|e|x] eqn:Ecf.
    + right. split; [exact Hnc|]. split; [|exists d'; reflexivity].
      intros (p & data & m & de & dm & Hl & Ho & Hc).
      specialize (H1 p). pose proof (cf_node_main c pt now src (Some d1) d' Hus Ecf p) as H2.
      rewrite Hl in H1, H2. cbn [olookup] in H1, H2. unfold cs_spec in H1. unfold cf_spec in H2.
      destruct H2 as [Hno _]. rewrite H1, Ho in Hno. cbn [dst_state node_mt] in Hno.
      exact (Hno Hc de dm eq_refl).
    + left. destruct (cf_err c pt now src (Some d1) e Hus Ecf)
        as (He & p & data & m & de & dm & Hl & Ho & Hc).
      subst e. split; [exact Hnc|]. split; [|reflexivity].
      exists p, data, m, de, dm. split; [exact Hl|]. split; [|exact Hc].
      specialize (H1 p). rewrite Hl in H1. cbn [olookup] in H1, Ho. unfold cs_spec in H1.
      rewrite <- H1. exact Ho.
    + exfalso. apply (cf_nocrash c pt now src (Some d1) x Hus Hds); [|exact Ecf].
      intros p se sm Hl. specialize (H1 p). rewrite Hl in H1. unfold cs_spec in H1.
      destruct H1 as [e' H1]. cbn [olookup]. rewrite H1. eexists. eexists. reflexivity.
  - left. destruct (cs_err now src (Some dst) e Hus Ecs) as [He Hex]. subst e.
    split; [exact Hex|reflexivity].
  - exfalso. exact (cs_nocrash now src (Some dst) x Hus Hds Ecs).
Qed.
Print Assumptions copy_fs_if_outcome_u.
