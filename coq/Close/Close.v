(* close(): the _closed flag, check(), wrapper nesting, archive finalisation
   (fs/base.py FS.close/check, fs/zipfs.py WriteZipFS.close, fs/tarfs.py WriteTarFS.close,
   fs/mountfs.py / fs/multifs.py auto_close). *)
From Coq Require Import List Bool Arith Lia.
From PyFS Require Import Base.Outcome.
Import ListNotations.

(* ---- a filesystem object with a closed flag; a method that starts with self.check() ---- *)
Definition checked_call {A} (closed : bool) (body : outcome A) : outcome A :=
  if closed then Err FilesystemClosed else body.

(* ---- wrapper nesting: close() of a wrapper closes what it wraps (WrapFS.close) ---- *)
Inductive fsx := Leaf | Wrap (inner : fsx).

(* closed flags, outermost first *)
Fixpoint close_all (n : nat) : list bool := repeat true n.

Fixpoint depth (e : fsx) : nat := match e with Leaf => 1 | Wrap i => S (depth i) end.

(* a call on the outermost object of a nesting whose flags are [flags]: every layer that
   checks raises FilesystemClosed if its flag is set, otherwise delegates inwards *)
Fixpoint nested_call (flags : list bool) (checks : list bool) (result : outcome unit) : outcome unit :=
  match flags, checks with
  | f :: fr, c :: cr => if c && f then Err FilesystemClosed else nested_call fr cr result
  | _, _ => result
  end.

(* ---- write-mode archives: close() = try: (if not closed: try write finally close temp)
        finally: super().close() sets _closed -- also when the write raised (repaired in /repo 4c92948;
        before, _closed stayed false after a failed write and every later close() wrote again) ---- *)
Record arch := { a_closed : bool; a_temp_closed : bool; a_writes : nat; a_complete : nat }.

Definition arch_init : arch := {| a_closed := false; a_temp_closed := false; a_writes := 0; a_complete := 0 |}.

(* write_ok : does the archive write succeed (it fails on a closed temp filesystem) *)
Definition arch_close (write_ok : bool) (a : arch) : arch * outcome unit :=
  if a_closed a then (a, Ok tt)
  else
    let ok := write_ok && negb (a_temp_closed a) in
    let a1 := {| a_closed := true; a_temp_closed := true; a_writes := S (a_writes a);
                 a_complete := if ok then S (a_complete a) else a_complete a |} in
    (a1, if ok then Ok tt else Crash RawOSError).

Fixpoint arch_closes (oks : list bool) (a : arch) : arch :=
  match oks with
  | [] => a
  | ok :: r => arch_closes r (fst (arch_close ok a))
  end.

(* ---- MountFS / MultiFS: members closed iff auto_close ---- *)
Definition composite_close (auto_close : bool) (members : list bool) : list bool :=
  if auto_close then map (fun _ => true) members else members.
