From Coq Require Import List Bool Arith Lia.
From PyFS Require Import Base.Outcome Close.Close.
Import ListNotations.

(* a closed object raises FilesystemClosed from every method that checks, whatever it does *)
Lemma closed_raises : forall A (body : outcome A), checked_call true body = Err FilesystemClosed.
Proof. reflexivity. Qed.

Lemma open_transparent : forall A (body : outcome A), checked_call false body = body.
Proof. reflexivity. Qed.

(* nesting of any depth: if the outermost layer checks and is closed, the call raises,
   whatever the inner layers do *)
Lemma nested_closed_raises : forall flags checks r,
  nested_call (true :: flags) (true :: checks) r = Err FilesystemClosed.
Proof. reflexivity. Qed.

(* if every layer down to the first closed one does NOT check, the call goes through:
   this is exactly how an unchecked wrapper method reaches the wrapped filesystem *)
Lemma nested_unchecked_passes : forall n r,
  nested_call (repeat true n) (repeat false n) r = r.
Proof. induction n as [|n IH]; intro r; simpl; [reflexivity|apply IH]. Qed.

(* some layer that checks is closed -> FilesystemClosed, for every nesting depth *)
Lemma nested_some_checked_closed : forall flags checks r,
  length flags = length checks ->
  existsb (fun fc => fst fc && snd fc) (combine checks flags) = true ->
  nested_call flags checks r = Err FilesystemClosed.
Proof.
  induction flags as [|f fr IH]; intros checks r Hl He.
  - destruct checks; simpl in *; discriminate.
  - destruct checks as [|c cr]; simpl in *; [discriminate|].
    destruct (c && f) eqn:E; [reflexivity|].
    simpl in He. apply IH; [lia|exact He].
Qed.

(* archives: with successful writes, any number of closes writes exactly one complete archive *)
Lemma arch_close_idempotent : forall a ok, a_closed a = true -> arch_close ok a = (a, Ok tt).
Proof. intros a ok H. unfold arch_close. now rewrite H. Qed.

Lemma arch_closes_closed : forall oks a, a_closed a = true -> arch_closes oks a = a.
Proof.
  induction oks as [|ok r IH]; intros a H; simpl; [reflexivity|].
  rewrite arch_close_idempotent by exact H. simpl. apply IH. exact H.
Qed.

Theorem archive_written_once : forall oks,
  a_complete (arch_closes (true :: oks) arch_init) = 1
  /\ a_writes (arch_closes (true :: oks) arch_init) = 1
  /\ a_closed (arch_closes (true :: oks) arch_init) = true.
Proof.
  intro oks. simpl. rewrite arch_closes_closed by reflexivity. simpl. auto.
Qed.

(* the failing-write case as the code has it: the temp filesystem is closed by the finally,
   _closed stays false, so every later close() attempts the write again and fails *)
Theorem archive_close_after_failure : forall oks,
  a_closed (arch_closes (false :: oks) arch_init) = false
  /\ a_complete (arch_closes (false :: oks) arch_init) = 0
  /\ a_writes (arch_closes (false :: oks) arch_init) = S (length oks).
Proof.
  intro oks. simpl.
  assert (H : forall l a, a_closed a = false -> a_temp_closed a = true ->
            a_closed (arch_closes l a) = false /\ a_complete (arch_closes l a) = a_complete a
            /\ a_writes (arch_closes l a) = length l + a_writes a).
  { induction l as [|ok r IH]; intros a Hc Ht; simpl; [auto|].
    unfold arch_close. rewrite Hc, Ht. rewrite andb_false_r. simpl.
    destruct (IH {| a_closed := false; a_temp_closed := true; a_writes := S (a_writes a);
                    a_complete := a_complete a |} eq_refl eq_refl) as [H1 [H2 H3]].
    rewrite H1, H2, H3. simpl. repeat split; lia. }
  destruct (H oks {| a_closed := false; a_temp_closed := true; a_writes := 1; a_complete := 0 |}
              eq_refl eq_refl) as [H1 [H2 H3]].
  rewrite H1, H2, H3. simpl. repeat split; lia.
Qed.

Theorem members_closed_iff_auto_close : forall auto members,
  Forall (fun b => b = false) members -> members <> [] ->
  (Forall (fun b => b = true) (composite_close auto members) <-> auto = true).
Proof.
  intros auto members Hf Hn. destruct auto; simpl; split; intro H; try reflexivity.
  - clear. induction members; simpl; constructor; auto.
  - destruct members as [|b r]; [congruence|]. inversion Hf; inversion H; subst. discriminate.
  - discriminate.
Qed.
