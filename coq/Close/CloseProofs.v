From Coq Require Import List Bool Arith Lia.
From PyFS Require Import Base.Outcome Close.Close.
Import ListNotations.

(* a closed object raises FilesystemClosed from every method that checks, whatever it does *)
Lemma closed_raises : forall A (body : outcome A), checked_call true body = Err FilesystemClosed.
Proof. reflexivity. Qed.

Lemma open_transparent : forall A (body : outcome A), checked_call false body = body.
Proof. reflexivity. Qed.

(* nesting of any depth: if the outermost layer checks and is closed, the call raises,
   whatever the inner layers do *)
Lemma nested_closed_raises : forall flags checks r,
  nested_call (true :: flags) (true :: checks) r = Err FilesystemClosed.
Proof. reflexivity. Qed.

(* if every layer down to the first closed one does NOT check, the call goes through:
   this is exactly how an unchecked wrapper method reaches the wrapped filesystem *)
Lemma nested_unchecked_passes : forall n r,
  nested_call (repeat true n) (repeat false n) r = r.
Proof. induction n as [|n IH]; intro r; simpl; [reflexivity|apply IH]. Qed.

(* some layer that checks is closed -> FilesystemClosed, for every nesting depth *)
Lemma nested_some_checked_closed : forall flags checks r,
  length flags = length checks ->
  existsb (fun fc => fst fc && snd fc) (combine checks flags) = true ->
  nested_call flags checks r = Err FilesystemClosed.
Proof.
  induction flags as [|f fr IH]; intros checks r Hl He.
  - destruct checks; simpl in *; discriminate.
  - destruct checks as [|c cr]; simpl in *; [discriminate|].
    destruct (c && f) eqn:E; [reflexivity|].
    simpl in He. apply IH; [lia|exact He].
Qed.

(* archives: with successful writes, any number of closes writes exactly one complete archive *)
Lemma arch_close_idempotent : forall a ok, a_closed a = true -> arch_close ok a = (a, Ok tt).
Proof. intros a ok H. unfold arch_close. now rewrite H. Qed.

Lemma arch_closes_closed : forall oks a, a_closed a = true -> arch_closes oks a = a.
Proof.
  induction oks as [|ok r IH]; intros a H; simpl; [reflexivity|].
  rewrite arch_close_idempotent by exact H. simpl. apply IH. exact H.
Qed.

Theorem archive_written_once : forall oks,
  a_complete (arch_closes (true :: oks) arch_init) = 1
  /\ a_writes (arch_closes (true :: oks) arch_init) = 1
  /\ a_closed (arch_closes (true :: oks) arch_init) = true.
Proof.
  intro oks. simpl. rewrite arch_closes_closed by reflexivity. simpl. auto.
Qed.

(* the failing-write case: the failure is reported by that close(), the filesystem is closed all the same, the
   write is attempted exactly once whatever is called afterwards, and no complete archive is claimed *)
Theorem archive_close_after_failure : forall oks,
  a_closed (arch_closes (false :: oks) arch_init) = true
  /\ a_complete (arch_closes (false :: oks) arch_init) = 0
  /\ a_writes (arch_closes (false :: oks) arch_init) = 1
  /\ snd (arch_close false arch_init) = Crash RawOSError.
Proof.
  intro oks. simpl. rewrite arch_closes_closed by reflexivity. simpl. auto.
Qed.

(* close() is final whatever the first write does: every later close() returns normally and changes nothing *)
Theorem archive_close_final : forall ok oks ok',
  let a := arch_closes (ok :: oks) arch_init in
  a_closed a = true /\ arch_close ok' a = (a, Ok tt) /\ a_writes a = 1.
Proof.
  intros ok oks ok'. cbn zeta. cbn [arch_closes].
  assert (Hc : a_closed (fst (arch_close ok arch_init)) = true) by (destruct ok; reflexivity).
  rewrite (arch_closes_closed oks _ Hc).
  split; [exact Hc|]. split; [apply arch_close_idempotent; exact Hc|].
  destruct ok; reflexivity.
Qed.

Theorem members_closed_iff_auto_close : forall auto members,
  Forall (fun b => b = false) members -> members <> [] ->
  (Forall (fun b => b = true) (composite_close auto members) <-> auto = true).
Proof.
  intros auto members Hf Hn. destruct auto; simpl; split; intro H; try reflexivity.
  - clear. induction members; simpl; constructor; auto.
  - destruct members as [|b r]; [congruence|]. inversion Hf; inversion H; subst. discriminate.
  - discriminate.
Qed.
