(* C04 — Read-only filesystems cannot be modified through any call.
   Table theorems over the dispatch table dumped from the running code on every run
   (Gen/Dispatch_gen.v): class x public method -> implementing class, with the semantic
   classification "mutating" measured on a writable twin. *)
From Coq Require Import List NArith Bool String Ascii.
From PyFS Require Import Gen.Dispatch_gen.
From PyFS Require Import Base.PyStr Base.Outcome FS.Tree FS.Monad FS.Mode FS.Base FS.Mem FS.Ops FS.Wrap
     FS.ReadOnly FS.ReadOnlyProofs.
Import ListNotations.

Definition slit (x : string) : list N := List.map N_of_ascii (list_ascii_of_string x).
Fixpoint leq (a b : list N) : bool :=
  match a, b with
  | [], [] => true
  | x :: a', y :: b' => N.eqb x y && leq a' b'
  | _, _ => false
  end.

Definition row := (list N * list N * list N * bool)%type.
Definition r_class (r : row) := fst (fst (fst r)).
Definition r_method (r : row) := snd (fst (fst r)).
Definition r_impl (r : row) := snd (fst r).
Definition r_mut (r : row) := snd r.

(* every mutating method of the read-only wrapper resolves to an implementation that is not
   WrapFS's (which would delegate straight to the wrapped filesystem) *)
Theorem C04_mutators_not_delegated :
  forallb (fun r => negb (leq (r_class r) (slit "WrapReadOnly")) || negb (r_mut r)
                    || negb (leq (r_impl r) (slit "WrapFS"))) dispatch_table = true.
Proof. vm_compute. reflexivity. Qed.
Print Assumptions C04_mutators_not_delegated.

(* the essential mutators of the read-only archive classes are their own (raising) ones *)
Definition essential_mutators := [slit "makedir"; slit "openbin"; slit "remove"; slit "removedir"; slit "setinfo"].
Theorem C04_archive_essentials_own :
  forallb (fun r =>
     negb ((leq (r_class r) (slit "ReadZipFS") || leq (r_class r) (slit "ReadTarFS"))
           && existsb (leq (r_method r)) essential_mutators)
     || leq (r_impl r) (r_class r)) dispatch_table = true.
Proof. vm_compute. reflexivity. Qed.
Print Assumptions C04_archive_essentials_own.

(* non-vacuity: the table has rows for the wrapper and some of them are mutating *)
Theorem C04_table_nonvacuous :
  existsb (fun r => leq (r_class r) (slit "WrapReadOnly") && r_mut r) dispatch_table = true.
Proof. vm_compute. reflexivity. Qed.
Print Assumptions C04_table_nonvacuous.

(* ---- the read-only wrapper model (FS/ReadOnly.v; tied to the real fs.wrap.read_only(MemoryFS) on every run:
   outcome and storage tree after every call of generated histories) ---- *)

(* a refused call changes nothing and raises ResourceReadOnly, whatever its arguments *)
Theorem C04_ro_refuses : forall inner o s, mutating o = true -> ro_run inner o s = (s, Err ResourceReadOnly).
Proof. exact ro_refuses. Qed.
Print Assumptions C04_ro_refuses.

(* the calls that are let through do not modify a MemoryFS, a WrapFS, a SubFS at any depth *)
Theorem C04_mem_nonmutating_pure : forall o s, mutating o = false -> fst (mem_run o s) = s.
Proof. exact mem_nonmutating_pure. Qed.
Print Assumptions C04_mem_nonmutating_pure.

Theorem C04_wrapfs_nonmutating_pure : forall o s, mutating o = false -> fst (wrapfs_run o s) = s.
Proof. exact wrapfs_nonmutating_pure. Qed.
Print Assumptions C04_wrapfs_nonmutating_pure.

Theorem C04_nested_subfs_nonmutating_pure : forall ds o s, mutating o = false -> fst (nested_subfs_run ds o s) = s.
Proof. exact nested_subfs_nonmutating_pure. Qed.
Print Assumptions C04_nested_subfs_nonmutating_pure.

(* NO sequence of calls through a read-only view changes the wrapped filesystem (any wrapped model whose
   let-through calls are pure), and each refused call reports ResourceReadOnly *)
Theorem C04_ro_history_unchanged : forall inner,
  (forall o s, mutating o = false -> fst (inner o s) = s) -> forall ops s, fst (run_ops (ro_run inner) s ops) = s.
Proof. exact ro_history_unchanged. Qed.
Print Assumptions C04_ro_history_unchanged.

Theorem C04_ro_history_outcomes : forall inner,
  (forall o s, mutating o = false -> fst (inner o s) = s) -> forall ops s,
  snd (run_ops (ro_run inner) s ops) = map (fun o => if mutating o then Err ResourceReadOnly else snd (inner o s)) ops.
Proof. exact ro_history_outcomes. Qed.
Print Assumptions C04_ro_history_outcomes.

Theorem C04_ro_mem_history_unchanged : forall ops s, fst (run_ops ro_mem_run s ops) = s.
Proof. exact ro_mem_history_unchanged. Qed.
Print Assumptions C04_ro_mem_history_unchanged.

Theorem C04_ro_sub_history_unchanged : forall d ops s, fst (run_ops (ro_sub_run d) s ops) = s.
Proof. exact ro_sub_history_unchanged. Qed.
Print Assumptions C04_ro_sub_history_unchanged.

Theorem C04_ro_ro_mem_history_unchanged : forall ops s, fst (run_ops ro_ro_mem_run s ops) = s.
Proof. exact ro_ro_mem_history_unchanged. Qed.
Print Assumptions C04_ro_ro_mem_history_unchanged.

(* nothing done through the read-only view is visible to any later call on the wrapped filesystem *)
Theorem C04_ro_mem_invisible : forall ops s q, snd (mem_run q (fst (run_ops ro_mem_run s ops))) = snd (mem_run q s).
Proof. exact ro_mem_invisible. Qed.
Print Assumptions C04_ro_mem_invisible.
