(* C04 — Read-only filesystems cannot be modified through any call.
   Table theorems over the dispatch table dumped from the running code on every run
   (Gen/Dispatch_gen.v): class x public method -> implementing class, with the semantic
   classification "mutating" measured on a writable twin. *)
From Coq Require Import List NArith Bool String Ascii.
From PyFS Require Import Gen.Dispatch_gen.
Import ListNotations.

Definition lit (x : string) : list N := List.map N_of_ascii (list_ascii_of_string x).
Fixpoint leq (a b : list N) : bool :=
  match a, b with
  | [], [] => true
  | x :: a', y :: b' => N.eqb x y && leq a' b'
  | _, _ => false
  end.

Definition row := (list N * list N * list N * bool)%type.
Definition r_class (r : row) := fst (fst (fst r)).
Definition r_method (r : row) := snd (fst (fst r)).
Definition r_impl (r : row) := snd (fst r).
Definition r_mut (r : row) := snd r.

(* every mutating method of the read-only wrapper resolves to an implementation that is not
   WrapFS's (which would delegate straight to the wrapped filesystem) *)
Theorem C04_mutators_not_delegated :
  forallb (fun r => negb (leq (r_class r) (lit "WrapReadOnly")) || negb (r_mut r)
                    || negb (leq (r_impl r) (lit "WrapFS"))) dispatch_table = true.
Proof. vm_compute. reflexivity. Qed.
Print Assumptions C04_mutators_not_delegated.

(* the essential mutators of the read-only archive classes are their own (raising) ones *)
Definition essential_mutators := [lit "makedir"; lit "openbin"; lit "remove"; lit "removedir"; lit "setinfo"].
Theorem C04_archive_essentials_own :
  forallb (fun r =>
     negb ((leq (r_class r) (lit "ReadZipFS") || leq (r_class r) (lit "ReadTarFS"))
           && existsb (leq (r_method r)) essential_mutators)
     || leq (r_impl r) (r_class r)) dispatch_table = true.
Proof. vm_compute. reflexivity. Qed.
Print Assumptions C04_archive_essentials_own.

(* non-vacuity: the table has rows for the wrapper and some of them are mutating *)
Theorem C04_table_nonvacuous :
  existsb (fun r => leq (r_class r) (lit "WrapReadOnly") && r_mut r) dispatch_table = true.
Proof. vm_compute. reflexivity. Qed.
Print Assumptions C04_table_nonvacuous.
