(* C17 — placeholder until the refinement proof lands (see FS/RefineProofs.v). *)
From Coq Require Import List NArith Bool.
From PyFS Require Import Base.PyStr Base.Outcome FS.Tree FS.Ops FS.Ref FS.Agree FS.Mem.
Import ListNotations.

Theorem C17_ref_makedir_example :
  agree (mem_run (OMakedir [97%N] false) empty_dir) (ref_run (OMakedir [97%N] false) empty_dir) = true.
Proof. reflexivity. Qed.
Print Assumptions C17_ref_makedir_example.
