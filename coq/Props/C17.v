(* C17 — MountFS and MultiFS route every call by their documented rule. *)
From Coq Require Import List NArith ZArith Bool Arith Lia Permutation Sorting.
From PyFS Require Import Base.PyStr Base.Outcome Path.PathModel Path.PathSpec FS.Tree FS.Monad FS.Mode FS.Base FS.Mem FS.Ops FS.Ref
     FS.Agree FS.Wf FS.TreeLemmas FS.RefineLemmas Route.Route Route.RouteProofs Route.Composite Route.CompositeLemmas.
From PyFS Require Import Route.CompMultiRead Route.CompMultiUnion Route.CompMultiWrite Route.CompMultiWrite2 Route.CompMultiOne Route.CompMount Route.CompMount2 Route.CompMount3 Route.CompositeProofs.
Import ListNotations.

Theorem C17_key_prefix_components :
  forall mc cs, Forall good mc -> Forall good cs ->
  starts_with (key_of mc) (key_of cs) = cprefix mc cs.
Proof. exact key_prefix_components. Qed.
Print Assumptions C17_key_prefix_components.

Theorem C17_mount_key_spec :
  forall p cs, resolve (comps p) = Some cs -> mount_key p = Ok (key_of cs).
Proof. exact mount_key_spec. Qed.
Print Assumptions C17_mount_key_spec.

Theorem C17_mount_key_climbs :
  forall p, resolve (comps p) = None -> mount_key p = Err IllegalBackReference.
Proof. exact mount_key_climbs. Qed.
Print Assumptions C17_mount_key_climbs.

Theorem C17_mount_route :
  forall (ms : list (list str * nat)) p cs,
  Forall (fun m => Forall good (fst m)) ms -> resolve (comps p) = Some cs ->
  mount_delegate (map (fun m => (key_of (fst m), snd m)) ms) p
  = Ok (match route_spec ms cs with
        | Some (i, rest) => Some (i, to_path false rest)
        | None => None
        end).
Proof. exact mount_route. Qed.
Print Assumptions C17_mount_route.

Theorem C17_mount_no_string_prefix :
  forall a b i,
  good a -> good (a ++ b) -> b <> [] ->
  route_spec [([a], i)] [a ++ b] = None.
Proof. exact mount_no_string_prefix. Qed.
Print Assumptions C17_mount_no_string_prefix.

Theorem C17_mount_refuses_inside :
  forall (ms : list (list str * nat)) p cs i,
  Forall (fun m => Forall good (fst m)) ms -> resolve (comps p) = Some cs ->
  mount_add (map (fun m => (key_of (fst m), snd m)) ms) p i
  = Ok (if existsb (fun m => cprefix (fst m) cs) ms then None
        else Some (map (fun m => (key_of (fst m), snd m)) ms ++ [(key_of cs, i)])).
Proof. exact mount_refuses_inside. Qed.
Print Assumptions C17_mount_refuses_inside.

Theorem C17_iterate_fs_perm :
  forall l, Permutation (iterate_fs l) l.
Proof. exact iterate_fs_perm. Qed.
Print Assumptions C17_iterate_fs_perm.

Theorem C17_iterate_fs_sorted :
  forall l,
  NoDup (map m_index l) -> StronglySorted (fun a b => key_gt a b = true) (iterate_fs l).
Proof. exact iterate_fs_sorted. Qed.
Print Assumptions C17_iterate_fs_sorted.

Theorem C17_iterate_fs_head :
  forall l m rest,
  NoDup (map m_index l) -> iterate_fs l = m :: rest ->
  forall x, In x l -> x = m \/ (m_prio x < m_prio m)%Z \/ (m_prio x = m_prio m /\ m_index x < m_index m).
Proof. exact iterate_fs_head. Qed.
Print Assumptions C17_iterate_fs_head.

Theorem C17_multi_delegate_first :
  forall l has i,
  multi_delegate l has = Some i ->
  exists pre m post, iterate_fs l = pre ++ m :: post /\ m_id m = i /\ has i = true
                     /\ Forall (fun x => has (m_id x) = false) pre.
Proof. exact multi_delegate_first. Qed.
Print Assumptions C17_multi_delegate_first.

Theorem C17_multi_delegate_none :
  forall l has,
  multi_delegate l has = None <-> Forall (fun x => has (m_id x) = false) l.
Proof. exact multi_delegate_none. Qed.
Print Assumptions C17_multi_delegate_none.

Theorem C17_dedup_add_nodup :
  forall seen names, NoDup seen -> NoDup (dedup_add seen names).
Proof. exact RouteProofs.dedup_add_nodup. Qed.
Print Assumptions C17_dedup_add_nodup.

Theorem C17_dedup_add_in :
  forall seen names n, In n (dedup_add seen names) <-> In n seen \/ In n names.
Proof. exact dedup_add_in. Qed.
Print Assumptions C17_dedup_add_in.

(* ---- state models of MultiFS and MountFS over the MemoryFS model (Route/Composite*.v), tied to the real classes
   call by call (outcome and every member tree) on every run ---- *)

(* ---- Route/CompMultiRead.v ---- *)
Theorem C17_delegate_first_holder : forall st p cs, mwf st = true -> rpath p = inl cs ->
  delegate_in (order st) p st = Ok (holder st cs).
Proof. exact delegate_first_holder. Qed.
Print Assumptions C17_delegate_first_holder.

Theorem C17_delegate_bad_path : forall st p adm, mwf st = true -> st <> [] -> rpath p = inr adm ->
  delegate_in (order st) p st = Err (bad_err p).
Proof. exact delegate_bad_path. Qed.
Print Assumptions C17_delegate_bad_path.

Theorem C17_holder_is_multi_delegate : forall st cs,
  holder st cs = multi_delegate (members_of st) (fun i => has st i cs).
Proof. exact holder_is_multi_delegate. Qed.
Print Assumptions C17_holder_is_multi_delegate.

Theorem C17_holder_highest : forall st cs i ci ti, mwf st = true -> holder st cs = Some i -> nth_error st i = Some (ci, ti) ->
  has st i cs = true /\
  forall j cj tj, nth_error st j = Some (cj, tj) -> has st j cs = true -> j = i \/ key_gt (cm ci) (cm cj) = true.
Proof. exact holder_highest. Qed.
Print Assumptions C17_holder_highest.

Theorem C17_holder_none : forall st cs, mwf st = true -> (holder st cs = None <-> forall j, j < length st -> has st j cs = false).
Proof. exact holder_none. Qed.
Print Assumptions C17_holder_none.

Theorem C17_multi_read_rule : forall o p cs st, mwf st = true -> query_path o = Some p -> rpath p = inl cs ->
  multi_run o st = (st, match holder st cs with
                        | Some i => snd (mem_run o (tree_at st i))
                        | None => notfound o
                        end).
Proof. exact multi_read_rule. Qed.
Print Assumptions C17_multi_read_rule.

Theorem C17_multi_read_bad_path : forall o p adm st, mwf st = true -> st <> [] -> query_path o = Some p -> rpath p = inr adm ->
  multi_run o st = (st, Err (bad_err p)).
Proof. exact multi_read_bad_path. Qed.
Print Assumptions C17_multi_read_bad_path.

Theorem C17_multi_listdir_spec : forall p cs st, mwf st = true -> rpath p = inl cs ->
  multi_run (OListdir p) st = (st, listing_of st cs (fun ids => VNames (dedup_add [] (concat (map (dir_keys st cs) ids))))).
Proof. exact multi_listdir_spec. Qed.
Print Assumptions C17_multi_listdir_spec.

Theorem C17_multi_scandir_spec : forall p cs st, mwf st = true -> rpath p = inl cs ->
  multi_run (OScandir p) st = (st, listing_of st cs (fun ids => VInfos (dedup_infos [] (concat (map (dir_infos st cs) ids))))).
Proof. exact multi_scandir_spec. Qed.
Print Assumptions C17_multi_scandir_spec.

Theorem C17_multi_isempty_spec : forall p cs st, mwf st = true -> rpath p = inl cs ->
  multi_run (OIsempty p) st = (st, listing_of st cs (fun ids => VBool (match concat (map (dir_infos st cs) ids) with [] => true | _ => false end))).
Proof. exact multi_isempty_spec. Qed.
Print Assumptions C17_multi_isempty_spec.

Theorem C17_multi_listdir_nodup_complete : forall p cs st l, mwf st = true -> rpath p = inl cs ->
  snd (multi_run (OListdir p) st) = Ok (VNames l) ->
  NoDup l /\ forall n, In n l <-> exists j, In j (order st) /\ In n (dir_keys st cs j).
Proof. exact multi_listdir_nodup_complete. Qed.
Print Assumptions C17_multi_listdir_nodup_complete.

Theorem C17_multi_scandir_page_slice : forall p s e st,
  multi_scandir_page p (Some (s, e)) st = (st, omap (fun l => firstn (e - s) (skipn s l)) (snd (multi_scandir p st))).
Proof. exact multi_scandir_page_slice. Qed.
Print Assumptions C17_multi_scandir_page_slice.

Theorem C17_lookup_union2 : forall hi lo cs, wf_node hi -> wf_node lo -> compat hi lo = true ->
  lookup (union2 hi lo) cs =
  match lookup hi cs, lookup lo cs with
  | Some h, Some l => Some (union2 h l)
  | Some h, None => Some h
  | None, o => o
  end.
Proof. exact lookup_union2. Qed.
Print Assumptions C17_lookup_union2.

Theorem C17_multi_read_is_union : forall o p cs st a b, mwf st = true -> order st = [a; b] ->
  compat (tree_at st a) (tree_at st b) = true -> query_path o = Some p -> rpath p = inl cs ->
  snd (multi_run o st) = snd (mem_run o (union st)).
Proof. exact multi_read_is_union. Qed.
Print Assumptions C17_multi_read_is_union.

(* ---- Route/CompMultiUnion.v ---- *)
Theorem C17_lookup_union_list_first : forall ts cs, pairwise compat ts = true -> Forall (fun t => is_dir t = true) ts ->
  ts <> [] \/ cs <> [] ->
  match find (fun t => match lookup t cs with Some _ => true | None => false end) ts with
  | None => lookup (union_list ts) cs = None
  | Some t => match lookup t cs with
              | Some (File d m) => lookup (union_list ts) cs = Some (File d m)
              | Some (Dir _ m) => exists ents, lookup (union_list ts) cs = Some (Dir ents m)
              | None => False
              end
  end.
Proof. exact lookup_union_list_first. Qed.
Print Assumptions C17_lookup_union_list_first.

Theorem C17_multi_read_is_union_all : forall o p cs st, mwf st = true -> st <> [] ->
  pairwise compat (map (tree_at st) (order st)) = true -> Forall (fun t => is_dir t = true) (map (tree_at st) (order st)) ->
  query_path o = Some p -> rpath p = inl cs ->
  multi_run o st = (st, snd (mem_run o (union st))).
Proof. exact multi_read_is_union_all. Qed.
Print Assumptions C17_multi_read_is_union_all.

Theorem C17_multi_read_refines_union : forall o p cs st, mwf st = true -> st <> [] ->
  pairwise compat (map (tree_at st) (order st)) = true -> Forall (fun t => is_dir t = true) (map (tree_at st) (order st)) ->
  query_path o = Some p -> rpath p = inl cs -> wf (union st) ->
  res_agree (snd (multi_run o st)) (rs_res (ref_run o (union st))) = true.
Proof. exact multi_read_refines_union. Qed.
Print Assumptions C17_multi_read_refines_union.

Theorem C17_multi_listdir_is_union : forall p cs st, mwf st = true -> st <> [] ->
  pairwise compat (map (tree_at st) (order st)) = true -> Forall (fun t => is_dir t = true) (map (tree_at st) (order st)) ->
  rpath p = inl cs -> Forall wf_node (map (tree_at st) (order st)) ->
  multi_run (OListdir p) st = (st, snd (mem_run (OListdir p) (union st))).
Proof. exact multi_listdir_is_union. Qed.
Print Assumptions C17_multi_listdir_is_union.

Theorem C17_multi_isempty_is_union : forall p cs st, mwf st = true -> st <> [] ->
  pairwise compat (map (tree_at st) (order st)) = true -> Forall (fun t => is_dir t = true) (map (tree_at st) (order st)) ->
  rpath p = inl cs -> Forall wf_node (map (tree_at st) (order st)) ->
  multi_run (OIsempty p) st = (st, snd (mem_run (OIsempty p) (union st))).
Proof. exact multi_isempty_is_union. Qed.
Print Assumptions C17_multi_isempty_is_union.

(* ---- Route/CompMultiWrite.v ---- *)
Theorem C17_multi_direct_write : forall o st w, write_index st = Some w -> direct_write o = true ->
  multi_run o st = on_nth w (mem_run o) st.
Proof. exact multi_direct_write. Qed.
Print Assumptions C17_multi_direct_write.

Theorem C17_multi_readonly : forall o st, write_index st = None -> direct_write o = true ->
  multi_run o st = (st, Err ResourceReadOnly).
Proof. exact multi_readonly. Qed.
Print Assumptions C17_multi_readonly.

Theorem C17_multi_remove_first_holder : forall p cs st, mwf st = true -> rpath p = inl cs ->
  multi_run (ORemove p) st = match holder st cs with
                             | Some i => on_nth i (mem_run (ORemove p)) st
                             | None => (st, Err ResourceNotFound)
                             end.
Proof. exact multi_remove_first_holder. Qed.
Print Assumptions C17_multi_remove_first_holder.

Theorem C17_multi_removedir_first_holder : forall p cs st, mwf st = true -> rpath p = inl cs ->
  multi_run (ORemovedir p) st = match holder st cs with
                                | Some i => on_nth i (mem_run (ORemovedir p)) st
                                | None => (st, Err ResourceNotFound)
                                end.
Proof. exact multi_removedir_first_holder. Qed.
Print Assumptions C17_multi_removedir_first_holder.

Theorem C17_multi_create_alone : forall p cs wipe st w, mwf st = true -> write_index st = Some w -> rpath p = inl cs ->
  (forall i, i <> w -> has st i cs = false) ->
  multi_run (OCreate p wipe) st = on_nth w (mem_run (OCreate p wipe)) st.
Proof. exact multi_create_alone. Qed.
Print Assumptions C17_multi_create_alone.

Theorem C17_multi_touch_alone : forall p cs st w, mwf st = true -> write_index st = Some w -> rpath p = inl cs ->
  (forall i, i <> w -> has st i cs = false) ->
  multi_run (OTouch p) st = on_nth w (mem_run (OTouch p)) st.
Proof. exact multi_touch_alone. Qed.
Print Assumptions C17_multi_touch_alone.

Theorem C17_multi_setinfo_lower_only : forall p cs mt st w, write_index st = Some w -> w < length st -> rpath p = inl cs ->
  has st w cs = false -> multi_run (OSetinfo p mt) st = (st, Err ResourceNotFound).
Proof. exact multi_setinfo_lower_only. Qed.
Print Assumptions C17_multi_setinfo_lower_only.

Theorem C17_multi_touch_lower_only : forall p cs st w i, mwf st = true -> write_index st = Some w -> rpath p = inl cs ->
  holder st cs = Some i -> has st w cs = false -> multi_run (OTouch p) st = (st, Err ResourceNotFound).
Proof. exact multi_touch_lower_only. Qed.
Print Assumptions C17_multi_touch_lower_only.

Theorem C17_multi_makedir_parent_lower_only : forall p d c r st w, write_index st = Some w -> w < length st ->
  rpath p = inl (d ++ [c]) -> lookup (tree_at st w) d = None ->
  multi_run (OMakedir p r) st = (st, Err ResourceNotFound).
Proof. exact multi_makedir_parent_lower_only. Qed.
Print Assumptions C17_multi_makedir_parent_lower_only.

Theorem C17_multi_frame : forall o st, removing o = false -> frame_but (write_index st) st (fst (multi_run o st)).
Proof. exact multi_frame. Qed.
Print Assumptions C17_multi_frame.

Theorem C17_multi_no_write_member_unchanged : forall o st, write_index st = None -> removing o = false ->
  map snd (fst (multi_run o st)) = map snd st.
Proof. exact multi_no_write_member_unchanged. Qed.
Print Assumptions C17_multi_no_write_member_unchanged.

(* ---- Route/CompMultiWrite2.v ---- *)
Theorem C17_multi_remove_frame : forall p cs st, mwf st = true -> rpath p = inl cs ->
  frame_but (holder st cs) st (fst (multi_run (ORemove p) st)).
Proof. exact multi_remove_frame. Qed.
Print Assumptions C17_multi_remove_frame.

Theorem C17_multi_removedir_frame : forall p cs st, mwf st = true -> rpath p = inl cs ->
  frame_but (holder st cs) st (fst (multi_run (ORemovedir p) st)).
Proof. exact multi_removedir_frame. Qed.
Print Assumptions C17_multi_removedir_frame.

Theorem C17_multi_copy_alone : forall s d ov pt cs cd st w, mwf st = true -> write_index st = Some w ->
  rpath s = inl cs -> rpath d = inl cd ->
  (forall i, i <> w -> has st i cs = false /\ has st i cd = false) ->
  multi_run (OCopy s d ov pt) st = on_nth w (mem_run (OCopy s d ov pt)) st.
Proof. exact multi_copy_alone. Qed.
Print Assumptions C17_multi_copy_alone.

Theorem C17_multi_move_alone : forall s d ov pt cs cd st w, mwf st = true -> write_index st = Some w ->
  rpath s = inl cs -> rpath d = inl cd ->
  (forall i, i <> w -> has st i cs = false /\ has st i cd = false) ->
  multi_run (OMove s d ov pt) st = on_nth w (vmap (fun _ => VUnit) (b_move mem_low s d ov pt)) st.
Proof. exact multi_move_alone. Qed.
Print Assumptions C17_multi_move_alone.

Theorem C17_multi_copy_up : forall s d pt cs cd st w i data mt, mwf st = true -> write_index st = Some w -> w <> i ->
  rpath s = inl cs -> rpath d = inl cd -> cd <> [] -> cs <> [] -> path_eqb cs cd = false ->
  holder st cs = Some i -> lookup (tree_at st i) cs = Some (File data mt) ->
  wf (tree_at st w) ->
  (exists ents m, lookup (tree_at st w) (removelast cd) = Some (Dir ents m)) ->
  (match lookup (tree_at st w) cd with Some (Dir _ _) => False | _ => True end) ->
  let r := multi_run (OCopy s d true pt) st in
  snd r = Ok VUnit /\ (exists m', lookup (tree_at (fst r) w) cd = Some (File data m')) /\
  (forall k, k <> w -> tree_at (fst r) k = tree_at st k).
Proof. exact multi_copy_up. Qed.
Print Assumptions C17_multi_copy_up.

Theorem C17_multi_same_members : forall o st, same_members st (fst (multi_run o st)).
Proof. exact multi_same_members. Qed.
Print Assumptions C17_multi_same_members.

(* ---- Route/CompMultiOne.v ---- *)
Theorem C17_multi_one_refines : forall o c t, cm_write c = true -> m_id (cm c) = 0 -> wf t -> one_exact o = true ->
  multi_run o [(c, t)] = lift1 c (mem_run o t).
Proof. exact multi_one_refines. Qed.
Print Assumptions C17_multi_one_refines.

Theorem C17_multi_one_refines_ref : forall o c t, cm_write c = true -> m_id (cm c) = 0 -> wf t -> one_exact o = true -> covered o = true ->
  agree (tree_at (fst (multi_run o [(c, t)])) 0, snd (multi_run o [(c, t)])) (ref_run o t) = true.
Proof. exact multi_one_refines_ref. Qed.
Print Assumptions C17_multi_one_refines_ref.

Theorem C17_multi_one_removetree_leaf : forall p c t, cm_write c = true -> m_id (cm c) = 0 -> wf t ->
  removetree_leaf p t = true ->
  multi_run (ORemovetree p) [(c, t)] = lift1 c (mem_run (ORemovetree p) t).
Proof. exact multi_one_removetree_leaf. Qed.
Print Assumptions C17_multi_one_removetree_leaf.

(* ---- Route/CompMount.v ---- *)
Theorem C17_mount_delegation : forall o p st i rel, mount_direct o = Some p ->
  mount_delegate (mounts_of st) p = Ok (Some (i, rel)) ->
  mount_run o st = on_mount i (mem_run (with_path o rel)) st.
Proof. exact mount_delegation. Qed.
Print Assumptions C17_mount_delegation.

Theorem C17_mount_default : forall o p st, mount_direct o = Some p -> mount_delegate (mounts_of st) p = Ok None ->
  mount_run o st = on_default (mem_run o) st.
Proof. exact mount_default. Qed.
Print Assumptions C17_mount_default.

Theorem C17_mount_bad_path : forall o p st e, mount_direct o = Some p -> mount_delegate (mounts_of st) p = Err e ->
  mount_run o st = (st, Err e).
Proof. exact mount_bad_path. Qed.
Print Assumptions C17_mount_bad_path.

Theorem C17_mount_getinfo_member : forall p st i rel, mount_delegate (mounts_of st) p = Ok (Some (i, rel)) ->
  mount_run (OGetinfo p) st = on_mount i (vmap (fun x => VInfo (mount_point_name p rel x)) (mem_getinfo rel)) st.
Proof. exact mount_getinfo_member. Qed.
Print Assumptions C17_mount_getinfo_member.

Theorem C17_mount_getinfo_default : forall p st, mount_delegate (mounts_of st) p = Ok None ->
  mount_run (OGetinfo p) st = on_default (mem_run (OGetinfo p)) st.
Proof. exact mount_getinfo_default. Qed.
Print Assumptions C17_mount_getinfo_default.

Theorem C17_mount_getinfo_bad_path : forall p st e, mount_delegate (mounts_of st) p = Err e -> mount_run (OGetinfo p) st = (st, Err e).
Proof. exact mount_getinfo_bad_path. Qed.
Print Assumptions C17_mount_getinfo_bad_path.

Theorem C17_mount_point_name_spec : forall p cs rel x, resolve (comps p) = Some cs -> cs <> [] ->
  (is_empty rel || str_eqb rel s_slash) = true ->
  mount_point_name p rel x = rename_info x (last cs []).
Proof. exact mount_point_name_spec. Qed.
Print Assumptions C17_mount_point_name_spec.

Theorem C17_mount_point_name_below : forall p rel x, (is_empty rel || str_eqb rel s_slash) = false -> mount_point_name p rel x = x.
Proof. exact mount_point_name_below. Qed.
Print Assumptions C17_mount_point_name_below.

Theorem C17_mount_frame_member : forall o p st i rel, mount_direct o = Some p ->
  mount_delegate (mounts_of st) p = Ok (Some (i, rel)) ->
  t_default (fst (mount_run o st)) = t_default st /\
  map fst (t_mounts (fst (mount_run o st))) = map fst (t_mounts st) /\
  forall j, j <> i -> mount_tree (fst (mount_run o st)) j = mount_tree st j.
Proof. exact mount_frame_member. Qed.
Print Assumptions C17_mount_frame_member.

Theorem C17_mount_frame_default : forall o p st, mount_direct o = Some p -> mount_delegate (mounts_of st) p = Ok None ->
  t_mounts (fst (mount_run o st)) = t_mounts st.
Proof. exact mount_frame_default. Qed.
Print Assumptions C17_mount_frame_default.

Theorem C17_mount_removedir_root : forall p n st, normpath p = Ok n -> (is_empty n || str_eqb n s_slash) = true ->
  mount_run (ORemovedir p) st = (st, Err RemoveRootError).
Proof. exact mount_removedir_root. Qed.
Print Assumptions C17_mount_removedir_root.

Theorem C17_mount_removedir_delegation : forall p n st i rel, normpath p = Ok n -> (is_empty n || str_eqb n s_slash) = false ->
  mount_delegate (mounts_of st) n = Ok (Some (i, rel)) ->
  mount_run (ORemovedir p) st = on_mount i (mem_run (ORemovedir rel)) st.
Proof. exact mount_removedir_delegation. Qed.
Print Assumptions C17_mount_removedir_delegation.

Theorem C17_mount_point_is_dir : forall path t st st', mount_mount path t st = (st', Ok tt) ->
  exists k, mount_key path = Ok k /\ t_mounts st' = t_mounts st ++ [(k, t)] /\ snd (mem_isdir k (t_default st')) = Ok true.
Proof. exact mount_point_is_dir. Qed.
Print Assumptions C17_mount_point_is_dir.

Theorem C17_mount_refused_inside : forall path t st k, mount_key path = Ok k -> mount_overlaps (mounts_of st) k = true ->
  mount_mount path t st = (st, Crash OtherException).
Proof. exact mount_refused_inside. Qed.
Print Assumptions C17_mount_refused_inside.

Theorem C17_mount_refused_inside_components : forall path t st (mcs : list (list str)) cs,
  map fst (t_mounts st) = map key_of mcs -> Forall (Forall good) mcs -> resolve (comps path) = Some cs ->
  existsb (fun mc => cprefix mc cs) mcs = true -> mount_mount path t st = (st, Crash OtherException).
Proof. exact mount_refused_inside_components. Qed.
Print Assumptions C17_mount_refused_inside_components.

Theorem C17_mount_route_member : forall o p st (mcs : list (list str)) cs, mount_direct o = Some p ->
  map fst (t_mounts st) = map key_of mcs -> Forall (Forall good) mcs -> resolve (comps p) = Some cs ->
  mount_run o st =
  match route_spec (List.combine mcs (seq 0 (length mcs))) cs with
  | Some (i, rest) => on_mount i (mem_run (with_path o (to_path false rest))) st
  | None => on_default (mem_run o) st
  end.
Proof. exact mount_route_member. Qed.
Print Assumptions C17_mount_route_member.

Theorem C17_mount_delegation_derived : forall o p st i rel, mount_derived o = Some p ->
  mount_delegate (mounts_of st) p = Ok (Some (i, rel)) -> i < length (t_mounts st) ->
  mount_run o st = on_mount i (mem_run (with_path o rel)) st.
Proof. exact mount_delegation_derived. Qed.
Print Assumptions C17_mount_delegation_derived.

Theorem C17_mount_default_derived : forall o p st, mount_derived o = Some p -> mount_derived_noscan o = true ->
  mount_delegate (mounts_of st) p = Ok None ->
  mount_run o st = on_default (mem_run o) st.
Proof. exact mount_default_derived. Qed.
Print Assumptions C17_mount_default_derived.

Theorem C17_mount_scandir_member : forall p st i rel, mount_delegate (mounts_of st) p = Ok (Some (i, rel)) ->
  mount_run (OScandir p) st = on_mount i (mem_run (OScandir rel)) st.
Proof. exact mount_scandir_member. Qed.
Print Assumptions C17_mount_scandir_member.

Theorem C17_mount_scandir_default : forall p st d, mount_delegate (mounts_of st) p = Ok None -> mount_key p = Ok d ->
  mount_run (OScandir p) st = (st, omap VInfos (default_listing st p d)).
Proof. exact mount_scandir_default. Qed.
Print Assumptions C17_mount_scandir_default.

Theorem C17_mount_scandir_bad_path : forall p st e, mount_delegate (mounts_of st) p = Err e -> mount_run (OScandir p) st = (st, Err e).
Proof. exact mount_scandir_bad_path. Qed.
Print Assumptions C17_mount_scandir_bad_path.

Theorem C17_mount_isempty_default : forall p st d, mount_delegate (mounts_of st) p = Ok None -> mount_key p = Ok d ->
  mount_run (OIsempty p) st = (st, omap (fun l => VBool (match l with [] => true | _ => false end)) (default_listing st p d)).
Proof. exact mount_isempty_default. Qed.
Print Assumptions C17_mount_isempty_default.

Theorem C17_mount_scandir_plain_entry : forall st d i, (i_isdir i && is_mount_key st (forcedir (d ++ i_name i))) = false -> point_info st d i = Ok i.
Proof. exact mount_scandir_plain_entry. Qed.
Print Assumptions C17_mount_scandir_plain_entry.

Theorem C17_mount_scandir_point_entry : forall st d i, (i_isdir i && is_mount_key st (forcedir (d ++ i_name i))) = true ->
  omap VInfo (point_info st d i) = snd (mount_run (OGetinfo (d ++ i_name i)) st).
Proof. exact mount_scandir_point_entry. Qed.
Print Assumptions C17_mount_scandir_point_entry.

Theorem C17_mount_copy_within : forall s d ov pt st i rs rd, mount_keys_ok st = true -> i < length (t_mounts st) ->
  mount_delegate (mounts_of st) s = Ok (Some (i, rs)) -> mount_delegate (mounts_of st) d = Ok (Some (i, rd)) ->
  mount_run (OCopy s d ov pt) st = on_mount i (mem_run (OCopy rs rd ov pt)) st.
Proof. exact mount_copy_within. Qed.
Print Assumptions C17_mount_copy_within.

(* ---- Route/CompMount2.v ---- *)
Theorem C17_mount_move_within : forall s d ov pt st i rs rd, mount_keys_ok st = true -> i < length (t_mounts st) ->
  mount_delegate (mounts_of st) s = Ok (Some (i, rs)) -> mount_delegate (mounts_of st) d = Ok (Some (i, rd)) ->
  mount_run (OMove s d ov pt) st = on_mount i (vmap (fun _ => VUnit) (b_move mem_low rs rd ov pt)) st.
Proof. exact mount_move_within. Qed.
Print Assumptions C17_mount_move_within.

Theorem C17_mount_frame_within : forall o s d ov pt st i rs rd, (o = OMove s d ov pt \/ o = OCopy s d ov pt) ->
  mount_keys_ok st = true -> i < length (t_mounts st) ->
  mount_delegate (mounts_of st) s = Ok (Some (i, rs)) -> mount_delegate (mounts_of st) d = Ok (Some (i, rd)) ->
  t_default (fst (mount_run o st)) = t_default st /\ map fst (t_mounts (fst (mount_run o st))) = map fst (t_mounts st) /\
  forall j, j <> i -> mount_tree (fst (mount_run o st)) j = mount_tree st j.
Proof. exact mount_frame_within. Qed.
Print Assumptions C17_mount_frame_within.

Theorem C17_mount_copy_across : forall s d ov pt st i j rs rd cs cd data mt, mount_keys_ok st = true ->
  i < List.length (t_mounts st) -> j < List.length (t_mounts st) -> i <> j ->
  mount_delegate (mounts_of st) s = Ok (Some (i, rs)) -> mount_delegate (mounts_of st) d = Ok (Some (j, rd)) ->
  rpath rs = inl cs -> rpath rd = inl cd -> wf (mount_tree st i) -> wf (mount_tree st j) ->
  lookup (mount_tree st i) cs = Some (File data mt) ->
  cd <> [] -> (exists ents m, lookup (mount_tree st j) (removelast cd) = Some (Dir ents m)) ->
  (match lookup (mount_tree st j) cd with None => True | Some (File _ _) => ov = true | Some (Dir _ _) => False end) ->
  let r := mount_run (OCopy s d ov pt) st in
  snd r = Ok VUnit /\
  (exists m', lookup (mount_tree (fst r) j) cd = Some (File data m')) /\
  mount_tree (fst r) i = mount_tree st i /\ t_default (fst r) = t_default st /\
  (forall k, k <> j -> mount_tree (fst r) k = mount_tree st k) /\
  (forall q, list_prefix cd q = false -> list_prefix q cd = false ->
             lookup (mount_tree (fst r) j) q = lookup (mount_tree st j) q).
Proof. exact mount_copy_across. Qed.
Print Assumptions C17_mount_copy_across.

Theorem C17_mount_move_across : forall s d ov pt st i j rs rd cs cd data mt, mount_keys_ok st = true ->
  i < List.length (t_mounts st) -> j < List.length (t_mounts st) -> i <> j ->
  mount_delegate (mounts_of st) s = Ok (Some (i, rs)) -> mount_delegate (mounts_of st) d = Ok (Some (j, rd)) ->
  rpath rs = inl cs -> rpath rd = inl cd -> wf (mount_tree st i) -> wf (mount_tree st j) ->
  lookup (mount_tree st i) cs = Some (File data mt) ->
  cd <> [] -> (exists ents m, lookup (mount_tree st j) (removelast cd) = Some (Dir ents m)) ->
  (match lookup (mount_tree st j) cd with None => True | Some (File _ _) => ov = true | Some (Dir _ _) => False end) ->
  let r := mount_run (OMove s d ov pt) st in
  snd r = Ok VUnit /\ (exists m', lookup (mount_tree (fst r) j) cd = Some (File data m')) /\
  lookup (mount_tree (fst r) i) cs = None /\ t_default (fst r) = t_default st /\
  (forall k, k <> j -> k <> i -> mount_tree (fst r) k = mount_tree st k).
Proof. exact mount_move_across. Qed.
Print Assumptions C17_mount_move_across.

(* ---- Route/CompMount3.v ---- *)
Theorem C17_mount_query_pure : forall o st, mount_query o = true -> fst (mount_run o st) = st.
Proof. exact mount_query_pure. Qed.
Print Assumptions C17_mount_query_pure.

Theorem C17_multi_query_pure : forall o st, mount_query o = true -> fst (multi_run o st) = st.
Proof. exact multi_query_pure. Qed.
Print Assumptions C17_multi_query_pure.

Theorem C17_mount_same_keys : forall o st, map fst (t_mounts (fst (mount_run o st))) = map fst (t_mounts st).
Proof. exact mount_same_keys. Qed.
Print Assumptions C17_mount_same_keys.

