(* C17 — MountFS and MultiFS route every call by their documented rule. *)
From Coq Require Import List NArith ZArith Bool Arith Lia Sorting Permutation.
From PyFS Require Import Base.PyStr Base.Outcome Path.PathModel Path.PathSpec Route.Route Route.RouteProofs.
Import ListNotations.

Theorem C17_key_prefix_components :
  forall mc cs, Forall good mc -> Forall good cs ->
  starts_with (key_of mc) (key_of cs) = cprefix mc cs.
Proof. exact key_prefix_components. Qed.
Print Assumptions C17_key_prefix_components.

Theorem C17_mount_key_spec :
  forall p cs, resolve (comps p) = Some cs -> mount_key p = Ok (key_of cs).
Proof. exact mount_key_spec. Qed.
Print Assumptions C17_mount_key_spec.

Theorem C17_mount_key_climbs :
  forall p, resolve (comps p) = None -> mount_key p = Err IllegalBackReference.
Proof. exact mount_key_climbs. Qed.
Print Assumptions C17_mount_key_climbs.

Theorem C17_mount_route :
  forall (ms : list (list str * nat)) p cs,
  Forall (fun m => Forall good (fst m)) ms -> resolve (comps p) = Some cs ->
  mount_delegate (map (fun m => (key_of (fst m), snd m)) ms) p
  = Ok (match route_spec ms cs with
        | Some (i, rest) => Some (i, to_path false rest)
        | None => None
        end).
Proof. exact mount_route. Qed.
Print Assumptions C17_mount_route.

Theorem C17_mount_no_string_prefix :
  forall a b i,
  good a -> good (a ++ b) -> b <> [] ->
  route_spec [([a], i)] [a ++ b] = None.
Proof. exact mount_no_string_prefix. Qed.
Print Assumptions C17_mount_no_string_prefix.

Theorem C17_mount_refuses_inside :
  forall (ms : list (list str * nat)) p cs i,
  Forall (fun m => Forall good (fst m)) ms -> resolve (comps p) = Some cs ->
  mount_add (map (fun m => (key_of (fst m), snd m)) ms) p i
  = Ok (if existsb (fun m => cprefix (fst m) cs) ms then None
        else Some (map (fun m => (key_of (fst m), snd m)) ms ++ [(key_of cs, i)])).
Proof. exact mount_refuses_inside. Qed.
Print Assumptions C17_mount_refuses_inside.

Theorem C17_iterate_fs_perm :
  forall l, Permutation (iterate_fs l) l.
Proof. exact iterate_fs_perm. Qed.
Print Assumptions C17_iterate_fs_perm.

Theorem C17_iterate_fs_sorted :
  forall l,
  NoDup (map m_index l) -> StronglySorted (fun a b => key_gt a b = true) (iterate_fs l).
Proof. exact iterate_fs_sorted. Qed.
Print Assumptions C17_iterate_fs_sorted.

Theorem C17_iterate_fs_head :
  forall l m rest,
  NoDup (map m_index l) -> iterate_fs l = m :: rest ->
  forall x, In x l -> x = m \/ (m_prio x < m_prio m)%Z \/ (m_prio x = m_prio m /\ m_index x < m_index m).
Proof. exact iterate_fs_head. Qed.
Print Assumptions C17_iterate_fs_head.

Theorem C17_multi_delegate_first :
  forall l has i,
  multi_delegate l has = Some i ->
  exists pre m post, iterate_fs l = pre ++ m :: post /\ m_id m = i /\ has i = true
                     /\ Forall (fun x => has (m_id x) = false) pre.
Proof. exact multi_delegate_first. Qed.
Print Assumptions C17_multi_delegate_first.

Theorem C17_multi_delegate_none :
  forall l has,
  multi_delegate l has = None <-> Forall (fun x => has (m_id x) = false) l.
Proof. exact multi_delegate_none. Qed.
Print Assumptions C17_multi_delegate_none.

Theorem C17_dedup_add_nodup :
  forall seen names, NoDup seen -> NoDup (dedup_add seen names).
Proof. exact dedup_add_nodup. Qed.
Print Assumptions C17_dedup_add_nodup.

Theorem C17_dedup_add_in :
  forall seen names n, In n (dedup_add seen names) <-> In n seen \/ In n names.
Proof. exact dedup_add_in. Qed.
Print Assumptions C17_dedup_add_in.
