(* C03 — placeholder until Sandbox/SandboxProofs.v lands. *)
From Coq Require Import List NArith Bool.
From PyFS Require Import Base.PyStr Base.Outcome Path.PathModel Sandbox.Sandbox.
Import ListNotations.
Theorem C03_escape_example : osfs_syspath [] [dot; dot; slash; 120%N] = Err IllegalBackReference.
Proof. reflexivity. Qed.
Print Assumptions C03_escape_example.
