(* C03 — No path argument escapes a filesystem's root (sandboxing).
   For every string: what OSFS hands to the operating system is the root extended by whole,
   clean components; what a SubFS (at any nesting depth) hands to its parent lies below its
   sub-directory; otherwise IllegalBackReference. MountFS routing is C17. *)
From Coq Require Import List NArith Bool Arith.
From PyFS Require Import Base.PyStr Base.Outcome Path.PathModel Path.PathSpec Sandbox.Sandbox Sandbox.SandboxProofs.
Import ListNotations.

Theorem C03_validate_spec :
  forall p,
  validate p = match resolve (comps p) with
               | Some cs => Ok (to_path true cs)
               | None => Err IllegalBackReference
               end.
Proof. exact validate_spec. Qed.
Print Assumptions C03_validate_spec.

Theorem C03_validate_components_good :
  forall p q, validate p = Ok q ->
  exists cs, Forall good cs /\ q = to_path true cs.
Proof. exact validate_components_good. Qed.
Print Assumptions C03_validate_components_good.

Theorem C03_osfs_syspath_inside :
  forall root p sc,
  osfs_syspath root p = Ok sc ->
  exists cs, Forall good cs /\ sc = root ++ cs /\ resolve (comps p) = Some cs.
Proof. exact osfs_syspath_inside. Qed.
Print Assumptions C03_osfs_syspath_inside.

Theorem C03_osfs_syspath_escape_rejected :
  forall root p,
  resolve (comps p) = None -> osfs_syspath root p = Err IllegalBackReference.
Proof. exact osfs_syspath_escape_rejected. Qed.
Print Assumptions C03_osfs_syspath_escape_rejected.

Theorem C03_subfs_inside :
  forall sub p q,
  Forall good sub ->
  subfs_delegate (to_path true sub) p = Ok q ->
  exists cs, Forall good cs /\ q = to_path true (sub ++ cs) /\ resolve (comps p) = Some cs.
Proof. exact subfs_inside. Qed.
Print Assumptions C03_subfs_inside.

Theorem C03_subfs_escape_rejected :
  forall sub p,
  Forall good sub -> resolve (comps p) = None ->
  subfs_delegate (to_path true sub) p = Err IllegalBackReference.
Proof. exact subfs_escape_rejected. Qed.
Print Assumptions C03_subfs_escape_rejected.

Theorem C03_subfs_nested_inside :
  forall (subs : list (list str)) p q,
  subs <> [] ->
  Forall (Forall good) subs ->
  nested_delegate (map (to_path true) subs) p = Ok q ->
  exists cs, Forall good cs /\ q = to_path true (concat (rev subs) ++ cs)
             /\ resolve (comps p) = Some cs.
Proof. exact subfs_nested_inside. Qed.
Print Assumptions C03_subfs_nested_inside.

Theorem C03_subfs_nested_inside_validated :
  forall (subs : list (list str)) p0 p q,
  Forall (Forall good) subs ->
  validate p0 = Ok p ->
  nested_delegate (map (to_path true) subs) p = Ok q ->
  exists cs, Forall good cs /\ q = to_path true (concat (rev subs) ++ cs)
             /\ resolve (comps p0) = Some cs.
Proof. exact subfs_nested_inside_validated. Qed.
Print Assumptions C03_subfs_nested_inside_validated.

Theorem C03_subfs_nested_escape_rejected :
  forall (subs : list (list str)) p,
  subs <> [] -> Forall (Forall good) subs -> resolve (comps p) = None ->
  nested_delegate (map (to_path true) subs) p = Err IllegalBackReference.
Proof. exact subfs_nested_escape_rejected. Qed.
Print Assumptions C03_subfs_nested_escape_rejected.

Theorem C03_subfs_never_reaches_sibling :
  forall sub other p q,
  Forall good sub -> Forall good other -> cprefix sub other = false -> cprefix other sub = false ->
  subfs_delegate (to_path true sub) p = Ok q ->
  forall qc, q = to_path true qc -> Forall good qc -> cprefix other qc = false.
Proof. exact subfs_never_reaches_sibling. Qed.
Print Assumptions C03_subfs_never_reaches_sibling.
