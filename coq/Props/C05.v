(* C05 — Move, copy and recursive remove never destroy unrelated data (reference semantics and MemoryFS model: move, copy, removetree, movedir onto a fresh destination; copydir and movedir with directory merges - success or failure - in every non-degenerate case, on NUL-free states). *)
From Coq Require Import List NArith ZArith Bool Arith.
From PyFS Require Import Base.PyStr Base.Outcome Path.PathModel Path.PathSpec FS.Tree FS.Monad FS.Mode FS.Base
     FS.Mem FS.Ops FS.Ref FS.Agree FS.Props FS.Wf FS.PropsProofs FS.RefineWalkLemmasBfs FS.RefineWalkPreserved FS.Props2 FS.Props2Proofs.
Import ListNotations.

Theorem C05_ref_preserved_move_copy_removetree : forall o t t',
  wf t -> is_mcr o = true -> rs_tree (ref_run o t) = Some t' ->
  preserved t t' o (match rs_res (ref_run o t) with ROk _ => true | _ => false end) = true.
Proof. exact ref_preserved_move_copy_removetree. Qed.
Print Assumptions C05_ref_preserved_move_copy_removetree.

Theorem C05_mem_preserved_move_copy_removetree : forall o s,
  wf s -> is_mcr o = true ->
  preserved s (fst (mem_run o s)) o (is_ok (snd (mem_run o s))) = true.
Proof. exact mem_preserved_move_copy_removetree. Qed.
Print Assumptions C05_mem_preserved_move_copy_removetree.

Theorem C05_mem_tree_exact_move_copy_removetree : forall o s,
  wf s -> is_mcr o = true -> rs_tree (ref_run o s) = Some (fst (mem_run o s)).
Proof. exact mem_tree_exact_move_copy_removetree. Qed.
Print Assumptions C05_mem_tree_exact_move_copy_removetree.

Theorem C05_ref_preserved_movedir_fresh : forall s d c pt a b t t',
  wf t -> rpath s = inl a -> rpath d = inl b -> lookup t b = None ->
  rs_tree (ref_run (OMovedir s d c pt) t) = Some t' ->
  preserved t t' (OMovedir s d c pt)
            (match rs_res (ref_run (OMovedir s d c pt) t) with ROk _ => true | _ => false end) = true.
Proof. exact ref_preserved_movedir_fresh. Qed.
Print Assumptions C05_ref_preserved_movedir_fresh.

Theorem C05_mem_preserved_movedir_fresh : forall src dst create pt s cs cd,
  wf s -> rpath src = inl cs -> rpath dst = inl cd -> lookup s cd = None ->
  preserved s (fst (mem_run (OMovedir src dst create pt) s)) (OMovedir src dst create pt)
            (is_ok (snd (mem_run (OMovedir src dst create pt) s))) = true.
Proof. exact mem_preserved_movedir_fresh. Qed.
Print Assumptions C05_mem_preserved_movedir_fresh.

(* ---- directory transfers incl. merges, whatever the outcome ---- *)
Theorem C05_mem_preserved_copydir :
  forall (src dst : str) (create pt : bool) (s : node) (a b : list str),
       wf s ->
       nn s ->
       rpath src = inl a ->
       rpath dst = inl b ->
       list_prefix b a = false ->
       preserved s (fst (mem_run (OCopydir src dst create pt) s)) (OCopydir src dst create pt)
         (is_ok (snd (mem_run (OCopydir src dst create pt) s))) = true.
Proof. exact @mem_preserved_copydir. Qed.
Print Assumptions C05_mem_preserved_copydir.

Theorem C05_mem_preserved_movedir :
  forall (src dst : str) (create pt : bool) (s : node) (a b : list str),
       wf s ->
       nn s ->
       rpath src = inl a ->
       rpath dst = inl b ->
       list_prefix b a = false ->
       preserved s (fst (mem_run (OMovedir src dst create pt) s)) (OMovedir src dst create pt)
         (is_ok (snd (mem_run (OMovedir src dst create pt) s))) = true.
Proof. exact @mem_preserved_movedir. Qed.
Print Assumptions C05_mem_preserved_movedir.

(* ---- the stronger predicate preserved2 (FS/Props2.v): a destination may only hold its old bytes or the bytes of the
   corresponding source file, a moved source may be absent only when its bytes are at the destination; this is the predicate
   the harness applies to the real backends ---- *)


(* ================================================================== *)
(* the stronger predicate preserved2 (FS/Props2.v): a destination file is not simply exempt,
   it may only hold its old bytes or the bytes of the corresponding source file; a file may
   vanish only below a removed directory, or as a moved source whose bytes are at its
   destination; a transfer of a resource onto itself changes nothing *)
(* ================================================================== *)
Theorem C05_preserved2_implies_preserved : forall before after o ok,
  wf before -> preserved2 before after o ok = true -> preserved before after o ok = true.
Proof. exact preserved2_implies_preserved. Qed.
Print Assumptions C05_preserved2_implies_preserved.

Theorem C05_preserved2_self_keeps_everything : forall before after o ok,
  wf before -> self_transfer o = true -> preserved2 before after o ok = true ->
  all_files_kept before after (fun _ => false) = true.
Proof. exact preserved2_self_keeps_everything. Qed.
Print Assumptions C05_preserved2_self_keeps_everything.

Theorem C05_ref_preserved2_move_copy_removetree : forall o t t',
  wf t -> is_mcr o = true -> rs_tree (ref_run o t) = Some t' ->
  preserved2 t t' o (match rs_res (ref_run o t) with ROk _ => true | _ => false end) = true.
Proof. exact ref_preserved2_move_copy_removetree. Qed.
Print Assumptions C05_ref_preserved2_move_copy_removetree.

Theorem C05_mem_preserved2_move_copy_removetree : forall o s,
  wf s -> is_mcr o = true ->
  preserved2 s (fst (mem_run o s)) o (is_ok (snd (mem_run o s))) = true.
Proof. exact mem_preserved2_move_copy_removetree. Qed.
Print Assumptions C05_mem_preserved2_move_copy_removetree.

Theorem C05_ref_preserved2_movedir_fresh : forall s d c pt a b t t',
  wf t -> rpath s = inl a -> rpath d = inl b -> lookup t b = None ->
  rs_tree (ref_run (OMovedir s d c pt) t) = Some t' ->
  preserved2 t t' (OMovedir s d c pt)
            (match rs_res (ref_run (OMovedir s d c pt) t) with ROk _ => true | _ => false end) = true.
Proof. exact ref_preserved2_movedir_fresh. Qed.
Print Assumptions C05_ref_preserved2_movedir_fresh.

Theorem C05_mem_preserved2_movedir_fresh : forall src dst create pt s cs cd,
  wf s -> rpath src = inl cs -> rpath dst = inl cd -> lookup s cd = None ->
  preserved2 s (fst (mem_run (OMovedir src dst create pt) s)) (OMovedir src dst create pt)
            (is_ok (snd (mem_run (OMovedir src dst create pt) s))) = true.
Proof. exact mem_preserved2_movedir_fresh. Qed.
Print Assumptions C05_mem_preserved2_movedir_fresh.

Theorem C05_mem_preserved2_copydir :
  forall (src dst : str) (create pt : bool) (s : node) (a b : list str),
       wf s ->
       nn s ->
       rpath src = inl a ->
       rpath dst = inl b ->
       list_prefix b a = false ->
       preserved2 s (fst (mem_run (OCopydir src dst create pt) s)) (OCopydir src dst create pt)
         (is_ok (snd (mem_run (OCopydir src dst create pt) s))) = true.
Proof. exact @mem_preserved2_copydir. Qed.
Print Assumptions C05_mem_preserved2_copydir.

Theorem C05_mem_preserved2_movedir :
  forall (src dst : str) (create pt : bool) (s : node) (a b : list str),
       wf s ->
       nn s ->
       rpath src = inl a ->
       rpath dst = inl b ->
       list_prefix b a = false ->
       preserved2 s (fst (mem_run (OMovedir src dst create pt) s)) (OMovedir src dst create pt)
         (is_ok (snd (mem_run (OMovedir src dst create pt) s))) = true.
Proof. exact @mem_preserved2_movedir. Qed.
Print Assumptions C05_mem_preserved2_movedir.

(* the seeded "truncate on copydir onto itself" change: invisible to preserved, caught by preserved2 *)
Example C05_trunc_copydir_self :
  (preserved Examples2.t0 Examples2.t0_trunc Examples2.o_copydir_self true,
   preserved2 Examples2.t0 Examples2.t0_trunc Examples2.o_copydir_self true) = (true, false).
Proof. vm_compute. reflexivity. Qed.
