(* C05 — Move, copy and recursive remove never destroy unrelated data (reference semantics and MemoryFS model: move, copy, removetree, movedir onto a fresh destination; copydir and movedir with directory merges - success or failure - in every non-degenerate case, on NUL-free states). *)
From Coq Require Import List NArith ZArith Bool Arith.
From PyFS Require Import Base.PyStr Base.Outcome Path.PathModel Path.PathSpec FS.Tree FS.Monad FS.Mode FS.Base
     FS.Mem FS.Ops FS.Ref FS.Agree FS.Props FS.Wf FS.PropsProofs FS.RefineWalkLemmasBfs FS.RefineWalkPreserved.
Import ListNotations.

Theorem C05_ref_preserved_move_copy_removetree : forall o t t',
  wf t -> is_mcr o = true -> rs_tree (ref_run o t) = Some t' ->
  preserved t t' o (match rs_res (ref_run o t) with ROk _ => true | _ => false end) = true.
Proof. exact ref_preserved_move_copy_removetree. Qed.
Print Assumptions C05_ref_preserved_move_copy_removetree.

Theorem C05_mem_preserved_move_copy_removetree : forall o s,
  wf s -> is_mcr o = true ->
  preserved s (fst (mem_run o s)) o (is_ok (snd (mem_run o s))) = true.
Proof. exact mem_preserved_move_copy_removetree. Qed.
Print Assumptions C05_mem_preserved_move_copy_removetree.

Theorem C05_mem_tree_exact_move_copy_removetree : forall o s,
  wf s -> is_mcr o = true -> rs_tree (ref_run o s) = Some (fst (mem_run o s)).
Proof. exact mem_tree_exact_move_copy_removetree. Qed.
Print Assumptions C05_mem_tree_exact_move_copy_removetree.

Theorem C05_ref_preserved_movedir_fresh : forall s d c pt a b t t',
  wf t -> rpath s = inl a -> rpath d = inl b -> lookup t b = None ->
  rs_tree (ref_run (OMovedir s d c pt) t) = Some t' ->
  preserved t t' (OMovedir s d c pt)
            (match rs_res (ref_run (OMovedir s d c pt) t) with ROk _ => true | _ => false end) = true.
Proof. exact ref_preserved_movedir_fresh. Qed.
Print Assumptions C05_ref_preserved_movedir_fresh.

Theorem C05_mem_preserved_movedir_fresh : forall src dst create pt s cs cd,
  wf s -> rpath src = inl cs -> rpath dst = inl cd -> lookup s cd = None ->
  preserved s (fst (mem_run (OMovedir src dst create pt) s)) (OMovedir src dst create pt)
            (is_ok (snd (mem_run (OMovedir src dst create pt) s))) = true.
Proof. exact mem_preserved_movedir_fresh. Qed.
Print Assumptions C05_mem_preserved_movedir_fresh.

(* ---- directory transfers incl. merges, whatever the outcome ---- *)
Theorem C05_mem_preserved_copydir :
  forall (src dst : str) (create pt : bool) (s : node) (a b : list str),
       wf s ->
       nn s ->
       rpath src = inl a ->
       rpath dst = inl b ->
       list_prefix b a = false ->
       preserved s (fst (mem_run (OCopydir src dst create pt) s)) (OCopydir src dst create pt)
         (is_ok (snd (mem_run (OCopydir src dst create pt) s))) = true.
Proof. exact @mem_preserved_copydir. Qed.
Print Assumptions C05_mem_preserved_copydir.

Theorem C05_mem_preserved_movedir :
  forall (src dst : str) (create pt : bool) (s : node) (a b : list str),
       wf s ->
       nn s ->
       rpath src = inl a ->
       rpath dst = inl b ->
       list_prefix b a = false ->
       preserved s (fst (mem_run (OMovedir src dst create pt) s)) (OMovedir src dst create pt)
         (is_ok (snd (mem_run (OMovedir src dst create pt) s))) = true.
Proof. exact @mem_preserved_movedir. Qed.
Print Assumptions C05_mem_preserved_movedir.
