(* C20 — Parsers of external text are total and faithful (URL scanner and MLSD time decoder models; LIST/MLSD/FEAT parsers are correspondence-only). *)
From Coq Require Import List NArith ZArith Bool Lia String.
Import ListNotations.
From PyFS Require Import Base.PyStr Base.Outcome Parse.Url Parse.FtpTime Parse.ParseProofs.
Local Open Scope N_scope.

Theorem C20_url_split_total :
  forall s : str, url_parse s = Err ParseError \/ (exists p : parts, url_parse s = Ok p).
Proof. exact @url_split_total. Qed.
Print Assumptions C20_url_split_total.

Theorem C20_url_never_crashes :
  forall (s : str) (k : crash), url_parse s <> Crash k.
Proof. exact @url_never_crashes. Qed.
Print Assumptions C20_url_never_crashes.

Theorem C20_url_parse_error_iff :
  forall s : str, url_parse s = Err ParseError <-> url_match s = None.
Proof. exact @url_parse_error_iff. Qed.
Print Assumptions C20_url_parse_error_iff.

Theorem C20_url_match_sound :
  forall (s : str) (g : groups),
       url_match s = Some g ->
       contains_sep (g_proto g) = false /\
       has_char newline (g_proto g) = false /\
       (exists rest : list char, chomp s = g_proto g ++ sep ++ rest).
Proof. exact @url_match_sound. Qed.
Print Assumptions C20_url_match_sound.

Theorem C20_url_split_build :
  forall (proto : str) (creds : option (str * str)) (resource : str)
         (params path : option str),
       build_ok proto creds resource params path = true ->
       url_split (build_url proto creds resource params path) =
       Some
         {|
           p_proto := proto;
           p_creds := creds;
           p_resource := resource;
           p_params := params;
           p_path := path
         |}.
Proof. exact @url_split_build. Qed.
Print Assumptions C20_url_split_build.

Theorem C20_url_split_build_user :
  forall (proto user resource : str) (params path : option str),
       negb (contains_sep proto) && negb (has_char newline proto) && negb (has_char c_at user) &&
       negb (has_char c_colon user) && negb (has_char newline user) &&
       negb (has_char c_bang resource) && negb (has_char c_qm resource) &&
       negb (has_char newline resource) && negb (opt_has c_bang params) &&
       negb (opt_has newline params) && negb (opt_has newline path) = true ->
       url_split (build_url_user proto user resource params path) =
       Some
         {|
           p_proto := proto;
           p_creds := Some (user, []);
           p_resource := resource;
           p_params := params;
           p_path := path
         |}.
Proof. exact @url_split_build_user. Qed.
Print Assumptions C20_url_split_build_user.

Theorem C20_url_at_in_path_refuted :
  exists proto resource path : str,
         contains_sep proto = false /\
         has_char newline proto = false /\
         has_char c_at resource = false /\
         has_char c_bang resource = false /\
         has_char c_qm resource = false /\
         has_char newline resource = false /\
         has_char newline path = false /\
         has_char c_at path = true /\
         url_split (build_url proto None resource None (Some path)) <>
         Some
           {|
             p_proto := proto;
             p_creds := None;
             p_resource := resource;
             p_params := None;
             p_path := Some path
           |} /\
         (exists user rest : str,
            url_split (build_url proto None resource None (Some path)) =
            Some
              {|
                p_proto := proto;
                p_creds := Some (user, []);
                p_resource := rest;
                p_params := None;
                p_path := None
              |} /\ has_char c_bang user = true).
Proof. exact @url_at_in_path_refuted. Qed.
Print Assumptions C20_url_at_in_path_refuted.

Theorem C20_ftp_time_range :
  forall (s : str) (f : fields),
       ftp_time_decode s = Some f ->
       1 <= f_year f /\
       1 <= f_month f <= 12 /\ 1 <= f_day f <= 31 /\ f_hour f < 24 /\ f_min f < 60 /\ f_sec f < 62.
Proof. exact @ftp_time_range. Qed.
Print Assumptions C20_ftp_time_range.

Theorem C20_ftp_time_decode_impl :
  forall (s : str) (f : fields),
       ftp_time_decode s = Some f -> ftp_time_impl s = Ok (Some (timegm f)).
Proof. exact @ftp_time_decode_impl. Qed.
Print Assumptions C20_ftp_time_decode_impl.

Theorem C20_ftp_time_total :
  forall s : str,
       ftp_time_impl s = Ok None \/
       (exists f : fields,
          ftp_time_fields s = Some f /\
          (1 <= f_year f /\ 1 <= f_month f <= 12) /\ ftp_time_impl s = Ok (Some (timegm f))).
Proof. exact @ftp_time_total. Qed.
Print Assumptions C20_ftp_time_total.

Theorem C20_ftp_time_never_crashes :
  forall (s : str) (k : crash), ftp_time_impl s <> Crash k.
Proof. exact @ftp_time_never_crashes. Qed.
Print Assumptions C20_ftp_time_never_crashes.
