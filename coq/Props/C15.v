(* C15 — Zip and Tar archives round-trip any tree (member-name handling model; container formats are zipfile/tarfile's). *)
From Coq Require Import List NArith ZArith Bool Arith.
From PyFS Require Import Base.PyStr Base.Outcome Path.PathModel Path.PathSpec FS.Tree FS.Monad FS.Mem FS.Ref FS.Wf
     Archive.Members Archive.MembersProofs Archive.TreeArch Archive.TreeArchProofs.
Import ListNotations.

Theorem C15_tar_names_safe :
  forall raws : list str, Forall safe_name (tar_names raws).
Proof. exact @tar_names_safe. Qed.
Print Assumptions C15_tar_names_safe.

Theorem C15_tar_names_relative_no_dotdot :
  forall (raws : list str) (n : str),
       In n (tar_names raws) ->
       starts_c slash n = false /\ ~ In [dot; dot] (comps n) /\ ~ In [] (comps n).
Proof. exact @tar_names_relative_no_dotdot. Qed.
Print Assumptions C15_tar_names_relative_no_dotdot.

Theorem C15_tar_drops_climbers :
  forall (raw : str) (rest : list str),
       resolve (comps raw) = None -> tar_names (raw :: rest) = tar_names rest.
Proof. exact @tar_drops_climbers. Qed.
Print Assumptions C15_tar_drops_climbers.

Theorem C15_tar_drops_climbers_anywhere :
  forall (l1 : list str) (raw : str) (l2 : list str),
       resolve (comps raw) = None -> tar_names (l1 ++ raw :: l2) = tar_names (l1 ++ l2).
Proof. exact @tar_drops_climbers_anywhere. Qed.
Print Assumptions C15_tar_drops_climbers_anywhere.

Theorem C15_tar_names_origin :
  forall (raws : list str) (n : str),
       In n (tar_names raws) ->
       exists (raw : str) (cs : list str),
         In raw raws /\ resolve (comps raw) = Some cs /\ cs <> [] /\ n = to_path false cs.
Proof. exact @tar_names_origin. Qed.
Print Assumptions C15_tar_names_origin.

Theorem C15_list_tar_total :
  forall raws : list str, list_tar raws = Ok (tar_names raws).
Proof. exact @list_tar_total. Qed.
Print Assumptions C15_list_tar_total.

Theorem C15_tar_dir_keys_safe :
  forall raws : list str, Forall safe_name (tar_dir_keys raws).
Proof. exact @tar_dir_keys_safe. Qed.
Print Assumptions C15_tar_dir_keys_safe.

Theorem C15_names_roundtrip :
  forall tree_paths : list (list str),
       Forall (fun cs : list str => cs <> [] /\ Forall good cs) tree_paths ->
       tar_names (written_tar_names tree_paths) = map (to_path false) tree_paths.
Proof. exact @names_roundtrip. Qed.
Print Assumptions C15_names_roundtrip.

Theorem C15_names_roundtrip_rel :
  forall names : list str, Forall safe_name names -> tar_names names = names.
Proof. exact @names_roundtrip_rel. Qed.
Print Assumptions C15_names_roundtrip_rel.

Theorem C15_zip_member_name_dir :
  forall cs : list str,
       cs <> [] ->
       Forall good cs ->
       zip_member_name (walk_path cs) true = to_path false cs ++ [slash] /\
       ends_c slash (zip_member_name (walk_path cs) true) = true.
Proof. exact @zip_member_name_dir. Qed.
Print Assumptions C15_zip_member_name_dir.

Theorem C15_zip_member_name_file :
  forall cs : list str,
       cs <> [] ->
       Forall good cs ->
       zip_member_name (walk_path cs) false = to_path false cs /\
       ends_c slash (zip_member_name (walk_path cs) false) = false.
Proof. exact @zip_member_name_file. Qed.
Print Assumptions C15_zip_member_name_file.

(* ---- tree level (Archive/TreeArch*.v): an archive = the ordered list of members handed to / got from zipfile/tarfile;
   the writers' member lists and the readers' presented trees are compared with the model on every run ---- *)

Theorem C15_tree_bfs_complete :
  forall t : node,
  wf_node t -> forall (p : list str) (n : node), In (p, n) (bfs t) <-> p <> [] /\ lookup t p = Some n.
Proof. exact @bfs_complete. Qed.
Print Assumptions C15_tree_bfs_complete.

Theorem C15_tree_bfs_nodup :
  forall t : node, wf_node t -> NoDup (map fst (bfs t)).
Proof. exact @bfs_nodup. Qed.
Print Assumptions C15_tree_bfs_nodup.

Theorem C15_tree_bfs_code_eq :
  forall t : node, bfs_code t = bfs t.
Proof. exact @bfs_code_eq. Qed.
Print Assumptions C15_tree_bfs_code_eq.

Theorem C15_tree_members_follow_the_queue_walk :
  forall (now : Z) (t : node),
  zip_members now t = map (zip_member_of now) (bfs_code t) /\
  tar_members now t = map (tar_member_of now) (bfs_code t).
Proof. exact @members_follow_the_queue_walk. Qed.
Print Assumptions C15_tree_members_follow_the_queue_walk.

Theorem C15_tree_zip_roundtrip :
  forall (now : Z) (tm : Z -> Z) (t : node),
  wf t ->
  names_ok t = true ->
  zip_read (map (store tm) (zip_members now t)) =
  {| zv_first := Ok tt; zv_tree := embed (stamp_root now tm t) |}.
Proof. exact @zip_roundtrip. Qed.
Print Assumptions C15_tree_zip_roundtrip.

Theorem C15_tree_tar_roundtrip :
  forall (now : Z) (tm : Z -> Z) (t : node),
  wf t -> tar_read (map (store tm) (tar_members now t)) = stamp_root now tm t.
Proof. exact @tar_roundtrip. Qed.
Print Assumptions C15_tree_tar_roundtrip.

Theorem C15_tree_tar_roundtrip_nothing_hidden :
  forall (now : Z) (tm : Z -> Z) (t : node),
  wf t -> tar_shadowed (map (store tm) (tar_members now t)) = [].
Proof. exact @tar_roundtrip_nothing_hidden. Qed.
Print Assumptions C15_tree_tar_roundtrip_nothing_hidden.

Theorem C15_tree_stamp_files :
  forall (now : Z) (tm : Z -> Z) (t : node), files_of (stamp_root now tm t) = files_of t.
Proof. exact @stamp_files. Qed.
Print Assumptions C15_tree_stamp_files.

Theorem C15_tree_stamp_paths :
  forall (now : Z) (tm : Z -> Z) (t : node), paths_of (stamp_root now tm t) = paths_of t.
Proof. exact @stamp_paths. Qed.
Print Assumptions C15_tree_stamp_paths.

Theorem C15_tree_zip_roundtrip_content :
  forall (now : Z) (t : node),
  wf t ->
  names_ok t = true ->
  let v := zip_read (map (store zip_time) (zip_members now t)) in
  zv_first v = Ok tt /\
  zv_tree v = embed (stamp_root now zip_time t) /\
  files_of (stamp_root now zip_time t) = files_of t /\ paths_of (stamp_root now zip_time t) = paths_of t.
Proof. exact @zip_roundtrip_content. Qed.
Print Assumptions C15_tree_zip_roundtrip_content.

Theorem C15_tree_tar_roundtrip_content :
  forall (now : Z) (t : node),
  wf t ->
  let r := tar_read (map (store tar_time) (tar_members now t)) in
  r = stamp_root now tar_time t /\
  files_of r = files_of t /\
  paths_of r = paths_of t /\ tar_shadowed (map (store tar_time) (tar_members now t)) = [].
Proof. exact @tar_roundtrip_content. Qed.
Print Assumptions C15_tree_tar_roundtrip_content.

Theorem C15_tree_zip_build_wf :
  forall (b : node) (raws : list str), wf b -> wf (fst (zip_build b raws)).
Proof. exact @zip_build_wf. Qed.
Print Assumptions C15_tree_zip_build_wf.

Theorem C15_tree_tar_read_wf :
  forall ms : list member, wf (tar_read ms).
Proof. exact @tar_read_wf. Qed.
Print Assumptions C15_tree_tar_read_wf.

Theorem C15_tree_read_confined :
  forall (ms : list member) (p : list str),
  In p (vpaths (zv_tree (zip_read ms))) \/ In p (vpaths (embed (tar_read ms))) ->
  p <> [] /\
  Forall good p /\
  normpath (to_path true p) = Ok (to_path true p) /\ resolve (comps (to_path true p)) = Some p.
Proof. exact @read_confined. Qed.
Print Assumptions C15_tree_read_confined.

Theorem C15_tree_read_total :
  forall ms : list member,
  (list_tar (map m_name ms) = Ok (tar_names (map m_name ms)) /\ wf (tar_read ms)) /\
  (let o := zv_first (zip_read ms) in
  o = Ok tt \/ o = Err IllegalBackReference \/ o = Err DirectoryExpected \/ o = Err InvalidCharsInPath) /\
  wf (fst (zip_build empty_dir (map m_name ms))).
Proof. exact @read_total. Qed.
Print Assumptions C15_tree_read_total.

Theorem C15_tree_zip_first_cases :
  forall ms : list member,
  let o := zv_first (zip_read ms) in
  o = Ok tt \/ o = Err IllegalBackReference \/ o = Err DirectoryExpected \/ o = Err InvalidCharsInPath.
Proof. exact @zip_first_cases. Qed.
Print Assumptions C15_tree_zip_first_cases.

Theorem C15_tree_zip_build_stops :
  forall (b : node) (raws : list str) (b' : node) (e : ecls),
  zip_build b raws = (b', Err e) ->
  exists (l1 : list str) (raw : str) (l2 : list str) (b1 : node),
  raws = l1 ++ raw :: l2 /\ zip_build b l1 = (b1, Ok tt) /\ zstep b1 raw = (b', Err e).
Proof. exact @zip_build_stops. Qed.
Print Assumptions C15_tree_zip_build_stops.

Theorem C15_tree_zip_climber_raises :
  forall (b : node) (raw : str),
  has_char nul raw = false -> resolve (comps raw) = None -> zstep b raw = (b, Err IllegalBackReference).
Proof. exact @zip_climber_raises. Qed.
Print Assumptions C15_tree_zip_climber_raises.

Theorem C15_tree_tar_read_drops_climbers :
  forall (l1 : list member) (m : member) (l2 : list member),
  resolve (comps (m_name m)) = None -> tar_read (l1 ++ m :: l2) = tar_read (l1 ++ l2).
Proof. exact @tar_read_drops_climbers. Qed.
Print Assumptions C15_tree_tar_read_drops_climbers.

Theorem C15_tree_zstep_idempotent :
  forall (b : node) (raw : str) (b' : node),
  wf b -> zstep b raw = (b', Ok tt) -> zstep b' raw = (b', Ok tt).
Proof. exact @zstep_idempotent. Qed.
Print Assumptions C15_tree_zstep_idempotent.

Theorem C15_tree_zip_dup_last :
  forall (pre : list member) (m : member) (post : list member),
  Forall (fun x : member => m_name x <> m_name m) post -> zfind (pre ++ m :: post) (m_name m) = Some m.
Proof. exact @zip_dup_last. Qed.
Print Assumptions C15_tree_zip_dup_last.

Theorem C15_tree_tar_dup_last :
  forall (ms : list member) (m : member) (k : str),
  tar_key (m_name m) = Some k ->
  In k (keys (tar_entries ms)) ->
  keys (tar_entries (ms ++ [m])) = keys (tar_entries ms) /\ assoc k (tar_entries (ms ++ [m])) = Some m.
Proof. exact @tar_dup_last. Qed.
Print Assumptions C15_tree_tar_dup_last.

Theorem C15_tree_tar_shadowed_iff :
  forall (ms : list member) (k : str),
  In k (tar_shadowed ms) <->
  In k (keys (tar_entries ms)) /\
  (exists (p q : list str) (m : member),
  comps k = p ++ q /\
  p <> [] /\ q <> [] /\ assoc (to_path false p) (tar_entries ms) = Some m /\ m_dir m = false).
Proof. exact @tar_shadowed_iff. Qed.
Print Assumptions C15_tree_tar_shadowed_iff.

Theorem C15_tree_tar_key_present :
  forall (ms : list member) (k : str) (m : member),
  assoc k (tar_entries ms) = Some m ->
  ~ In k (tar_shadowed ms) ->
  exists n : node,
  lookup (tar_read ms) (comps k) = Some n /\
  is_dir n = m_dir m /\
  node_mt n = Some (m_mt m) /\ (m_dir m = false -> n = File (m_data m) (Some (m_mt m))).
Proof. exact @tar_key_present. Qed.
Print Assumptions C15_tree_tar_key_present.

Theorem C15_tree_tar_implicit_directories :
  forall (ms : list member) (k : str) (p q : list str),
  In k (keys (tar_entries ms)) ->
  ~ In k (tar_shadowed ms) ->
  comps k = p ++ q ->
  q <> [] -> exists (e : list (str * node)) (mt : option Z), lookup (tar_read ms) p = Some (Dir e mt).
Proof. exact @tar_implicit_directories. Qed.
Print Assumptions C15_tree_tar_implicit_directories.

Theorem C15_tree_zip_implicit_directories :
  forall (ms : list member) (m : member) (cs p q : list str),
  zv_first (zip_read ms) = Ok tt ->
  In m ms ->
  resolve (comps (m_name m)) = Some cs ->
  cs = p ++ q ->
  q <> [] ->
  exists (e : list (str * vnode)) (mt : option Z), vlookup (zv_tree (zip_read ms)) p = Some (VDir e mt).
Proof. exact @zip_implicit_directories. Qed.
Print Assumptions C15_tree_zip_implicit_directories.

Theorem C15_tree_zip_member_present :
  forall (ms : list member) (m : member) (cs : list str),
  zv_first (zip_read ms) = Ok tt ->
  In m ms ->
  resolve (comps (m_name m)) = Some cs ->
  exists v : vnode,
  vlookup (zv_tree (zip_read ms)) cs = Some v /\
  (ends_c slash (m_name m) = true -> exists (e : list (str * vnode)) (mt : option Z), v = VDir e mt).
Proof. exact @zip_member_present. Qed.
Print Assumptions C15_tree_zip_member_present.

Theorem C15_tree_zstep_is_mem :
  forall (b : node) (raw : str), wf b -> has_char nul raw = false -> zstep_mem raw b = zstep b raw.
Proof. exact @zstep_is_mem. Qed.
Print Assumptions C15_tree_zstep_is_mem.

Theorem C15_tree_tar_tree_isdir :
  forall (ms : list member) (p : list str),
  Forall good p ->
  (forall (p1 p2 : list str) (m : member),
  p = p1 ++ p2 ->
  p1 <> [] -> p2 <> [] -> assoc (to_path false p1) (tar_entries ms) = Some m -> m_dir m = true) ->
  (exists (e : list (str * node)) (mt : option Z), lookup (tar_read ms) p = Some (Dir e mt)) <->
  tar_isdir_q (tar_entries ms) (to_path false p) = true.
Proof. exact @tar_tree_isdir. Qed.
Print Assumptions C15_tree_tar_tree_isdir.

