(* C15 — Zip and Tar archives round-trip any tree (member-name handling model; container formats are zipfile/tarfile's). *)
From Coq Require Import List NArith Bool Arith.
From PyFS Require Import Base.PyStr Base.Outcome Path.PathModel Path.PathSpec Archive.Members Archive.MembersProofs.
Import ListNotations.

Theorem C15_tar_names_safe :
  forall raws : list str, Forall safe_name (tar_names raws).
Proof. exact @tar_names_safe. Qed.
Print Assumptions C15_tar_names_safe.

Theorem C15_tar_names_relative_no_dotdot :
  forall (raws : list str) (n : str),
       In n (tar_names raws) ->
       starts_c slash n = false /\ ~ In [dot; dot] (comps n) /\ ~ In [] (comps n).
Proof. exact @tar_names_relative_no_dotdot. Qed.
Print Assumptions C15_tar_names_relative_no_dotdot.

Theorem C15_tar_drops_climbers :
  forall (raw : str) (rest : list str),
       resolve (comps raw) = None -> tar_names (raw :: rest) = tar_names rest.
Proof. exact @tar_drops_climbers. Qed.
Print Assumptions C15_tar_drops_climbers.

Theorem C15_tar_drops_climbers_anywhere :
  forall (l1 : list str) (raw : str) (l2 : list str),
       resolve (comps raw) = None -> tar_names (l1 ++ raw :: l2) = tar_names (l1 ++ l2).
Proof. exact @tar_drops_climbers_anywhere. Qed.
Print Assumptions C15_tar_drops_climbers_anywhere.

Theorem C15_tar_names_origin :
  forall (raws : list str) (n : str),
       In n (tar_names raws) ->
       exists (raw : str) (cs : list str),
         In raw raws /\ resolve (comps raw) = Some cs /\ cs <> [] /\ n = to_path false cs.
Proof. exact @tar_names_origin. Qed.
Print Assumptions C15_tar_names_origin.

Theorem C15_list_tar_total :
  forall raws : list str, list_tar raws = Ok (tar_names raws).
Proof. exact @list_tar_total. Qed.
Print Assumptions C15_list_tar_total.

Theorem C15_tar_dir_keys_safe :
  forall raws : list str, Forall safe_name (tar_dir_keys raws).
Proof. exact @tar_dir_keys_safe. Qed.
Print Assumptions C15_tar_dir_keys_safe.

Theorem C15_names_roundtrip :
  forall tree_paths : list (list str),
       Forall (fun cs : list str => cs <> [] /\ Forall good cs) tree_paths ->
       tar_names (written_tar_names tree_paths) = map (to_path false) tree_paths.
Proof. exact @names_roundtrip. Qed.
Print Assumptions C15_names_roundtrip.

Theorem C15_names_roundtrip_rel :
  forall names : list str, Forall safe_name names -> tar_names names = names.
Proof. exact @names_roundtrip_rel. Qed.
Print Assumptions C15_names_roundtrip_rel.

Theorem C15_zip_member_name_dir :
  forall cs : list str,
       cs <> [] ->
       Forall good cs ->
       zip_member_name (walk_path cs) true = to_path false cs ++ [slash] /\
       ends_c slash (zip_member_name (walk_path cs) true) = true.
Proof. exact @zip_member_name_dir. Qed.
Print Assumptions C15_zip_member_name_dir.

Theorem C15_zip_member_name_file :
  forall cs : list str,
       cs <> [] ->
       Forall good cs ->
       zip_member_name (walk_path cs) false = to_path false cs /\
       ends_c slash (zip_member_name (walk_path cs) false) = false.
Proof. exact @zip_member_name_file. Qed.
Print Assumptions C15_zip_member_name_file.
