(* C06 — Failures are fs.errors exceptions for a real cause and change nothing (MemoryFS model, calls in [covered]; the reference's admissible classes encode 'the documented condition holds'). *)
From Coq Require Import List NArith ZArith Bool Arith.
From PyFS Require Import Base.PyStr Base.Outcome Path.PathModel Path.PathSpec FS.Tree FS.Monad FS.Mode FS.Base
     FS.Mem FS.Ops FS.Ref FS.Agree FS.Props FS.Wf FS.PropsProofs.
Import ListNotations.

Theorem C06_mem_no_foreign_exception : forall o s k,
  wf s -> covered o = true -> snd (mem_run o s) = Crash k ->
  k = ValueError /\ rs_res (ref_run o s) = RValueError.
Proof. exact mem_no_foreign_exception. Qed.
Print Assumptions C06_mem_no_foreign_exception.

Theorem C06_mem_error_admissible : forall o s e,
  wf s -> covered o = true -> snd (mem_run o s) = Err e ->
  exists adm, rs_res (ref_run o s) = RFail adm /\ In e adm.
Proof. exact mem_error_admissible. Qed.
Print Assumptions C06_mem_error_admissible.

Theorem C06_ref_fail_keeps_tree : forall o t adm,
  covered o = true -> rs_res (ref_run o t) = RFail adm -> rs_tree (ref_run o t) = Some t.
Proof. exact ref_fail_keeps_tree. Qed.
Print Assumptions C06_ref_fail_keeps_tree.

Theorem C06_ref_valueerror_keeps_tree : forall o t,
  covered o = true -> rs_res (ref_run o t) = RValueError -> rs_tree (ref_run o t) = Some t.
Proof. exact ref_valueerror_keeps_tree. Qed.
Print Assumptions C06_ref_valueerror_keeps_tree.

Theorem C06_ref_covered_not_any : forall o t, covered o = true -> rs_res (ref_run o t) <> RAny.
Proof. exact ref_covered_not_any. Qed.
Print Assumptions C06_ref_covered_not_any.

Theorem C06_mem_failed_call_is_noop : forall o s e,
  wf s -> covered o = true -> snd (mem_run o s) = Err e ->
  tree_eqb true (fst (mem_run o s)) s = true.
Proof. exact mem_failed_call_is_noop. Qed.
Print Assumptions C06_mem_failed_call_is_noop.

Theorem C06_mem_crashed_call_is_noop : forall o s k,
  wf s -> covered o = true -> snd (mem_run o s) = Crash k ->
  tree_eqb true (fst (mem_run o s)) s = true.
Proof. exact mem_crashed_call_is_noop. Qed.
Print Assumptions C06_mem_crashed_call_is_noop.
