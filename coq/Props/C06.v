(* C06 — Failures are fs.errors exceptions for a real cause and change nothing (MemoryFS model, calls in [covered]; the reference's admissible classes encode 'the documented condition holds'). *)
From Coq Require Import List NArith ZArith Bool Arith.
From PyFS Require Import Base.PyStr Base.Outcome Path.PathModel Path.PathSpec FS.Tree FS.Monad FS.Mode FS.Base
     FS.Mem FS.Ops FS.Ref FS.Agree FS.Props FS.Wf FS.RefineWalkLemmasBfs FS.PropsProofs FS.PropsWalk.
Import ListNotations.

Theorem C06_mem_no_foreign_exception : forall o s k,
  wf s -> covered o = true -> snd (mem_run o s) = Crash k ->
  k = ValueError /\ rs_res (ref_run o s) = RValueError.
Proof. exact mem_no_foreign_exception. Qed.
Print Assumptions C06_mem_no_foreign_exception.

Theorem C06_mem_error_admissible : forall o s e,
  wf s -> covered o = true -> snd (mem_run o s) = Err e ->
  exists adm, rs_res (ref_run o s) = RFail adm /\ In e adm.
Proof. exact mem_error_admissible. Qed.
Print Assumptions C06_mem_error_admissible.

Theorem C06_ref_fail_keeps_tree : forall o t adm,
  covered o = true -> rs_res (ref_run o t) = RFail adm -> rs_tree (ref_run o t) = Some t.
Proof. exact ref_fail_keeps_tree. Qed.
Print Assumptions C06_ref_fail_keeps_tree.

Theorem C06_ref_valueerror_keeps_tree : forall o t,
  covered o = true -> rs_res (ref_run o t) = RValueError -> rs_tree (ref_run o t) = Some t.
Proof. exact ref_valueerror_keeps_tree. Qed.
Print Assumptions C06_ref_valueerror_keeps_tree.

Theorem C06_ref_covered_not_any : forall o t, covered o = true -> rs_res (ref_run o t) <> RAny.
Proof. exact ref_covered_not_any. Qed.
Print Assumptions C06_ref_covered_not_any.

Theorem C06_mem_failed_call_is_noop : forall o s e,
  wf s -> covered o = true -> snd (mem_run o s) = Err e ->
  tree_eqb true (fst (mem_run o s)) s = true.
Proof. exact mem_failed_call_is_noop. Qed.
Print Assumptions C06_mem_failed_call_is_noop.

Theorem C06_mem_crashed_call_is_noop : forall o s k,
  wf s -> covered o = true -> snd (mem_run o s) = Crash k ->
  tree_eqb true (fst (mem_run o s)) s = true.
Proof. exact mem_crashed_call_is_noop. Qed.
Print Assumptions C06_mem_crashed_call_is_noop.

(* ---- the walker-based calls makedirs / copydir / movedir (corollaries of the refinement, FS/PropsWalk.v):
   walk_pre = resolvable paths and non-degenerate source/destination; merge_conflict = a file/directory clash met
   while merging into an existing destination (the one failure that may leave part of the merge behind) ---- *)

Theorem C06_walk_refines :
  forall (o : op) (s : node),
       wf s -> nn s -> walk_pre o s = true -> agree (mem_run o s) (ref_run o s) = true.
Proof. exact @walk_refines. Qed.
Print Assumptions C06_walk_refines.

Theorem C06_walk_no_foreign_exception :
  forall (o : op) (s : node) (k : Outcome.crash),
       wf s ->
       nn s ->
       walk_pre o s = true ->
       snd (mem_run o s) = Crash k -> k = ValueError /\ rs_res (ref_run o s) = RValueError.
Proof. exact @walk_no_foreign_exception. Qed.
Print Assumptions C06_walk_no_foreign_exception.

Theorem C06_walk_never_crashes :
  forall (o : op) (s : node) (k : Outcome.crash),
       wf s ->
       nn s -> walk_op o = true -> walk_pre o s = true -> snd (mem_run o s) = Crash k -> False.
Proof. exact @walk_never_crashes. Qed.
Print Assumptions C06_walk_never_crashes.

Theorem C06_walk_error_admissible :
  forall (o : op) (s : node) (e : ecls),
       wf s ->
       nn s ->
       walk_pre o s = true ->
       snd (mem_run o s) = Err e ->
       exists adm : list ecls, rs_res (ref_run o s) = RFail adm /\ In e adm.
Proof. exact @walk_error_admissible. Qed.
Print Assumptions C06_walk_error_admissible.

Theorem C06_walk_rejected_is_noop :
  forall (o : op) (s : node) (adm : list ecls),
       wf s ->
       nn s ->
       walk_pre o s = true ->
       rs_res (ref_run o s) = RFail adm ->
       rs_tree (ref_run o s) = Some s -> tree_eqb true (fst (mem_run o s)) s = true.
Proof. exact @walk_rejected_is_noop. Qed.
Print Assumptions C06_walk_rejected_is_noop.

Theorem C06_walk_rejected_fails :
  forall (o : op) (s : node) (adm : list ecls),
       wf s ->
       nn s ->
       walk_pre o s = true ->
       rs_res (ref_run o s) = RFail adm -> exists e : ecls, snd (mem_run o s) = Err e /\ In e adm.
Proof. exact @walk_rejected_fails. Qed.
Print Assumptions C06_walk_rejected_fails.

Theorem C06_walk_argcheck_rejected :
  forall (o : op) (s : node),
       wf s ->
       nn s ->
       walk_pre o s = true ->
       walk_arg_errors o s <> [] ->
       (exists e : ecls, snd (mem_run o s) = Err e /\ In e (walk_arg_errors o s)) /\
       tree_eqb true (fst (mem_run o s)) s = true.
Proof. exact @walk_argcheck_rejected. Qed.
Print Assumptions C06_walk_argcheck_rejected.

Theorem C06_walk_failed_call_is_noop :
  forall (o : op) (s : node) (e : ecls),
       wf s ->
       nn s ->
       walk_pre o s = true ->
       snd (mem_run o s) = Err e ->
       merge_conflict o s = false -> tree_eqb true (fst (mem_run o s)) s = true.
Proof. exact @walk_failed_call_is_noop. Qed.
Print Assumptions C06_walk_failed_call_is_noop.

Theorem C06_walk_error_cause :
  forall (o : op) (s : node) (e : ecls),
       wf s ->
       nn s ->
       walk_op o = true ->
       walk_pre o s = true ->
       snd (mem_run o s) = Err e ->
       In e (walk_arg_errors o s) /\
       merge_conflict o s = false /\ tree_eqb true (fst (mem_run o s)) s = true \/
       In e conflict_classes /\ merge_conflict o s = true /\ walk_arg_errors o s = [].
Proof. exact @walk_error_cause. Qed.
Print Assumptions C06_walk_error_cause.

Theorem C06_walk_crashed_call_is_noop :
  forall (o : op) (s : node) (k : Outcome.crash),
       wf s ->
       nn s ->
       walk_pre o s = true ->
       snd (mem_run o s) = Crash k -> tree_eqb true (fst (mem_run o s)) s = true.
Proof. exact @walk_crashed_call_is_noop. Qed.
Print Assumptions C06_walk_crashed_call_is_noop.

Theorem C06_makedirs_failed_is_noop :
  forall (p : str) (r : bool) (s : node) (cs : list str) (e : ecls),
       wf s ->
       rpath p = inl cs ->
       snd (mem_run (OMakedirs p r) s) = Err e ->
       fst (mem_run (OMakedirs p r) s) = s /\
       (prefix_is_file s [] cs = true /\ e = DirectoryExpected \/
        prefix_is_file s [] cs = false /\
        status_of s cs = IsDir /\ r = false /\ e = DirectoryExists).
Proof. exact @makedirs_failed_is_noop. Qed.
Print Assumptions C06_makedirs_failed_is_noop.

Theorem C06_walk_ref_fail_cases :
  forall (o : op) (s : node) (adm : list ecls),
       walk_op o = true ->
       rs_res (ref_run o s) = RFail adm ->
       rs_tree (ref_run o s) = Some s /\
       adm = walk_arg_errors o s /\ adm <> [] /\ merge_conflict o s = false \/
       rs_tree (ref_run o s) = None /\
       adm = conflict_classes /\ walk_arg_errors o s = [] /\ merge_conflict o s = true.
Proof. exact @walk_ref_fail_cases. Qed.
Print Assumptions C06_walk_ref_fail_cases.

Theorem C06_walk_ref_fail_tree_iff :
  forall (o : op) (s : node) (adm : list ecls),
       walk_op o = true ->
       rs_res (ref_run o s) = RFail adm ->
       rs_tree (ref_run o s) = Some s <-> merge_conflict o s = false.
Proof. exact @walk_ref_fail_tree_iff. Qed.
Print Assumptions C06_walk_ref_fail_tree_iff.

Theorem C06_ref_any_iff_degenerate :
  forall (o : op) (s : node), rs_res (ref_run o s) = RAny <-> degenerate o s = true.
Proof. exact @ref_any_iff_degenerate. Qed.
Print Assumptions C06_ref_any_iff_degenerate.

Theorem C06_walk_ref_not_any :
  forall (o : op) (s : node), walk_pre o s = true -> rs_res (ref_run o s) <> RAny.
Proof. exact @walk_ref_not_any. Qed.
Print Assumptions C06_walk_ref_not_any.

Theorem C06_copydir_argument_checks :
  forall (src dst : str) (c pt : bool) (s : node) (a b : list str),
       rpath src = inl a ->
       rpath dst = inl b ->
       let r := ref_run (OCopydir src dst c pt) s in
       (list_prefix a b = true -> rejects r s IllegalDestination) /\
       (lookup s a = None -> rejects r s ResourceNotFound) /\
       (forall (d : bytes) (m : option Z),
        lookup s a = Some (File d m) -> rejects r s DirectoryExpected) /\
       (forall (d : bytes) (m : option Z),
        lookup s b = Some (File d m) ->
        rejects r s DirectoryExpected /\ rejects r s DirectoryExists) /\
       (lookup s b = None -> c = false -> rejects r s ResourceNotFound) /\
       (lookup s b = None -> prefix_is_file s [] b = true -> rejects r s DirectoryExpected).
Proof. exact @copydir_argument_checks. Qed.
Print Assumptions C06_copydir_argument_checks.

Theorem C06_movedir_argument_checks :
  forall (src dst : str) (c pt : bool) (s : node) (a b : list str),
       rpath src = inl a ->
       rpath dst = inl b ->
       a <> b ->
       let r := ref_run (OMovedir src dst c pt) s in
       (list_prefix a b = true -> rejects r s IllegalDestination) /\
       (lookup s a = None -> rejects r s ResourceNotFound) /\
       (forall (d : bytes) (m : option Z),
        lookup s a = Some (File d m) -> rejects r s DirectoryExpected) /\
       (forall (d : bytes) (m : option Z),
        lookup s b = Some (File d m) ->
        rejects r s DirectoryExpected /\ rejects r s DirectoryExists) /\
       (lookup s b = None -> c = false -> rejects r s ResourceNotFound) /\
       (lookup s b = None ->
        b <> [] -> status_of s (parent b) <> IsDir -> rejects r s ResourceNotFound).
Proof. exact @movedir_argument_checks. Qed.
Print Assumptions C06_movedir_argument_checks.

Theorem C06_makedirs_argument_checks :
  forall (p : str) (r : bool) (s : node) (cs : list str),
       rpath p = inl cs ->
       let st := ref_run (OMakedirs p r) s in
       (prefix_is_file s [] cs = true -> rejects st s DirectoryExpected) /\
       (prefix_is_file s [] cs = false ->
        status_of s cs = IsDir -> r = false -> rejects st s DirectoryExists).
Proof. exact @makedirs_argument_checks. Qed.
Print Assumptions C06_makedirs_argument_checks.

Theorem C06_walk_invalid_path_rejected :
  forall (o : op) (s : node),
       walk_op o = true ->
       match o with
       | OMakedirs p _ => exists e : list ecls, rpath p = inr e
       | OMovedir src dst _ _ | OCopydir src dst _ _ =>
           (exists e : list ecls, rpath src = inr e) \/ (exists e : list ecls, rpath dst = inr e)
       | _ => False
       end ->
       rs_tree (ref_run o s) = Some s /\
       (exists adm : list ecls,
          rs_res (ref_run o s) = RFail adm /\
          adm <> [] /\
          (forall e : ecls, In e adm -> e = InvalidCharsInPath \/ e = IllegalBackReference)).
Proof. exact @walk_invalid_path_rejected. Qed.
Print Assumptions C06_walk_invalid_path_rejected.
