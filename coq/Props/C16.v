(* C16 — File objects behave like Python io files (MemoryFS handles, proved; the other
   backends are compared with io.FileIO by the correspondence run). *)
From Coq Require Import List NArith ZArith Bool Arith.
From PyFS Require Import Base.PyStr FS.Tree FS.Mode IO.MemFile IO.MemFileProofs.
Import ListNotations.

Theorem C16_memfile_refines : forall content steps,
  let '(ms, mres) := mem_frun (mem_init content) steps in
  let '(rs, rres) := ref_frun (ref_init content) steps in
  mres = rres /\ b_buf (m_bio ms) = r_data rs /\ m_handles ms = r_handles rs.
Proof. exact memfile_refines. Qed.
Print Assumptions C16_memfile_refines.

Theorem C16_append_writes_at_end : forall s i h d s' r,
  nth_error (m_handles s) i = Some h -> m_appending (h_mode h) = true ->
  m_writing (h_mode h) = true -> d <> [] ->
  mem_fcall s i (FWrite d) = (s', r) ->
  b_buf (m_bio s') = b_buf (m_bio s) ++ d.
Proof. exact append_writes_at_end. Qed.
Print Assumptions C16_append_writes_at_end.

Theorem C16_truncate_keeps_position : forall s i h n s' r,
  nth_error (m_handles s) i = Some h -> m_writing (h_mode h) = true ->
  mem_fcall s i (FTruncate n) = (s', r) ->
  exists h', nth_error (m_handles s') i = Some h' /\ h_pos h' = h_pos h
  /\ length (b_buf (m_bio s')) = match n with Some k => k | None => h_pos h end.
Proof. exact truncate_keeps_position. Qed.
Print Assumptions C16_truncate_keeps_position.

Theorem C16_readonly_handle_rejects : forall s i h o s' r,
  nth_error (m_handles s) i = Some h -> m_writing (h_mode h) = false ->
  (exists d, o = FWrite d) \/ (exists l, o = FWritelines l) \/ (exists n, o = FTruncate n) ->
  mem_fcall s i o = (s', r) -> r = RRejected /\ s' = s.
Proof. exact readonly_handle_rejects. Qed.
Print Assumptions C16_readonly_handle_rejects.

Theorem C16_writeonly_handle_rejects_read : forall s i h o s' r,
  nth_error (m_handles s) i = Some h -> m_reading (h_mode h) = false ->
  (exists n, o = FRead n) \/ o = FReadline ->
  mem_fcall s i o = (s', r) -> r = RRejected /\ s' = s.
Proof. exact writeonly_handle_rejects_read. Qed.
Print Assumptions C16_writeonly_handle_rejects_read.
