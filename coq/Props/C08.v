(* C08 — Individual FS methods are linearizable under concurrent use (generic theorem for methods made of one atomic block, any number of threads, every schedule; and the formal counterpart of the known check-then-act race). *)
From Coq Require Import List NArith Arith Bool Lia Permutation.
From PyFS Require Import Base.PyStr FS.Tree Glob.LRU Conc.Atomic Conc.AtomicProofs Conc.LruConc.
Import ListNotations.

Theorem C08_atomic_linearizable :
  forall (G L : Type) (n : nat) (g0 : G) (p0 : pool G L) (sched : list nat),
       (forall i : nat, i < n -> single_atomic (fst (p0 i))) ->
       (forall i : nat, n <= i -> fst (p0 i) = []) ->
       finished (snd (run sched (g0, p0))) ->
       let order := commit_order sched (g0, p0) in
       Permutation order (seq 0 n) /\
       fst (seq_run order (g0, p0)) = fst (run sched (g0, p0)) /\
       (forall i : nat, snd (seq_run order (g0, p0)) i = snd (run sched (g0, p0)) i).
Proof. exact @atomic_linearizable. Qed.
Print Assumptions C08_atomic_linearizable.

Theorem C08_atomic_linearizable_exists :
  forall (G L : Type) (n : nat) (g0 : G) (p0 : pool G L) (sched : list nat),
       (forall i : nat, i < n -> single_atomic (fst (p0 i))) ->
       (forall i : nat, n <= i -> fst (p0 i) = []) ->
       finished (snd (run sched (g0, p0))) ->
       exists order : list nat,
         Permutation order (seq 0 n) /\
         fst (seq_run order (g0, p0)) = fst (run sched (g0, p0)) /\
         (forall i : nat, snd (seq_run order (g0, p0)) i = snd (run sched (g0, p0)) i).
Proof. exact @atomic_linearizable_exists. Qed.
Print Assumptions C08_atomic_linearizable_exists.

Theorem C08_two_block_not_linearizable :
  count_atomic removedir_code = 2 /\
       finished (snd (run race_schedule (race_init, race_pool removedir_code))) /\
       outcome (run race_schedule (race_init, race_pool removedir_code)) =
       ({| d_exists := false; f_exists := false |}, Ok, Ok) /\
       (forall order : list nat,
        Permutation [0; 1] order ->
        outcome (seq_run order (race_init, race_pool removedir_code)) <>
        outcome (run race_schedule (race_init, race_pool removedir_code))).
Proof. exact @two_block_not_linearizable. Qed.
Print Assumptions C08_two_block_not_linearizable.

Theorem C08_one_block_removedir_linearizable :
  forall sched : list nat,
       finished (snd (run sched (race_init, race_pool removedir_atomic_code))) ->
       exists order : list nat,
         Permutation order [0; 1] /\
         outcome (seq_run order (race_init, race_pool removedir_atomic_code)) =
         outcome (run sched (race_init, race_pool removedir_atomic_code)).
Proof. exact @one_block_removedir_linearizable. Qed.
Print Assumptions C08_one_block_removedir_linearizable.

(* ---- the LRU cache of fs/lrucache.py (the process-wide pattern caches): with its lock (one atomic block per call =
   lru_set / lru_get of Glob/LRU.v, tied to the real class by harness/h_lru.py) every schedule keeps the capacity bound and is
   linearizable; the unlocked line-by-line code of the pinned tree is refuted (the defect repaired in /repo c46bb4e) ---- *)
Theorem C08_lru_locked_bound :
  forall (V : Type) (size : nat) (progs : list (list (call V))) (c0 : cache V) (sched : list nat),
    0 < size -> length c0 <= size -> NoDup (keys c0) ->
    length (fst (run sched (c0, locked_pool size progs))) <= size /\
    NoDup (keys (fst (run sched (c0, locked_pool size progs)))).
Proof. exact lru_locked_bound. Qed.
Print Assumptions C08_lru_locked_bound.

Theorem C08_lru_locked_linearizable :
  forall (V : Type) (size : nat) (calls : list (call V)) (c0 : cache V) (sched : list nat),
    finished (snd (run sched (c0, locked_pool size (one_each calls)))) ->
    exists order : list nat,
      Permutation order (seq 0 (length calls)) /\
      fst (seq_run order (c0, locked_pool size (one_each calls)))
        = fst (run sched (c0, locked_pool size (one_each calls))) /\
      (forall i : nat, snd (seq_run order (c0, locked_pool size (one_each calls))) i
                       = snd (run sched (c0, locked_pool size (one_each calls))) i).
Proof. exact lru_locked_linearizable. Qed.
Print Assumptions C08_lru_locked_linearizable.

Theorem C08_lru_locked_linearizable_spec :
  forall (V : Type) (size : nat) (calls : list (call V)) (c0 : cache V) (sched : list nat),
    finished (snd (run sched (c0, locked_pool size (one_each calls)))) ->
    exists order : list nat,
      Permutation order (seq 0 (length calls)) /\
      fst (run sched (c0, locked_pool size (one_each calls)))
        = fst (seq_calls size calls order c0) /\
      map fst (snd (seq_calls size calls order c0)) = order /\
      (forall (i : nat) (r : result V),
          In (i, r) (snd (seq_calls size calls order c0)) ->
          t_out (snd (snd (run sched (c0, locked_pool size (one_each calls))) i)) = [r]).
Proof. exact lru_locked_linearizable_spec. Qed.
Print Assumptions C08_lru_locked_linearizable_spec.

Theorem C08_lru_unlocked_over_capacity :
  length full2 <= 2 /\ NoDup (keys full2) /\
  finished (snd (run race_sched (full2, unlocked_pool 2 race_progs))) /\
  outcome2 (run race_sched (full2, unlocked_pool 2 race_progs))
    = ([(kb, 2%N); (kc, 3%N); (kd, 4%N)], [RNone], [RNone]) /\
  length (fst (run race_sched (full2, unlocked_pool 2 race_progs))) = 2 + 1 /\
  length below2 <= 2 /\ NoDup (keys below2) /\
  finished (snd (run race_sched (below2, unlocked_pool 2 race_progs))) /\
  outcome2 (run race_sched (below2, unlocked_pool 2 race_progs))
    = ([(ka, 1%N); (kc, 3%N); (kd, 4%N)], [RNone], [RNone]) /\
  length (fst (run race_sched (below2, unlocked_pool 2 race_progs))) = 2 + 1.
Proof. exact lru_unlocked_over_capacity. Qed.
Print Assumptions C08_lru_unlocked_over_capacity.

Theorem C08_lru_unlocked_bound_refuted :
  exists (size : nat) (progs : list (list (call N))) (c0 : cache N) (sched : list nat),
    0 < size /\ length c0 <= size /\ NoDup (keys c0) /\
    finished (snd (run sched (c0, unlocked_pool size progs))) /\
    length (fst (run sched (c0, unlocked_pool size progs))) = size + 1.
Proof. exact lru_unlocked_bound_refuted. Qed.
Print Assumptions C08_lru_unlocked_bound_refuted.

Theorem C08_lru_unlocked_not_linearizable :
  forall order : list nat, Permutation [0; 1] order ->
    outcome2 (seq_run order (full2, unlocked_pool 2 race_progs))
      <> outcome2 (run race_sched (full2, unlocked_pool 2 race_progs)) /\
    length (fst (seq_run order (full2, unlocked_pool 2 race_progs))) = 2.
Proof. exact lru_unlocked_not_linearizable. Qed.
Print Assumptions C08_lru_unlocked_not_linearizable.

Theorem C08_lru_over_capacity_stays :
  forall (V : Type) (size : nat) (progs : list (list (call V))) (c0 : cache V) (sched : list nat),
    size < length c0 ->
    length (fst (run sched (c0, locked_pool size progs))) = length c0.
Proof. exact lru_over_capacity_stays. Qed.
Print Assumptions C08_lru_over_capacity_stays.

Theorem C08_lru_locked_never_shrinks :
  forall (V : Type) (size : nat) (progs : list (list (call V))) (c0 : cache V) (sched : list nat),
    length c0 <= length (fst (run sched (c0, locked_pool size progs))).
Proof. exact lru_locked_never_shrinks. Qed.
Print Assumptions C08_lru_locked_never_shrinks.

Theorem C08_lru_over_capacity_for_good :
  forall (progs : list (list (call N))) (sched : list nat),
    length (fst (run sched (fst (run race_sched (full2, unlocked_pool 2 race_progs)),
                            locked_pool 2 progs))) = 3.
Proof. exact lru_over_capacity_for_good. Qed.
Print Assumptions C08_lru_over_capacity_for_good.

Theorem C08_lru_unlocked_set_alone :
  forall (V : Type) (size : nat) (k : str) (v : V) (g : cache V) (l : local V),
    0 < size ->
    fst (complete (unlocked_code size (CSet k v)) g l) = lru_set size g k v /\
    t_out (snd (complete (unlocked_code size (CSet k v)) g l)) = t_out l ++ [RNone].
Proof. exact unlocked_set_alone. Qed.
Print Assumptions C08_lru_unlocked_set_alone.

Theorem C08_lru_unlocked_get_alone :
  forall (V : Type) (size : nat) (k : str) (g : cache V) (l : local V),
    NoDup (keys g) ->
    (fst (complete (unlocked_code size (CGet k)) g l),
     t_out (snd (complete (unlocked_code size (CGet k)) g l)))
    = (fst (apply_call size g (CGet k)), t_out l ++ [snd (apply_call size g (CGet k))]).
Proof. exact unlocked_get_alone. Qed.
Print Assumptions C08_lru_unlocked_get_alone.
