(* C08 — Individual FS methods are linearizable under concurrent use (generic theorem for methods made of one atomic block, any number of threads, every schedule; and the formal counterpart of the known check-then-act race). *)
From Coq Require Import List Arith Bool Lia Permutation.
From PyFS Require Import Conc.Atomic Conc.AtomicProofs.
Import ListNotations.

Theorem C08_atomic_linearizable :
  forall (G L : Type) (n : nat) (g0 : G) (p0 : pool G L) (sched : list nat),
       (forall i : nat, i < n -> single_atomic (fst (p0 i))) ->
       (forall i : nat, n <= i -> fst (p0 i) = []) ->
       finished (snd (run sched (g0, p0))) ->
       let order := commit_order sched (g0, p0) in
       Permutation order (seq 0 n) /\
       fst (seq_run order (g0, p0)) = fst (run sched (g0, p0)) /\
       (forall i : nat, snd (seq_run order (g0, p0)) i = snd (run sched (g0, p0)) i).
Proof. exact @atomic_linearizable. Qed.
Print Assumptions C08_atomic_linearizable.

Theorem C08_atomic_linearizable_exists :
  forall (G L : Type) (n : nat) (g0 : G) (p0 : pool G L) (sched : list nat),
       (forall i : nat, i < n -> single_atomic (fst (p0 i))) ->
       (forall i : nat, n <= i -> fst (p0 i) = []) ->
       finished (snd (run sched (g0, p0))) ->
       exists order : list nat,
         Permutation order (seq 0 n) /\
         fst (seq_run order (g0, p0)) = fst (run sched (g0, p0)) /\
         (forall i : nat, snd (seq_run order (g0, p0)) i = snd (run sched (g0, p0)) i).
Proof. exact @atomic_linearizable_exists. Qed.
Print Assumptions C08_atomic_linearizable_exists.

Theorem C08_two_block_not_linearizable :
  count_atomic removedir_code = 2 /\
       finished (snd (run race_schedule (race_init, race_pool removedir_code))) /\
       outcome (run race_schedule (race_init, race_pool removedir_code)) =
       ({| d_exists := false; f_exists := false |}, Ok, Ok) /\
       (forall order : list nat,
        Permutation [0; 1] order ->
        outcome (seq_run order (race_init, race_pool removedir_code)) <>
        outcome (run race_schedule (race_init, race_pool removedir_code))).
Proof. exact @two_block_not_linearizable. Qed.
Print Assumptions C08_two_block_not_linearizable.

Theorem C08_one_block_removedir_linearizable :
  forall sched : list nat,
       finished (snd (run sched (race_init, race_pool removedir_atomic_code))) ->
       exists order : list nat,
         Permutation order [0; 1] /\
         outcome (seq_run order (race_init, race_pool removedir_atomic_code)) =
         outcome (run sched (race_init, race_pool removedir_atomic_code)).
Proof. exact @one_block_removedir_linearizable. Qed.
Print Assumptions C08_one_block_removedir_linearizable.
