(* C14 — Glob and wildcard matching follow the documented shell semantics.
   Theorems about the reference semantics (Glob/ShellSpec.v) that the implementation is
   compared with on every run, and about the pattern cache (fs/lrucache.py model). *)
From Coq Require Import List NArith Bool Arith.
From PyFS Require Import Base.PyStr Base.Outcome Path.PathSpec FS.Tree Glob.ShellSpec Glob.LRU Glob.GlobProofs
     Glob.Regex Glob.Translate Glob.TranslateProofs.
Import ListNotations.

(* '*', '?' and classes stay within one component *)
Theorem C14_component_count : forall cs pcs path,
  forallb (fun c => negb (is_dstar c)) pcs = true ->
  gmatch cs pcs path = true -> length path = length pcs.
Proof. exact gmatch_component_count. Qed.
Print Assumptions C14_component_count.

Theorem C14_component_noslash : forall cs ts s,
  tmatch cs true ts s = true -> (forall c, In (TLit c) ts -> c <> slash) ->
  (forall items, In (TClass false items) ts ->
      forall i, In i items -> item_has cs i slash = false) ->
  has_char slash s = false.
Proof. exact tmatch_component_noslash. Qed.
Print Assumptions C14_component_noslash.

(* '**' matches any number of whole directory levels, and nothing else *)
Theorem C14_dstar_any_levels : forall cs r path extra,
  gmatch cs r path = true -> gmatch cs ([ch_star; ch_star] :: r) (extra ++ path) = true.
Proof. exact gmatch_dstar_any. Qed.
Print Assumptions C14_dstar_any_levels.

Theorem C14_dstar_whole_levels : forall cs r path,
  gmatch cs ([ch_star; ch_star] :: r) path = true ->
  exists a b, path = a ++ b /\ gmatch cs r b = true.
Proof. exact gmatch_dstar_inv. Qed.
Print Assumptions C14_dstar_whole_levels.

(* depth pruning never loses a match *)
Theorem C14_levels_sound : forall cs pat path d n,
  levels pat = Some n -> glob_spec cs pat path d = Some true -> length path <= n.
Proof. exact levels_sound. Qed.
Print Assumptions C14_levels_sound.

(* names match in full *)
Theorem C14_literal_full_match : forall s t,
  tmatch true false (map TLit s) t = true <-> t = s.
Proof. exact tmatch_literal. Qed.
Print Assumptions C14_literal_full_match.

(* the compiled-pattern cache is bounded and transparent *)
Theorem C14_lru_bound : forall (V : Type) size (c : list (str * V)) k v,
  0 < size -> length c <= size -> length (lru_set size c k v) <= size.
Proof. exact lru_bound. Qed.
Print Assumptions C14_lru_bound.

Theorem C14_cache_transparent : forall (V : Type) size (compute : str -> V) c k,
  NoDup (keys c) ->
  (forall k' v', assoc k' c = Some v' -> v' = compute k') ->
  fst (cached size compute c k) = compute k
  /\ (forall k' v', assoc k' (snd (cached size compute c k)) = Some v' -> v' = compute k').
Proof. exact cached_transparent. Qed.
Print Assumptions C14_cache_transparent.

Theorem C14_cache_keys_unique : forall (V : Type) size (compute : str -> V) c k,
  NoDup (keys c) -> NoDup (keys (snd (cached size compute c k))).
Proof. exact cached_nodup. Qed.
Print Assumptions C14_cache_keys_unique.

(* ---- the regex translation performed by the code (Glob/Translate.v), tied to /repo by exact text equality ---- *)

(* the regex text produced by the code (model compared character by character on every run)
   is the rendering of a regex of the modelled subset *)
Theorem C14_wild_text_is_regex : forall cs p,
  wild_regex_text cs p = render_full (wild_regex cs p).
Proof. exact wild_regex_text_render. Qed.
Print Assumptions C14_wild_text_is_regex.

Theorem C14_glob_text_is_regex : forall pat,
  glob_translate_glob pat
  = omap (fun x : option nat * regex => (fst x, render_full (snd x))) (glob_translate_glob_ast pat).
Proof. exact glob_translate_glob_render. Qed.
Print Assumptions C14_glob_text_is_regex.

(* wildcard.match / imatch decide exactly the documented semantics, for all patterns and names *)
Theorem C14_wild_regex_correct : forall cs p name,
  re_match (negb cs) (wild_regex cs p) name = wild_spec cs p name.
Proof. exact wild_regex_correct. Qed.
Print Assumptions C14_wild_regex_correct.

(* glob.match / imatch on '**'-free patterns with regular classes *)
Theorem C14_glob_regex_correct : forall cs pat pcs lv r segs trailing,
  glob_translate_glob_ast pat = Ok (lv, r) ->
  resolve (comps pat) = Some pcs ->
  glob_pattern_ok pat = true ->
  forallb seg_ok segs = true ->
  implb trailing (ends_c slash pat) = true ->
  re_match (negb cs) r (path_text segs trailing)
  = eqb trailing (ends_c slash pat) && gmatch cs pcs segs.
Proof. exact glob_regex_correct. Qed.
Print Assumptions C14_glob_regex_correct.

Theorem C14_glob_levels_correct : forall pat lv t,
  glob_translate_glob pat = Ok (lv, t) -> lv = ShellSpec.levels pat.
Proof. exact glob_levels_correct. Qed.
Print Assumptions C14_glob_levels_correct.

Theorem C14_glob_translate_total : forall pat,
  match resolve (comps pat) with
  | None => glob_translate_glob pat = Err IllegalBackReference
  | Some _ => exists lv t, glob_translate_glob pat = Ok (lv, t)
  end.
Proof. exact glob_translate_glob_total. Qed.
Print Assumptions C14_glob_translate_total.
