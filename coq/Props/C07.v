(* C07 — An I/O failure at any point of a move loses no source data (model of fs.move.move_file / move_dir: any fault position, FSError / OSError / process stop, any prefix left by a failing write). *)
From Coq Require Import List Arith Bool Lia.
From PyFS Require Import Fault.MoveFault Fault.MoveFaultProofs.
Import ListNotations.

Theorem C07_move_file_no_loss :
  forall (cs : nat) (e : exn) (p : nat) (k : option nat) (s d : files) (n : name) (b : bytes),
       lookup n s = Some b ->
       let (t, _) := run_move_file cs e p k s d n in
       lookup n (src t) = Some b \/ lookup n (dst t) = Some b.
Proof. exact @move_file_no_loss. Qed.
Print Assumptions C07_move_file_no_loss.

Theorem C07_move_file_reports :
  forall (cs : nat) (e : exn) (p : nat) (k : option nat) (s d : files) (n : name) (b : bytes),
       lookup n s = Some b ->
       fired_move_file cs e p k s d n = true -> snd (run_move_file cs e p k s d n) <> Ok.
Proof. exact @move_file_reports. Qed.
Print Assumptions C07_move_file_reports.

Theorem C07_move_file_ok_moves :
  forall (cs : nat) (e : exn) (p : nat) (k : option nat) (s d : files) (n : name) (b : bytes),
       lookup n s = Some b ->
       fired_move_file cs e p k s d n = false ->
       let (t, o) := run_move_file cs e p k s d n in
       o = Ok /\ lookup n (src t) = None /\ lookup n (dst t) = Some b.
Proof. exact @move_file_ok_moves. Qed.
Print Assumptions C07_move_file_ok_moves.

Theorem C07_move_file_ok_means_moved :
  forall (cs : nat) (e : exn) (p : nat) (k : option nat) (s d : files) (n : name) (b : bytes),
       lookup n s = Some b ->
       snd (run_move_file cs e p k s d n) = Ok ->
       lookup n (src (fst (run_move_file cs e p k s d n))) = None /\
       lookup n (dst (fst (run_move_file cs e p k s d n))) = Some b.
Proof. exact @move_file_ok_means_moved. Qed.
Print Assumptions C07_move_file_ok_means_moved.

Theorem C07_move_file_error_means_fault :
  forall (cs : nat) (e : exn) (p : nat) (k : option nat) (s d : files) (n : name) (b : bytes),
       lookup n s = Some b ->
       snd (run_move_file cs e p k s d n) <> Ok ->
       fired_move_file cs e p k s d n = true /\
       k <> None /\ lookup n (src (fst (run_move_file cs e p k s d n))) = Some b.
Proof. exact @move_file_error_means_fault. Qed.
Print Assumptions C07_move_file_error_means_fault.

Theorem C07_move_dir_no_loss :
  forall (cs : nat) (e : exn) (p : nat) (k : option nat) (s d : files),
       NoDup (map fst s) ->
       forall (n : name) (b : bytes),
       lookup n s = Some b ->
       let (t, _) := run_move_dir cs e p k s d in
       lookup n (src t) = Some b \/ lookup n (dst t) = Some b.
Proof. exact @move_dir_no_loss. Qed.
Print Assumptions C07_move_dir_no_loss.

Theorem C07_move_dir_source_removed_late :
  forall (cs : nat) (e : exn) (p : nat) (k : option nat) (s d : files),
       NoDup (map fst s) ->
       forall (n : name) (b : bytes),
       lookup n s = Some b ->
       let (t, _) := run_move_dir cs e p k s d in
       lookup n (src t) = None -> lookup n (dst t) = Some b.
Proof. exact @move_dir_source_removed_late. Qed.
Print Assumptions C07_move_dir_source_removed_late.

Theorem C07_move_dir_removal_after_all_copies :
  forall (cs : nat) (e : exn) (p : nat) (k : option nat) (s d : files),
       let (t, _) := run_move_dir cs e p k s d in
       src t <> s ->
       forall (n : name) (b : bytes), lookup n s = Some b -> lookup n (dst t) = Some b.
Proof. exact @move_dir_removal_after_all_copies. Qed.
Print Assumptions C07_move_dir_removal_after_all_copies.

Theorem C07_move_dir_reports :
  forall (cs : nat) (e : exn) (p : nat) (k : option nat) (s d : files),
       NoDup (map fst s) ->
       fired_move_dir cs e p k s d = true -> snd (run_move_dir cs e p k s d) <> Ok.
Proof. exact @move_dir_reports. Qed.
Print Assumptions C07_move_dir_reports.

Theorem C07_move_dir_ok_moves :
  forall (cs : nat) (e : exn) (p : nat) (k : option nat) (s d : files),
       NoDup (map fst s) ->
       fired_move_dir cs e p k s d = false ->
       let (t, o) := run_move_dir cs e p k s d in
       o = Ok /\
       (forall (n : name) (b : bytes),
        lookup n s = Some b -> lookup n (src t) = None /\ lookup n (dst t) = Some b).
Proof. exact @move_dir_ok_moves. Qed.
Print Assumptions C07_move_dir_ok_moves.
