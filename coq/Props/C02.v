(* C02 — Stored data is returned bit-identical by every read path. *)
From Coq Require Import List NArith ZArith Bool Arith.
From PyFS Require Import Base.PyStr FS.Tree FS.Mode IO.CopyData IO.MakeStream IO.CopyDataProofs.
Import ListNotations.

(* the chunked copy loop transfers every byte, in order, for every chunk size (None, negative,
   any positive) and every pattern of short reads *)
Theorem C02_copy_data_concat : forall data c oracle,
  effective c <> Some 0 -> concat (copy_file_data data c oracle) = data.
Proof. exact copy_data_concat. Qed.
Print Assumptions C02_copy_data_concat.

Theorem C02_copy_data_zero_chunk : forall data oracle, copy_file_data data (CNat 0) oracle = [].
Proof. exact copy_data_zero_chunk. Qed.
Print Assumptions C02_copy_data_zero_chunk.

Theorem C02_copy_data_chunks : forall data k oracle,
  Forall (fun ch => ch <> [] /\ length ch <= k) (copy_file_data data (CNat k) oracle).
Proof. exact copy_data_chunks. Qed.
Print Assumptions C02_copy_data_chunks.

Theorem C02_copy_data_empty : forall c oracle, copy_file_data [] c oracle = [].
Proof. exact copy_data_empty. Qed.
Print Assumptions C02_copy_data_empty.

Theorem C02_hash_chunks : forall data oracle, concat (hash_feed data oracle) = data.
Proof. exact hash_chunks. Qed.
Print Assumptions C02_hash_chunks.

Theorem C02_make_stream_table :
  forallb (fun m =>
    let s := make_stream m 1%Z in
    Bool.eqb (s_text s) (negb (has_char ch_b m))
    && (if m_exclusive m && negb (has_char ch_plus m)
        then match s_buffer s with NoBuffer => true | _ => false end
        else Bool.eqb (can_read (s_buffer s)) (m_reading m)
             && Bool.eqb (can_write (s_buffer s)) (m_writing m))) all_modes = true.
Proof. exact make_stream_table. Qed.
Print Assumptions C02_make_stream_table.
