(* C02 — Stored data is returned bit-identical by every read path. *)
From Coq Require Import List NArith ZArith Bool Arith.
From PyFS Require Import Base.PyStr Base.Outcome Base.Render FS.Tree FS.Mode FS.Ops FS.Ref FS.Wf IO.CopyData IO.MakeStream
     IO.CopyDataProofs FS.DataRoundTrip.
Import ListNotations.

(* the chunked copy loop transfers every byte, in order, for every chunk size (None, negative,
   any positive) and every pattern of short reads *)
Theorem C02_copy_data_concat : forall data c oracle,
  effective c <> Some 0 -> concat (copy_file_data data c oracle) = data.
Proof. exact copy_data_concat. Qed.
Print Assumptions C02_copy_data_concat.

Theorem C02_copy_data_zero_chunk : forall data oracle, copy_file_data data (CNat 0) oracle = [].
Proof. exact copy_data_zero_chunk. Qed.
Print Assumptions C02_copy_data_zero_chunk.

Theorem C02_copy_data_chunks : forall data k oracle,
  Forall (fun ch => ch <> [] /\ length ch <= k) (copy_file_data data (CNat k) oracle).
Proof. exact copy_data_chunks. Qed.
Print Assumptions C02_copy_data_chunks.

Theorem C02_copy_data_empty : forall c oracle, copy_file_data [] c oracle = [].
Proof. exact copy_data_empty. Qed.
Print Assumptions C02_copy_data_empty.

Theorem C02_hash_chunks : forall data oracle, concat (hash_feed data oracle) = data.
Proof. exact hash_chunks. Qed.
Print Assumptions C02_hash_chunks.

Theorem C02_make_stream_table :
  forallb (fun m =>
    let s := make_stream m 1%Z in
    Bool.eqb (s_text s) (negb (has_char ch_b m))
    && (if m_exclusive m && negb (has_char ch_plus m)
        then match s_buffer s with NoBuffer => true | _ => false end
        else Bool.eqb (can_read (s_buffer s)) (m_reading m)
             && Bool.eqb (can_write (s_buffer s)) (m_writing m))) all_modes = true.
Proof. exact make_stream_table. Qed.
Print Assumptions C02_make_stream_table.

Theorem C02_make_stream_text_unbuffered_rejected : forall m,
  has_char ch_b m = false -> make_stream_call m 0%Z = None.
Proof. exact make_stream_text_unbuffered_rejected. Qed.
Print Assumptions C02_make_stream_text_unbuffered_rejected.

Theorem C02_make_stream_call_builds : forall m b,
  (b <> 0%Z \/ has_char ch_b m = true) -> make_stream_call m b = Some (make_stream m b).
Proof. exact make_stream_call_builds. Qed.
Print Assumptions C02_make_stream_call_builds.

(* ---- FS-level round trips on the MemoryFS model (tied to the real MemoryFS step by step by the C01/C02 runs) ---- *)
Theorem C02_write_then_read : forall p d s s' v, wf s -> mem_run (OWritebytes p d) s = (s', Ok v) ->
  mem_run (OReadbytes p) s' = (s', Ok (VBytes d)).
Proof. exact write_then_read. Qed.
Print Assumptions C02_write_then_read.

Theorem C02_openwrite_then_read : forall p d s s' v, wf s -> mem_run (OOpenwrite p [119%N] d) s = (s', Ok v) ->
  mem_run (OReadbytes p) s' = (s', Ok (VBytes d)).
Proof. exact openwrite_then_read. Qed.
Print Assumptions C02_openwrite_then_read.

Theorem C02_append_then_read : forall p d old s s' v, wf s -> mem_run (OReadbytes p) s = (s, Ok (VBytes old)) ->
  mem_run (OAppendbytes p d) s = (s', Ok v) -> mem_run (OReadbytes p) s' = (s', Ok (VBytes (old ++ d))).
Proof. exact append_then_read. Qed.
Print Assumptions C02_append_then_read.

Theorem C02_append_new_then_read : forall p d s s' v, wf s -> mem_run (OExists p) s = (s, Ok (VBool false)) ->
  mem_run (OAppendbytes p d) s = (s', Ok v) -> mem_run (OReadbytes p) s' = (s', Ok (VBytes d)).
Proof. exact append_new_then_read. Qed.
Print Assumptions C02_append_new_then_read.

Theorem C02_copy_then_read : forall a b ow pt data s s' v, wf s -> mem_run (OReadbytes a) s = (s, Ok (VBytes data)) ->
  mem_run (OCopy a b ow pt) s = (s', Ok v) ->
  mem_run (OReadbytes b) s' = (s', Ok (VBytes data)) /\ mem_run (OReadbytes a) s' = (s', Ok (VBytes data)).
Proof. exact copy_then_read. Qed.
Print Assumptions C02_copy_then_read.

Theorem C02_move_then_read : forall a b ow pt data s s' v, wf s -> mem_run (OReadbytes a) s = (s, Ok (VBytes data)) ->
  mem_run (OMove a b ow pt) s = (s', Ok v) -> mem_run (OReadbytes b) s' = (s', Ok (VBytes data)).
Proof. exact move_then_read. Qed.
Print Assumptions C02_move_then_read.

Theorem C02_read_paths_agree : forall p data s, wf s -> mem_run (OReadbytes p) s = (s, Ok (VBytes data)) ->
  mem_run (OGetsize p) s = (s, Ok (VNat (length data))) /\
  mem_run (OOpenread p [114%N]) s = (s, Ok (VBytes data)) /\ mem_run (OIsfile p) s = (s, Ok (VBool true)).
Proof. exact read_paths_agree. Qed.
Print Assumptions C02_read_paths_agree.

(* writing one file does not change the bytes of a different file *)
Theorem C02_write_frame : forall p q d data s s' v cp cq, wf s -> rpath p = inl cp -> rpath q = inl cq -> cp <> cq ->
  mem_run (OReadbytes q) s = (s, Ok (VBytes data)) -> mem_run (OWritebytes p d) s = (s', Ok v) ->
  mem_run (OReadbytes q) s' = (s', Ok (VBytes data)).
Proof. exact write_frame. Qed.
Print Assumptions C02_write_frame.
