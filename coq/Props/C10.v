(* C10 — All query methods agree with each other in every state (MemoryFS model). *)
From Coq Require Import List NArith ZArith Bool Arith.
From PyFS Require Import Base.PyStr Base.Outcome Path.PathModel Path.PathSpec FS.Tree FS.Monad FS.Mode FS.Base
     FS.Mem FS.Ops FS.Ref FS.Agree FS.Props FS.Wf FS.PropsProofs.
Import ListNotations.

Theorem C10_mem_query_pure : forall p s,
  fst (mem_getinfo p s) = s /\ fst (mem_listdir p s) = s /\ fst (mem_scandir p s) = s /\
  fst (mem_exists p s) = s /\ fst (mem_isdir p s) = s /\ fst (mem_isfile p s) = s /\
  fst (mem_isempty p s) = s /\ fst (mem_getsize p s) = s /\ fst (mem_gettype p s) = s /\
  fst (mem_readbytes p s) = s /\ fst (mem_validatepath p s) = s.
Proof. exact mem_query_pure. Qed.
Print Assumptions C10_mem_query_pure.

Theorem C10_q_exists : forall p s b d f,
  mem_exists p s = (s, Ok b) -> mem_isdir p s = (s, Ok d) -> mem_isfile p s = (s, Ok f) ->
  b = d || f /\ d && f = false.
Proof. exact q_exists. Qed.
Print Assumptions C10_q_exists.

Theorem C10_q_listdir_scandir : forall p s names,
  wf s -> mem_listdir p s = (s, Ok names) ->
  exists infos, mem_scandir p s = (s, Ok infos) /\ names = map i_name infos /\ NoDup names.
Proof. exact q_listdir_scandir. Qed.
Print Assumptions C10_q_listdir_scandir.

Theorem C10_q_scandir_listdir : forall p s infos,
  mem_scandir p s = (s, Ok infos) -> mem_listdir p s = (s, Ok (map i_name infos)).
Proof. exact q_scandir_listdir. Qed.
Print Assumptions C10_q_scandir_listdir.

Theorem C10_q_isempty : forall p s b,
  mem_isempty p s = (s, Ok b) -> (b = true <-> mem_listdir p s = (s, Ok [])).
Proof. exact q_isempty. Qed.
Print Assumptions C10_q_isempty.

Theorem C10_q_getsize : forall p s data,
  mem_readbytes p s = (s, Ok data) ->
  mem_getsize p s = (s, Ok (length data)) /\
  exists i, mem_getinfo p s = (s, Ok i) /\ i_size i = length data /\ i_isdir i = false.
Proof. exact q_getsize. Qed.
Print Assumptions C10_q_getsize.

Theorem C10_q_gettype : forall p s i,
  mem_getinfo p s = (s, Ok i) ->
  mem_gettype p s = (s, Ok (if i_isdir i then 1 else 2)) /\
  mem_isdir p s = (s, Ok (i_isdir i)) /\
  mem_isfile p s = (s, Ok (negb (i_isdir i))).
Proof. exact q_gettype. Qed.
Print Assumptions C10_q_gettype.

Theorem C10_q_scandir_getinfo : forall p s infos cs,
  wf s -> mem_scandir p s = (s, Ok infos) -> rpath p = inl cs ->
  forall i, In i infos -> has_char Mem.nul (i_name i) = false ->
  exists q, pjoin [to_path true cs; i_name i] = Ok q /\ mem_getinfo q s = (s, Ok i).
Proof. exact q_scandir_getinfo. Qed.
Print Assumptions C10_q_scandir_getinfo.
