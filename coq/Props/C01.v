(* C01 — All writable filesystems implement one reference semantics.
   Proved part: the MemoryFS model (FS/Mem.v + the derived methods of FS/Base.v it uses)
   refines the reference semantics FS/Ref.v, for every reachable state and every argument,
   for all calls: the 23 calls that do not go through the directory walker (C01_conformance_partial),
   makedirs, copydir and movedir (fast path and merge) in every non-degenerate case (destination not
   an ancestor of the source, where the contract leaves the result open), on states whose names are
   NUL-free (an invariant: the C01_nn theorems). The other backends and compositions are tied to the reference by
   the correspondence run only. *)
From Coq Require Import List NArith Bool.
From PyFS Require Import Base.PyStr Base.Outcome FS.Tree FS.Ops FS.Ref FS.Agree FS.Mem FS.Wf
     FS.RefineProofs FS.RefineWalkLemmasMk FS.RefineWalkLemmasBfs FS.RefineWalkNn FS.RefineWalk Path.PathModel Path.PathSpec FS.Wrap Sandbox.Sandbox FS.WrapLemmas FS.WrapProofs.
Import ListNotations.

Theorem C01_wf_initial : wf empty_dir.
Proof. exact wf_empty. Qed.
Print Assumptions C01_wf_initial.

(* every reachable state is well formed (unique, slash-free, non-empty names) *)
Theorem C01_wf_preserved : forall o s, wf s -> covered o = true -> wf (fst (mem_run o s)).
Proof. exact mem_wf_preserved. Qed.
Print Assumptions C01_wf_preserved.

(* same verdict, admissible error class, same return value, same tree *)
Theorem C01_conformance_partial : forall o s, wf s -> covered o = true ->
  agree (mem_run o s) (ref_run o s) = true.
Proof. exact mem_refines_ref. Qed.
Print Assumptions C01_conformance_partial.

Theorem C01_movedir_fast_path : forall src dst create pt s cs cd,
  wf s -> rpath src = inl cs -> rpath dst = inl cd -> lookup s cd = None ->
  agree (mem_run (OMovedir src dst create pt) s) (ref_run (OMovedir src dst create pt) s) = true.
Proof. exact mem_movedir_refines_ref. Qed.
Print Assumptions C01_movedir_fast_path.

Theorem C01_movedir_fast_path_wf : forall src dst create pt s cs cd,
  wf s -> rpath src = inl cs -> rpath dst = inl cd -> lookup s cd = None ->
  wf (fst (mem_run (OMovedir src dst create pt) s)).
Proof. exact mem_movedir_wf. Qed.
Print Assumptions C01_movedir_fast_path_wf.

(* ---- walker-based calls ---- *)
Theorem C01_mem_makedirs_refines_ref :
  forall (p : str) (recreate : bool) (s : node) (cs : list str),
       wf s ->
       rpath p = inl cs ->
       agree (mem_run (OMakedirs p recreate) s) (ref_run (OMakedirs p recreate) s) = true.
Proof. exact @mem_makedirs_refines_ref. Qed.
Print Assumptions C01_mem_makedirs_refines_ref.

Theorem C01_mem_makedirs_wf :
  forall (p : str) (recreate : bool) (s : node) (cs : list str),
       wf s -> rpath p = inl cs -> wf (fst (mem_run (OMakedirs p recreate) s)).
Proof. exact @mem_makedirs_wf. Qed.
Print Assumptions C01_mem_makedirs_wf.

Theorem C01_mem_copydir_refines_ref :
  forall (src dst : str) (create pt : bool) (s : node) (a b : list str),
       wf s ->
       nn s ->
       rpath src = inl a ->
       rpath dst = inl b ->
       list_prefix b a = false ->
       agree (mem_run (OCopydir src dst create pt) s) (ref_run (OCopydir src dst create pt) s) =
       true.
Proof. exact @mem_copydir_refines_ref. Qed.
Print Assumptions C01_mem_copydir_refines_ref.

Theorem C01_mem_copydir_wf :
  forall (src dst : str) (create pt : bool) (s : node) (a b : list str),
       wf s ->
       nn s ->
       rpath src = inl a ->
       rpath dst = inl b ->
       list_prefix b a = false ->
       wf (fst (mem_run (OCopydir src dst create pt) s)) /\
       nn (fst (mem_run (OCopydir src dst create pt) s)).
Proof. exact @mem_copydir_wf. Qed.
Print Assumptions C01_mem_copydir_wf.

Theorem C01_mem_movedir_exist_refines_ref :
  forall (src dst : str) (create pt : bool) (s : node) (a b : list str) (D : node),
       wf s ->
       nn s ->
       rpath src = inl a ->
       rpath dst = inl b ->
       list_prefix b a = false ->
       lookup s b = Some D ->
       agree (mem_run (OMovedir src dst create pt) s) (ref_run (OMovedir src dst create pt) s) =
       true.
Proof. exact @mem_movedir_exist_refines_ref. Qed.
Print Assumptions C01_mem_movedir_exist_refines_ref.

Theorem C01_mem_movedir_refines_ref_nondegenerate :
  forall (src dst : str) (create pt : bool) (s : node) (a b : list str),
       wf s ->
       nn s ->
       rpath src = inl a ->
       rpath dst = inl b ->
       list_prefix b a = false ->
       agree (mem_run (OMovedir src dst create pt) s) (ref_run (OMovedir src dst create pt) s) =
       true /\
       wf (fst (mem_run (OMovedir src dst create pt) s)) /\
       nn (fst (mem_run (OMovedir src dst create pt) s)).
Proof. exact @mem_movedir_refines_ref_nondegenerate. Qed.
Print Assumptions C01_mem_movedir_refines_ref_nondegenerate.

Theorem C01_nn_initial :
  nn empty_dir.
Proof. exact @nn_initial. Qed.
Print Assumptions C01_nn_initial.

Theorem C01_nn_preserved_covered :
  forall (o : op) (s : node), wf s -> nn s -> covered o = true -> nn (fst (mem_run o s)).
Proof. exact @nn_preserved_covered. Qed.
Print Assumptions C01_nn_preserved_covered.

(* ---- compositions: SubFS (any nesting depth) and WrapFS over the MemoryFS model refine the
        reference on the sub-tree and change nothing outside it. [sub_pre] / [wrap_pre] exclude
        calls where the wrapper checks things in another order than MemoryFS (a NUL hidden by a
        '..', an invalid mode together with a climbing path, copy without overwrite from an
        invalid source): for those the call fails and changes nothing (…_excluded_call_fails),
        and SubFS agrees with the reference on the normalised call (…_normalised). ---- *)
Theorem C01_subfs_refines_ref :
  forall (d : list str) (sub : node) (o : op) (s : node),
       wf s ->
       nn s ->
       Forall good d ->
       Forall (fun c : str => has_char nul c = false) d ->
       lookup s d = Some sub ->
       is_dir sub = true ->
       covered o = true ->
       sub_pre o = true -> sub_agree d (subfs_run (to_path true d) o s) (ref_run o sub) s = true.
Proof. exact @subfs_refines_ref. Qed.
Print Assumptions C01_subfs_refines_ref.

Theorem C01_subfs_refines_ref_walk :
  forall (d : list str) (sub : node) (o : op) (s : node),
       wf s ->
       nn s ->
       Forall good d ->
       Forall (fun c : str => has_char nul c = false) d ->
       lookup s d = Some sub ->
       is_dir sub = true ->
       match o with
       | OMakedirs p _ => exists cs : list str, rpath p = inl cs
       | OMovedir a b _ _ | OCopydir a b _ _ =>
           exists ca cb : list str,
             rpath a = inl ca /\ rpath b = inl cb /\ list_prefix cb ca = false
       | _ => False
       end -> sub_agree d (subfs_run (to_path true d) o s) (ref_run o sub) s = true.
Proof. exact @subfs_refines_ref_walk. Qed.
Print Assumptions C01_subfs_refines_ref_walk.

Theorem C01_subfs_wf_preserved :
  forall (d : list str) (sub : node) (o : op) (s : node),
       wf s ->
       nn s ->
       Forall good d ->
       Forall (fun c : str => has_char nul c = false) d ->
       lookup s d = Some sub ->
       is_dir sub = true ->
       covered o = true ->
       wf (fst (subfs_run (to_path true d) o s)) /\
       nn (fst (subfs_run (to_path true d) o s)) /\
       (exists sub' : node,
          lookup (fst (subfs_run (to_path true d) o s)) d = Some sub' /\ is_dir sub' = true).
Proof. exact @subfs_wf_preserved. Qed.
Print Assumptions C01_subfs_wf_preserved.

Theorem C01_nested_subfs_refines_ref :
  forall (subs : list (list str)) (sub : node) (o : op) (s : node),
       subs <> [] ->
       wf s ->
       nn s ->
       Forall (Forall good) subs ->
       Forall (Forall (fun c : str => has_char nul c = false)) subs ->
       lookup s (concat (rev subs)) = Some sub ->
       is_dir sub = true ->
       covered o = true ->
       sub_pre o = true ->
       sub_agree (concat (rev subs)) (nested_subfs_run (map (to_path true) subs) o s)
         (ref_run o sub) s = true.
Proof. exact @nested_subfs_refines_ref. Qed.
Print Assumptions C01_nested_subfs_refines_ref.

Theorem C01_nested_subfs_wf_preserved :
  forall (subs : list (list str)) (sub : node) (o : op) (s : node),
       subs <> [] ->
       wf s ->
       nn s ->
       Forall (Forall good) subs ->
       Forall (Forall (fun c : str => has_char nul c = false)) subs ->
       lookup s (concat (rev subs)) = Some sub ->
       is_dir sub = true ->
       covered o = true ->
       wf (fst (nested_subfs_run (map (to_path true) subs) o s)) /\
       nn (fst (nested_subfs_run (map (to_path true) subs) o s)) /\
       (exists sub' : node,
          lookup (fst (nested_subfs_run (map (to_path true) subs) o s)) (concat (rev subs)) =
          Some sub' /\ is_dir sub' = true).
Proof. exact @nested_subfs_wf_preserved. Qed.
Print Assumptions C01_nested_subfs_wf_preserved.

Theorem C01_wrapfs_refines_ref :
  forall (o : op) (s : node),
       wf s ->
       nn s -> covered o = true -> wrap_pre o = true -> agree (wrapfs_run o s) (ref_run o s) = true.
Proof. exact @wrapfs_refines_ref. Qed.
Print Assumptions C01_wrapfs_refines_ref.

Theorem C01_subfs_excluded_call_fails :
  forall (d : list str) (o : op) (s : node),
       Forall good d ->
       Forall (fun c : str => has_char nul c = false) d ->
       covered o = true ->
       g_pre o = false -> exists e : ecls, subfs_run (to_path true d) o s = (s, Err e).
Proof. exact @subfs_excluded_call_fails. Qed.
Print Assumptions C01_subfs_excluded_call_fails.

Theorem C01_wrapfs_excluded_call_fails :
  forall (o : op) (s : node),
       covered o = true -> wrap_pre o = false -> exists e : ecls, wrapfs_run o s = (s, Err e).
Proof. exact @wrapfs_excluded_call_fails. Qed.
Print Assumptions C01_wrapfs_excluded_call_fails.

Theorem C01_subfs_refines_ref_normalised :
  forall (d : list str) (sub : node) (o : op) (s : node),
       wf s ->
       nn s ->
       Forall good d ->
       Forall (fun c : str => has_char nul c = false) d ->
       lookup s d = Some sub ->
       is_dir sub = true ->
       covered o = true ->
       g_pre o = true ->
       sub_agree d (subfs_run (to_path true d) o s) (ref_run (nop o) sub) s = true.
Proof. exact @subfs_refines_ref_normalised. Qed.
Print Assumptions C01_subfs_refines_ref_normalised.

(* ---- OSFS: the model over the POSIX kernel model (FS/Posix.v, FS/Osfs.v), tied to the real OSFS step by step on every run ---- *)
(* The OSFS block of /verif/coq/Props/C01.v (everything after the marker comment line "---- OSFS: the model over the
   POSIX kernel model ..."): 16 theorems.  It also compiles on its own:  cd /verif/coq && coqc -Q . PyFS /tmp/osfs/C01add.v
   The import lines stay mid-file; if they are ever merged into the header of C01.v keep String LAST and add
   Local Open Scope list_scope (String re-binds length and ++). *)
From Coq Require Import List NArith ZArith Bool String.
From PyFS Require Import Base.PyStr Base.Outcome Base.Render FS.Tree FS.Ops FS.Ref FS.Agree FS.Mem FS.Wf
     FS.RefineWalkLemmasBfs FS.Osfs FS.OsfsProofs.
Import ListNotations.
Local Open Scope list_scope.

(* ---- OSFS: the model of fs.osfs.OSFS over the kernel model FS/Posix.v (tied to the real OSFS step by step by
   harness/h_osfs.py) refines the reference for the 23 calls that do not go through the directory walker of
   FS/Base.v - removetree, which on OSFS IS a walk, included ---- *)
Theorem C01_osfs_initial : wf empty_dir /\ nn empty_dir.
Proof. exact osfs_initial. Qed.
Print Assumptions C01_osfs_initial.

(* same verdict, admissible error class, same return value, same tree (names, types, bytes) *)
Theorem C01_osfs_refines_ref : forall o s,
  wf s -> nn s -> covered o = true ->
  agree_nt (osfs_run o s) (ref_run o s) = true.
Proof. exact osfs_refines_ref. Qed.
Print Assumptions C01_osfs_refines_ref.

(* ... and the same modification times, for the calls where the kernel's time rules are the reference's *)
Theorem C01_osfs_refines_ref_times : forall o s,
  wf s -> nn s -> covered o = true -> os_times_exact o = true ->
  agree (osfs_run o s) (ref_run o s) = true.
Proof. exact osfs_refines_ref_times. Qed.
Print Assumptions C01_osfs_refines_ref_times.

Theorem C01_osfs_wf_preserved : forall o s,
  wf s -> nn s -> covered o = true -> wf (fst (osfs_run o s)).
Proof. exact osfs_wf_preserved. Qed.
Print Assumptions C01_osfs_wf_preserved.

Theorem C01_osfs_nn_preserved : forall o s,
  wf s -> nn s -> covered o = true -> nn (fst (osfs_run o s)).
Proof. exact osfs_nn_preserved. Qed.
Print Assumptions C01_osfs_nn_preserved.

(* every call of every history of covered calls, from every well-formed state *)
Theorem C01_osfs_history_refines : forall ops s,
  wf s -> nn s -> forallb covered ops = true -> os_hist_ok s ops.
Proof. exact osfs_history_refines. Qed.
Print Assumptions C01_osfs_history_refines.

(* swapping MemoryFS for OSFS: same verdict, classes from the same admissible set, same tree up to times *)
Theorem C01_osfs_mem_same_verdict : forall o s,
  wf s -> nn s -> covered o = true ->
  agree_nt (osfs_run o s) (ref_run o s) = true /\ agree (mem_run o s) (ref_run o s) = true /\
  verdict (snd (osfs_run o s)) = verdict (snd (mem_run o s)) /\
  tree_eqb false (fst (osfs_run o s)) (fst (mem_run o s)) = true.
Proof. exact osfs_mem_same_verdict. Qed.
Print Assumptions C01_osfs_mem_same_verdict.

(* open modes: every mode fs.mode.Mode accepts is one io.open accepts (since /repo af07be9 Mode.validate demands
   exactly one of r/w/x/a and at most one '+', 'b', 't'), so no condition on the mode string is left; the former
   counterexample "rw" (ValueError from inside OSFS.openbin only) is now a ValueError everywhere *)
Theorem C01_osfs_mode_ok_always : forall o, os_mode_ok o = true.
Proof. exact os_mode_ok_always. Qed.
Print Assumptions C01_osfs_mode_ok_always.

Theorem C01_osfs_iomode_now_agrees :
  let o := OOpenwrite (lit "f") (lit "rw") (lit "XY") in
  covered o = true /\ os_mode_ok o = true /\
  agree_nt (osfs_run o ce_state) (ref_run o ce_state) = true /\
  snd (osfs_run o ce_state) = Crash ValueError /\ agree (mem_run o ce_state) (ref_run o ce_state) = true.
Proof. exact osfs_refines_ref_iomode_now_agrees. Qed.
Print Assumptions C01_osfs_iomode_now_agrees.

(* removetree with a NUL that a back-reference would cancel ("a\0/..", "x\0/../a"): REJECTED, tree unchanged
   (FS.removetree validates first since /repo b9cf049; before, the first spelling emptied the filesystem) *)
Theorem C01_osfs_removetree_nul_rejected :
  wf ce_tree /\ nn ce_tree /\
  osfs_run (ORemovetree ce_p1) ce_tree = (ce_tree, Err InvalidCharsInPath) /\
  ref_run (ORemovetree ce_p1) ce_tree = fail ce_tree [InvalidCharsInPath] /\
  agree (osfs_run (ORemovetree ce_p1) ce_tree) (ref_run (ORemovetree ce_p1) ce_tree) = true.
Proof. exact os_removetree_nul_backref_rejected. Qed.
Print Assumptions C01_osfs_removetree_nul_rejected.

Theorem C01_osfs_removetree_nul_rejected_all : forall p s, has_char Mem.nul p = true ->
  osfs_run (ORemovetree p) s = (s, Err InvalidCharsInPath).
Proof. exact os_removetree_nul_rejected. Qed.
Print Assumptions C01_osfs_removetree_nul_rejected_all.

(* removetree still needs NUL-free NAMES in the tree (the walk re-validates every path it builds) *)
Theorem C01_osfs_removetree_needs_nn :
  wf ce_nn_tree /\
  agree_tm true (osfs_run (ORemovetree (lit "a")) ce_nn_tree) (ref_run (ORemovetree (lit "a")) ce_nn_tree)
  = false.
Proof. exact os_removetree_needs_nn_ce. Qed.
Print Assumptions C01_osfs_removetree_needs_nn.

(* times: shutil.copy2 always keeps the source's time *)
Theorem C01_osfs_copy_time_refuted :
  let o := OCopy (lit "f") (lit "g") false false in
  agree (osfs_run o ce_state) (ref_run o ce_state) = false /\
  agree_nt (osfs_run o ce_state) (ref_run o ce_state) = true /\
  lookup (fst (osfs_run o ce_state)) [lit "g"] = Some (File (lit "ff") (Some 5%Z)).
Proof. exact osfs_refines_ref_times_copy_ce. Qed.
Print Assumptions C01_osfs_copy_time_refuted.

(* makedirs on OSFS: FS.makedirs over the OSFS essentials is the same function of a well-formed tree as over
   MemoryFS's (osfs_run_makedirs_mem), so MemoryFS's proof carries over *)
Theorem C01_osfs_makedirs_refines_ref : forall p recreate s cs,
  wf s -> rpath p = inl cs ->
  agree (osfs_run (OMakedirs p recreate) s) (ref_run (OMakedirs p recreate) s) = true.
Proof. exact osfs_makedirs_refines_ref. Qed.
Print Assumptions C01_osfs_makedirs_refines_ref.

Theorem C01_osfs_makedirs_wf : forall p recreate s cs,
  wf s -> rpath p = inl cs -> wf (fst (osfs_run (OMakedirs p recreate) s)).
Proof. exact osfs_makedirs_wf. Qed.
Print Assumptions C01_osfs_makedirs_wf.

Theorem C01_osfs_makedirs_nn : forall p recreate s cs,
  wf s -> nn s -> rpath p = inl cs -> nn (fst (osfs_run (OMakedirs p recreate) s)).
Proof. exact osfs_makedirs_nn. Qed.
Print Assumptions C01_osfs_makedirs_nn.
