(* C01 — All writable filesystems implement one reference semantics.
   Proved part: the MemoryFS model (FS/Mem.v + the derived methods of FS/Base.v it uses)
   refines the reference semantics FS/Ref.v, for every reachable state and every argument,
   for all calls that do not go through the directory walker; the walker-based calls
   (copydir, makedirs, movedir onto an existing destination) and the other backends are
   tied to the reference by the correspondence run only (C01_conformance_partial). *)
From Coq Require Import List NArith Bool.
From PyFS Require Import Base.PyStr Base.Outcome FS.Tree FS.Ops FS.Ref FS.Agree FS.Mem FS.Wf
     FS.RefineProofs.
Import ListNotations.

Theorem C01_wf_initial : wf empty_dir.
Proof. exact wf_empty. Qed.
Print Assumptions C01_wf_initial.

(* every reachable state is well formed (unique, slash-free, non-empty names) *)
Theorem C01_wf_preserved : forall o s, wf s -> covered o = true -> wf (fst (mem_run o s)).
Proof. exact mem_wf_preserved. Qed.
Print Assumptions C01_wf_preserved.

(* same verdict, admissible error class, same return value, same tree *)
Theorem C01_conformance_partial : forall o s, wf s -> covered o = true ->
  agree (mem_run o s) (ref_run o s) = true.
Proof. exact mem_refines_ref. Qed.
Print Assumptions C01_conformance_partial.

Theorem C01_movedir_fast_path : forall src dst create pt s cs cd,
  wf s -> rpath src = inl cs -> rpath dst = inl cd -> lookup s cd = None ->
  agree (mem_run (OMovedir src dst create pt) s) (ref_run (OMovedir src dst create pt) s) = true.
Proof. exact mem_movedir_refines_ref. Qed.
Print Assumptions C01_movedir_fast_path.

Theorem C01_movedir_fast_path_wf : forall src dst create pt s cs cd,
  wf s -> rpath src = inl cs -> rpath dst = inl cd -> lookup s cd = None ->
  wf (fst (mem_run (OMovedir src dst create pt) s)).
Proof. exact mem_movedir_wf. Qed.
Print Assumptions C01_movedir_fast_path_wf.
