(* C11 — Equivalent spellings of a path are interchangeable everywhere (reference: all calls; MemoryFS model: every call except makedirs, see DESIGN.md). *)
From Coq Require Import List NArith ZArith Bool Arith.
From PyFS Require Import Base.PyStr Base.Outcome Path.PathModel Path.PathSpec FS.Tree FS.Monad FS.Mode FS.Base
     FS.Mem FS.Ops FS.Ref FS.Agree FS.Props FS.Wf FS.PropsProofs.
Import ListNotations.

Theorem C11_rpath_spelling : forall p p',
  has_char Ref.nul p = false -> has_char Ref.nul p' = false ->
  resolve (comps p) = resolve (comps p') -> rpath p = rpath p'.
Proof. exact rpath_spelling. Qed.
Print Assumptions C11_rpath_spelling.

Theorem C11_ref_spelling : forall o o' t, same_call o o' -> ref_run o t = ref_run o' t.
Proof. exact ref_spelling. Qed.
Print Assumptions C11_ref_spelling.

Theorem C11_mem_validatepath_spelling : forall p p' s,
  rpath p = rpath p' -> mem_validatepath p s = mem_validatepath p' s.
Proof. exact mem_validatepath_spelling. Qed.
Print Assumptions C11_mem_validatepath_spelling.

Theorem C11_mem_spelling : forall o o' s,
  wf s -> same_call o o' -> covered o = true -> mem_run o s = mem_run o' s.
Proof. exact mem_spelling. Qed.
Print Assumptions C11_mem_spelling.

Theorem C11_mem_spelling_dirs : forall o o' s,
  same_call o o' -> is_dirop o = true -> mem_run o s = mem_run o' s.
Proof. exact mem_spelling_dirs. Qed.
Print Assumptions C11_mem_spelling_dirs.
