(* C19 — copy_fs / mirror produce exact replicas; conditional copy obeys its rule (model of _copy_is_necessary and of the per-file loop of copy_dir_if; mirror's comparison). *)
From Coq Require Import List NArith ZArith Bool Arith.
From PyFS Require Import Base.PyStr Copy.CopyCond Copy.CopyCondProofs.
Import ListNotations.

Theorem C19_copy_is_necessary_spec :
  forall (c : cond) (s : option Z) (d : option (option Z)),
       copy_is_necessary c s d = cond_spec c s d.
Proof. exact @copy_is_necessary_spec. Qed.
Print Assumptions C19_copy_is_necessary_spec.

Theorem C19_always_true :
  forall (s : option Z) (d : option (option Z)), copy_is_necessary Always s d = true.
Proof. exact @always_true. Qed.
Print Assumptions C19_always_true.

Theorem C19_newer_older_exclusive :
  forall s t : Z,
       s <> t ->
       xorb (copy_is_necessary Newer (Some s) (Some (Some t)))
         (copy_is_necessary Older (Some s) (Some (Some t))) = true.
Proof. exact @newer_older_exclusive. Qed.
Print Assumptions C19_newer_older_exclusive.

Theorem C19_exists_not_exists_complement :
  forall (s : option Z) (d : option (option Z)),
       copy_is_necessary NotExists s d = negb (copy_is_necessary Exists s d).
Proof. exact @exists_not_exists_complement. Qed.
Print Assumptions C19_exists_not_exists_complement.

Theorem C19_missing_destination :
  forall (c : cond) (s : option Z),
       copy_is_necessary c s None = match c with
                                    | Exists => false
                                    | _ => true
                                    end.
Proof. exact @missing_destination. Qed.
Print Assumptions C19_missing_destination.

Theorem C19_unknown_time_copies :
  forall (s : option Z) (d : option (option Z)),
       both_times s d = None ->
       copy_is_necessary Newer s d = true /\ copy_is_necessary Older s d = true.
Proof. exact @unknown_time_copies. Qed.
Print Assumptions C19_unknown_time_copies.

Theorem C19_copy_loop_spec :
  forall (c : cond) (pt : bool) (now : option Z) (walked : list (str * file)) (dst : fmap),
       NoDup (map fst walked) ->
       snd (copy_loop c pt now walked dst) =
       map fst
         (filter
            (fun pf : str * (list N * option Z) =>
             cond_spec c (snd (snd pf)) (mtime_at dst (fst pf))) walked) /\
       (forall q : str,
        fst (copy_loop c pt now walked dst) q =
        match find (fun pf : str * file => str_eqb (fst pf) q) walked with
        | Some pf =>
            if cond_spec c (snd (snd pf)) (mtime_at dst q)
            then Some (copied_file pt now (snd pf))
            else dst q
        | None => dst q
        end).
Proof. exact @copy_loop_spec. Qed.
Print Assumptions C19_copy_loop_spec.

Theorem C19_copy_loop_unrelated :
  forall (c : cond) (pt : bool) (now : option Z) (walked : list (str * file)) 
         (dst : fmap) (q : str),
       NoDup (map fst walked) ->
       ~ In q (map fst walked) -> fst (copy_loop c pt now walked dst) q = dst q.
Proof. exact @copy_loop_unrelated. Qed.
Print Assumptions C19_copy_loop_unrelated.

Theorem C19_copy_loop_always :
  forall (pt : bool) (now : option Z) (walked : list (str * file)) 
         (dst : fmap) (p : str) (f : file),
       NoDup (map fst walked) ->
       In (p, f) walked -> fst (copy_loop Always pt now walked dst) p = Some (copied_file pt now f).
Proof. exact @copy_loop_always. Qed.
Print Assumptions C19_copy_loop_always.

Theorem C19_mirror_compare_same_size :
  forall n a b : Z, mirror_compare n n (Some a) (Some b) = (b <? a)%Z.
Proof. exact @mirror_compare_same_size. Qed.
Print Assumptions C19_mirror_compare_same_size.

Theorem C19_mirror_compare_settled :
  forall n a b : Z, (a <= b)%Z -> mirror_compare n n (Some a) (Some b) = false.
Proof. exact @mirror_compare_settled. Qed.
Print Assumptions C19_mirror_compare_settled.

Theorem C19_mirror_compare_size_differs :
  forall (n m : Z) (a b : option Z), n <> m -> mirror_compare n m a b = true.
Proof. exact @mirror_compare_size_differs. Qed.
Print Assumptions C19_mirror_compare_size_differs.
