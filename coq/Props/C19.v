(* C19 — copy_fs / mirror produce exact replicas; conditional copy obeys its rule (model of _copy_is_necessary and of the per-file loop of copy_dir_if; mirror's comparison). *)
From Coq Require Import Lia.
From Coq Require Import List NArith ZArith Bool Arith.
From PyFS Require Import Base.PyStr Base.Outcome FS.Tree FS.Wf Copy.CopyCond Copy.CopyCondProofs
     Copy.TreeCopy Copy.TreeCopyProofs.
Import ListNotations.

Theorem C19_copy_is_necessary_spec :
  forall (c : cond) (s : option Z) (d : option (option Z)),
       copy_is_necessary c s d = cond_spec c s d.
Proof. exact @copy_is_necessary_spec. Qed.
Print Assumptions C19_copy_is_necessary_spec.

Theorem C19_always_true :
  forall (s : option Z) (d : option (option Z)), copy_is_necessary Always s d = true.
Proof. exact @always_true. Qed.
Print Assumptions C19_always_true.

Theorem C19_newer_older_exclusive :
  forall s t : Z,
       s <> t ->
       xorb (copy_is_necessary Newer (Some s) (Some (Some t)))
         (copy_is_necessary Older (Some s) (Some (Some t))) = true.
Proof. exact @newer_older_exclusive. Qed.
Print Assumptions C19_newer_older_exclusive.

Theorem C19_exists_not_exists_complement :
  forall (s : option Z) (d : option (option Z)),
       copy_is_necessary NotExists s d = negb (copy_is_necessary Exists s d).
Proof. exact @exists_not_exists_complement. Qed.
Print Assumptions C19_exists_not_exists_complement.

Theorem C19_missing_destination :
  forall (c : cond) (s : option Z),
       copy_is_necessary c s None = match c with
                                    | Exists => false
                                    | _ => true
                                    end.
Proof. exact @missing_destination. Qed.
Print Assumptions C19_missing_destination.

Theorem C19_unknown_time_copies :
  forall (s : option Z) (d : option (option Z)),
       both_times s d = None ->
       copy_is_necessary Newer s d = true /\ copy_is_necessary Older s d = true.
Proof. exact @unknown_time_copies. Qed.
Print Assumptions C19_unknown_time_copies.

Theorem C19_copy_loop_spec :
  forall (c : cond) (pt : bool) (now : option Z) (walked : list (str * file)) (dst : fmap),
       NoDup (map fst walked) ->
       snd (copy_loop c pt now walked dst) =
       map fst
         (filter
            (fun pf : str * (list N * option Z) =>
             cond_spec c (snd (snd pf)) (mtime_at dst (fst pf))) walked) /\
       (forall q : str,
        fst (copy_loop c pt now walked dst) q =
        match find (fun pf : str * file => str_eqb (fst pf) q) walked with
        | Some pf =>
            if cond_spec c (snd (snd pf)) (mtime_at dst q)
            then Some (copied_file pt now (snd pf))
            else dst q
        | None => dst q
        end).
Proof. exact @copy_loop_spec. Qed.
Print Assumptions C19_copy_loop_spec.

Theorem C19_copy_loop_unrelated :
  forall (c : cond) (pt : bool) (now : option Z) (walked : list (str * file)) 
         (dst : fmap) (q : str),
       NoDup (map fst walked) ->
       ~ In q (map fst walked) -> fst (copy_loop c pt now walked dst) q = dst q.
Proof. exact @copy_loop_unrelated. Qed.
Print Assumptions C19_copy_loop_unrelated.

Theorem C19_copy_loop_always :
  forall (pt : bool) (now : option Z) (walked : list (str * file)) 
         (dst : fmap) (p : str) (f : file),
       NoDup (map fst walked) ->
       In (p, f) walked -> fst (copy_loop Always pt now walked dst) p = Some (copied_file pt now f).
Proof. exact @copy_loop_always. Qed.
Print Assumptions C19_copy_loop_always.

Theorem C19_mirror_compare_same_size :
  forall n a b : Z, mirror_compare n n (Some a) (Some b) = (b <? a)%Z.
Proof. exact @mirror_compare_same_size. Qed.
Print Assumptions C19_mirror_compare_same_size.

Theorem C19_mirror_compare_settled :
  forall n a b : Z, (a <= b)%Z -> mirror_compare n n (Some a) (Some b) = false.
Proof. exact @mirror_compare_settled. Qed.
Print Assumptions C19_mirror_compare_settled.

Theorem C19_mirror_compare_size_differs :
  forall (n m : Z) (a b : option Z), n <> m -> mirror_compare n m a b = true.
Proof. exact @mirror_compare_size_differs. Qed.
Print Assumptions C19_mirror_compare_size_differs.

(* ---- tree level (Copy/TreeCopy*.v): mirror / copy_fs / copy_fs_if between two trees; the destination tree of the real
   functions is compared with the model on every run ---- *)

Theorem C19_content_eq_equivalence : forall times,
  (forall a, content_eq times a a) /\
  (forall a b, content_eq times a b -> content_eq times b a) /\
  (forall a b c, content_eq times a b -> content_eq times b c -> content_eq times a c).
Proof. exact @content_eq_equivalence. Qed.
Print Assumptions C19_content_eq_equivalence.

Theorem C19_mirror_exact_replica : forall pt now src dst, wf src -> wf dst ->
  exists d', mirror false pt now src dst = Ok d' /\ content_eq pt d' src.
Proof. exact @mirror_exact_replica. Qed.
Print Assumptions C19_mirror_exact_replica.

Theorem C19_mirror_newer_replica : forall pt now src dst, wf src -> wf dst ->
  exists d', mirror true pt now src dst = Ok d' /\
    (forall p, match lookup src p, lookup d' p with
               | Some a, Some b => is_dir a = is_dir b | None, None => True | _, _ => False end) /\
    (forall p data m, lookup src p = Some (File data m) ->
       lookup d' p = Some (match lookup dst p with
                           | Some (File data' m') =>
                             if mirror_compare (size_of data) (size_of data') m m'
                             then File data (stamp pt now m data (Some (File data' m')))
                             else File data' m'
                           | _ => File data (stamp pt now m data None)
                           end)).
Proof. exact @mirror_newer_replica. Qed.
Print Assumptions C19_mirror_newer_replica.

Theorem C19_mirror_newer_keeps_only_settled : forall pt now src dst, wf src -> wf dst ->
  exists d', mirror true pt now src dst = Ok d' /\
    forall p data m, lookup src p = Some (File data m) ->
      (exists t, lookup d' p = Some (File data t)) \/
      (exists data' a b, m = Some a /\ lookup dst p = Some (File data' (Some b)) /\
                         List.length data' = List.length data /\ (a <= b)%Z /\
                         lookup d' p = Some (File data' (Some b))).
Proof. exact @mirror_newer_keeps_only_settled. Qed.
Print Assumptions C19_mirror_newer_keeps_only_settled.

Theorem C19_mirror_idempotent : forall cn pt now now2 src dst d1, wf src -> wf dst ->
  mirror cn pt now src dst = Ok d1 ->
  (pt = true \/ now2 = now -> mirror cn pt now2 src d1 = Ok d1) /\
  (exists d2, mirror cn pt now2 src d1 = Ok d2 /\ content_eq false d2 d1).
Proof. exact @mirror_idempotent. Qed.
Print Assumptions C19_mirror_idempotent.

Theorem C19_mirror_never_fails : forall cn pt now src dst, wf src -> wf dst ->
  exists d', mirror cn pt now src dst = Ok d' /\ is_dir d' = true /\ uniq d'.
Proof. exact @mirror_never_fails. Qed.
Print Assumptions C19_mirror_never_fails.

Theorem C19_copy_fs_if_rule : forall c pt now src dst d', wf src -> wf dst ->
  copy_fs_if c pt now src dst = Ok d' ->
  forall p,
    match lookup src p with
    | Some (File data m) =>
        lookup d' p = if cond_spec c m (dst_state (lookup dst p))
                      then Some (File data (stamp pt now m data (lookup dst p))) else lookup dst p
    | Some (Dir _ _) =>
        exists e', lookup d' p = Some (Dir e' (match lookup dst p with Some (Dir _ dm) => dm | _ => now end))
    | None => lookup d' p = lookup dst p
    end.
Proof. exact @copy_fs_if_rule. Qed.
Print Assumptions C19_copy_fs_if_rule.

Theorem C19_copy_fs_replica_and_frame : forall pt now src dst d', wf src -> wf dst ->
  copy_fs pt now src dst = Ok d' ->
  (forall p data m, lookup src p = Some (File data m) ->
     lookup d' p = Some (File data (stamp pt now m data (lookup dst p))) /\
     (pt = true -> lookup d' p = Some (File data m))) /\
  (forall p se sm, lookup src p = Some (Dir se sm) -> exists e' m', lookup d' p = Some (Dir e' m')) /\
  (forall p data m, lookup dst p = Some (File data m) ->
     (forall sd sm, lookup src p <> Some (File sd sm)) -> lookup d' p = Some (File data m)) /\
  (forall p, lookup src p = None -> lookup d' p = lookup dst p).
Proof. exact @copy_fs_replica_and_frame. Qed.
Print Assumptions C19_copy_fs_replica_and_frame.

Theorem C19_copy_fs_if_outcome : forall c pt now src dst, wf src -> wf dst ->
  (dir_clash src dst /\ copy_fs_if c pt now src dst = Err DirectoryExpected) \/
  (~ dir_clash src dst /\ file_clash c src dst /\ copy_fs_if c pt now src dst = Err FileExpected) \/
  (~ dir_clash src dst /\ ~ file_clash c src dst /\
   exists d', copy_fs_if c pt now src dst = Ok d' /\ is_dir d' = true /\ uniq d').
Proof. exact @copy_fs_if_outcome. Qed.
Print Assumptions C19_copy_fs_if_outcome.
