(* C09 — Parallel bulk copy equals sequential copy and never hides a failure (transition-system model of fs._bulk.Copier: any number of workers, any file list, any fault set, every schedule). *)
From Coq Require Import List Arith Bool Lia Permutation.
From PyFS Require Import Conc.Copier Conc.CopierProofs.
Import ListNotations.

Theorem C09_copier_counts :
  forall (N : nat) (files : list file) (sched : list nat),
       let c := run sched (init N files) in
       cN c = N /\
       length (ws c) = N /\
       length (queue c) <= N /\
       unfinished c = length (queue c) + sumf busy (ws c) /\
       sent_put N (prod c) = sumf i_sent (queue c) + sumf gotsent (ws c) /\
       (1 <= N -> nput c + length (p_files (prod c)) = length files + sent_put N (prod c)).
Proof. exact @copier_counts. Qed.
Print Assumptions C09_copier_counts.

Theorem C09_copier_items_put :
  forall (N : nat) (files : list file) (sched : list nat),
       let c := run sched (init N files) in 1 <= N -> final c = true -> nput c = length files + N.
Proof. exact @copier_items_put. Qed.
Print Assumptions C09_copier_items_put.

Theorem C09_copier_exit :
  forall (N : nat) (files : list file) (sched : list nat),
       let c := run sched (init N files) in
       final c = true ->
       workers_done c = true /\
       queue c = [] /\
       Permutation (opened c) (closedh c) /\
       all_closed c = true /\
       (raised c = true <-> (exists f : file, In f files /\ faulty f = true)) /\
       Permutation files (copied c ++ failedl c ++ skipped c) /\
       Forall (fun f : file => faulty f = false) (copied c) /\
       Forall (fun f : file => faulty f = true) (failedl c) /\
       (1 <= N -> skipped c = []) /\
       (nofault files -> raised c = false /\ Permutation (copied c) files).
Proof. exact @copier_exit. Qed.
Print Assumptions C09_copier_exit.

Theorem C09_schedule_independent :
  forall (files : list file) (N1 : nat) (sched1 : list nat) (N2 : nat) (sched2 : list nat),
       nofault files ->
       let c1 := run sched1 (init N1 files) in
       let c2 := run sched2 (init N2 files) in
       final c1 = true ->
       final c2 = true ->
       Permutation (copied c1) (copied c2) /\ raised c1 = false /\ raised c2 = false.
Proof. exact @schedule_independent. Qed.
Print Assumptions C09_schedule_independent.

Theorem C09_copier_progress :
  forall (N : nat) (files : list file) (sched : list nat),
       let c := run sched (init N files) in
       final c = false -> exists t : nat, t <= N /\ enabled c t = true.
Proof. exact @copier_progress. Qed.
Print Assumptions C09_copier_progress.

Theorem C09_no_deadlock :
  forall (N : nat) (files : list file) (sched : list nat),
       let c := run sched (init N files) in
       (forall t : nat, t <= N -> enabled c t = false) -> final c = true.
Proof. exact @no_deadlock. Qed.
Print Assumptions C09_no_deadlock.

Theorem C09_disabled_skip :
  forall (c : config) (t : nat), enabled c t = false -> step c t = c.
Proof. exact @disabled_skip. Qed.
Print Assumptions C09_disabled_skip.

Theorem C09_copier_can_finish :
  forall (N : nat) (files : list file) (sched : list nat),
       exists more : list nat, final (run (sched ++ more) (init N files)) = true.
Proof. exact @copier_can_finish. Qed.
Print Assumptions C09_copier_can_finish.
