(* C13 — Walking visits every resource exactly once and filters exactly.
   For all per-entry predicates (any combination of filter options), any max_depth, any
   start path and every finite tree. *)
From Coq Require Import List NArith Bool Arith Permutation.
From PyFS Require Import Base.PyStr Path.PathModel FS.Tree Walk.WalkModel Walk.WalkSpec Walk.WalkProofs.
Import ListNotations.

Theorem C13_depth_first_spec : forall open_dir keep_file max_depth path t,
  walk_depth open_dir keep_file max_depth path t
  = Some (dfs_events open_dir keep_file max_depth (calculate_depth path) path t ++ [(path, None)]).
Proof. exact walk_depth_spec. Qed.
Print Assumptions C13_depth_first_spec.

Theorem C13_dfs_reports_listing : forall open_dir keep_file max_depth path t,
  Permutation
    (info_stream (dfs_events open_dir keep_file max_depth (calculate_depth path) path t))
    (listing open_dir keep_file max_depth (calculate_depth path) path t).
Proof. exact dfs_reports_listing. Qed.
Print Assumptions C13_dfs_reports_listing.

Theorem C13_breadth_first_terminates : forall open_dir keep_file max_depth path t,
  exists evs, walk_breadth open_dir keep_file max_depth path t = Some evs.
Proof. exact walk_breadth_terminates. Qed.
Print Assumptions C13_breadth_first_terminates.

Theorem C13_bfs_reports_listing : forall open_dir keep_file max_depth path t evs,
  walk_breadth open_dir keep_file max_depth path t = Some evs ->
  Permutation (info_stream evs)
              (listing open_dir keep_file max_depth (calculate_depth path) path t).
Proof. exact bfs_reports_listing. Qed.
Print Assumptions C13_bfs_reports_listing.

Theorem C13_both_orders_same_set : forall open_dir keep_file max_depth path t eb ed,
  walk_breadth open_dir keep_file max_depth path t = Some eb ->
  walk_depth open_dir keep_file max_depth path t = Some ed ->
  Permutation (info_stream eb) (info_stream ed).
Proof. exact bfs_dfs_same. Qed.
Print Assumptions C13_both_orders_same_set.

Theorem C13_children_before_parent : forall open_dir keep_file max_depth dp ents mt pre name child post,
  ents = pre ++ (name, child) :: post ->
  is_dir child = true -> open_dir dp name = true ->
  scan_dir max_depth (depth_of (calculate_depth dp) dp) = true ->
  exists before after,
    dfs_events open_dir keep_file max_depth (calculate_depth dp) dp (Dir ents mt)
    = before
      ++ dfs_events open_dir keep_file max_depth (calculate_depth dp) (combine dp name) child
      ++ [(dp, Some (name, true)); (combine dp name, None)] ++ after.
Proof. exact dfs_children_first. Qed.
Print Assumptions C13_children_before_parent.

Theorem C13_no_file_dropped : forall path t (p : list str) d mt,
  lookup t p = Some (File d mt) -> p <> [] ->
  In (fold_left combine p path, false)
     (listing (fun _ _ => true) (fun _ _ => true) None (calculate_depth path) path t).
Proof. exact listing_complete_files. Qed.
Print Assumptions C13_no_file_dropped.

Theorem C13_no_dir_dropped : forall path t (p : list str) e mt,
  lookup t p = Some (Dir e mt) -> p <> [] ->
  In (fold_left combine p path, true)
     (listing (fun _ _ => true) (fun _ _ => true) None (calculate_depth path) path t).
Proof. exact listing_complete_dirs. Qed.
Print Assumptions C13_no_dir_dropped.
