(* C18 — close() is final, idempotent and finalises exactly once. *)
From Coq Require Import List NArith Bool Arith String Ascii.
From PyFS Require Import Base.Outcome Close.Close Close.CloseProofs Gen.Dispatch_gen.
Import ListNotations.

Theorem C18_closed_raises : forall A (body : outcome A), checked_call true body = Err FilesystemClosed.
Proof. exact closed_raises. Qed.
Print Assumptions C18_closed_raises.

Theorem C18_nested_some_checked_closed : forall flags checks r,
  List.length flags = List.length checks ->
  existsb (fun fc => fst fc && snd fc) (combine checks flags) = true ->
  nested_call flags checks r = Err FilesystemClosed.
Proof. exact nested_some_checked_closed. Qed.
Print Assumptions C18_nested_some_checked_closed.

(* how an unchecked wrapper method reaches a closed stack: stated as found *)
Theorem C18_unchecked_layers_pass : forall n r, nested_call (repeat true n) (repeat false n) r = r.
Proof. exact nested_unchecked_passes. Qed.
Print Assumptions C18_unchecked_layers_pass.

Theorem C18_archive_written_once : forall oks,
  a_complete (arch_closes (true :: oks) arch_init) = 1
  /\ a_writes (arch_closes (true :: oks) arch_init) = 1
  /\ a_closed (arch_closes (true :: oks) arch_init) = true.
Proof. exact archive_written_once. Qed.
Print Assumptions C18_archive_written_once.

Theorem C18_archive_close_after_failure : forall oks,
  a_closed (arch_closes (false :: oks) arch_init) = true
  /\ a_complete (arch_closes (false :: oks) arch_init) = 0
  /\ a_writes (arch_closes (false :: oks) arch_init) = 1
  /\ snd (arch_close false arch_init) = Crash RawOSError.
Proof. exact archive_close_after_failure. Qed.
Print Assumptions C18_archive_close_after_failure.

Theorem C18_archive_close_final : forall ok oks ok',
  let a := arch_closes (ok :: oks) arch_init in
  a_closed a = true /\ arch_close ok' a = (a, Ok tt) /\ a_writes a = 1.
Proof. exact archive_close_final. Qed.
Print Assumptions C18_archive_close_final.

Theorem C18_members_closed_iff_auto_close : forall auto members,
  Forall (fun b => b = false) members -> members <> [] ->
  (Forall (fun b => b = true) (composite_close auto members) <-> auto = true).
Proof. exact members_closed_iff_auto_close. Qed.
Print Assumptions C18_members_closed_iff_auto_close.

(* table: no class overrides check(): the closed test is the base class's everywhere *)
Definition lit (x : string) : list N := List.map N_of_ascii (list_ascii_of_string x).
Fixpoint leq (a b : list N) : bool :=
  match a, b with
  | [], [] => true
  | x :: a', y :: b' => N.eqb x y && leq a' b'
  | _, _ => false
  end.
Theorem C18_check_is_base :
  forallb (fun r => negb (leq (snd (fst (fst r))) (lit "check"))
                    || leq (snd (fst r)) (lit "FS")) dispatch_table = true.
Proof. vm_compute. reflexivity. Qed.
Print Assumptions C18_check_is_base.

(* table produced by an ast scan of /repo's source on every run: every public data or metadata
   method defined in a filesystem class either calls check()/validatepath() (directly or through a
   private method of the class that does) or only calls methods on self/super *)
Theorem C18_every_method_checks :
  forallb (fun r => snd (fst r) || snd r) check_table = true.
Proof. vm_compute. reflexivity. Qed.
Print Assumptions C18_every_method_checks.

Theorem C18_check_table_nonvacuous : 100 <=? List.length check_table = true.
Proof. vm_compute. reflexivity. Qed.
Print Assumptions C18_check_table_nonvacuous.
