(* C12 — fs.path functions obey their algebraic laws for every string.
   Nothing but statements closed by [exact] and Print Assumptions. *)
From Coq Require Import List NArith Bool.
From PyFS Require Import Base.PyStr Base.Outcome Path.PathModel Path.PathSpec Path.PathProofs.
Import ListNotations.

(* normpath equals component-wise resolution and raises exactly when it climbs too far *)
Theorem C12_normpath_spec : forall s, normpath s = spec_normpath s.
Proof. exact normpath_spec. Qed.
Print Assumptions C12_normpath_spec.

Theorem C12_normpath_raises_iff : forall s,
  normpath s = Err IllegalBackReference <-> resolve (comps s) = None.
Proof. exact normpath_raises_iff. Qed.
Print Assumptions C12_normpath_raises_iff.

Theorem C12_normpath_total : forall s, is_crash (normpath s) = false.
Proof. exact normpath_total. Qed.
Print Assumptions C12_normpath_total.

Theorem C12_normpath_idem : forall s t, normpath s = Ok t -> normpath t = Ok t.
Proof. exact normpath_idem. Qed.
Print Assumptions C12_normpath_idem.

(* no '', '.', '..' component in the result *)
Theorem C12_normpath_clean : forall s t, normpath s = Ok t ->
  exists cs, Forall good cs /\ t = to_path (starts_c slash s) cs.
Proof. exact normpath_clean. Qed.
Print Assumptions C12_normpath_clean.

Theorem C12_normalised_form : forall p,
  normpath p = Ok p <-> exists abs cs, Forall good cs /\ p = to_path abs cs.
Proof. exact normalised_form. Qed.
Print Assumptions C12_normalised_form.

(* inverses on normalised paths p = to_path abs cs *)
Theorem C12_split : forall abs cs, Forall good cs ->
  psplit (to_path abs cs) = spec_split (abs, cs).
Proof. exact split_nf. Qed.
Print Assumptions C12_split.

Theorem C12_join_split : forall abs cs, Forall good cs ->
  pjoin [dirname (to_path abs cs); basename (to_path abs cs)] = Ok (to_path abs cs).
Proof. exact join_split_nf. Qed.
Print Assumptions C12_join_split.

Theorem C12_split_join : forall abs cs, Forall good cs -> forall c, good c ->
  pjoin [to_path abs cs; c] = Ok (to_path abs (cs ++ [c]))
  /\ psplit (to_path abs (cs ++ [c])) = (to_path abs cs, c).
Proof. exact split_join_nf. Qed.
Print Assumptions C12_split_join.

Theorem C12_combine : forall abs cs, Forall good cs -> forall c, good c -> lstrip_space c = c ->
  combine (to_path abs cs) c = to_path abs (cs ++ [c]).
Proof. exact combine_nf. Qed.
Print Assumptions C12_combine.

Theorem C12_combine_split : forall abs cs, Forall good cs ->
  Forall (fun c => lstrip_space c = c) cs ->
  combine (dirname (to_path abs cs)) (basename (to_path abs cs)) = to_path abs cs.
Proof. exact combine_split_nf. Qed.
Print Assumptions C12_combine_split.

Theorem C12_iteratepath : forall s,
  iteratepath s = match resolve (comps s) with
                  | None => Err IllegalBackReference | Some cs => Ok cs end.
Proof. exact iteratepath_spec. Qed.
Print Assumptions C12_iteratepath.

Theorem C12_recursepath : forall abs cs, Forall good cs ->
  recursepath (to_path abs cs) false = Ok (map (to_path true) (prefixes cs)).
Proof. exact recursepath_nf. Qed.
Print Assumptions C12_recursepath.

Theorem C12_recursepath_reverse : forall s,
  recursepath s true = omap (@rev str) (recursepath s false).
Proof. exact recursepath_reverse. Qed.
Print Assumptions C12_recursepath_reverse.

Theorem C12_parts : forall s,
  parts s = match cform s with
            | None => Err IllegalBackReference | Some f => Ok (spec_parts f) end.
Proof. exact parts_spec. Qed.
Print Assumptions C12_parts.

(* abspath / relpath only add or strip the leading slash *)
Theorem C12_abspath : forall abs cs, Forall good cs -> abspath (to_path abs cs) = to_path true cs.
Proof. exact abspath_nf. Qed.
Print Assumptions C12_abspath.

Theorem C12_relpath : forall abs cs, Forall good cs -> relpath (to_path abs cs) = to_path false cs.
Proof. exact relpath_nf. Qed.
Print Assumptions C12_relpath.

(* whole components, never raw string prefixes *)
Theorem C12_isbase : forall a1 cs1 a2 cs2, Forall good cs1 -> Forall good cs2 ->
  isbase (to_path a1 cs1) (to_path a2 cs2) = cprefix cs1 cs2.
Proof. exact isbase_nf. Qed.
Print Assumptions C12_isbase.

Theorem C12_isparent : forall a1 cs1 a2 cs2, Forall good cs1 -> Forall good cs2 ->
  isparent (to_path a1 cs1) (to_path a2 cs2) = spec_isparent (a1, cs1) (a2, cs2).
Proof. exact isparent_nf. Qed.
Print Assumptions C12_isparent.

Theorem C12_frombase : forall a cs1 cs2, Forall good cs1 -> Forall good cs2 ->
  cprefix cs1 cs2 = true ->
  exists r, frombase (to_path a cs1) (to_path a cs2) = Ok r
            /\ to_path a cs1 ++ r = to_path a cs2.
Proof. exact frombase_nf. Qed.
Print Assumptions C12_frombase.

Theorem C12_issamedir : forall a1 cs1 a2 cs2, Forall good cs1 -> Forall good cs2 ->
  issamedir (to_path a1 cs1) (to_path a2 cs2) = Ok (spec_issamedir (a1, cs1) (a2, cs2)).
Proof. exact issamedir_nf. Qed.
Print Assumptions C12_issamedir.

Theorem C12_relativefrom : forall a1 csb a2 csp, Forall good csb -> Forall good csp ->
  exists r, relativefrom (to_path a1 csb) (to_path a2 csp) = Ok r
            /\ resolve (csb ++ comps r) = Some csp.
Proof. exact relativefrom_nf. Qed.
Print Assumptions C12_relativefrom.

(* '/ab' is not below '/a' *)
Theorem C12_isbase_not_string_prefix : isbase [slash; 97%N] [slash; 97%N; 98%N] = false.
Proof. reflexivity. Qed.
Print Assumptions C12_isbase_not_string_prefix.

(* non-vacuity: a normalised path with three components meets every hypothesis above *)
Example C12_nonvacuous :
  Forall good [[97%N]; [98%N; dot; 99%N]; [100%N]]
  /\ normpath (to_path true [[97%N]; [98%N; dot; 99%N]; [100%N]])
     = Ok (to_path true [[97%N]; [98%N; dot; 99%N]; [100%N]]).
Proof. split; [repeat constructor; discriminate | reflexivity]. Qed.
