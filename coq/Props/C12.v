(* C12 — fs.path functions obey their algebraic laws for every string. *)
From Coq Require Import List NArith Bool.
From PyFS Require Import Base.PyStr Base.Outcome Path.PathModel Path.PathSpec.
Import ListNotations.

Theorem C12_isbase_not_string_prefix : isbase [slash; 97%N] [slash; 97%N; 98%N] = false.
Proof. reflexivity. Qed.
Print Assumptions C12_isbase_not_string_prefix.
