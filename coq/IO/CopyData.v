(* fs/tools.py copy_file_data: the chunked stream copy shared by upload / download /
   writefile / bulk copy, over a reader that may return short reads. *)
From Coq Require Import List NArith Bool Arith Lia.
From PyFS Require Import Base.PyStr FS.Tree.
Import ListNotations.

(* src_file.read(n): n = None models a negative size (read everything).
   A blocking reader returns b'' only at end of file; otherwise any non-empty prefix of at
   most n bytes: the oracle gives the length actually returned (clamped to 1..n). *)
Definition read_some (remaining : bytes) (n : option nat) (short : nat) : bytes * bytes :=
  match n with
  | None => (remaining, [])
  | Some k =>
    let want := Nat.min k (length remaining) in
    let got := if (short =? 0) || (want <? short) then want else short in
    (firstn got remaining, skipn got remaining)
  end.

(* for chunk in iter(lambda: read(size) or None, None): write(chunk) *)
Fixpoint copy_loop (fuel : nat) (remaining : bytes) (size : option nat) (oracle : list nat)
  : list bytes :=
  match fuel with
  | O => []
  | S f =>
    let '(chunk, rest) := read_some remaining size (hd 0 oracle) in
    match chunk with
    | [] => []                                   (* b'' -> None -> StopIteration *)
    | _ => chunk :: copy_loop f rest size (tl oracle)
    end
  end.

(* copy_file_data(src, dst, chunk_size): chunk_size None -> 1 MiB; negative -> read all *)
Definition default_chunk : nat := 1024 * 1024.
Inductive csize := CDefault | CNeg | CNat (n : nat).
Definition effective (c : csize) : option nat :=
  match c with CDefault => Some default_chunk | CNeg => None | CNat n => Some n end.

Definition copy_file_data (data : bytes) (c : csize) (oracle : list nat) : list bytes :=
  copy_loop (S (length data)) data (effective c) oracle.

(* FS.hash: for chunk in iter(lambda: f.read(1 MiB), b''): hash.update(chunk) *)
Definition hash_feed (data : bytes) (oracle : list nat) : list bytes :=
  copy_loop (S (length data)) data (Some default_chunk) oracle.
