(* fs/iotools.py make_stream: which io layers are stacked on the raw file for each mode. *)
From Coq Require Import List NArith ZArith Bool Arith.
From PyFS Require Import Base.PyStr FS.Mode.
Import ListNotations.

Inductive buffer_layer := NoBuffer | BufferedRandom | BufferedReader | BufferedWriter.
Record stack := { s_buffer : buffer_layer; s_text : bool }.

Definition make_stream (mode : str) (buffering : Z) : stack :=
  let plus := has_char ch_plus mode in
  let reading := has_char ch_r mode || plus in
  let writing := has_char ch_w mode || plus in
  let appending := has_char ch_a mode in
  let binary := has_char ch_b mode in
  let buf :=
      if (0 <=? buffering)%Z then
        if reading && writing then BufferedRandom
        else if reading then BufferedReader
        else if writing || appending then BufferedWriter
        else NoBuffer
      else NoBuffer in
  {| s_buffer := buf; s_text := negb binary |}.

(* the call itself (since /repo 38091de): text I/O cannot be unbuffered - ValueError, as io.open; None = ValueError *)
Definition make_stream_call (mode : str) (buffering : Z) : option stack :=
  if (buffering =? 0)%Z && negb (has_char ch_b mode) then None else Some (make_stream mode buffering).

(* the 16 modes of the property: {r,w,a,x} x {+,''} x {b,t} *)
Definition all_modes : list str :=
  flat_map (fun k => flat_map (fun p => map (fun bt => k :: p ++ bt) [[ch_b]; [ch_t]; []])
                              [[ch_plus]; []])
           [ch_r; ch_w; ch_a; ch_x].

Definition can_read (b : buffer_layer) : bool :=
  match b with BufferedRandom | BufferedReader => true | _ => false end.
Definition can_write (b : buffer_layer) : bool :=
  match b with BufferedRandom | BufferedWriter => true | _ => false end.
