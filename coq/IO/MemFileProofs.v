(* _MemoryFile refines the reference raw file. *)
From Coq Require Import List NArith ZArith Bool Arith Lia.
From PyFS Require Import Base.PyStr FS.Tree FS.Mode IO.MemFile.
Import ListNotations.

(* ---------- BytesIO primitives vs. the reference byte-level functions ---------- *)

Lemma bio_write_spec : forall b d,
  bio_write b d = {| b_buf := pwrite (b_buf b) (b_pos b) d; b_pos := b_pos b + length d |}.
Proof.
  intros [buf pos] [|c d]; cbn [bio_write pwrite b_buf b_pos length].
  - rewrite Nat.add_0_r. reflexivity.
  - reflexivity.
Qed.

Lemma fold_write_spec : forall lines b,
  fold_left (fun (acc : bytes * nat) d => (pwrite (fst acc) (snd acc) d, snd acc + length d))
            lines (b_buf b, b_pos b)
  = (b_buf (fold_left bio_write lines b), b_pos (fold_left bio_write lines b)).
Proof.
  induction lines as [|d lines IH]; intros b; cbn [fold_left].
  - reflexivity.
  - rewrite <- IH. rewrite bio_write_spec. cbn [b_buf b_pos fst snd]. reflexivity.
Qed.

Lemma truncate_spec : forall (buf : bytes) ns,
  b_buf (if length (firstn ns buf) <? ns
         then bio_write {| b_buf := firstn ns buf; b_pos := length (firstn ns buf) |}
                        (repeat 0%N (ns - length (firstn ns buf)))
         else {| b_buf := firstn ns buf; b_pos := length (firstn ns buf) |})
  = resize buf ns.
Proof.
  intros buf ns. unfold resize.
  destruct (ns <=? length buf) eqn:Hle.
  - apply Nat.leb_le in Hle.
    assert (Hlen : length (firstn ns buf) = ns) by (rewrite firstn_length; lia).
    rewrite Hlen.
    destruct (ns <? ns) eqn:Hlt.
    + apply Nat.ltb_lt in Hlt. lia.
    + reflexivity.
  - apply Nat.leb_gt in Hle.
    assert (Hall : firstn ns buf = buf) by (apply firstn_all2; lia).
    rewrite Hall.
    destruct (length buf <? ns) eqn:Hlt.
    + rewrite bio_write_spec. cbn [b_buf b_pos]. unfold pwrite.
      destruct (ns - length buf) as [|k] eqn:Hk; [lia|].
      rewrite <- Hk. clear Hk k.
      destruct (repeat 0%N (ns - length buf)) as [|z zs] eqn:Hrep.
      * apply (f_equal (@length N)) in Hrep. rewrite repeat_length in Hrep.
        cbn [length] in Hrep. lia.
      * rewrite <- Hrep. clear Hrep z zs.
        rewrite Nat.leb_refl. rewrite firstn_all.
        rewrite skipn_all2 by lia. rewrite app_nil_r. reflexivity.
    + apply Nat.ltb_ge in Hlt. lia.
Qed.

(* ---------- simulation ---------- *)

Definition finv (ms : mstate) (rs : rstate) : Prop :=
  b_buf (m_bio ms) = r_data rs /\ m_handles ms = r_handles rs.

Lemma fopen_sim : forall ms rs mode,
  finv ms rs -> finv (mem_fopen ms mode) (ref_fopen rs mode).
Proof.
  intros [[buf bp] hs] [data rhs] mode [Hbuf Hhs].
  cbn [m_bio m_handles b_buf r_data r_handles] in Hbuf, Hhs. subst data rhs.
  unfold mem_fopen, ref_fopen, finv.
  cbn [m_bio m_handles b_buf b_pos r_data r_handles].
  destruct (m_truncate mode) eqn:Ht.
  - cbn [m_bio m_handles b_buf b_pos r_data r_handles length].
    destruct (m_appending mode) eqn:Ha; split; reflexivity.
  - destruct (m_appending mode) eqn:Ha;
      cbn [m_bio m_handles b_buf b_pos r_data r_handles bio_seek_end]; split; reflexivity.
Qed.

Lemma fcall_sim : forall ms rs i o,
  finv ms rs ->
  snd (mem_fcall ms i o) = snd (ref_fcall rs i o)
  /\ finv (fst (mem_fcall ms i o)) (fst (ref_fcall rs i o)).
Proof.
  intros [[buf bp] hs] [data rhs] i o [Hbuf Hhs].
  cbn [m_bio m_handles b_buf r_data r_handles] in Hbuf, Hhs. subst data rhs.
  unfold mem_fcall, ref_fcall.
  cbn [m_bio m_handles b_buf b_pos r_data r_handles].
  destruct (nth_error hs i) as [h|] eqn:Hnth.
  2:{ cbn [fst snd]. split; [reflexivity|]. split; reflexivity. }
  destruct o as [size| |d|lines|off whence| |size|].
  - (* FRead *)
    destruct (negb (m_reading (h_mode h))) eqn:Hr.
    + cbn [fst snd]. split; [reflexivity|]. split; reflexivity.
    + unfold with_seek, bio_read, bio_seek.
      cbn [m_bio m_handles b_buf b_pos fst snd].
      split; [reflexivity|]. split; reflexivity.
  - (* FReadline *)
    destruct (negb (m_reading (h_mode h))) eqn:Hr.
    + cbn [fst snd]. split; [reflexivity|]. split; reflexivity.
    + unfold with_seek, bio_readline, bio_seek.
      cbn [m_bio m_handles b_buf b_pos fst snd].
      split; [reflexivity|]. split; reflexivity.
  - (* FWrite *)
    destruct (negb (m_writing (h_mode h))) eqn:Hw.
    + cbn [fst snd]. split; [reflexivity|]. split; reflexivity.
    + unfold with_seek. rewrite bio_write_spec.
      destruct (m_appending (h_mode h)) eqn:Ha;
        unfold bio_seek_end, bio_seek;
        cbn [m_bio m_handles b_buf b_pos fst snd];
        (split; [reflexivity|]); split; reflexivity.
  - (* FWritelines *)
    destruct (negb (m_writing (h_mode h))) eqn:Hw.
    + cbn [fst snd]. split; [reflexivity|]. split; reflexivity.
    + unfold with_seek.
      destruct (m_appending (h_mode h)) eqn:Ha.
      * pose proof (fold_write_spec lines (bio_seek_end (bio_seek (m_bio {| m_bio := {| b_buf := buf; b_pos := bp |}; m_handles := hs |}) (h_pos h)))) as Hf.
        unfold bio_seek_end, bio_seek in Hf |- *.
        cbn [m_bio m_handles b_buf b_pos] in Hf |- *.
        rewrite Hf.
        cbn [m_bio m_handles b_buf b_pos fst snd r_data r_handles].
        split; [reflexivity|]. split; reflexivity.
      * pose proof (fold_write_spec lines (bio_seek (m_bio {| m_bio := {| b_buf := buf; b_pos := bp |}; m_handles := hs |}) (h_pos h))) as Hf.
        unfold bio_seek in Hf |- *.
        cbn [m_bio m_handles b_buf b_pos] in Hf |- *.
        rewrite Hf.
        cbn [m_bio m_handles b_buf b_pos fst snd r_data r_handles].
        split; [reflexivity|]. split; reflexivity.
  - (* FSeek *)
    destruct (seek_target (h_pos h) (length buf) off whence) as [p|] eqn:Hs.
    + unfold with_seek, bio_seek.
      cbn [m_bio m_handles b_buf b_pos fst snd r_data r_handles].
      split; [reflexivity|]. split; reflexivity.
    + cbn [fst snd]. split; [reflexivity|]. split; reflexivity.
  - (* FTell *)
    cbn [fst snd]. split; [reflexivity|]. split; reflexivity.
  - (* FTruncate *)
    destruct (negb (m_writing (h_mode h))) eqn:Hw.
    + cbn [fst snd]. split; [reflexivity|]. split; reflexivity.
    + unfold with_seek, bio_truncate, bio_seek_end, bio_seek.
      cbn [m_bio m_handles b_buf b_pos fst snd r_data r_handles].
      split; [reflexivity|]. split; [|reflexivity].
      cbn [m_bio m_handles b_buf b_pos fst snd r_data r_handles].
      apply truncate_spec.
  - (* FFlush *)
    cbn [fst snd]. split; [reflexivity|]. split; reflexivity.
Qed.

Lemma fstep_sim : forall ms rs st,
  finv ms rs ->
  snd (mem_fstep ms st) = snd (ref_fstep rs st)
  /\ finv (fst (mem_fstep ms st)) (fst (ref_fstep rs st)).
Proof.
  intros ms rs [mode|i o] Hinv; cbn [mem_fstep ref_fstep].
  - cbn [fst snd]. split; [reflexivity|]. apply fopen_sim. exact Hinv.
  - apply fcall_sim. exact Hinv.
Qed.

Lemma frun_sim : forall steps ms rs,
  finv ms rs ->
  snd (mem_frun ms steps) = snd (ref_frun rs steps)
  /\ finv (fst (mem_frun ms steps)) (fst (ref_frun rs steps)).
Proof.
  induction steps as [|st steps IH]; intros ms rs Hinv; cbn [mem_frun ref_frun].
  - cbn [fst snd]. split; [reflexivity|exact Hinv].
  - destruct (fstep_sim ms rs st Hinv) as [Hres Hinv1].
    destruct (mem_fstep ms st) as [ms1 x1] eqn:Hm.
    destruct (ref_fstep rs st) as [rs1 x2] eqn:Hr.
    cbn [fst snd] in Hres, Hinv1. subst x2.
    destruct (IH ms1 rs1 Hinv1) as [Hres2 Hinv2].
    destruct (mem_frun ms1 steps) as [ms2 xs1] eqn:Hm2.
    destruct (ref_frun rs1 steps) as [rs2 xs2] eqn:Hr2.
    cbn [fst snd] in Hres2, Hinv2 |- *. subst xs2.
    split; [reflexivity|exact Hinv2].
Qed.

(* for every initial content, every sequence of opens (any mode strings) and calls on any
   handles: same results after every call, same positions of every handle, same file bytes *)
Theorem memfile_refines : forall content steps,
  let '(ms, mres) := mem_frun (mem_init content) steps in
  let '(rs, rres) := ref_frun (ref_init content) steps in
  mres = rres /\ b_buf (m_bio ms) = r_data rs /\ m_handles ms = r_handles rs.
Proof.
  intros content steps.
  assert (Hinit : finv (mem_init content) (ref_init content)).
  { unfold finv, mem_init, ref_init. cbn [m_bio m_handles b_buf r_data r_handles].
    split; reflexivity. }
  destruct (frun_sim steps _ _ Hinit) as [Hres Hinv].
  destruct (mem_frun (mem_init content) steps) as [ms mres].
  destruct (ref_frun (ref_init content) steps) as [rs rres].
  cbn [fst snd] in Hres, Hinv. unfold finv in Hinv.
  split; [exact Hres|exact Hinv].
Qed.

(* ---------- corollaries, stated on the _MemoryFile model itself ---------- *)

Lemma nth_error_set_handle : forall hs i (h0 h : handle),
  nth_error hs i = Some h0 -> nth_error (set_handle hs i h) i = Some h.
Proof.
  intros hs i h0 h Hnth. unfold set_handle.
  assert (Hlt : i < length hs) by (apply nth_error_Some; rewrite Hnth; discriminate).
  assert (Hlen : length (firstn i hs) = i) by (rewrite firstn_length; lia).
  rewrite nth_error_app2 by lia.
  rewrite Hlen. rewrite Nat.sub_diag. reflexivity.
Qed.

Theorem append_writes_at_end : forall s i h d s' r,
  nth_error (m_handles s) i = Some h -> m_appending (h_mode h) = true ->
  m_writing (h_mode h) = true -> d <> [] ->
  mem_fcall s i (FWrite d) = (s', r) ->
  b_buf (m_bio s') = b_buf (m_bio s) ++ d.
Proof.
  intros [[buf bp] hs] i h d s' r Hnth Ha Hw Hd Hcall.
  cbn [m_handles] in Hnth.
  unfold mem_fcall in Hcall. cbn [m_handles m_bio] in Hcall.
  rewrite Hnth in Hcall. rewrite Hw, Ha in Hcall. cbn [negb] in Hcall.
  unfold with_seek in Hcall. rewrite bio_write_spec in Hcall.
  unfold bio_seek_end, bio_seek in Hcall. cbn [m_bio m_handles b_buf b_pos] in Hcall.
  inversion Hcall as [[Hs Hr]]. clear Hcall Hs Hr.
  cbn [m_bio b_buf]. unfold pwrite.
  destruct d as [|c d]; [contradiction Hd; reflexivity|].
  rewrite Nat.leb_refl. rewrite firstn_all.
  rewrite skipn_all2 by lia. rewrite app_nil_r. reflexivity.
Qed.

Theorem truncate_keeps_position : forall s i h n s' r,
  nth_error (m_handles s) i = Some h -> m_writing (h_mode h) = true ->
  mem_fcall s i (FTruncate n) = (s', r) ->
  exists h', nth_error (m_handles s') i = Some h' /\ h_pos h' = h_pos h
  /\ length (b_buf (m_bio s')) = match n with Some k => k | None => h_pos h end.
Proof.
  intros [[buf bp] hs] i h n s' r Hnth Hw Hcall.
  cbn [m_handles] in Hnth.
  unfold mem_fcall in Hcall. cbn [m_handles m_bio] in Hcall.
  rewrite Hnth in Hcall. rewrite Hw in Hcall. cbn [negb] in Hcall.
  unfold with_seek, bio_truncate, bio_seek_end, bio_seek in Hcall.
  cbn [m_bio m_handles b_buf b_pos] in Hcall.
  inversion Hcall as [[Hs Hr]]. clear Hcall Hs Hr.
  cbn [m_bio m_handles b_buf b_pos].
  exists {| h_mode := h_mode h; h_pos := h_pos h |}.
  split; [apply (nth_error_set_handle hs i h); exact Hnth|].
  split; [reflexivity|].
  rewrite truncate_spec. unfold resize.
  set (ns := match n with Some k => k | None => h_pos h end).
  destruct (ns <=? length buf) eqn:Hle.
  - apply Nat.leb_le in Hle. rewrite firstn_length. lia.
  - apply Nat.leb_gt in Hle. rewrite app_length, repeat_length. lia.
Qed.

Theorem readonly_handle_rejects : forall s i h o s' r,
  nth_error (m_handles s) i = Some h -> m_writing (h_mode h) = false ->
  (exists d, o = FWrite d) \/ (exists l, o = FWritelines l) \/ (exists n, o = FTruncate n) ->
  mem_fcall s i o = (s', r) -> r = RRejected /\ s' = s.
Proof.
  intros s i h o s' r Hnth Hw Ho Hcall.
  unfold mem_fcall in Hcall. rewrite Hnth in Hcall.
  destruct Ho as [[d Ho]|[[l Ho]|[n Ho]]]; subst o;
    rewrite Hw in Hcall; cbn [negb] in Hcall;
    inversion Hcall as [[Hs Hr]]; split; reflexivity.
Qed.

Theorem writeonly_handle_rejects_read : forall s i h o s' r,
  nth_error (m_handles s) i = Some h -> m_reading (h_mode h) = false ->
  (exists n, o = FRead n) \/ o = FReadline ->
  mem_fcall s i o = (s', r) -> r = RRejected /\ s' = s.
Proof.
  intros s i h o s' r Hnth Hrd Ho Hcall.
  unfold mem_fcall in Hcall. rewrite Hnth in Hcall.
  destruct Ho as [[n Ho]|Ho]; subst o;
    rewrite Hrd in Hcall; cbn [negb] in Hcall;
    inversion Hcall as [[Hs Hr]]; split; reflexivity.
Qed.
