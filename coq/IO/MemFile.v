(* fs/memoryfs.py _MemoryFile over the shared io.BytesIO of its directory entry, and the
   reference raw file (io.FileIO semantics per mode). Several handles may be open on one file. *)
From Coq Require Import List NArith ZArith Bool Arith Lia.
From PyFS Require Import Base.PyStr FS.Tree FS.Mode.
Import ListNotations.

(* ---------- io.BytesIO ---------- *)
Record bio := { b_buf : bytes; b_pos : nat }.

Definition bio_seek (b : bio) (p : nat) : bio := {| b_buf := b_buf b; b_pos := p |}.
Definition bio_seek_end (b : bio) : bio := {| b_buf := b_buf b; b_pos := length (b_buf b) |}.

Definition bio_read (b : bio) (size : option nat) : bytes * bio :=
  let avail := skipn (b_pos b) (b_buf b) in
  let r := match size with None => avail | Some n => firstn n avail end in
  (r, {| b_buf := b_buf b; b_pos := b_pos b + length r |}).

Fixpoint take_line (l : bytes) : bytes :=
  match l with
  | [] => []
  | c :: r => if N.eqb c 10 then [c] else c :: take_line r
  end.

Definition bio_readline (b : bio) : bytes * bio :=
  let r := take_line (skipn (b_pos b) (b_buf b)) in
  (r, {| b_buf := b_buf b; b_pos := b_pos b + length r |}).

(* write at the position: zero-fills a gap past the end; an empty write changes nothing *)
Definition bio_write (b : bio) (data : bytes) : bio :=
  match data with
  | [] => b
  | _ =>
    let buf := b_buf b in
    let pos := b_pos b in
    let head := if pos <=? length buf then firstn pos buf
                else buf ++ repeat 0%N (pos - length buf) in
    {| b_buf := head ++ data ++ skipn (pos + length data) buf;
       b_pos := pos + length data |}
  end.

(* truncate(size): only ever shrinks; the position is unchanged *)
Definition bio_truncate (b : bio) (size : nat) : bio :=
  {| b_buf := firstn size (b_buf b); b_pos := b_pos b |}.

(* ---------- calls on a file object ---------- *)
Inductive fop :=
| FRead (size : option nat)
| FReadline
| FWrite (data : bytes)
| FWritelines (lines : list bytes)
| FSeek (off : Z) (whence : nat)
| FTell
| FTruncate (size : option nat)
| FFlush.

Inductive fres := RBytes (b : bytes) | RNat (n : nat) | RUnit | RRejected.

(* target of a seek, None when it is negative or whence is invalid *)
Definition seek_target (pos len : nat) (off : Z) (whence : nat) : option nat :=
  let base := match whence with 0 => Some 0%Z | 1 => Some (Z.of_nat pos)
                              | 2 => Some (Z.of_nat len) | _ => None end in
  match base with
  | Some b => if (b + off <? 0)%Z then None else Some (Z.to_nat (b + off))
  | None => None
  end.

(* ---------- _MemoryFile: state = shared BytesIO + per-handle (mode, pos) ---------- *)
Record handle := { h_mode : str; h_pos : nat }.
Record mstate := { m_bio : bio; m_handles : list handle }.

Definition set_handle (hs : list handle) (i : nat) (h : handle) : list handle :=
  firstn i hs ++ h :: skipn (S i) hs.

(* MemoryFS.openbin + _MemoryFile.__init__ on an existing file entry *)
Definition mem_fopen (s : mstate) (mode : str) : mstate :=
  let b := m_bio s in
  if m_truncate mode then
    {| m_bio := {| b_buf := []; b_pos := 0 |};
       m_handles := m_handles s ++ [{| h_mode := mode; h_pos := 0 |}] |}
  else if m_appending mode then
    {| m_bio := bio_seek_end b;
       m_handles := m_handles s ++ [{| h_mode := mode; h_pos := length (b_buf b) |}] |}
  else {| m_bio := b; m_handles := m_handles s ++ [{| h_mode := mode; h_pos := 0 |}] |}.

(* with self._seek_lock(): seek(self.pos); body; self.pos = tell() *)
Definition with_seek (s : mstate) (i : nat) (h : handle) (body : bio -> fres * bio)
  : mstate * fres :=
  let '(r, b') := body (bio_seek (m_bio s) (h_pos h)) in
  ({| m_bio := b'; m_handles := set_handle (m_handles s) i {| h_mode := h_mode h; h_pos := b_pos b' |} |}, r).

Definition mem_fcall (s : mstate) (i : nat) (o : fop) : mstate * fres :=
  match nth_error (m_handles s) i with
  | None => (s, RRejected)
  | Some h =>
    let mode := h_mode h in
    match o with
    | FRead size =>
      if negb (m_reading mode) then (s, RRejected)
      else with_seek s i h (fun b => let '(r, b') := bio_read b size in (RBytes r, b'))
    | FReadline =>
      if negb (m_reading mode) then (s, RRejected)
      else with_seek s i h (fun b => let '(r, b') := bio_readline b in (RBytes r, b'))
    | FWrite data =>
      if negb (m_writing mode) then (s, RRejected)
      else with_seek s i h (fun b =>
             let b1 := if m_appending mode then bio_seek_end b else b in
             (RNat (length data), bio_write b1 data))
    | FWritelines lines =>
      if negb (m_writing mode) then (s, RRejected)
      else with_seek s i h (fun b =>
             let b1 := if m_appending mode then bio_seek_end b else b in
             (RUnit, fold_left bio_write lines b1))
    | FSeek off whence =>
      match seek_target (h_pos h) (length (b_buf (m_bio s))) off whence with
      | None => (s, RRejected)     (* outside the compared domain: see IO/MemFileProofs.v *)
      | Some p => with_seek s i h (fun b => (RNat p, bio_seek b p))
      end
    | FTell => (s, RNat (h_pos h))
    | FTruncate size =>
      if negb (m_writing mode) then (s, RRejected)
      else with_seek s i h (fun b =>
             let pos := b_pos b in
             let new_size := match size with Some n => n | None => pos end in
             let b1 := bio_truncate b new_size in
             let b2 := bio_seek_end b1 in
             let b3 := if length (b_buf b1) <? new_size
                       then bio_write b2 (repeat 0%N (new_size - length (b_buf b1))) else b2 in
             (RNat new_size, bio_seek b3 pos))
    | FFlush => (s, RUnit)
    end
  end.

(* ---------- reference: raw file per mode (io.FileIO) ---------- *)
Record rstate := { r_data : bytes; r_handles : list handle }.

Definition ref_fopen (s : rstate) (mode : str) : rstate :=
  let data := if m_truncate mode then [] else r_data s in
  {| r_data := data;
     r_handles := r_handles s ++ [{| h_mode := mode;
                                     h_pos := if m_appending mode then length data else 0 |}] |}.

Definition pwrite (data : bytes) (pos : nat) (d : bytes) : bytes :=
  match d with
  | [] => data
  | _ => (if pos <=? length data then firstn pos data else data ++ repeat 0%N (pos - length data))
         ++ d ++ skipn (pos + length d) data
  end.

Definition resize (data : bytes) (n : nat) : bytes :=
  if n <=? length data then firstn n data else data ++ repeat 0%N (n - length data).

Definition ref_fcall (s : rstate) (i : nat) (o : fop) : rstate * fres :=
  match nth_error (r_handles s) i with
  | None => (s, RRejected)
  | Some h =>
    let mode := h_mode h in
    let pos := h_pos h in
    let upd (data : bytes) (p : nat) :=
        {| r_data := data; r_handles := set_handle (r_handles s) i {| h_mode := mode; h_pos := p |} |} in
    match o with
    | FRead size =>
      if negb (m_reading mode) then (s, RRejected)
      else let avail := skipn pos (r_data s) in
           let r := match size with None => avail | Some n => firstn n avail end in
           (upd (r_data s) (pos + length r), RBytes r)
    | FReadline =>
      if negb (m_reading mode) then (s, RRejected)
      else let r := take_line (skipn pos (r_data s)) in (upd (r_data s) (pos + length r), RBytes r)
    | FWrite d =>
      if negb (m_writing mode) then (s, RRejected)
      else let p := if m_appending mode then length (r_data s) else pos in
           (upd (pwrite (r_data s) p d) (p + length d), RNat (length d))
    | FWritelines lines =>
      if negb (m_writing mode) then (s, RRejected)
      else let p := if m_appending mode then length (r_data s) else pos in
           let '(data, p') := fold_left (fun acc d => (pwrite (fst acc) (snd acc) d, snd acc + length d))
                                        lines (r_data s, p) in
           (upd data p', RUnit)
    | FSeek off whence =>
      match seek_target pos (length (r_data s)) off whence with
      | None => (s, RRejected)
      | Some p => (upd (r_data s) p, RNat p)
      end
    | FTell => (s, RNat pos)
    | FTruncate size =>
      if negb (m_writing mode) then (s, RRejected)
      else let n := match size with Some n => n | None => pos end in
           (upd (resize (r_data s) n) pos, RNat n)
    | FFlush => (s, RUnit)
    end
  end.

(* ---------- running call sequences: (handle index, call) or opening a new handle ---------- *)
Inductive fstep := SOpen (mode : str) | SCall (i : nat) (o : fop).

Definition mem_fstep (s : mstate) (st : fstep) : mstate * fres :=
  match st with
  | SOpen mode => (mem_fopen s mode, RUnit)
  | SCall i o => mem_fcall s i o
  end.
Definition ref_fstep (s : rstate) (st : fstep) : rstate * fres :=
  match st with
  | SOpen mode => (ref_fopen s mode, RUnit)
  | SCall i o => ref_fcall s i o
  end.

Fixpoint mem_frun (s : mstate) (l : list fstep) : mstate * list fres :=
  match l with
  | [] => (s, [])
  | st :: r => let '(s1, x) := mem_fstep s st in let '(s2, xs) := mem_frun s1 r in (s2, x :: xs)
  end.
Fixpoint ref_frun (s : rstate) (l : list fstep) : rstate * list fres :=
  match l with
  | [] => (s, [])
  | st :: r => let '(s1, x) := ref_fstep s st in let '(s2, xs) := ref_frun s1 r in (s2, x :: xs)
  end.

Definition mem_init (content : bytes) : mstate :=
  {| m_bio := {| b_buf := content; b_pos := 0 |}; m_handles := [] |}.
Definition ref_init (content : bytes) : rstate := {| r_data := content; r_handles := [] |}.
