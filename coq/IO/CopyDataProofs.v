From Coq Require Import List NArith Bool Arith Lia.
From PyFS Require Import Base.PyStr FS.Tree IO.CopyData.
Import ListNotations.

Lemma read_some_split : forall rem n sh, fst (read_some rem n sh) ++ snd (read_some rem n sh) = rem.
Proof.
  intros rem [k|] sh; simpl; [apply firstn_skipn | apply app_nil_r].
Qed.

Lemma read_some_progress : forall rem n sh,
  n <> Some 0 -> rem <> [] -> fst (read_some rem n sh) <> [].
Proof.
  intros rem [k|] sh Hn Hr; simpl; [|exact Hr].
  assert (k <> 0) by congruence.
  destruct rem as [|x r]; [congruence|].
  set (want := Nat.min k (length (x :: r))).
  assert (Hw : 1 <= want) by (unfold want; simpl; lia).
  destruct ((sh =? 0) || (want <? sh)) eqn:E.
  - destruct want; [lia|]. simpl. discriminate.
  - apply orb_false_iff in E as [E1 E2]. apply Nat.eqb_neq in E1. destruct sh; [lia|]. simpl. discriminate.
Qed.

Lemma read_some_bound : forall rem k sh, length (fst (read_some rem (Some k) sh)) <= k.
Proof.
  intros rem k sh. simpl. rewrite firstn_length.
  destruct ((sh =? 0) || (Nat.min k (length rem) <? sh)) eqn:E.
  - lia.
  - apply orb_false_iff in E as [_ E2]. apply Nat.ltb_ge in E2. lia.
Qed.

Lemma copy_loop_concat : forall fuel rem size oracle,
  size <> Some 0 -> length rem < fuel -> concat (copy_loop fuel rem size oracle) = rem.
Proof.
  induction fuel as [|f IH]; intros rem size oracle Hs Hl; [lia|].
  cbn [copy_loop]. destruct (read_some rem size (hd 0 oracle)) as [chunk rest] eqn:E.
  pose proof (read_some_split rem size (hd 0 oracle)) as Hsp. rewrite E in Hsp. simpl in Hsp.
  destruct chunk as [|c cs].
  - simpl in Hsp. subst rest.
    destruct rem as [|x r]; [reflexivity|].
    exfalso. pose proof (read_some_progress (x :: r) size (hd 0 oracle) Hs ltac:(discriminate)) as P.
    rewrite E in P. simpl in P. congruence.
  - simpl. rewrite IH; [exact Hsp|exact Hs|].
    rewrite <- Hsp in Hl. rewrite app_length in Hl. simpl in Hl. lia.
Qed.

(* every byte is transferred, in order, whatever the chunk size and the short reads *)
Theorem copy_data_concat : forall data c oracle,
  effective c <> Some 0 -> concat (copy_file_data data c oracle) = data.
Proof.
  intros data c oracle H. unfold copy_file_data. apply copy_loop_concat; [exact H|lia].
Qed.

(* boundary: chunk_size = 0 copies nothing *)
Theorem copy_data_zero_chunk : forall data oracle, copy_file_data data (CNat 0) oracle = [].
Proof.
  intros data oracle. unfold copy_file_data, effective.
  cbn [copy_loop]. unfold read_some. rewrite Nat.min_0_l.
  assert (E : (hd 0 oracle =? 0) || (0 <? hd 0 oracle) = true) by (destruct (hd 0 oracle); reflexivity).
  rewrite E. reflexivity.
Qed.

(* write() is never called with an empty chunk and never with more than the chunk size *)
Lemma copy_loop_chunks : forall fuel rem k oracle,
  Forall (fun ch => ch <> [] /\ length ch <= k) (copy_loop fuel rem (Some k) oracle).
Proof.
  induction fuel as [|f IH]; intros rem k oracle; cbn [copy_loop]; [constructor|].
  destruct (read_some rem (Some k) (hd 0 oracle)) as [chunk rest] eqn:E.
  destruct chunk as [|c cs]; [constructor|].
  constructor; [|apply IH].
  split; [discriminate|].
  pose proof (read_some_bound rem k (hd 0 oracle)) as B. rewrite E in B. exact B.
Qed.

Theorem copy_data_chunks : forall data k oracle,
  Forall (fun ch => ch <> [] /\ length ch <= k) (copy_file_data data (CNat k) oracle).
Proof. intros. apply copy_loop_chunks. Qed.

(* the bytes fed to the digest, concatenated, are the file *)
Theorem hash_chunks : forall data oracle, concat (hash_feed data oracle) = data.
Proof.
  intros. unfold hash_feed. apply copy_loop_concat; [unfold default_chunk; discriminate|lia].
Qed.

(* an empty source never calls write *)
Theorem copy_data_empty : forall c oracle, copy_file_data [] c oracle = [].
Proof.
  intros c oracle. unfold copy_file_data. cbn [length copy_loop].
  destruct (effective c) as [k|]; unfold read_some; cbn [length];
    [rewrite Nat.min_0_r; destruct ((hd 0 oracle =? 0) || (0 <? hd 0 oracle)); destruct (hd 0 oracle); reflexivity
    | reflexivity].
Qed.

(* ---- make_stream decision table (finite: all 24 mode spellings x buffering sign) ---- *)
From PyFS Require Import FS.Mode IO.MakeStream.
From Coq Require Import ZArith.

(* buffered: the buffer class can do exactly what the mode allows, except that exclusive
   modes ('x', 'x+' gets Random) without '+' get no buffer at all - stated as found *)
Theorem make_stream_table :
  forallb (fun m =>
    let s := make_stream m 1%Z in
    Bool.eqb (s_text s) (negb (has_char ch_b m))
    && (if m_exclusive m && negb (has_char ch_plus m)
        then match s_buffer s with NoBuffer => true | _ => false end
        else Bool.eqb (can_read (s_buffer s)) (m_reading m)
             && Bool.eqb (can_write (s_buffer s)) (m_writing m))) all_modes = true.
Proof. vm_compute. reflexivity. Qed.

(* text I/O cannot be unbuffered: every mode without 'b' is rejected with buffering = 0 (any mode string, not only the
   24 spellings), and every other call builds the stack of the table *)
Theorem make_stream_text_unbuffered_rejected : forall m,
  has_char ch_b m = false -> make_stream_call m 0%Z = None.
Proof. intros m Hb. unfold make_stream_call. rewrite Hb. reflexivity. Qed.

Theorem make_stream_call_builds : forall m b,
  (b <> 0%Z \/ has_char ch_b m = true) -> make_stream_call m b = Some (make_stream m b).
Proof.
  intros m b H. unfold make_stream_call.
  destruct H as [Hb | Hb].
  - destruct (Z.eqb_spec b 0) as [E | _]; [contradiction | reflexivity].
  - rewrite Hb. rewrite Bool.andb_false_r. reflexivity.
Qed.

Theorem make_stream_unbuffered :
  forallb (fun m => match s_buffer (make_stream m (-1)%Z) with NoBuffer => true | _ => false end)
          all_modes = true.
Proof. vm_compute. reflexivity. Qed.
