(* C09 -- executable transition system of fs._bulk.Copier with N worker threads.

   Atomic actions = the yield points of the harness (harness/h_copier.py):
     producer : open src, open dst, queue.put (enabled iff len(queue) < N),
                N sentinel puts, N thread joins (enabled iff that worker finished),
                queue.join (enabled iff unfinished = 0), then __exit__ (raise iff errors);
     worker   : queue.get (enabled iff the queue is non-empty, FIFO),
                every read/write step of the task, close src, close dst (both closes run
                whatever happened before: try/finally), add_error when the task failed,
                queue.task_done; a sentinel => task_done and stop.
   With N = 0 there is no queue: the producer runs every transfer inline and the first
   failure propagates at once (copy_file_internal), skipping the remaining files.

   A schedule is a list of thread ids (0 = producer, S i = worker i); a pick that is not
   enabled is skipped.  Faults are part of the file description: one boolean per data
   step (read/write) and one per close. *)
From Coq Require Import List Arith Bool Lia.
Import ListNotations.

(* ------------------------------------------------------------------ data *)

Record file := mkFile {
  fname : nat;
  fdata : list bool;      (* one entry per read/write step; true = that step raises *)
  fcs : bool;             (* close of the source file object raises *)
  fcd : bool              (* close of the destination file object raises *)
}.

Definition anyb (l : list bool) : bool := existsb (fun b => b) l.

(* the transfer of f fails iff one of its steps is faulty *)
Definition faulty (f : file) : bool := anyb (fdata f) || fcs f || fcd f.

Inductive side := Src | Dst.
Definition handle : Type := (file * side)%type.

Inductive item := Task (f : file) | Sentinel.

(* state of a running transfer (_CopyTask.__call__) *)
Inductive tstate :=
| TData (f : file) (rest : list bool)        (* data steps still to do *)
| TCloseSrc (f : file) (failed : bool)       (* finally: src_file.close() *)
| TCloseDst (f : file) (failed : bool).      (* finally: dst_file.close() *)

Definition after_data (f : file) (rest : list bool) : tstate :=
  match rest with [] => TCloseSrc f false | _ => TData f rest end.

Definition start_task (f : file) : tstate := after_data f (fdata f).

(* one atomic action of a transfer: the next state or the verdict (file, failed),
   together with the file objects closed by the action *)
Definition tstep (t : tstate) : (tstate + file * bool) * list handle :=
  match t with
  | TData f [] => (inl (TCloseSrc f false), [])
  | TData f (true :: _) => (inl (TCloseSrc f true), [])          (* raises: skip the data *)
  | TData f (false :: rest) => (inl (after_data f rest), [])
  | TCloseSrc f failed => (inl (TCloseDst f (failed || fcs f)), [(f, Src)])
  | TCloseDst f failed => (inr (f, failed || fcd f), [(f, Dst)])
  end.

Inductive wstate :=
| WIdle                   (* about to queue.get() *)
| WRun (t : tstate)       (* inside task() *)
| WTaskDone               (* task over (add_error done if needed): about to task_done() *)
| WSentinel               (* got None: about to task_done() and leave the loop *)
| WStopped.

Inductive pstate :=
| POpenSrc (todo : list file)                (* head of the loop over the files *)
| POpenDst (f : file) (todo : list file)
| PPut (f : file) (todo : list file)
| PInline (t : tstate) (todo : list file)    (* N = 0: the producer copies itself *)
| PSentinels (k : nat)                       (* stop(): k sentinels still to put *)
| PJoins (k : nat)                           (* k workers still to join *)
| PQJoin                                     (* queue.join() *)
| PReturned (raised : bool).                 (* __exit__ over: returned / raised *)

Record config := mkC {
  cN : nat;
  prod : pstate;
  ws : list wstate;
  queue : list item;
  unfinished : nat;                 (* Queue.unfinished_tasks *)
  nput : nat;                       (* items ever put *)
  opened : list handle;             (* every file object opened *)
  closedh : list handle;            (* every file object closed *)
  copied : list file;               (* transfers completed without error *)
  failedl : list file;              (* Copier.errors (one per failed transfer) *)
  skipped : list file               (* N = 0 only: files never reached after a failure *)
}.

Definition init (N : nat) (files : list file) : config :=
  mkC N (POpenSrc files) (repeat WIdle N) [] 0 0 [] [] [] [] [].

(* ------------------------------------------------------------------ updates *)

Fixpoint upd {A} (i : nat) (x : A) (l : list A) : list A :=
  match l, i with
  | [], _ => []
  | _ :: t, 0 => x :: t
  | h :: t, S j => h :: upd j x t
  end.

Definition isnil {A} (l : list A) : bool := match l with [] => true | _ => false end.

Definition set_prod (c : config) (p : pstate) : config :=
  mkC (cN c) p (ws c) (queue c) (unfinished c) (nput c) (opened c) (closedh c)
      (copied c) (failedl c) (skipped c).

Definition set_w (c : config) (i : nat) (w : wstate) : config :=
  mkC (cN c) (prod c) (upd i w (ws c)) (queue c) (unfinished c) (nput c) (opened c)
      (closedh c) (copied c) (failedl c) (skipped c).

Definition set_queue (c : config) (q : list item) : config :=
  mkC (cN c) (prod c) (ws c) q (unfinished c) (nput c) (opened c) (closedh c)
      (copied c) (failedl c) (skipped c).

Definition do_open (c : config) (h : handle) : config :=
  mkC (cN c) (prod c) (ws c) (queue c) (unfinished c) (nput c) (h :: opened c) (closedh c)
      (copied c) (failedl c) (skipped c).

Definition do_close (c : config) (hs : list handle) : config :=
  mkC (cN c) (prod c) (ws c) (queue c) (unfinished c) (nput c) (opened c) (hs ++ closedh c)
      (copied c) (failedl c) (skipped c).

Definition do_put (c : config) (it : item) : config :=
  mkC (cN c) (prod c) (ws c) (queue c ++ [it]) (S (unfinished c)) (S (nput c)) (opened c)
      (closedh c) (copied c) (failedl c) (skipped c).

Definition do_task_done (c : config) : config :=
  mkC (cN c) (prod c) (ws c) (queue c) (pred (unfinished c)) (nput c) (opened c) (closedh c)
      (copied c) (failedl c) (skipped c).

(* verdict of a transfer: Copier.add_error when it failed *)
Definition do_verdict (c : config) (f : file) (failed : bool) : config :=
  if failed
  then mkC (cN c) (prod c) (ws c) (queue c) (unfinished c) (nput c) (opened c) (closedh c)
           (copied c) (f :: failedl c) (skipped c)
  else mkC (cN c) (prod c) (ws c) (queue c) (unfinished c) (nput c) (opened c) (closedh c)
           (f :: copied c) (failedl c) (skipped c).

Definition do_skip (c : config) (l : list file) : config :=
  mkC (cN c) (prod c) (ws c) (queue c) (unfinished c) (nput c) (opened c) (closedh c)
      (copied c) (failedl c) l.

Definition room (c : config) : bool := length (queue c) <? cN c.

(* ------------------------------------------------------------------ steps *)

Definition pstep (c : config) : config :=
  match prod c with
  | POpenSrc [] =>
      if cN c =? 0 then set_prod c (PReturned (negb (isnil (failedl c))))
      else set_prod c (PSentinels (cN c))
  | POpenSrc (f :: todo) => set_prod (do_open c (f, Src)) (POpenDst f todo)
  | POpenDst f todo =>
      if cN c =? 0 then set_prod (do_open c (f, Dst)) (PInline (start_task f) todo)
      else set_prod (do_open c (f, Dst)) (PPut f todo)
  | PPut f todo =>
      if room c then set_prod (do_put c (Task f)) (POpenSrc todo) else c
  | PInline t todo =>
      match tstep t with
      | (inl t', hs) => set_prod (do_close c hs) (PInline t' todo)
      | (inr (f, true), hs) =>
          set_prod (do_skip (do_verdict (do_close c hs) f true) todo) (PReturned true)
      | (inr (f, false), hs) => set_prod (do_verdict (do_close c hs) f false) (POpenSrc todo)
      end
  | PSentinels 0 => set_prod c (PJoins (cN c))
  | PSentinels (S k) =>
      if room c then set_prod (do_put c Sentinel) (PSentinels k) else c
  | PJoins 0 => set_prod c PQJoin
  | PJoins (S k) =>
      match nth_error (ws c) (cN c - S k) with
      | Some WStopped => set_prod c (PJoins k)
      | _ => c
      end
  | PQJoin =>
      if unfinished c =? 0 then set_prod c (PReturned (negb (isnil (failedl c)))) else c
  | PReturned _ => c
  end.

Definition wstep (c : config) (i : nat) : config :=
  match nth_error (ws c) i with
  | None => c
  | Some WIdle =>
      match queue c with
      | [] => c
      | Task f :: q => set_w (set_queue c q) i (WRun (start_task f))
      | Sentinel :: q => set_w (set_queue c q) i WSentinel
      end
  | Some (WRun t) =>
      match tstep t with
      | (inl t', hs) => set_w (do_close c hs) i (WRun t')
      | (inr (f, failed), hs) => set_w (do_verdict (do_close c hs) f failed) i WTaskDone
      end
  | Some WTaskDone => set_w (do_task_done c) i WIdle
  | Some WSentinel => set_w (do_task_done c) i WStopped
  | Some WStopped => c
  end.

Definition step (c : config) (tid : nat) : config :=
  match tid with
  | 0 => pstep c
  | S i => wstep c i
  end.

Definition run (sched : list nat) (c : config) : config := fold_left step sched c.

(* ------------------------------------------------------------------ enabledness *)

Definition p_enabled (c : config) : bool :=
  match prod c with
  | PPut _ _ => room c
  | PSentinels (S _) => room c
  | PJoins (S k) =>
      match nth_error (ws c) (cN c - S k) with Some WStopped => true | _ => false end
  | PQJoin => unfinished c =? 0
  | PReturned _ => false
  | _ => true
  end.

Definition w_enabled (c : config) (i : nat) : bool :=
  match nth_error (ws c) i with
  | None => false
  | Some WIdle => negb (isnil (queue c))
  | Some WStopped => false
  | Some _ => true
  end.

Definition enabled (c : config) (tid : nat) : bool :=
  match tid with 0 => p_enabled c | S i => w_enabled c i end.

(* ------------------------------------------------------------------ observations *)

Definition final (c : config) : bool :=
  match prod c with PReturned _ => true | _ => false end.

Definition raised (c : config) : bool :=
  match prod c with PReturned b => b | _ => false end.

Definition is_stopped (w : wstate) : bool :=
  match w with WStopped => true | _ => false end.

Definition workers_done (c : config) : bool := forallb is_stopped (ws c).

Definition side_eqb (a b : side) : bool :=
  match a, b with Src, Src | Dst, Dst => true | _, _ => false end.

Fixpoint list_bool_eqb (a b : list bool) : bool :=
  match a, b with
  | [], [] => true
  | x :: a', y :: b' => Bool.eqb x y && list_bool_eqb a' b'
  | _, _ => false
  end.

Definition file_eqb (a b : file) : bool :=
  (fname a =? fname b) && list_bool_eqb (fdata a) (fdata b) && Bool.eqb (fcs a) (fcs b)
  && Bool.eqb (fcd a) (fcd b).

Definition handle_eqb (a b : handle) : bool :=
  file_eqb (fst a) (fst b) && side_eqb (snd a) (snd b).

Fixpoint remove1 (h : handle) (l : list handle) : option (list handle) :=
  match l with
  | [] => None
  | x :: t => if handle_eqb h x then Some t
              else match remove1 h t with Some t' => Some (x :: t') | None => None end
  end.

(* every opened file object has been closed (and nothing else): multiset equality *)
Fixpoint same_handles (a b : list handle) : bool :=
  match a with
  | [] => isnil b
  | h :: t => match remove1 h b with Some b' => same_handles t b' | None => false end
  end.

Definition all_closed (c : config) : bool := same_handles (opened c) (closedh c).

(* ------------------------------------------------------------------ observed traces *)

(* The harness records, for a real run of fs._bulk.Copier under its scheduler, the thread
   picked at every scheduling decision together with the set of enabled threads at that
   moment.  [replay] re-executes such a trace on the model and checks that the model
   agrees on the enabled set before every action.  The producer's transitions that are
   not yield points of the implementation (end of the file loop, end of the sentinel loop,
   end of the join loop) are taken eagerly by [settle]; settle (step c t) is the run of
   the schedule [t; 0; ...] so every theorem about [run] applies to replayed
   configurations. *)

Definition silent (c : config) : bool :=
  match prod c with POpenSrc [] | PSentinels 0 | PJoins 0 => true | _ => false end.

Definition settle1 (c : config) : config := if silent c then step c 0 else c.
Definition settle (c : config) : config := settle1 (settle1 (settle1 c)).

Definition enabled_set (c : config) : list nat := filter (enabled c) (seq 0 (S (cN c))).

Fixpoint list_nat_eqb (a b : list nat) : bool :=
  match a, b with
  | [], [] => true
  | x :: a', y :: b' => (x =? y) && list_nat_eqb a' b'
  | _, _ => false
  end.

Fixpoint replay (c : config) (tr : list (nat * list nat)) : option config :=
  match tr with
  | [] => Some c
  | (t, en) :: tr' =>
      if list_nat_eqb (enabled_set c) en && enabled c t
      then replay (settle (step c t)) tr' else None
  end.

Definition names (l : list file) : list nat := map fname l.

(* 0 = the model reproduces the observation; otherwise the first check that fails *)
Definition check_trace (N : nat) (files : list file) (tr : list (nat * list nat))
           (exp_raised : bool) (exp_failed : list nat) (exp_nput : nat) : nat :=
  match replay (settle (init N files)) tr with
  | None => 1
  | Some c =>
      if negb (final c) then 2
      else if negb (Bool.eqb (raised c) exp_raised) then 3
      else if negb (list_nat_eqb (names (failedl c)) exp_failed) then 4
      else if negb (nput c =? exp_nput) then 5
      else if negb (all_closed c && workers_done c) then 6
      else 0
  end.

(* ------------------------------------------------------------------ examples *)

Definition f_ok (n k : nat) : file := mkFile n (repeat false k) false false.
Definition f_bad_write (n : nat) : file := mkFile n [false; true; false] false false.
Definition f_bad_close (n : nat) : file := mkFile n [false; false] true false.

(* a fair round robin over the producer and N workers *)
Fixpoint round_robin (N rounds : nat) : list nat :=
  match rounds with 0 => [] | S r => seq 0 (S N) ++ round_robin N r end.

Definition summary (c : config) :=
  (final c, raised c, workers_done c, all_closed c, names (copied c), names (failedl c)).

Example ex_two_workers_three_files :
  summary (run (round_robin 2 40) (init 2 [f_ok 1 2; f_ok 2 0; f_ok 3 4]))
  = (true, false, true, true, [3; 2; 1], []).
Proof. vm_compute. reflexivity. Qed.

(* the producer first: it blocks on the full queue, the picks are skipped *)
Example ex_producer_first :
  summary (run (repeat 0 10 ++ repeat 1 30 ++ repeat 0 10 ++ repeat 1 10 ++ repeat 0 10 ++ repeat 2 5 ++ repeat 0 10)
               (init 2 [f_ok 1 2; f_ok 2 0; f_ok 3 1]))
  = (true, false, true, true, [3; 2; 1], []).
Proof. vm_compute. reflexivity. Qed.

(* a write fault in the last task: both files of that task are still closed, it raises *)
Example ex_fault_in_last_task :
  summary (run (round_robin 2 40) (init 2 [f_ok 1 2; f_ok 2 0; f_bad_write 3]))
  = (true, true, true, true, [2; 1], [3]).
Proof. vm_compute. reflexivity. Qed.

Example ex_close_fault_one_worker :
  summary (run (round_robin 1 40) (init 1 [f_bad_close 7; f_ok 8 1]))
  = (true, true, true, true, [8], [7]).
Proof. vm_compute. reflexivity. Qed.

(* N = 0: sequential, the first failure stops the copy *)
Example ex_sequential :
  summary (run (repeat 0 40) (init 0 [f_ok 1 2; f_ok 2 0; f_ok 3 4]))
  = (true, false, true, true, [3; 2; 1], []).
Proof. vm_compute. reflexivity. Qed.

Example ex_sequential_fault :
  let c := run (repeat 0 40) (init 0 [f_ok 1 2; f_bad_write 2; f_ok 3 4]) in
  (summary c, names (skipped c)) = ((true, true, true, true, [1], [2]), [3]).
Proof. vm_compute. reflexivity. Qed.

(* workers only, never the producer: nothing happens, nobody is final, worker 0 is not
   enabled (empty queue) but the producer is *)
Example ex_not_final :
  let c := run [1; 2; 1; 2] (init 2 [f_ok 1 1]) in
  (final c, enabled c 0, enabled c 1) = (false, true, false).
Proof. vm_compute. reflexivity. Qed.

(* an unfair prefix does not matter: empty tree, 4 workers *)
Example ex_empty_tree :
  summary (run (repeat 0 6 ++ [4; 4; 3; 3; 2; 2; 1; 1] ++ repeat 0 8) (init 4 []))
  = (true, false, true, true, [], []).
Proof. vm_compute. reflexivity. Qed.
