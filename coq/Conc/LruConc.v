(* C08 -- fs/lrucache.py under concurrent use.

   Shared state G: the cache of Glob/LRU.v (association list, oldest first).
   A thread executes a list of calls (`cache[k] = v` / `cache[k]`); its local state keeps
   the results of the Python lines it has executed and the log of what its calls returned.

   UNLOCKED code (fs/lrucache.py before commit c46bb4e), one atomic step per Python line:

     def __setitem__(self, key, value):
         if key not in self:                        u_set_contains
             if len(self) >= self.cache_size:       u_set_len
                 self.popitem(last=False)           u_set_pop
         OrderedDict.__setitem__(self, key, value)  u_set_insert

     def __getitem__(self, key):
         value = _super.__getitem__(key)            u_get_read      (KeyError when absent)
         _super.__delitem__(key)                    u_get_del       (KeyError when absent)
         _super.__setitem__(key, value)             u_get_reinsert
         return value

   The code of a thread is a straight line (Conc/Atomic.v), so a line that the control flow
   skips is a step that does nothing: whether it is skipped is decided by what the EARLIER
   lines stored in the local state (t_in, t_full, t_raised), never by the shared state at
   that moment -- exactly the stale knowledge that makes the race.

   LOCKED code (current /repo: both methods run under self._lock): ONE atomic step per call,
   lru_set / lru_get of Glob/LRU.v.  (popitem on an empty OrderedDict raises KeyError; with
   0 < cache_size that line is never reached on an empty cache by the locked code, and
   lru_set does not model cache_size = 0.)

   Stdlib only, no axioms. *)

From Coq Require Import List NArith Bool Arith Lia Permutation.
From PyFS Require Import Base.PyStr FS.Tree Glob.LRU Glob.GlobProofs Conc.Atomic Conc.AtomicProofs.
Import ListNotations.

(* ------------------------------------------------------------------ *)
(* generic: an invariant of the shared state kept by every remaining step of every thread
   holds after every schedule (complete or not) *)

Definition code_preserves {G L : Type} (Inv : G -> Prop) (code : list (action G L)) : Prop :=
  Forall (fun a => forall g l, Inv g -> Inv (fst (exec_action a g l))) code.

Lemma run_invariant : forall {G L : Type} (Inv : G -> Prop) (sched : list nat) (c : config G L),
    (forall i, code_preserves Inv (fst (snd c i))) ->
    Inv (fst c) ->
    Inv (fst (run sched c)).
Proof.
  intros G L Inv sched. induction sched as [|i s IH]; intros c Hcode Hinv.
  - exact Hinv.
  - rewrite run_cons. destruct (fst (snd c i)) as [|a k] eqn:E.
    + rewrite (step_nil i c E). apply IH; assumption.
    + rewrite (step_cons i c a k E). apply IH.
      * intros j. cbn [fst snd]. destruct (Nat.eq_dec j i) as [->|Hne].
        -- rewrite upd_same. cbn [fst]. pose proof (Hcode i) as X. rewrite E in X.
           exact (Forall_inv_tail X).
        -- rewrite upd_other by assumption. apply Hcode.
      * cbn [fst]. pose proof (Hcode i) as X. rewrite E in X.
        exact (Forall_inv X (fst c) (snd (snd c i)) Hinv).
Qed.

(* ------------------------------------------------------------------ *)
(* association-list facts not in Glob/GlobProofs.v *)

Lemma assoc_set_absent {A} k (v : A) (c : list (str * A)) :
  assoc k c = None -> assoc_set k v c = c ++ [(k, v)].
Proof.
  induction c as [|[k' v'] c IH]; cbn [assoc assoc_set app]; intro H; [reflexivity|].
  destruct (str_eqb k k'); [discriminate|]. rewrite IH by exact H. reflexivity.
Qed.

Section LruConc.
  Variable V : Type.

  Inductive call : Type :=
  | CSet (k : str) (v : V)        (* cache[k] = v *)
  | CGet (k : str).               (* cache[k] *)

  Inductive result : Type :=
  | RNone                         (* __setitem__ returned *)
  | RVal (v : V)                  (* __getitem__ returned v *)
  | RKeyError.                    (* the call raised KeyError *)

  (* what the executed lines of the current call left behind, and the results of the
     calls the thread has completed (oldest first) *)
  Record local : Type := {
    t_in : bool;                  (* `key not in self` was False *)
    t_full : bool;                (* `len(self) >= self.cache_size` was True *)
    t_val : option V;             (* value = _super.__getitem__(key) *)
    t_raised : bool;              (* the current call has raised: its other lines are skipped *)
    t_out : list result
  }.

  Definition local0 : local :=
    {| t_in := false; t_full := false; t_val := None; t_raised := false; t_out := [] |}.

  Definition fresh (l : local) : local :=
    {| t_in := false; t_full := false; t_val := None; t_raised := false; t_out := t_out l |}.

  Definition push (r : result) (l : local) : local :=
    {| t_in := t_in l; t_full := t_full l; t_val := t_val l; t_raised := t_raised l;
       t_out := t_out l ++ [r] |}.

  Definition raise (l : local) : local :=
    {| t_in := t_in l; t_full := t_full l; t_val := t_val l; t_raised := true;
       t_out := t_out l ++ [RKeyError] |}.

  Definition is_some {A} (o : option A) : bool := match o with Some _ => true | None => false end.

  Definition lact : Type := action (cache V) local.

  (* ---- the unlocked __setitem__, line by line *)

  (* if key not in self: *)
  Definition u_set_contains (k : str) : lact :=
    Atomic (fun g l =>
      (g, {| t_in := is_some (assoc k g); t_full := false; t_val := None; t_raised := false;
             t_out := t_out l |})).

  (* if len(self) >= self.cache_size:      (only when the key was not there) *)
  Definition u_set_len (size : nat) : lact :=
    Atomic (fun g l =>
      if t_in l then (g, l)
      else (g, {| t_in := t_in l; t_full := size <=? length g; t_val := t_val l;
                  t_raised := t_raised l; t_out := t_out l |})).

  (* self.popitem(last=False)              (only when both tests said so) *)
  Definition u_set_pop : lact :=
    Atomic (fun g l =>
      if negb (t_in l) && t_full l then
        match g with
        | [] => (g, raise l)                (* KeyError: 'dictionary is empty' *)
        | _ :: g' => (g', l)
        end
      else (g, l)).

  (* OrderedDict.__setitem__(self, key, value): in place when present, appended otherwise *)
  Definition u_set_insert (k : str) (v : V) : lact :=
    Atomic (fun g l => if t_raised l then (g, l) else (assoc_set k v g, push RNone l)).

  (* ---- the unlocked __getitem__, line by line *)

  Definition u_get_read (k : str) : lact :=
    Atomic (fun g l =>
      match assoc k g with
      | Some v => (g, {| t_in := true; t_full := false; t_val := Some v; t_raised := false;
                         t_out := t_out l |})
      | None => (g, raise (fresh l))
      end).

  Definition u_get_del (k : str) : lact :=
    Atomic (fun g l =>
      if t_raised l then (g, l)
      else match assoc k g with
           | Some _ => (assoc_del k g, l)
           | None => (g, raise l)          (* another thread deleted it meanwhile *)
           end).

  Definition u_get_reinsert (k : str) : lact :=
    Atomic (fun g l =>
      if t_raised l then (g, l)
      else match t_val l with
           | Some v => (assoc_set k v g, push (RVal v) l)
           | None => (g, l)
           end).

  Definition unlocked_code (size : nat) (c : call) : list lact :=
    match c with
    | CSet k v => [u_set_contains k; u_set_len size; u_set_pop; u_set_insert k v]
    | CGet k => [u_get_read k; u_get_del k; u_get_reinsert k]
    end.

  (* ---- the locked methods: one atomic block each *)

  Definition apply_call (size : nat) (g : cache V) (c : call) : cache V * result :=
    match c with
    | CSet k v => (lru_set size g k v, RNone)
    | CGet k => match lru_get g k with
                | Some (v, g') => (g', RVal v)
                | None => (g, RKeyError)
                end
    end.

  Definition locked_body (size : nat) (c : call) (g : cache V) (l : local) : cache V * local :=
    (fst (apply_call size g c), push (snd (apply_call size g c)) l).

  Definition locked_action (size : nat) (c : call) : lact := Atomic (locked_body size c).

  (* ---- thread pools: thread i executes the calls progs[i] one after the other *)

  Definition prog_of (progs : list (list call)) (i : nat) : list call :=
    match nth_error progs i with Some p => p | None => [] end.

  Definition unlocked_pool (size : nat) (progs : list (list call)) : pool (cache V) local :=
    fun i => (flat_map (unlocked_code size) (prog_of progs i), local0).

  Definition locked_pool (size : nat) (progs : list (list call)) : pool (cache V) local :=
    fun i => (map (locked_action size) (prog_of progs i), local0).

  (* one call per thread: thread i executes calls[i] *)
  Definition one_each (calls : list call) : list (list call) := map (fun c => [c]) calls.

  (* the state invariant of the class *)
  Definition lru_inv (size : nat) (g : cache V) : Prop :=
    length g <= size /\ NoDup (keys g).

  (* ------------------------------------------------------------------ *)
  (* run alone (no interleaving) the unlocked lines ARE lru_set / lru_get *)

  Lemma unlocked_set_alone : forall size k v g l,
      0 < size ->
      fst (complete (unlocked_code size (CSet k v)) g l) = lru_set size g k v /\
      t_out (snd (complete (unlocked_code size (CSet k v)) g l)) = t_out l ++ [RNone].
  Proof.
    intros size k v g l Hs. unfold lru_set.
    unfold unlocked_code, u_set_contains, u_set_len, u_set_pop, u_set_insert.
    cbn -[Nat.leb assoc assoc_set length].
    destruct (assoc k g) as [x|] eqn:E; cbn -[Nat.leb assoc assoc_set length].
    - split; reflexivity.
    - destruct (size <=? length g) eqn:El; cbn -[Nat.leb assoc assoc_set length].
      + destruct g as [|e g'].
        * apply Nat.leb_le in El. cbn [length] in El. lia.
        * cbn -[Nat.leb assoc assoc_set length].
          assert (En : assoc k g' = None).
          { destruct e as [k' v']. cbn [assoc] in E. destruct (str_eqb k k'); [discriminate|exact E]. }
          rewrite (assoc_set_absent k v g' En). split; reflexivity.
      + rewrite (assoc_set_absent k v g E). split; reflexivity.
  Qed.

  Lemma unlocked_get_alone : forall size k g l,
      NoDup (keys g) ->
      (fst (complete (unlocked_code size (CGet k)) g l),
       t_out (snd (complete (unlocked_code size (CGet k)) g l)))
      = (fst (apply_call size g (CGet k)), t_out l ++ [snd (apply_call size g (CGet k))]).
  Proof.
    intros size k g l Hd. unfold apply_call, lru_get.
    unfold unlocked_code, u_get_read, u_get_del, u_get_reinsert.
    cbn -[assoc assoc_set assoc_del].
    destruct (assoc k g) as [v|] eqn:E; cbn -[assoc assoc_set assoc_del].
    - rewrite E. cbn -[assoc assoc_set assoc_del].
      assert (En : assoc k (assoc_del k g) = None).
      { apply not_in_keys_assoc. apply assoc_del_not_in. exact Hd. }
      rewrite (assoc_set_absent k v _ En). reflexivity.
    - reflexivity.
  Qed.

  (* ------------------------------------------------------------------ *)
  (* every locked step keeps the invariant / never shrinks the cache *)

  Lemma apply_call_inv : forall size g c,
      0 < size -> lru_inv size g -> lru_inv size (fst (apply_call size g c)).
  Proof.
    intros size g c Hs [Hlen Hnd]. destruct c as [k v|k]; cbn [apply_call fst].
    - split; [apply lru_bound; assumption|apply lru_set_nodup; exact Hnd].
    - destruct (lru_get g k) as [[v g']|] eqn:E; cbn [fst].
      + split.
        * rewrite (lru_get_bound V g k v g' E). exact Hlen.
        * exact (lru_get_nodup V g k v g' Hnd E).
      + split; assumption.
  Qed.

  Lemma lru_set_never_shrinks : forall size (g : cache V) k v,
      length g <= length (lru_set size g k v).
  Proof.
    intros size g k v. unfold lru_set. destruct (assoc k g) eqn:E.
    - rewrite assoc_set_length by congruence. lia.
    - rewrite app_length. cbn [length]. destruct (size <=? length g).
      + destruct g; cbn [tl length]; lia.
      + lia.
  Qed.

  (* popitem removes one entry, the insert adds one: a new key in an over-full cache leaves
     it exactly as over-full as it was (an existing key changes nothing either) *)
  Lemma lru_set_over_stays : forall size (g : cache V) k v,
      size < length g -> length (lru_set size g k v) = length g.
  Proof.
    intros size g k v H. unfold lru_set. destruct (assoc k g) eqn:E.
    - rewrite assoc_set_length by congruence. reflexivity.
    - rewrite app_length. cbn [length]. destruct (size <=? length g) eqn:El.
      + destruct g; cbn [tl length] in *; lia.
      + apply Nat.leb_gt in El. lia.
  Qed.

  Lemma apply_call_never_shrinks : forall size g c,
      length g <= length (fst (apply_call size g c)).
  Proof.
    intros size g c. destruct c as [k v|k]; cbn [apply_call fst].
    - apply lru_set_never_shrinks.
    - destruct (lru_get g k) as [[v g']|] eqn:E; cbn [fst].
      + rewrite (lru_get_bound V g k v g' E). lia.
      + lia.
  Qed.

  Lemma apply_call_over_stays : forall size g c,
      size < length g -> length (fst (apply_call size g c)) = length g.
  Proof.
    intros size g c H. destruct c as [k v|k]; cbn [apply_call fst].
    - apply lru_set_over_stays. exact H.
    - destruct (lru_get g k) as [[v g']|] eqn:E; cbn [fst].
      + exact (lru_get_bound V g k v g' E).
      + reflexivity.
  Qed.

  Lemma locked_code_preserves : forall (Inv : cache V -> Prop) size (p : list call),
      (forall g c, Inv g -> Inv (fst (apply_call size g c))) ->
      code_preserves Inv (map (locked_action size) p).
  Proof.
    intros Inv size p H. unfold code_preserves. apply Forall_forall.
    intros a Ha. apply in_map_iff in Ha. destruct Ha as [c [<- _]].
    intros g l Hg. cbn [locked_action exec_action locked_body fst]. apply H. exact Hg.
  Qed.

  (* ---- (c) the bound, for every number of threads, every program, every schedule *)

  Theorem lru_locked_bound :
    forall (size : nat) (progs : list (list call)) (c0 : cache V) (sched : list nat),
      0 < size -> length c0 <= size -> NoDup (keys c0) ->
      length (fst (run sched (c0, locked_pool size progs))) <= size /\
      NoDup (keys (fst (run sched (c0, locked_pool size progs)))).
  Proof.
    intros size progs c0 sched Hs Hlen Hnd.
    apply (run_invariant (lru_inv size) sched (c0, locked_pool size progs)).
    - intros i. cbn [snd fst locked_pool]. apply locked_code_preserves.
      intros g c Hg. apply apply_call_inv; assumption.
    - split; assumption.
  Qed.

  (* ---- (b, second half) once over capacity, over capacity for good: the locked methods
     never shrink the cache, and keep an over-full cache at exactly its length *)

  Theorem lru_locked_never_shrinks :
    forall (size : nat) (progs : list (list call)) (c0 : cache V) (sched : list nat),
      length c0 <= length (fst (run sched (c0, locked_pool size progs))).
  Proof.
    intros size progs c0 sched.
    apply (run_invariant (fun g => length c0 <= length g) sched (c0, locked_pool size progs)).
    - intros i. cbn [snd fst locked_pool]. apply locked_code_preserves.
      intros g c Hg. eapply Nat.le_trans; [exact Hg|apply apply_call_never_shrinks].
    - cbn [fst]. lia.
  Qed.

  Theorem lru_over_capacity_stays :
    forall (size : nat) (progs : list (list call)) (c0 : cache V) (sched : list nat),
      size < length c0 ->
      length (fst (run sched (c0, locked_pool size progs))) = length c0.
  Proof.
    intros size progs c0 sched H.
    apply (run_invariant (fun g => length g = length c0) sched (c0, locked_pool size progs)).
    - intros i. cbn [snd fst locked_pool]. apply locked_code_preserves.
      intros g c Hg. rewrite apply_call_over_stays; [exact Hg|]. rewrite Hg. exact H.
    - reflexivity.
  Qed.

  (* ---- (d) linearizability of the locked methods: one call per thread, any number of
     threads, every complete schedule *)

  Lemma prog_of_one_each : forall calls i,
      prog_of (one_each calls) i = match nth_error calls i with Some c => [c] | None => [] end.
  Proof.
    intros calls i. unfold prog_of, one_each.
    destruct (nth_error calls i) as [c|] eqn:E.
    - rewrite (map_nth_error (fun c => [c]) i calls E). reflexivity.
    - apply nth_error_None in E.
      assert (E' : nth_error (map (fun c : call => [c]) calls) i = None).
      { apply nth_error_None. rewrite map_length. exact E. }
      rewrite E'. reflexivity.
  Qed.

  Theorem lru_locked_linearizable :
    forall (size : nat) (calls : list call) (c0 : cache V) (sched : list nat),
      finished (snd (run sched (c0, locked_pool size (one_each calls)))) ->
      exists order : list nat,
        Permutation order (seq 0 (length calls)) /\
        fst (seq_run order (c0, locked_pool size (one_each calls)))
          = fst (run sched (c0, locked_pool size (one_each calls))) /\
        (forall i, snd (seq_run order (c0, locked_pool size (one_each calls))) i
                   = snd (run sched (c0, locked_pool size (one_each calls))) i).
  Proof.
    intros size calls c0 sched Hfin.
    apply (atomic_linearizable_exists (length calls) c0 (locked_pool size (one_each calls)) sched).
    - intros i Hi. cbn [locked_pool fst]. rewrite prog_of_one_each.
      destruct (nth_error calls i) as [c|] eqn:E.
      + reflexivity.
      + apply nth_error_None in E. lia.
    - intros i Hi. cbn [locked_pool fst]. rewrite prog_of_one_each.
      destruct (nth_error calls i) as [c|] eqn:E.
      + assert (X : nth_error calls i <> None) by congruence.
        apply nth_error_Some in X. lia.
      + reflexivity.
    - exact Hfin.
  Qed.

  (* what a sequential order of the calls means, without the thread machinery: the calls
     order[0], order[1], ... applied one after the other with lru_set / lru_get *)
  Fixpoint seq_calls (size : nat) (calls : list call) (order : list nat) (g : cache V)
    : cache V * list (nat * result) :=
    match order with
    | [] => (g, [])
    | i :: o =>
        match nth_error calls i with
        | Some c =>
            let r := apply_call size g c in
            let rest := seq_calls size calls o (fst r) in
            (fst rest, (i, snd r) :: snd rest)
        | None => seq_calls size calls o g
        end
    end.

  Lemma seq_run_seq_calls : forall size calls order g (p : pool (cache V) local),
      NoDup order ->
      (forall i, In i order ->
                 p i = (map (locked_action size)
                            (match nth_error calls i with Some c => [c] | None => [] end), local0)) ->
      fst (seq_run order (g, p)) = fst (seq_calls size calls order g) /\
      forall i r, In (i, r) (snd (seq_calls size calls order g)) ->
                  t_out (snd (snd (seq_run order (g, p)) i)) = [r].
  Proof.
    intros size calls order. induction order as [|i o IH]; intros g p Hnd Hp.
    - cbn [seq_run fold_left seq_calls fst snd]. split; [reflexivity|intros i r []].
    - inversion Hnd as [|? ? Hni Hnd']; subst. rewrite seq_run_cons.
      pose proof (Hp i (or_introl eq_refl)) as Hpi.
      assert (Hpo : forall l' j, In j o ->
                 upd p i ([], l') j
                 = (map (locked_action size)
                        (match nth_error calls j with Some c => [c] | None => [] end), local0)).
      { intros l' j Hj. rewrite upd_other.
        - apply Hp. right. exact Hj.
        - intros ->. exact (Hni Hj). }
      cbn [seq_calls]. destruct (nth_error calls i) as [c|] eqn:E.
      + assert (Es : seq_step i (g, p)
                     = (fst (apply_call size g c),
                        upd p i ([], push (snd (apply_call size g c)) local0))).
        { unfold seq_step. cbn [fst snd]. rewrite Hpi. reflexivity. }
        rewrite Es. destruct (IH (fst (apply_call size g c)) _ Hnd'
                    (Hpo (push (snd (apply_call size g c)) local0))) as [A B].
        cbn [fst snd]. split; [exact A|].
        intros j r [Heq|Hin].
        * inversion Heq; subst. rewrite (seq_run_untouched o _ j Hni). cbn [snd].
          rewrite upd_same. reflexivity.
        * apply B. exact Hin.
      + assert (Es : seq_step i (g, p) = (g, upd p i ([], local0))).
        { unfold seq_step. cbn [fst snd]. rewrite Hpi. reflexivity. }
        rewrite Es. exact (IH g _ Hnd' (Hpo local0)).
  Qed.

  (* (d) spelled out: the cache a complete run ends with, and the value every thread got, are
     those of the calls applied one at a time (lru_set / lru_get) in some order *)
  Theorem lru_locked_linearizable_spec :
    forall (size : nat) (calls : list call) (c0 : cache V) (sched : list nat),
      finished (snd (run sched (c0, locked_pool size (one_each calls)))) ->
      exists order : list nat,
        Permutation order (seq 0 (length calls)) /\
        fst (run sched (c0, locked_pool size (one_each calls)))
          = fst (seq_calls size calls order c0) /\
        map fst (snd (seq_calls size calls order c0)) = order /\
        (forall i r, In (i, r) (snd (seq_calls size calls order c0)) ->
                     t_out (snd (snd (run sched (c0, locked_pool size (one_each calls))) i)) = [r]).
  Proof.
    intros size calls c0 sched Hfin.
    destruct (lru_locked_linearizable size calls c0 sched Hfin) as [order [P [A B]]].
    exists order.
    assert (Hnd : NoDup order).
    { apply (Permutation_NoDup (Permutation_sym P)). apply seq_NoDup. }
    destruct (seq_run_seq_calls size calls order c0 (locked_pool size (one_each calls)) Hnd)
      as [C D].
    { intros i _. unfold locked_pool. rewrite prog_of_one_each. reflexivity. }
    split; [exact P|]. split; [rewrite <- A; exact C|]. split.
    - assert (Hall : forall i, In i order -> nth_error calls i <> None).
      { intros i Hi. apply nth_error_Some.
        apply (Permutation_in _ P) in Hi. apply in_seq in Hi. lia. }
      clear -Hall. revert c0. induction order as [|i o IH]; intros c0; [reflexivity|].
      cbn [seq_calls]. destruct (nth_error calls i) as [c|] eqn:E.
      + cbn [snd map fst]. f_equal. apply IH. intros j Hj. apply Hall. right. exact Hj.
      + exfalso. apply (Hall i (or_introl eq_refl)). exact E.
    - intros i r Hin. rewrite <- (B i). apply D. exact Hin.
  Qed.
End LruConc.

Arguments CSet {V} k v.
Arguments CGet {V} k.
Arguments RNone {V}.
Arguments RVal {V} v.
Arguments RKeyError {V}.
Arguments local0 {V}.
Arguments t_in {V} l.
Arguments t_full {V} l.
Arguments t_val {V} l.
Arguments t_raised {V} l.
Arguments t_out {V} l.
Arguments unlocked_code {V} size c.
Arguments apply_call {V} size g c.
Arguments locked_action {V} size c.
Arguments unlocked_pool {V} size progs.
Arguments locked_pool {V} size progs.
Arguments one_each {V} calls.
Arguments lru_inv {V} size g.
Arguments seq_calls {V} size calls order g.

(* ------------------------------------------------------------------ *)
(* (b) the unlocked code goes over capacity: concrete runs, V = N *)

Local Open Scope N_scope.

Definition ka : str := [97].
Definition kb : str := [98].
Definition kc : str := [99].
Definition kd : str := [100].

(* two threads, each stores one new key *)
Definition race_progs : list (list (call N)) := [[CSet kc 3]; [CSet kd 4]].

(* thread 1 runs up to and including its popitem line, thread 0 runs its whole call,
   thread 1 inserts *)
Definition race_sched : list nat := [1; 1; 1; 0; 0; 0; 0; 1]%nat.

Definition full2 : cache N := [(ka, 1); (kb, 2)].        (* cache_size entries *)
Definition below2 : cache N := [(ka, 1)].                (* cache_size - 1 entries *)

(* observable outcome of a run: the cache and what each of the two threads returned *)
Definition outcome2 (c : config (cache N) (local N)) : cache N * list (result N) * list (result N) :=
  (fst c, t_out (snd (snd c 0%nat)), t_out (snd (snd c 1%nat))).

Theorem lru_unlocked_over_capacity :
  (* a full cache: thread 1 evicts, thread 0 sees room, both insert *)
  (length full2 <= 2)%nat /\ NoDup (keys full2) /\
  finished (snd (run race_sched (full2, unlocked_pool 2 race_progs))) /\
  outcome2 (run race_sched (full2, unlocked_pool 2 race_progs))
    = ([(kb, 2); (kc, 3); (kd, 4)], [RNone], [RNone]) /\
  length (fst (run race_sched (full2, unlocked_pool 2 race_progs))) = (2 + 1)%nat /\
  (* one entry below capacity: both threads see room, both insert *)
  (length below2 <= 2)%nat /\ NoDup (keys below2) /\
  finished (snd (run race_sched (below2, unlocked_pool 2 race_progs))) /\
  outcome2 (run race_sched (below2, unlocked_pool 2 race_progs))
    = ([(ka, 1); (kc, 3); (kd, 4)], [RNone], [RNone]) /\
  length (fst (run race_sched (below2, unlocked_pool 2 race_progs))) = (2 + 1)%nat.
Proof.
  assert (Hf : forall c0, finished (snd (run race_sched (c0, unlocked_pool 2 race_progs)))).
  { intros c0 i. destruct i as [|[|i]]; [reflexivity|reflexivity|].
    cbn. destruct i; reflexivity. }
  split; [cbn; lia|]. split.
  { cbn. repeat constructor; cbn; intuition discriminate. }
  split; [apply Hf|]. split; [vm_compute; reflexivity|]. split; [vm_compute; reflexivity|].
  split; [cbn; lia|]. split.
  { cbn. repeat constructor; cbn; intuition discriminate. }
  split; [apply Hf|]. split; [vm_compute; reflexivity|]. vm_compute; reflexivity.
Qed.

(* the `exists schedule` shape *)
Corollary lru_unlocked_bound_refuted :
  exists (size : nat) (progs : list (list (call N))) (c0 : cache N) (sched : list nat),
    (0 < size)%nat /\ (length c0 <= size)%nat /\ NoDup (keys c0) /\
    finished (snd (run sched (c0, unlocked_pool size progs))) /\
    length (fst (run sched (c0, unlocked_pool size progs))) = (size + 1)%nat.
Proof.
  exists 2%nat, race_progs, full2, race_sched.
  destruct lru_unlocked_over_capacity as [H1 [H2 [H3 [_ [H5 _]]]]].
  split; [lia|]. split; [exact H1|]. split; [exact H2|]. split; [exact H3|exact H5].
Qed.

(* no sequential order of the two calls gives that outcome: the unlocked methods are not
   linearizable *)
Theorem lru_unlocked_not_linearizable :
  forall order, Permutation [0; 1]%nat order ->
    outcome2 (seq_run order (full2, unlocked_pool 2 race_progs))
      <> outcome2 (run race_sched (full2, unlocked_pool 2 race_progs)) /\
    length (fst (seq_run order (full2, unlocked_pool 2 race_progs))) = 2%nat.
Proof.
  intros order Hp. apply Permutation_length_2_inv in Hp.
  destruct Hp as [->| ->]; (split; [vm_compute; discriminate|vm_compute; reflexivity]).
Qed.

(* and the damage is permanent: whatever the (now locked) methods are asked to do next, by
   any number of threads under any schedule, the cache keeps its cache_size + 1 entries *)
Corollary lru_over_capacity_for_good :
  forall (progs : list (list (call N))) (sched : list nat),
    length (fst (run sched (fst (run race_sched (full2, unlocked_pool 2 race_progs)),
                            locked_pool 2 progs))) = 3%nat.
Proof.
  intros progs sched.
  rewrite (lru_over_capacity_stays N 2 progs); [vm_compute; reflexivity|vm_compute; lia].
Qed.

(* the same schedule on the locked code: each call is one step, so the first pick of a
   thread does the whole call (thread 1 first: a and b are evicted in turn) and the later
   picks are skipped *)
Example lru_locked_same_schedule :
  outcome2 (run race_sched (full2, locked_pool 2 race_progs))
    = ([(kd, 4); (kc, 3)], [RNone], [RNone]).
Proof. vm_compute. reflexivity. Qed.

(* ------------------------------------------------------------------ *)
(* (e) non-vacuity: eviction happens and a hit reorders *)

(* thread 0: cache[a] (hit: a becomes the most recent), then cache[c] = 3 (evicts b);
   thread 1: cache[b] (hit), then cache[d] (KeyError) *)
Definition demo_progs : list (list (call N)) := [[CGet ka; CSet kc 3]; [CGet kb; CGet kd]].

(* thread 0 hits a: order becomes b, a *)
Example lru_demo_hit_reorders :
  fst (run [0]%nat (full2, locked_pool 2 demo_progs)) = [(kb, 2); (ka, 1)].
Proof. vm_compute. reflexivity. Qed.

(* then thread 1 hits b (order a, b), thread 0 stores c and evicts the oldest = a,
   thread 1 misses d *)
Example lru_demo_eviction :
  outcome2 (run [0; 1; 0; 1]%nat (full2, locked_pool 2 demo_progs))
    = ([(kb, 2); (kc, 3)], [RVal 1; RNone], [RVal 2; RKeyError]).
Proof. vm_compute. reflexivity. Qed.

(* another schedule, another (equally legal) outcome: b is evicted before thread 1 asks *)
Example lru_demo_other_schedule :
  outcome2 (run [0; 0; 1; 1]%nat (full2, locked_pool 2 demo_progs))
    = ([(ka, 1); (kc, 3)], [RVal 1; RNone], [RKeyError; RKeyError]).
Proof. vm_compute. reflexivity. Qed.

(* the bound theorem speaks about these runs *)
Example lru_demo_bound :
  (length (fst (run [0; 1; 0; 1]%nat (full2, locked_pool 2 demo_progs))) <= 2)%nat /\
  NoDup (keys (fst (run [0; 1; 0; 1]%nat (full2, locked_pool 2 demo_progs)))).
Proof.
  apply lru_locked_bound; [lia|cbn; lia|].
  cbn. repeat constructor; cbn; intuition discriminate.
Qed.

(* the linearizability theorem on a concrete one-call-per-thread run: the hypothesis holds *)
Example lru_demo_linearizable_applies :
  finished (snd (run [1; 0]%nat (full2, locked_pool 2 (one_each [CSet kc 3; CGet ka])))) /\
  outcome2 (run [1; 0]%nat (full2, locked_pool 2 (one_each [CSet kc 3; CGet ka])))
    = ([(ka, 1); (kc, 3)], [RNone], [RVal 1]).
Proof.
  split; [|vm_compute; reflexivity].
  intros i. destruct i as [|[|i]]; [reflexivity|reflexivity|]. cbn. destruct i; reflexivity.
Qed.

(* the unlocked lines run alone are the model: concrete instance *)
Example lru_demo_unlocked_alone :
  fst (complete (unlocked_code 2 (CSet kc 3)) full2 local0) = lru_set 2 full2 kc 3 /\
  fst (complete (unlocked_code 2 (CGet ka)) full2 local0) = [(kb, 2); (ka, 1)].
Proof. split; vm_compute; reflexivity. Qed.

(* the sequential reading of lru_locked_linearizable_spec on that run: thread 1's get first
   (a becomes the most recent), then thread 0's set evicts b *)
Example lru_demo_seq_calls :
  seq_calls 2 [CSet kc 3; CGet ka] [1; 0]%nat full2
    = ([(ka, 1); (kc, 3)], [(1%nat, RVal 1); (0%nat, RNone)]).
Proof. vm_compute. reflexivity. Qed.

Print Assumptions run_invariant.
Print Assumptions unlocked_set_alone.
Print Assumptions unlocked_get_alone.
Print Assumptions lru_locked_bound.
Print Assumptions lru_locked_never_shrinks.
Print Assumptions lru_over_capacity_stays.
Print Assumptions lru_locked_linearizable.
Print Assumptions lru_locked_linearizable_spec.
Print Assumptions lru_unlocked_over_capacity.
Print Assumptions lru_unlocked_bound_refuted.
Print Assumptions lru_unlocked_not_linearizable.
Print Assumptions lru_over_capacity_for_good.
Print Assumptions lru_locked_same_schedule.
Print Assumptions lru_demo_hit_reorders.
Print Assumptions lru_demo_eviction.
Print Assumptions lru_demo_other_schedule.
Print Assumptions lru_demo_bound.
Print Assumptions lru_demo_linearizable_applies.
Print Assumptions lru_demo_unlocked_alone.
Print Assumptions lru_demo_seq_calls.
