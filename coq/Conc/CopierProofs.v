(* C09 -- proofs about the Copier transition system (Conc/Copier.v).

   Main results (all for every N, every file list with any set of faulty steps, and EVERY
   schedule):
     copier_counts    (T1)  queue bound and put/sentinel bookkeeping
     copier_exit      (T2)  producer returned -> workers done, handles closed,
                            raised <-> some transfer failed, no fault -> copied = files
     copier_progress  (T3)  no reachable non-final configuration is a deadlock *)
From Coq Require Import List Arith Bool Lia Permutation.
From PyFS Require Import Conc.Copier.
Import ListNotations.

(* ------------------------------------------------------------------ generic lemmas *)

Lemma length_upd : forall A i (x : A) l, length (upd i x l) = length l.
Proof. intros A i x l; revert i; induction l; destruct i; simpl; auto. Qed.

Lemma nth_error_upd_eq : forall A i (x w : A) l,
  nth_error l i = Some w -> nth_error (upd i x l) i = Some x.
Proof.
  intros A i x w l; revert i; induction l; destruct i; simpl; intros; try discriminate; auto.
Qed.

Lemma nth_error_upd_neq : forall A i j (x : A) l,
  i <> j -> nth_error (upd i x l) j = nth_error l j.
Proof.
  intros A i j x l; revert i j; induction l; destruct i, j; simpl; intros; auto; try lia.
Qed.

Lemma Forall_upd : forall A (P : A -> Prop) i x l, Forall P l -> P x -> Forall P (upd i x l).
Proof.
  intros A P i x l; revert i; induction l; destruct i; simpl; intros H Hx; auto;
    inversion H; subst; constructor; auto.
Qed.

Lemma Forall_nth_error : forall A (P : A -> Prop) l i w,
  Forall P l -> nth_error l i = Some w -> P w.
Proof.
  intros A P l; induction l; destruct i; simpl; intros w H E; try discriminate;
    inversion H; subst; eauto. inversion E; subst; auto.
Qed.

Definition sumf {A} (g : A -> nat) (l : list A) : nat := list_sum (map g l).

Lemma sumf_app : forall A (g : A -> nat) l1 l2, sumf g (l1 ++ l2) = sumf g l1 + sumf g l2.
Proof. intros; unfold sumf; rewrite map_app, list_sum_app; auto. Qed.

Lemma sumf_upd : forall A (g : A -> nat) l i w w',
  nth_error l i = Some w -> sumf g (upd i w' l) + g w = sumf g l + g w'.
Proof.
  intros A g l; induction l; destruct i; simpl; intros w w' E; try discriminate.
  - inversion E; subst. unfold sumf; simpl; lia.
  - specialize (IHl _ _ w' E). unfold sumf in *; simpl; lia.
Qed.

Lemma sumf_bound : forall A (g : A -> nat) l, (forall x, g x <= 1) -> sumf g l <= length l.
Proof.
  intros A g l H; induction l; unfold sumf in *; simpl; auto. specialize (H a); lia.
Qed.

Lemma sumf_full : forall A (g : A -> nat) l,
  (forall x, g x <= 1) -> sumf g l = length l -> forall i w, nth_error l i = Some w -> g w = 1.
Proof.
  intros A g l H; induction l; intros E i w Hn; destruct i; simpl in *; try discriminate.
  - inversion Hn; subst. pose proof (sumf_bound _ g l H). unfold sumf in *; simpl in *.
    specialize (H w); lia.
  - apply IHl with i; auto. pose proof (sumf_bound _ g l H). unfold sumf in *; simpl in *.
    specialize (H a); lia.
Qed.

Lemma sumf_all : forall A (g : A -> nat) l,
  (forall i w, nth_error l i = Some w -> g w = 1) -> sumf g l = length l.
Proof.
  intros A g l; induction l; intros H; unfold sumf in *; simpl; auto.
  rewrite (H 0 a eq_refl). simpl. f_equal. apply IHl. intros i w E. apply (H (S i)); auto.
Qed.

Lemma sumf_zero : forall A (g : A -> nat) l i w,
  sumf g l = 0 -> nth_error l i = Some w -> g w = 0.
Proof.
  intros A g l; induction l; destruct i; simpl; intros w S0 E; try discriminate;
    unfold sumf in *; simpl in *.
  - inversion E; subst; lia.
  - apply IHl with i; auto; lia.
Qed.

Lemma sumf_pos : forall A (g : A -> nat) l i w,
  nth_error l i = Some w -> g w <= sumf g l.
Proof.
  intros A g l; induction l; destruct i; simpl; intros w E; try discriminate;
    unfold sumf in *; simpl in *.
  - inversion E; subst; lia.
  - specialize (IHl _ _ E); lia.
Qed.

Lemma sumf_cons : forall A (g : A -> nat) x l, sumf g (x :: l) = g x + sumf g l.
Proof. reflexivity. Qed.

Lemma sumf_nil : forall A (g : A -> nat), sumf g [] = 0.
Proof. reflexivity. Qed.

Arguments sumf : simpl never.

(* ------------------------------------------------------------------ measures *)

Definition busy (w : wstate) : nat :=
  match w with WRun _ | WTaskDone | WSentinel => 1 | _ => 0 end.
Definition gotsent (w : wstate) : nat :=
  match w with WSentinel | WStopped => 1 | _ => 0 end.
Definition stopped1 (w : wstate) : nat := match w with WStopped => 1 | _ => 0 end.
Definition i_sent (it : item) : nat := match it with Sentinel => 1 | _ => 0 end.

Definition sent_put (N : nat) (p : pstate) : nat :=
  match p with
  | PSentinels k => N - k
  | PJoins _ | PQJoin | PReturned _ => N
  | _ => 0
  end.

Definition joined (N : nat) (p : pstate) : nat :=
  match p with
  | PJoins k => N - k
  | PQJoin | PReturned _ => N
  | _ => 0
  end.

Definition p_wf (N : nat) (p : pstate) : Prop :=
  match p with PSentinels k | PJoins k => k <= N | _ => True end.

Definition phase0 (p : pstate) : Prop :=     (* N = 0: no queue operation ever *)
  match p with POpenSrc _ | POpenDst _ _ | PInline _ _ | PReturned _ => True | _ => False end.

Definition phase1 (p : pstate) : Prop :=     (* N >= 1: never inline *)
  match p with PInline _ _ => False | _ => True end.

Definition t_file (t : tstate) : file :=
  match t with TData f _ | TCloseSrc f _ | TCloseDst f _ => f end.

Definition p_files (p : pstate) : list file :=
  match p with
  | POpenSrc todo => todo
  | POpenDst f todo | PPut f todo => f :: todo
  | PInline t todo => t_file t :: todo
  | _ => []
  end.

Fixpoint all_sent (q : list item) : bool :=
  match q with [] => true | Sentinel :: q' => all_sent q' | Task _ :: _ => false end.

Fixpoint sorted_q (q : list item) : bool :=
  match q with
  | [] => true
  | Task _ :: q' => sorted_q q'
  | Sentinel :: q' => all_sent q'
  end.

Lemma all_sent_sorted : forall q, all_sent q = true -> sorted_q q = true.
Proof. induction q as [|[f|] q]; simpl; auto; discriminate. Qed.

Lemma all_sent_app : forall q, all_sent q = true -> all_sent (q ++ [Sentinel]) = true.
Proof. induction q as [|[f|] q]; simpl; auto. Qed.

Lemma sorted_app_sent : forall q, sorted_q q = true -> sorted_q (q ++ [Sentinel]) = true.
Proof. induction q as [|[f|] q]; simpl; auto. apply all_sent_app. Qed.

Lemma sorted_app_task : forall q f, sumf i_sent q = 0 -> sorted_q (q ++ [Task f]) = true.
Proof.
  induction q as [|[g|] q]; simpl; intros f H.
  - auto.
  - apply IHq. unfold sumf in *; simpl in *; lia.
  - unfold sumf in H; simpl in H; lia.
Qed.

Lemma all_sent_count : forall q, all_sent q = true -> sumf i_sent q = length q.
Proof.
  induction q as [|[g|] q]; simpl; intros H; auto; try discriminate.
  unfold sumf in *; simpl; rewrite IHq; auto.
Qed.

(* ------------------------------------------------------------------ invariant A: counting *)

Record invA (files : list file) (c : config) : Prop := {
  a_len : length (ws c) = cN c;
  a_ph0 : cN c = 0 -> phase0 (prod c);
  a_ph1 : 1 <= cN c -> phase1 (prod c);
  a_pwf : p_wf (cN c) (prod c);
  a_qlen : length (queue c) <= cN c;
  a_unf : unfinished c = length (queue c) + sumf busy (ws c);
  a_sent : sent_put (cN c) (prod c) = sumf i_sent (queue c) + sumf gotsent (ws c);
  a_sorted : sorted_q (queue c) = true;
  a_allsent : 0 < sumf gotsent (ws c) -> all_sent (queue c) = true;
  a_joined : forall i, i < joined (cN c) (prod c) -> nth_error (ws c) i = Some WStopped;
  a_ret : forall b, prod c = PReturned b -> b = negb (isnil (failedl c));
  a_nput : 1 <= cN c ->
           nput c + length (p_files (prod c)) = length files + sent_put (cN c) (prod c);
  a_skip : 1 <= cN c -> skipped c = []
}.

Lemma nth_error_repeat : forall A (x : A) n i w, nth_error (repeat x n) i = Some w -> w = x.
Proof.
  intros A x n; induction n; destruct i; simpl; intros w E; try discriminate.
  - inversion E; auto.
  - eauto.
Qed.

Lemma sumf_repeat0 : forall A (g : A -> nat) x n, g x = 0 -> sumf g (repeat x n) = 0.
Proof. intros A g x n H; induction n; unfold sumf in *; simpl; auto. rewrite H; auto. Qed.

Lemma invA_init : forall N files, invA files (init N files).
Proof.
  intros N files; constructor; simpl; intros; auto; try lia; try discriminate;
    try apply repeat_length.
  all: try (rewrite ?sumf_repeat0 in * by auto; auto; lia).
Qed.

(* once the producer has returned nothing moves any more *)
Lemma final_stuck : forall files c t, invA files c -> final c = true -> step c t = c.
Proof.
  intros files c t I F. unfold final in F. destruct (prod c) eqn:P; try discriminate.
  destruct t as [|i]; simpl.
  - unfold pstep; rewrite P; auto.
  - unfold wstep. destruct (nth_error (ws c) i) as [w|] eqn:E; auto.
    assert (i < cN c).
    { rewrite <- (a_len _ _ I). apply nth_error_Some; congruence. }
    rewrite (a_joined _ _ I i) in E; [|rewrite P; simpl; auto]. inversion E; auto.
Qed.

Ltac inv_c c := destruct c as [N p wl q u np op cl cp fl sk]; simpl in *.

Ltac tA :=
  solve [ auto | lia | discriminate
        | rewrite app_length; simpl; lia
        | rewrite length_upd; auto
        | rewrite sumf_app, sumf_cons, sumf_nil; simpl; lia
        | apply sorted_app_task; lia
        | apply sorted_app_sent; auto
        | apply all_sent_app; auto
        | apply all_sent_sorted; auto
        | match goal with H : PReturned _ = PReturned _ |- _ => inversion H; auto end
        | match goal with H : 1 <= _ -> _, H1 : 1 <= _ |- _ => specialize (H H1); lia end
        | match goal with H : 0 < _ -> all_sent _ = true |- _ => apply H; lia end ].

Lemma invA_pstep : forall files c, invA files c -> invA files (pstep c).
Proof.
  intros files c I. destruct I as [Il I0 I1 Iw Iq Iu Is Iso Ia Ij Ir In Isk].
  inv_c c. unfold pstep; simpl.
  destruct p as [[|f todo]|f todo|f todo|ts todo|[|k]|[|k]| |b]; simpl in *.
  - (* POpenSrc [] *)
    destruct (N =? 0) eqn:EN;
      [apply Nat.eqb_eq in EN|apply Nat.eqb_neq in EN]; constructor; simpl; intros; tA.
  - (* POpenSrc (f :: todo) *)
    constructor; simpl; intros; tA.
  - (* POpenDst *)
    destruct (N =? 0) eqn:EN;
      [apply Nat.eqb_eq in EN|apply Nat.eqb_neq in EN]; constructor; simpl; intros; tA.
  - (* PPut *)
    unfold room; simpl. destruct (length q <? N) eqn:R.
    + apply Nat.ltb_lt in R. constructor; simpl; intros; tA.
    + constructor; simpl; auto.
  - (* PInline *)
    assert (N = 0) by (destruct N; auto; exfalso; apply I1; lia). subst N.
    destruct (tstep ts) as [[t'|[f [|]]] hs]; constructor; simpl; intros; tA.
  - (* PSentinels 0 *)
    constructor; simpl; intros; tA.
  - (* PSentinels (S k) *)
    unfold room; simpl. destruct (length q <? N) eqn:R.
    + apply Nat.ltb_lt in R. constructor; simpl; intros; tA.
    + constructor; simpl; auto.
  - (* PJoins 0 *)
    constructor; simpl; intros; try tA. apply Ij; lia.
  - (* PJoins (S k) *)
    destruct (nth_error wl (N - S k)) as [[| | | |]|] eqn:E;
      try (constructor; simpl; auto; fail).
    constructor; simpl; intros; try tA.
    destruct (Nat.eq_dec i (N - S k)); subst; auto. apply Ij; lia.
  - (* PQJoin *)
    destruct (u =? 0) eqn:U; constructor; simpl; intros; tA.
  - constructor; simpl; auto.
Qed.

Lemma invA_wstep : forall files c i, invA files c -> invA files (wstep c i).
Proof.
  intros files c i I.
  destruct (final c) eqn:F.
  { change (wstep c i) with (step c (S i)). rewrite (final_stuck files); auto. }
  destruct I as [Il I0 I1 Iw Iq Iu Is Iso Ia Ij Ir In Isk].
  inv_c c. unfold wstep; simpl.
  destruct (nth_error wl i) as [w|] eqn:E; [|constructor; simpl; auto].
  assert (NS : forall j, j < joined N p -> j <> i \/ w = WStopped).
  { intros j Hj. destruct (Nat.eq_dec j i); auto. subst. right.
    rewrite (Ij _ Hj) in E; inversion E; auto. }
  assert (UPD : forall w', w <> WStopped ->
            forall j, j < joined N p -> nth_error (upd i w' wl) j = Some WStopped).
  { intros w' Hw j Hj. destruct (NS j Hj) as [Hn|Hn]; [|congruence].
    rewrite nth_error_upd_neq; auto. }
  destruct w as [|ts| | |].
  - (* WIdle: get *)
    destruct q as [|[f|] q']; rewrite ?sumf_cons in Is; simpl in *.
    + constructor; simpl; auto.
    + pose proof (sumf_upd _ busy wl i _ (WRun (start_task f)) E) as B.
      pose proof (sumf_upd _ gotsent wl i _ (WRun (start_task f)) E) as G. simpl in B, G.
      constructor; simpl; intros; try tA.
      apply UPD; auto; discriminate.
    + pose proof (sumf_upd _ busy wl i _ WSentinel E) as B.
      pose proof (sumf_upd _ gotsent wl i _ WSentinel E) as G. simpl in B, G.
      constructor; simpl; intros; try tA.
      apply UPD; auto; discriminate.
  - (* WRun *)
    destruct (tstep ts) as [[t'|[f failed]] hs].
    + pose proof (sumf_upd _ busy wl i _ (WRun t') E) as B.
      pose proof (sumf_upd _ gotsent wl i _ (WRun t') E) as G. simpl in B, G.
      constructor; simpl; intros; try tA.
      apply UPD; auto; discriminate.
    + pose proof (sumf_upd _ busy wl i _ WTaskDone E) as B.
      pose proof (sumf_upd _ gotsent wl i _ WTaskDone E) as G. simpl in B, G.
      unfold do_verdict; destruct failed; simpl;
        (constructor; simpl; intros; try tA; try (apply UPD; auto; discriminate);
         try (subst p; discriminate)).
  - (* WTaskDone *)
    pose proof (sumf_upd _ busy wl i _ WIdle E) as B.
    pose proof (sumf_upd _ gotsent wl i _ WIdle E) as G. simpl in B, G.
    constructor; simpl; intros; try tA.
    apply UPD; auto; discriminate.
  - (* WSentinel *)
    pose proof (sumf_upd _ busy wl i _ WStopped E) as B.
    pose proof (sumf_upd _ gotsent wl i _ WStopped E) as G. simpl in B, G.
    constructor; simpl; intros; try tA.
    destruct (Nat.eq_dec i0 i); subst.
    + eapply nth_error_upd_eq; eauto.
    + rewrite nth_error_upd_neq; auto.
  - constructor; simpl; auto.
Qed.

Lemma invA_step : forall files c t, invA files c -> invA files (step c t).
Proof. intros files c [|i] I; simpl; [apply invA_pstep|apply invA_wstep]; auto. Qed.

Lemma invA_run : forall files sched c, invA files c -> invA files (run sched c).
Proof.
  intros files sched; induction sched; simpl; intros c I; auto.
  apply IHsched, invA_step; auto.
Qed.

(* ------------------------------------------------------------------ multiset counting *)

Section Count.
  Variable A : Type.
  Variable dec : forall x y : A, {x = y} + {x <> y}.

  Definition cnt (l : list A) (x : A) : nat := count_occ dec l x.
  Definition one (a x : A) : nat := if dec a x then 1 else 0.

  Lemma cnt_nil : forall x, cnt [] x = 0.
  Proof. reflexivity. Qed.

  Lemma cnt_cons : forall a l x, cnt (a :: l) x = one a x + cnt l x.
  Proof. intros; unfold cnt, one; simpl; destruct (dec a x); auto. Qed.

  Lemma cnt_app : forall l1 l2 x, cnt (l1 ++ l2) x = cnt l1 x + cnt l2 x.
  Proof. intros; apply count_occ_app. Qed.

  Lemma cnt_flat : forall B (g : B -> list A) l x,
    cnt (flat_map g l) x = sumf (fun w => cnt (g w) x) l.
  Proof.
    intros B g l x; induction l; simpl; auto.
    rewrite cnt_app, sumf_cons, IHl; auto.
  Qed.

  Lemma cnt_flat_upd : forall B (g : B -> list A) l i w w' x,
    nth_error l i = Some w ->
    cnt (flat_map g (upd i w' l)) x + cnt (g w) x = cnt (flat_map g l) x + cnt (g w') x.
  Proof.
    intros. rewrite !cnt_flat.
    apply (sumf_upd _ (fun w => cnt (g w) x)); auto.
  Qed.

  Lemma cnt_perm : forall l1 l2, (forall x, cnt l1 x = cnt l2 x) -> Permutation l1 l2.
  Proof. intros l1 l2 H. apply (Permutation_count_occ dec). exact H. Qed.

  Lemma cnt_in : forall l x, 0 < cnt l x <-> In x l.
  Proof. intros; unfold cnt; split; apply count_occ_In. Qed.
End Count.

Lemma file_dec : forall a b : file, {a = b} + {a <> b}.
Proof.
  decide equality; try apply bool_dec; try apply Nat.eq_dec. apply (list_eq_dec bool_dec).
Qed.

Lemma handle_dec : forall a b : handle, {a = b} + {a <> b}.
Proof. decide equality; [decide equality | apply file_dec]. Qed.

Global Opaque cnt one.

Notation cf := (cnt file file_dec).
Notation ch := (cnt (file * side) handle_dec).

Ltac cn :=
  unfold handle in *;
  repeat (rewrite ?flat_map_app, ?cnt_app, ?cnt_cons, ?cnt_nil in *; simpl in * ).

(* ------------------------------------------------------------------ transfers *)

Definition t_ok (t : tstate) : Prop :=
  match t with
  | TData f rest => anyb (fdata f) = anyb rest
  | TCloseSrc f b => b = anyb (fdata f)
  | TCloseDst f b => b = (anyb (fdata f) || fcs f)
  end.

Definition t_held (t : tstate) : list handle :=
  match t with
  | TData f _ | TCloseSrc f _ => [(f, Src); (f, Dst)]
  | TCloseDst f _ => [(f, Dst)]
  end.

Lemma t_file_after : forall f rest, t_file (after_data f rest) = f.
Proof. destruct rest; auto. Qed.

Lemma t_held_after : forall f rest, t_held (after_data f rest) = [(f, Src); (f, Dst)].
Proof. destruct rest; auto. Qed.

Lemma t_ok_after : forall f rest, anyb (fdata f) = anyb rest -> t_ok (after_data f rest).
Proof. destruct rest; simpl; auto. Qed.

Lemma t_ok_start : forall f, t_ok (start_task f).
Proof. intros; apply t_ok_after; auto. Qed.

Lemma tstep_inl : forall t t' hs, tstep t = (inl t', hs) -> t_ok t ->
  t_file t' = t_file t /\ t_ok t'.
Proof.
  intros [f [|[|] rest]|f b|f b] t' hs E K; simpl in *; inversion E; subst; simpl; auto.
  split; [apply t_file_after|apply t_ok_after; auto].
Qed.

Lemma tstep_inr : forall t f b hs, tstep t = (inr (f, b), hs) -> t_ok t ->
  f = t_file t /\ b = faulty f.
Proof.
  intros [g [|[|] rest]|g c|g c] f b hs E K; simpl in *; inversion E; subst; simpl; auto.
Qed.

Lemma tstep_held_inl : forall t t' hs, tstep t = (inl t', hs) ->
  forall x, ch (t_held t) x = ch hs x + ch (t_held t') x.
Proof.
  intros [f [|[|] rest]|f b|f b] t' hs E x; simpl in *; inversion E; subst;
    rewrite ?t_held_after; cn; lia.
Qed.

Lemma tstep_held_inr : forall t r hs, tstep t = (inr r, hs) ->
  forall x, ch (t_held t) x = ch hs x.
Proof.
  intros [f [|[|] rest]|f b|f b] r hs E x; simpl in *; inversion E; subst; cn; lia.
Qed.

(* ------------------------------------------------------------------ invariant B: files *)

Definition i_files (it : item) : list file := match it with Task f => [f] | Sentinel => [] end.
Definition w_files (w : wstate) : list file := match w with WRun t => [t_file t] | _ => [] end.
Definition w_ok (w : wstate) : Prop := match w with WRun t => t_ok t | _ => True end.
Definition p_ok (p : pstate) : Prop := match p with PInline t _ => t_ok t | _ => True end.

Record invB (files : list file) (c : config) : Prop := {
  b_files : forall x,
    cf files x = cf (p_files (prod c)) x + cf (flat_map i_files (queue c)) x
                 + cf (flat_map w_files (ws c)) x + cf (copied c) x + cf (failedl c) x
                 + cf (skipped c) x;
  b_wok : Forall w_ok (ws c);
  b_pok : p_ok (prod c);
  b_cop : Forall (fun f => faulty f = false) (copied c);
  b_fail : Forall (fun f => faulty f = true) (failedl c);
  b_skip0 : final c = false -> skipped c = [];
  b_skip : skipped c <> [] -> failedl c <> []
}.

Lemma flat_map_nil : forall A B (g : A -> list B) l,
  (forall x, g x = []) -> flat_map g l = [].
Proof. intros A B g l H; induction l; simpl; auto. rewrite H; auto. Qed.

Lemma flat_repeat_nil : forall A B (g : A -> list B) x n,
  g x = [] -> flat_map g (repeat x n) = [].
Proof. intros A B g x n H; induction n; simpl; auto. rewrite H; auto. Qed.

Lemma invB_init : forall N files, invB files (init N files).
Proof.
  intros N files; constructor; simpl; intros; auto; try congruence.
  - rewrite flat_repeat_nil; auto; cn; lia.
  - induction N; simpl; constructor; simpl; auto.
Qed.

Ltac tB :=
  solve [ auto | lia | discriminate | congruence
        | constructor; auto
        | apply Forall_upd; simpl; auto
        | match goal with
          | H : forall x, cf _ x = _ |- cf _ ?y = _ => specialize (H y); cn; lia
          end ].

Lemma invB_pstep : forall files c, invB files c -> final c = false -> invB files (pstep c).
Proof.
  intros files c I F. destruct I as [If Iw Ip Ic Ifl Is0 Is].
  inv_c c. specialize (Is0 F). subst sk. unfold pstep; simpl.
  destruct p as [[|f todo]|f todo|f todo|ts todo|[|k]|[|k]| |b]; simpl in *.
  - destruct (N =? 0); constructor; simpl; intros; tB.
  - constructor; simpl; intros; tB.
  - destruct (N =? 0); constructor; simpl; intros; try tB.
    + unfold start_task; rewrite t_file_after; tB.
    + apply t_ok_start.
  - unfold room; simpl. destruct (length q <? N); constructor; simpl; intros; tB.
  - destruct (tstep ts) as [[t'|[f [|]]] hs] eqn:T.
    + destruct (tstep_inl _ _ _ T Ip) as [Tf Tk].
      constructor; simpl; intros; try tB; rewrite Tf; tB.
    + destruct (tstep_inr _ _ _ _ T Ip) as [Tf Tk]. subst f.
      constructor; simpl; intros; tB.
    + destruct (tstep_inr _ _ _ _ T Ip) as [Tf Tk]. subst f.
      constructor; simpl; intros; tB.
  - constructor; simpl; intros; tB.
  - unfold room; simpl. destruct (length q <? N); constructor; simpl; intros; tB.
  - constructor; simpl; intros; tB.
  - destruct (nth_error wl (N - S k)) as [[| | | |]|]; constructor; simpl; intros; tB.
  - destruct (u =? 0); constructor; simpl; intros; tB.
  - discriminate.
Qed.

Lemma invB_wstep : forall files c i, invB files c -> invB files (wstep c i).
Proof.
  intros files c i I. destruct I as [If Iw Ip Ic Ifl Is0 Is].
  inv_c c. unfold wstep; simpl.
  destruct (nth_error wl i) as [w|] eqn:E; [|constructor; simpl; auto].
  pose proof (Forall_nth_error _ _ _ _ _ Iw E) as Kw.
  destruct w as [|ts| | |]; simpl in Kw.
  - destruct q as [|[f|] q']; simpl in *.
    + constructor; simpl; auto.
    + constructor; simpl; intros; try tB.
      * pose proof (cnt_flat_upd _ file_dec _ w_files wl i _ (WRun (start_task f)) x E) as U.
        unfold start_task in *; simpl in U; rewrite t_file_after in U.
        specialize (If x); cn; lia.
      * apply Forall_upd; auto. apply t_ok_start.
    + constructor; simpl; intros; try tB.
      pose proof (cnt_flat_upd _ file_dec _ w_files wl i _ WSentinel x E) as U.
      simpl in U. specialize (If x); cn; lia.
  - destruct (tstep ts) as [[t'|[f failed]] hs] eqn:T.
    + destruct (tstep_inl _ _ _ T Kw) as [Tf Tk].
      constructor; simpl; intros; try tB.
      pose proof (cnt_flat_upd _ file_dec _ w_files wl i _ (WRun t') x E) as U.
      simpl in U. rewrite Tf in U. specialize (If x); cn; lia.
    + destruct (tstep_inr _ _ _ _ T Kw) as [Tf Tk]. subst f.
      unfold do_verdict; destruct failed; simpl;
        (constructor; simpl; intros; try tB;
         pose proof (cnt_flat_upd _ file_dec _ w_files wl i _ WTaskDone x E) as U;
         simpl in U; specialize (If x); cn; lia).
  - constructor; simpl; intros; try tB.
    pose proof (cnt_flat_upd _ file_dec _ w_files wl i _ WIdle x E) as U.
    simpl in U. specialize (If x); cn; lia.
  - constructor; simpl; intros; try tB.
    pose proof (cnt_flat_upd _ file_dec _ w_files wl i _ WStopped x E) as U.
    simpl in U. specialize (If x); cn; lia.
  - constructor; simpl; auto.
Qed.

Lemma invB_step : forall files c t, invA files c -> invB files c -> invB files (step c t).
Proof.
  intros files c t IA IB. destruct (final c) eqn:F.
  - rewrite (final_stuck files); auto.
  - destruct t as [|i]; simpl; [apply invB_pstep|apply invB_wstep]; auto.
Qed.

(* ------------------------------------------------------------------ invariant C: handles *)

Definition i_held (it : item) : list handle :=
  match it with Task f => [(f, Src); (f, Dst)] | Sentinel => [] end.
Definition w_held (w : wstate) : list handle := match w with WRun t => t_held t | _ => [] end.
Definition p_held (p : pstate) : list handle :=
  match p with
  | POpenDst f _ => [(f, Src)]
  | PPut f _ => [(f, Src); (f, Dst)]
  | PInline t _ => t_held t
  | _ => []
  end.

(* every opened file object is closed or still held by exactly one owner *)
Definition invC (c : config) : Prop :=
  forall x, ch (opened c) x = ch (p_held (prod c)) x + ch (flat_map i_held (queue c)) x
                              + ch (flat_map w_held (ws c)) x + ch (closedh c) x.

Lemma invC_init : forall N files, invC (init N files).
Proof. intros N files x; simpl. rewrite flat_repeat_nil; auto. Qed.

Ltac tC :=
  match goal with
  | H : forall x, ch _ x = _ |- ch _ ?y = _ => specialize (H y); cn; lia
  end.

Lemma invC_pstep : forall c, invC c -> invC (pstep c).
Proof.
  intros c I. unfold invC in *. inv_c c. unfold pstep; simpl.
  destruct p as [[|f todo]|f todo|f todo|ts todo|[|k]|[|k]| |b]; simpl in *.
  - destruct (N =? 0); simpl; intros; tC.
  - simpl; intros; tC.
  - destruct (N =? 0); simpl; intros; try tC.
    unfold start_task; rewrite t_held_after; tC.
  - unfold room; simpl. destruct (length q <? N); simpl; intros; tC.
  - destruct (tstep ts) as [[t'|[f [|]]] hs] eqn:T; simpl; intros.
    + pose proof (tstep_held_inl _ _ _ T x). tC.
    + pose proof (tstep_held_inr _ _ _ T x). tC.
    + pose proof (tstep_held_inr _ _ _ T x). tC.
  - simpl; intros; tC.
  - unfold room; simpl. destruct (length q <? N); simpl; intros; tC.
  - simpl; intros; tC.
  - destruct (nth_error wl (N - S k)) as [[| | | |]|]; simpl; intros; tC.
  - destruct (u =? 0); simpl; intros; tC.
  - auto.
Qed.

Lemma invC_wstep : forall c i, invC c -> invC (wstep c i).
Proof.
  intros c i I. unfold invC in *. inv_c c. unfold wstep; simpl.
  destruct (nth_error wl i) as [w|] eqn:E; [|auto].
  destruct w as [|ts| | |].
  - destruct q as [|[f|] q']; simpl in *; intros; auto.
    + pose proof (cnt_flat_upd _ handle_dec _ w_held wl i _ (WRun (start_task f)) x E) as U.
      unfold start_task in *; simpl in U; rewrite t_held_after in U. tC.
    + pose proof (cnt_flat_upd _ handle_dec _ w_held wl i _ WSentinel x E) as U.
      simpl in U. tC.
  - destruct (tstep ts) as [[t'|[f failed]] hs] eqn:T.
    + simpl; intros.
      pose proof (cnt_flat_upd _ handle_dec _ w_held wl i _ (WRun t') x E) as U.
      pose proof (tstep_held_inl _ _ _ T x). simpl in U. tC.
    + unfold do_verdict; destruct failed; simpl; intros;
        pose proof (cnt_flat_upd _ handle_dec _ w_held wl i _ WTaskDone x E) as U;
        pose proof (tstep_held_inr _ _ _ T x); simpl in U; tC.
  - simpl; intros.
    pose proof (cnt_flat_upd _ handle_dec _ w_held wl i _ WIdle x E) as U. simpl in U. tC.
  - simpl; intros.
    pose proof (cnt_flat_upd _ handle_dec _ w_held wl i _ WStopped x E) as U. simpl in U. tC.
  - auto.
Qed.

Lemma invC_step : forall c t, invC c -> invC (step c t).
Proof. intros c [|i] I; simpl; [apply invC_pstep|apply invC_wstep]; auto. Qed.

(* ------------------------------------------------------------------ all invariants *)

Definition inv (files : list file) (c : config) : Prop :=
  invA files c /\ invB files c /\ invC c.

Lemma inv_init : forall N files, inv files (init N files).
Proof. intros; split; [|split]; [apply invA_init|apply invB_init|apply invC_init]. Qed.

Lemma inv_step : forall files c t, inv files c -> inv files (step c t).
Proof.
  intros files c t (IA & IB & IC). split; [|split];
    [apply invA_step|apply invB_step|apply invC_step]; auto.
Qed.

Lemma inv_run : forall files sched c, inv files c -> inv files (run sched c).
Proof.
  intros files sched; induction sched; simpl; intros c I; auto.
  apply IHsched, inv_step; auto.
Qed.

Lemma inv_reach : forall N files sched, inv files (run sched (init N files)).
Proof. intros; apply inv_run, inv_init. Qed.

Lemma cN_step : forall c t, cN (step c t) = cN c.
Proof.
  intros c [|i]; simpl.
  - unfold pstep. destruct (prod c) as [[|f todo]|f todo|f todo|ts todo|[|k]|[|k]| |b];
      simpl; auto.
    + destruct (cN c =? 0); auto.
    + destruct (cN c =? 0); auto.
    + destruct (room c); auto.
    + destruct (tstep ts) as [[t'|[f [|]]] hs]; auto.
    + destruct (room c); auto.
    + destruct (nth_error (ws c) (cN c - S k)) as [[| | | |]|]; auto.
    + destruct (unfinished c =? 0); auto.
  - unfold wstep. destruct (nth_error (ws c) i) as [[|ts| | |]|]; auto.
    + destruct (queue c) as [|[f|] q]; auto.
    + destruct (tstep ts) as [[t'|[f [|]]] hs]; auto.
Qed.

Lemma cN_run : forall sched c, cN (run sched c) = cN c.
Proof.
  induction sched; simpl; intros; auto. rewrite IHsched, cN_step; auto.
Qed.

(* ------------------------------------------------------------------ enabledness is honest *)

(* a pick that is not enabled is skipped *)
Theorem disabled_skip : forall c t, enabled c t = false -> step c t = c.
Proof.
  intros c [|i]; simpl.
  - unfold p_enabled, pstep.
    destruct (prod c) as [[|f todo]|f todo|f todo|ts todo|[|k]|[|k]| |b]; try discriminate;
      auto.
    + intros H; rewrite H; auto.
    + intros H; rewrite H; auto.
    + destruct (nth_error (ws c) (cN c - S k)) as [[| | | |]|]; auto; discriminate.
    + intros H; rewrite H; auto.
  - unfold w_enabled, wstep. destruct (nth_error (ws c) i) as [[|ts| | |]|]; auto;
      try discriminate.
    destruct (queue c); auto; discriminate.
Qed.

(* ------------------------------------------------------------------ T1 *)

Theorem copier_counts : forall N files sched,
  let c := run sched (init N files) in
  cN c = N /\
  length (ws c) = N /\
  length (queue c) <= N /\
  unfinished c = length (queue c) + sumf busy (ws c) /\
  sent_put N (prod c) = sumf i_sent (queue c) + sumf gotsent (ws c) /\
  (1 <= N ->
   nput c + length (p_files (prod c)) = length files + sent_put N (prod c)).
Proof.
  intros N files sched c.
  destruct (inv_reach N files sched) as (IA & _ & _). fold c in IA.
  assert (E : cN c = N) by (unfold c; rewrite cN_run; auto).
  destruct IA as [Il I0 I1 Iw Iq Iu Is Iso Ia Ij Ir In Isk]. rewrite E in *.
  repeat split; auto.
Qed.

(* with workers, a completed call has put exactly one item per file plus one sentinel per
   worker *)
Corollary copier_items_put : forall N files sched,
  let c := run sched (init N files) in
  1 <= N -> final c = true -> nput c = length files + N.
Proof.
  intros N files sched c HN F.
  destruct (copier_counts N files sched) as (_ & _ & _ & _ & _ & H). fold c in H.
  specialize (H HN). unfold final in F. destruct (prod c); try discriminate.
  simpl in H. lia.
Qed.

(* ------------------------------------------------------------------ T2 *)

Lemma all_stopped_forallb : forall l,
  (forall i, i < length l -> nth_error l i = Some WStopped) -> forallb is_stopped l = true.
Proof.
  induction l as [|w l IH]; simpl; intros H; auto.
  pose proof (H 0 ltac:(lia)) as H0. simpl in H0. inversion H0; subst. simpl.
  apply IH. intros i Hi. apply (H (S i)). lia.
Qed.

Lemma stopped_flat_nil : forall B (g : wstate -> list B) l,
  g WStopped = [] -> forallb is_stopped l = true -> flat_map g l = [].
Proof.
  intros B g l Hg; induction l as [|w l IH]; simpl; intros H; auto.
  apply andb_true_iff in H. destruct H as [Hw Hl]. destruct w; try discriminate.
  rewrite Hg, IH; auto.
Qed.

Lemma stopped_sum : forall (g : wstate -> nat) l,
  forallb is_stopped l = true -> sumf g l = length l * g WStopped.
Proof.
  intros g l; induction l as [|w l IH]; simpl; intros H; auto.
  apply andb_true_iff in H. destruct H as [Hw Hl]. destruct w; try discriminate.
  rewrite sumf_cons, IH; auto.
Qed.

Lemma final_shape : forall files c, invA files c -> final c = true ->
  workers_done c = true /\ queue c = [].
Proof.
  intros files c IA F. destruct IA as [Il I0 I1 Iw Iq Iu Is Iso Ia Ij Ir In Isk].
  unfold final in F. destruct (prod c) eqn:P; try discriminate. simpl in *.
  assert (W : forallb is_stopped (ws c) = true).
  { apply all_stopped_forallb. intros i Hi. apply Ij. lia. }
  split; auto.
  destruct (cN c) as [|n] eqn:EN.
  - destruct (queue c); auto. simpl in Iq; lia.
  - rewrite (stopped_sum gotsent) in Is, Ia by auto. simpl in Is, Ia.
    rewrite Il, Nat.mul_1_r in Is, Ia.
    specialize (Ia ltac:(lia)). apply all_sent_count in Ia.
    destruct (queue c); auto. simpl in Ia. rewrite Ia in Is. simpl in Is. lia.
Qed.

Lemma list_bool_eqb_eq : forall a b, list_bool_eqb a b = true -> a = b.
Proof.
  induction a as [|x a IH]; destruct b as [|y b]; simpl; intros H; auto; try discriminate.
  apply andb_true_iff in H. destruct H as [H1 H2]. apply eqb_prop in H1. f_equal; auto.
Qed.

Lemma list_bool_eqb_refl : forall a, list_bool_eqb a a = true.
Proof. induction a; simpl; auto. rewrite eqb_reflx; auto. Qed.

Lemma handle_eqb_eq : forall a b : handle, handle_eqb a b = true -> a = b.
Proof.
  intros [[n1 d1 s1 c1] sa] [[n2 d2 s2 c2] sb]; unfold handle_eqb, file_eqb; simpl; intros H.
  repeat (apply andb_true_iff in H; destruct H as [H ?]).
  apply Nat.eqb_eq in H. apply list_bool_eqb_eq in H3. apply eqb_prop in H2, H1.
  subst. destruct sa, sb; try discriminate; auto.
Qed.

Lemma handle_eqb_refl : forall a : handle, handle_eqb a a = true.
Proof.
  intros [[n d s c] sa]; unfold handle_eqb, file_eqb; simpl.
  rewrite Nat.eqb_refl, list_bool_eqb_refl, !eqb_reflx. destruct sa; auto.
Qed.

Lemma remove1_spec : forall h l, In h l ->
  exists l', remove1 h l = Some l' /\ Permutation l (h :: l').
Proof.
  intros h l; induction l as [|x t IH]; simpl; intros H; [tauto|].
  destruct (handle_eqb h x) eqn:E.
  - apply handle_eqb_eq in E; subst. exists t; auto.
  - destruct H as [H|H]; [subst; rewrite handle_eqb_refl in E; discriminate|].
    destruct (IH H) as (t' & R & P). rewrite R. exists (x :: t'); split; auto.
    eapply perm_trans; [apply perm_skip; exact P|apply perm_swap].
Qed.

Lemma same_handles_perm : forall a b, Permutation a b -> same_handles a b = true.
Proof.
  induction a as [|h t IH]; simpl; intros b P.
  - apply Permutation_nil in P; subst; auto.
  - assert (In h b) by (eapply Permutation_in; eauto; simpl; auto).
    destruct (remove1_spec h b H) as (b' & R & Q). rewrite R. apply IH.
    apply Permutation_cons_inv with h. eapply perm_trans; eauto.
Qed.

Definition nofault (files : list file) : Prop := forall f, In f files -> faulty f = false.

Theorem copier_exit : forall N files sched,
  let c := run sched (init N files) in
  final c = true ->
  (* it returns only after all workers have finished, the queue is drained *)
  workers_done c = true /\ queue c = [] /\
  (* every file object opened has been closed, and nothing else *)
  Permutation (opened c) (closedh c) /\ all_closed c = true /\
  (* it raises exactly when some transfer failed *)
  (raised c = true <-> exists f, In f files /\ faulty f = true) /\
  (* every file is accounted for; copied files are exactly fault free ones *)
  Permutation files (copied c ++ failedl c ++ skipped c) /\
  Forall (fun f => faulty f = false) (copied c) /\
  Forall (fun f => faulty f = true) (failedl c) /\
  (1 <= N -> skipped c = []) /\
  (* no fault: everything is copied, whatever N and the schedule *)
  (nofault files -> raised c = false /\ Permutation (copied c) files).
Proof.
  intros N files sched c F.
  destruct (inv_reach N files sched) as (IA & IB & IC). fold c in IA, IB, IC.
  destruct (final_shape files c IA F) as [W Q].
  assert (EN : cN c = N) by (unfold c; rewrite cN_run; auto).
  assert (PO : Permutation (opened c) (closedh c)).
  { apply (cnt_perm _ handle_dec). intros x. specialize (IC x).
    unfold workers_done in W.
    rewrite Q, (stopped_flat_nil _ w_held) in IC by auto.
    unfold final in F. destruct (prod c); try discriminate. simpl in IC. cn. lia. }
  assert (PF : Permutation files (copied c ++ failedl c ++ skipped c)).
  { apply (cnt_perm _ file_dec). intros x. pose proof (b_files _ _ IB x) as H.
    unfold workers_done in W.
    rewrite Q, (stopped_flat_nil _ w_files) in H by auto.
    unfold final in F. destruct (prod c); try discriminate. simpl in H. cn. lia. }
  pose proof (b_cop _ _ IB) as HC. pose proof (b_fail _ _ IB) as HF.
  pose proof (b_skip _ _ IB) as HS.
  assert (R : raised c = negb (isnil (failedl c))).
  { unfold raised. unfold final in F. destruct (prod c) eqn:P; try discriminate.
    apply (a_ret _ _ IA); auto. }
  assert (RI : raised c = true <-> exists f, In f files /\ faulty f = true).
  { rewrite R. split.
    - destruct (failedl c) as [|f l] eqn:E; simpl; intros H; try discriminate.
      exists f; split.
      + eapply Permutation_in; [apply Permutation_sym; exact PF|].
        apply in_or_app; right; apply in_or_app; left; simpl; auto.
      + inversion HF; auto.
    - intros (f & Hin & Hf).
      apply (Permutation_in _ PF) in Hin. apply in_app_or in Hin. destruct Hin as [Hin|Hin].
      + rewrite Forall_forall in HC. rewrite (HC _ Hin) in Hf; discriminate.
      + apply in_app_or in Hin. destruct Hin as [Hin|Hin].
        * destruct (failedl c); simpl in *; auto; tauto.
        * destruct (failedl c); simpl; auto. exfalso. apply HS; auto.
          intros E; rewrite E in Hin; simpl in Hin; auto. }
  split; [exact W|]. split; [exact Q|]. split; [exact PO|].
  split; [apply same_handles_perm; exact PO|]. split; [exact RI|]. split; [exact PF|].
  split; [exact HC|]. split; [exact HF|].
  split; [intros HN; apply (a_skip _ _ IA); lia|].
  intros NF. split.
  - destruct (raised c) eqn:E; auto. exfalso.
    destruct RI as [RI _]. destruct (RI eq_refl) as (f & Hin & Hf). rewrite (NF _ Hin) in Hf.
    discriminate.
  -
    assert (failedl c = []).
    { destruct (failedl c) as [|f l] eqn:E; auto. exfalso.
      assert (In f files).
      { eapply Permutation_in; [apply Permutation_sym; exact PF|].
        apply in_or_app; right; apply in_or_app; left; simpl; auto. }
      apply Forall_inv in HF. rewrite (NF _ H) in HF; discriminate. }
    assert (skipped c = []).
    { destruct (skipped c); auto. exfalso. apply HS; auto. discriminate. }
    rewrite H, H0 in PF. simpl in PF. rewrite app_nil_r in PF. apply Permutation_sym; auto.
Qed.

(* the result does not depend on the number of workers nor on the schedule: any two
   completed runs without fault copy the same multiset of files (in particular the run
   with N workers under any schedule agrees with the sequential run N = 0) *)
Corollary schedule_independent : forall files N1 sched1 N2 sched2,
  nofault files ->
  let c1 := run sched1 (init N1 files) in
  let c2 := run sched2 (init N2 files) in
  final c1 = true -> final c2 = true ->
  Permutation (copied c1) (copied c2) /\ raised c1 = false /\ raised c2 = false.
Proof.
  intros files N1 sched1 N2 sched2 NF c1 c2 F1 F2.
  destruct (copier_exit N1 files sched1 F1) as (_ & _ & _ & _ & _ & _ & _ & _ & _ & H1).
  destruct (copier_exit N2 files sched2 F2) as (_ & _ & _ & _ & _ & _ & _ & _ & _ & H2).
  destruct (H1 NF) as [R1 P1]. destruct (H2 NF) as [R2 P2].
  repeat split; auto. eapply perm_trans; [exact P1|apply Permutation_sym; exact P2].
Qed.

(* ------------------------------------------------------------------ T3: no deadlock *)

Lemma sumf_lt_exists : forall A (g : A -> nat) l,
  (forall x, g x <= 1) -> sumf g l < length l ->
  exists i w, nth_error l i = Some w /\ g w = 0.
Proof.
  intros A g l H; induction l as [|a l IH]; simpl; intros L; [lia|].
  rewrite sumf_cons in L. destruct (g a) eqn:Ga.
  - exists 0, a; auto.
  - destruct IH as (i & w & E & G0); [specialize (H a); lia|].
    exists (S i), w; auto.
Qed.

Lemma sumf_miss : forall A (g : A -> nat) l i w,
  (forall x, g x <= 1) -> nth_error l i = Some w -> g w = 0 -> sumf g l < length l.
Proof.
  intros A g l; induction l as [|a l IH]; destruct i; simpl; intros w H E G0;
    try discriminate; rewrite sumf_cons.
  - inversion E; subst. pose proof (sumf_bound _ g l H). lia.
  - specialize (IH _ _ H E G0). specialize (H a). lia.
Qed.

Lemma gotsent_le1 : forall w, gotsent w <= 1.
Proof. destruct w; simpl; lia. Qed.

Lemma worker_enabled : forall c i w,
  nth_error (ws c) i = Some w -> gotsent w = 0 -> queue c <> [] -> w_enabled c i = true.
Proof.
  intros c i w E G Q. unfold w_enabled. rewrite E.
  destruct w; simpl in *; auto; try discriminate. destruct (queue c); auto; congruence.
Qed.

Theorem copier_progress : forall N files sched,
  let c := run sched (init N files) in
  final c = false -> exists t, t <= N /\ enabled c t = true.
Proof.
  intros N files sched c F.
  destruct (inv_reach N files sched) as (IA & _ & _). fold c in IA.
  assert (EN : cN c = N) by (unfold c; rewrite cN_run; auto).
  destruct IA as [Il I0 I1 Iw Iq Iu Is Iso Ia Ij Ir In Isk]. rewrite EN in *.
  clearbody c. unfold final in F.
  (* a worker that has not seen a sentinel can move as soon as the queue is non-empty *)
  assert (FULL : length (queue c) <? N = false -> sumf gotsent (ws c) < N ->
                 exists t, t <= N /\ enabled c t = true).
  { intros R G. apply Nat.ltb_ge in R. rewrite <- Il in G.
    destruct (sumf_lt_exists _ gotsent (ws c) gotsent_le1 G) as (i & w & E & G0).
    exists (S i). split.
    - assert (i < length (ws c)) by (apply nth_error_Some; congruence). lia.
    - simpl. eapply worker_enabled; eauto.
      intros Q. rewrite Q in R. simpl in R.
      assert (i < length (ws c)) by (apply nth_error_Some; congruence). lia. }
  destruct (prod c) as [[|f todo]|f todo|f todo|ts todo|[|k]|[|k]| |b] eqn:P;
    try discriminate;
    try (exists 0; split; [lia|simpl; unfold p_enabled; rewrite P; reflexivity]).
  - (* PPut *)
    destruct (length (queue c) <? N) eqn:R.
    + exists 0; split; [lia|]. simpl. unfold p_enabled, room. rewrite P, EN; auto.
    + apply FULL; auto. simpl in Is.
      destruct N; [exfalso; apply (I0 eq_refl)|]. lia.
  - (* PSentinels (S k) *)
    destruct (length (queue c) <? N) eqn:R.
    + exists 0; split; [lia|]. simpl. unfold p_enabled, room. rewrite P, EN; auto.
    + apply FULL; auto. simpl in Is, Iw. lia.
  - (* PJoins (S k) *)
    simpl in Is, Iw, Ij.
    assert (J : N - S k < length (ws c)) by lia.
    destruct (nth_error (ws c) (N - S k)) as [w|] eqn:E;
      [|apply nth_error_None in E; lia].
    destruct (gotsent w) eqn:G.
    + (* worker not stopped: it can move (the queue still holds its sentinel) *)
      exists (S (N - S k)); split; [lia|]. simpl. eapply worker_enabled; eauto.
      pose proof (sumf_miss _ gotsent (ws c) _ _ gotsent_le1 E G) as L.
      intros Q. rewrite Q, sumf_nil in Is. lia.
    + destruct w; simpl in G; try discriminate.
      * exists (S (N - S k)); split; [lia|]. simpl. unfold w_enabled. rewrite E; auto.
      * exists 0; split; [lia|]. simpl. unfold p_enabled. rewrite P, EN, E; auto.
  - (* PQJoin *)
    simpl in Is, Ij.
    assert (W : forallb is_stopped (ws c) = true).
    { apply all_stopped_forallb. intros i Hi. apply Ij. lia. }
    exists 0; split; [lia|]. simpl. unfold p_enabled. rewrite P. apply Nat.eqb_eq.
    rewrite Iu, (stopped_sum busy) by auto. simpl. rewrite Nat.mul_0_r, Nat.add_0_r.
    destruct N as [|n]; [exfalso; apply (I0 eq_refl)|].
    rewrite (stopped_sum gotsent) in Is, Ia by auto. simpl in Is, Ia.
    rewrite Il, Nat.mul_1_r in Is, Ia. specialize (Ia ltac:(lia)).
    apply all_sent_count in Ia. lia.
Qed.

(* A configuration in which nobody is enabled is final: the contrapositive reading used
   by the harness ("no enabled thread and unfinished threads" = deadlock never happens) *)
Corollary no_deadlock : forall N files sched,
  let c := run sched (init N files) in
  (forall t, t <= N -> enabled c t = false) -> final c = true.
Proof.
  intros N files sched c H. destruct (final c) eqn:F; auto.
  destruct (copier_progress N files sched F) as (t & Ht & E). fold c in E.
  rewrite (H t Ht) in E. discriminate.
Qed.

(* ------------------------------------------------------------------ termination *)

(* every action consumes: a variant that strictly decreases at every enabled step *)
Definition tw (t : tstate) : nat :=
  match t with TData _ rest => length rest + 3 | TCloseSrc _ _ => 2 | TCloseDst _ _ => 1 end.
Definition fw (f : file) : nat := length (fdata f) + 4.
Definition iw (it : item) : nat := match it with Task f => fw f + 2 | Sentinel => 2 end.
Definition ww (w : wstate) : nat :=
  match w with WRun t => tw t + 1 | WTaskDone | WSentinel => 1 | _ => 0 end.
Definition restw (N : nat) (todo : list file) : nat :=
  sumf (fun f => fw f + 5) todo + 4 * N + 4.
Definition pw (N : nat) (p : pstate) : nat :=
  match p with
  | POpenSrc todo => restw N todo
  | POpenDst f todo => fw f + 4 + restw N todo
  | PPut f todo => fw f + 3 + restw N todo
  | PInline t todo => tw t + 1 + restw N todo
  | PSentinels k => 3 * k + N + 3
  | PJoins k => k + 2
  | PQJoin => 1
  | PReturned _ => 0
  end.

Definition mu (c : config) : nat :=
  pw (cN c) (prod c) + sumf iw (queue c) + sumf ww (ws c).

Lemma tw_step_inl : forall t t' hs, tstep t = (inl t', hs) -> tw t' < tw t.
Proof.
  intros [f [|[|] rest]|f b|f b] t' hs E; simpl in *; inversion E; subst; simpl; try lia.
  destruct rest; simpl; lia.
Qed.

Lemma tw_pos : forall t, 1 <= tw t.
Proof. destruct t; simpl; lia. Qed.

Lemma tw_start : forall f, tw (start_task f) + 1 <= fw f.
Proof. intros f; unfold start_task, fw. destruct (fdata f); simpl; lia. Qed.

Theorem step_decreases : forall c t, enabled c t = true -> mu (step c t) < mu c.
Proof.
  intros c [|i]; unfold mu; simpl.
  - unfold p_enabled, pstep. inv_c c.
    destruct p as [[|f todo]|f todo|f todo|ts todo|[|k]|[|k]| |b]; simpl; intros En;
      try discriminate.
    + destruct (N =? 0); simpl; unfold restw; rewrite sumf_nil; lia.
    + unfold restw; rewrite sumf_cons; lia.
    + destruct (N =? 0); simpl; try lia. pose proof (tw_start f). lia.
    + unfold room in *; simpl in *. rewrite En; simpl.
      rewrite sumf_app, sumf_cons, sumf_nil; simpl. lia.
    + destruct (tstep ts) as [[t'|[f [|]]] hs] eqn:T; simpl.
      * pose proof (tw_step_inl _ _ _ T). lia.
      * lia.
      * lia.
    + lia.
    + unfold room in *; simpl in *. rewrite En; simpl.
      rewrite sumf_app, sumf_cons, sumf_nil; simpl. lia.
    + lia.
    + destruct (nth_error wl (N - S k)) as [[| | | |]|]; try discriminate. simpl. lia.
    + rewrite En; simpl. lia.
  - unfold w_enabled, wstep. inv_c c.
    destruct (nth_error wl i) as [w|] eqn:E; [|discriminate].
    destruct w as [|ts| | |]; intros En; try discriminate.
    + destruct q as [|[f|] q']; simpl in *; try discriminate.
      * pose proof (sumf_upd _ ww wl i _ (WRun (start_task f)) E) as U. simpl in U.
        rewrite sumf_cons. simpl. pose proof (tw_start f). lia.
      * pose proof (sumf_upd _ ww wl i _ WSentinel E) as U. simpl in U.
        rewrite sumf_cons. simpl. lia.
    + destruct (tstep ts) as [[t'|[f failed]] hs] eqn:T.
      * pose proof (sumf_upd _ ww wl i _ (WRun t') E) as U. simpl in U.
        pose proof (tw_step_inl _ _ _ T). simpl. lia.
      * pose proof (sumf_upd _ ww wl i _ WTaskDone E) as U. simpl in U.
        pose proof (tw_pos ts). unfold do_verdict; destruct failed; simpl; lia.
    + pose proof (sumf_upd _ ww wl i _ WIdle E) as U. simpl in U. simpl. lia.
    + pose proof (sumf_upd _ ww wl i _ WStopped E) as U. simpl in U. simpl. lia.
Qed.

Fixpoint all_enabled (c : config) (sched : list nat) : bool :=
  match sched with
  | [] => true
  | t :: s => enabled c t && all_enabled (step c t) s
  end.

(* a schedule made of enabled picks only cannot be longer than the variant: the number
   of actions of a call is bounded, whatever the interleaving *)
Theorem copier_bounded : forall sched c,
  all_enabled c sched = true -> mu (run sched c) + length sched <= mu c.
Proof.
  induction sched as [|t s IH]; simpl; intros c H; [lia|].
  apply andb_true_iff in H. destruct H as [En H].
  specialize (IH _ H). pose proof (step_decreases c t En). lia.
Qed.

Lemma run_app : forall a b c, run (a ++ b) c = run b (run a c).
Proof. intros; unfold run; apply fold_left_app. Qed.

(* from every reachable configuration the call can still return: no deadlock and no
   livelock; together with copier_bounded, every maximal run of enabled picks ends in a
   final configuration *)
Theorem copier_can_finish : forall N files sched,
  exists more, final (run (sched ++ more) (init N files)) = true.
Proof.
  intros N files sched.
  remember (mu (run sched (init N files))) as n eqn:Hn.
  assert (Hle : mu (run sched (init N files)) <= n) by lia. clear Hn.
  revert sched Hle. induction n as [|n IH]; intros sched Hle.
  - destruct (final (run sched (init N files))) eqn:F.
    + exists []. rewrite app_nil_r; auto.
    + destruct (copier_progress N files sched F) as (t & _ & En).
      pose proof (step_decreases _ _ En). lia.
  - destruct (final (run sched (init N files))) eqn:F.
    + exists []. rewrite app_nil_r; auto.
    + destruct (copier_progress N files sched F) as (t & _ & En).
      pose proof (step_decreases _ _ En) as D.
      destruct (IH (sched ++ [t])) as (more & Hm).
      * rewrite run_app; simpl. lia.
      * exists (t :: more). rewrite <- app_assoc in Hm. simpl in Hm. exact Hm.
Qed.

(* ------------------------------------------------------------------ not covered
   Everything stated above is proved (no Admitted).  What the model deliberately leaves
   out, hence what no theorem here speaks about:

   - a failure of the producer's own openbin (it raises in the producer, __exit__ runs
     stop(); the harness exercises it: the call raises, workers are joined, files closed);
   - copy_modified_time after the joins (preserve_time=True): no yield point, no effect on
     the queue protocol;
   - BaseException raised inside a worker (not caught by _Worker.run);
   - the contents of the destination files: [copied] is the multiset of transfers that
     ran to completion, the byte-level equality of each transfer is property C02/C05.

   (* Theorem fair_schedule_finishes :
        forall N files (s : nat -> nat), (every thread id <= N occurs infinitely often in s) ->
        exists n, final (run (map s (seq 0 n)) (init N files)) = true.
      Follows from copier_progress + step_decreases + disabled_skip, not formalised: it
      needs a statement about infinite schedules that the rest of the development does
      not use. *)
*)
