(* C09 -- proofs about the Copier transition system (Conc/Copier.v).

   Main results (all for every N, every file list with any set of faulty steps, and EVERY
   schedule):
     copier_counts    (T1)  queue bound and put/sentinel bookkeeping
     copier_exit      (T2)  producer returned -> workers done, handles closed,
                            raised <-> some transfer failed, no fault -> copied = files
     copier_progress  (T3)  no reachable non-final configuration is a deadlock *)
From Coq Require Import List Arith Bool Lia Permutation.
From PyFS Require Import Conc.Copier.
Import ListNotations.

(* ------------------------------------------------------------------ generic lemmas *)

Lemma length_upd : forall A i (x : A) l, length (upd i x l) = length l.
Proof. intros A i x l; revert i; induction l; destruct i; simpl; auto. Qed.

Lemma nth_error_upd_eq : forall A i (x w : A) l,
  nth_error l i = Some w -> nth_error (upd i x l) i = Some x.
Proof.
  intros A i x w l; revert i; induction l; destruct i; simpl; intros; try discriminate; auto.
Qed.

Lemma nth_error_upd_neq : forall A i j (x : A) l,
  i <> j -> nth_error (upd i x l) j = nth_error l j.
Proof.
  intros A i j x l; revert i j; induction l; destruct i, j; simpl; intros; auto; try lia.
Qed.

Lemma Forall_upd : forall A (P : A -> Prop) i x l, Forall P l -> P x -> Forall P (upd i x l).
Proof.
  intros A P i x l; revert i; induction l; destruct i; simpl; intros H Hx; auto;
    inversion H; subst; constructor; auto.
Qed.

Lemma Forall_nth_error : forall A (P : A -> Prop) l i w,
  Forall P l -> nth_error l i = Some w -> P w.
Proof.
  intros A P l; induction l; destruct i; simpl; intros w H E; try discriminate;
    inversion H; subst; eauto. inversion E; subst; auto.
Qed.

Definition sumf {A} (g : A -> nat) (l : list A) : nat := list_sum (map g l).

Lemma sumf_app : forall A (g : A -> nat) l1 l2, sumf g (l1 ++ l2) = sumf g l1 + sumf g l2.
Proof. intros; unfold sumf; rewrite map_app, list_sum_app; auto. Qed.

Lemma sumf_upd : forall A (g : A -> nat) l i w w',
  nth_error l i = Some w -> sumf g (upd i w' l) + g w = sumf g l + g w'.
Proof.
  intros A g l; induction l; destruct i; simpl; intros w w' E; try discriminate.
  - inversion E; subst. unfold sumf; simpl; lia.
  - specialize (IHl _ _ w' E). unfold sumf in *; simpl; lia.
Qed.

Lemma sumf_bound : forall A (g : A -> nat) l, (forall x, g x <= 1) -> sumf g l <= length l.
Proof.
  intros A g l H; induction l; unfold sumf in *; simpl; auto. specialize (H a); lia.
Qed.

Lemma sumf_full : forall A (g : A -> nat) l,
  (forall x, g x <= 1) -> sumf g l = length l -> forall i w, nth_error l i = Some w -> g w = 1.
Proof.
  intros A g l H; induction l; intros E i w Hn; destruct i; simpl in *; try discriminate.
  - inversion Hn; subst. pose proof (sumf_bound _ g l H). unfold sumf in *; simpl in *.
    specialize (H w); lia.
  - apply IHl with i; auto. pose proof (sumf_bound _ g l H). unfold sumf in *; simpl in *.
    specialize (H a); lia.
Qed.

Lemma sumf_all : forall A (g : A -> nat) l,
  (forall i w, nth_error l i = Some w -> g w = 1) -> sumf g l = length l.
Proof.
  intros A g l; induction l; intros H; unfold sumf in *; simpl; auto.
  rewrite (H 0 a eq_refl). simpl. f_equal. apply IHl. intros i w E. apply (H (S i)); auto.
Qed.

Lemma sumf_zero : forall A (g : A -> nat) l i w,
  sumf g l = 0 -> nth_error l i = Some w -> g w = 0.
Proof.
  intros A g l; induction l; destruct i; simpl; intros w S0 E; try discriminate;
    unfold sumf in *; simpl in *.
  - inversion E; subst; lia.
  - apply IHl with i; auto; lia.
Qed.

Lemma sumf_pos : forall A (g : A -> nat) l i w,
  nth_error l i = Some w -> g w <= sumf g l.
Proof.
  intros A g l; induction l; destruct i; simpl; intros w E; try discriminate;
    unfold sumf in *; simpl in *.
  - inversion E; subst; lia.
  - specialize (IHl _ _ E); lia.
Qed.

Lemma sumf_cons : forall A (g : A -> nat) x l, sumf g (x :: l) = g x + sumf g l.
Proof. reflexivity. Qed.

Lemma sumf_nil : forall A (g : A -> nat), sumf g [] = 0.
Proof. reflexivity. Qed.

Arguments sumf : simpl never.

(* ------------------------------------------------------------------ measures *)

Definition busy (w : wstate) : nat :=
  match w with WRun _ | WTaskDone | WSentinel => 1 | _ => 0 end.
Definition gotsent (w : wstate) : nat :=
  match w with WSentinel | WStopped => 1 | _ => 0 end.
Definition stopped1 (w : wstate) : nat := match w with WStopped => 1 | _ => 0 end.
Definition i_sent (it : item) : nat := match it with Sentinel => 1 | _ => 0 end.

Definition sent_put (N : nat) (p : pstate) : nat :=
  match p with
  | PSentinels k => N - k
  | PJoins _ | PQJoin | PReturned _ => N
  | _ => 0
  end.

Definition joined (N : nat) (p : pstate) : nat :=
  match p with
  | PJoins k => N - k
  | PQJoin | PReturned _ => N
  | _ => 0
  end.

Definition p_wf (N : nat) (p : pstate) : Prop :=
  match p with PSentinels k | PJoins k => k <= N | _ => True end.

Definition phase0 (p : pstate) : Prop :=     (* N = 0: no queue operation ever *)
  match p with POpenSrc _ | POpenDst _ _ | PInline _ _ | PReturned _ => True | _ => False end.

Definition phase1 (p : pstate) : Prop :=     (* N >= 1: never inline *)
  match p with PInline _ _ => False | _ => True end.

Definition t_file (t : tstate) : file :=
  match t with TData f _ | TCloseSrc f _ | TCloseDst f _ => f end.

Definition p_files (p : pstate) : list file :=
  match p with
  | POpenSrc todo => todo
  | POpenDst f todo | PPut f todo => f :: todo
  | PInline t todo => t_file t :: todo
  | _ => []
  end.

Fixpoint all_sent (q : list item) : bool :=
  match q with [] => true | Sentinel :: q' => all_sent q' | Task _ :: _ => false end.

Fixpoint sorted_q (q : list item) : bool :=
  match q with
  | [] => true
  | Task _ :: q' => sorted_q q'
  | Sentinel :: q' => all_sent q'
  end.

Lemma all_sent_sorted : forall q, all_sent q = true -> sorted_q q = true.
Proof. induction q as [|[f|] q]; simpl; auto; discriminate. Qed.

Lemma all_sent_app : forall q, all_sent q = true -> all_sent (q ++ [Sentinel]) = true.
Proof. induction q as [|[f|] q]; simpl; auto. Qed.

Lemma sorted_app_sent : forall q, sorted_q q = true -> sorted_q (q ++ [Sentinel]) = true.
Proof. induction q as [|[f|] q]; simpl; auto. apply all_sent_app. Qed.

Lemma sorted_app_task : forall q f, sumf i_sent q = 0 -> sorted_q (q ++ [Task f]) = true.
Proof.
  induction q as [|[g|] q]; simpl; intros f H.
  - auto.
  - apply IHq. unfold sumf in *; simpl in *; lia.
  - unfold sumf in H; simpl in H; lia.
Qed.

Lemma all_sent_count : forall q, all_sent q = true -> sumf i_sent q = length q.
Proof.
  induction q as [|[g|] q]; simpl; intros H; auto; try discriminate.
  unfold sumf in *; simpl; rewrite IHq; auto.
Qed.

(* ------------------------------------------------------------------ invariant A: counting *)

Record invA (files : list file) (c : config) : Prop := {
  a_len : length (ws c) = cN c;
  a_ph0 : cN c = 0 -> phase0 (prod c);
  a_ph1 : 1 <= cN c -> phase1 (prod c);
  a_pwf : p_wf (cN c) (prod c);
  a_qlen : length (queue c) <= cN c;
  a_unf : unfinished c = length (queue c) + sumf busy (ws c);
  a_sent : sent_put (cN c) (prod c) = sumf i_sent (queue c) + sumf gotsent (ws c);
  a_sorted : sorted_q (queue c) = true;
  a_allsent : 0 < sumf gotsent (ws c) -> all_sent (queue c) = true;
  a_joined : forall i, i < joined (cN c) (prod c) -> nth_error (ws c) i = Some WStopped;
  a_ret : forall b, prod c = PReturned b -> b = negb (isnil (failedl c));
  a_nput : 1 <= cN c ->
           nput c + length (p_files (prod c)) = length files + sent_put (cN c) (prod c)
}.

Lemma nth_error_repeat : forall A (x : A) n i w, nth_error (repeat x n) i = Some w -> w = x.
Proof.
  intros A x n; induction n; destruct i; simpl; intros w E; try discriminate.
  - inversion E; auto.
  - eauto.
Qed.

Lemma sumf_repeat0 : forall A (g : A -> nat) x n, g x = 0 -> sumf g (repeat x n) = 0.
Proof. intros A g x n H; induction n; unfold sumf in *; simpl; auto. rewrite H; auto. Qed.

Lemma invA_init : forall N files, invA files (init N files).
Proof.
  intros N files; constructor; simpl; intros; auto; try lia; try discriminate;
    try apply repeat_length.
  all: try (rewrite ?sumf_repeat0 in * by auto; auto; lia).
Qed.

(* once the producer has returned nothing moves any more *)
Lemma final_stuck : forall files c t, invA files c -> final c = true -> step c t = c.
Proof.
  intros files c t I F. unfold final in F. destruct (prod c) eqn:P; try discriminate.
  destruct t as [|i]; simpl.
  - unfold pstep; rewrite P; auto.
  - unfold wstep. destruct (nth_error (ws c) i) as [w|] eqn:E; auto.
    assert (i < cN c).
    { rewrite <- (a_len _ _ I). apply nth_error_Some; congruence. }
    rewrite (a_joined _ _ I i) in E; [|rewrite P; simpl; auto]. inversion E; auto.
Qed.

Ltac inv_c c := destruct c as [N p wl q u np op cl cp fl sk]; simpl in *.

Ltac tA :=
  solve [ auto | lia | discriminate
        | rewrite app_length; simpl; lia
        | rewrite length_upd; auto
        | rewrite sumf_app, sumf_cons, sumf_nil; simpl; lia
        | apply sorted_app_task; lia
        | apply sorted_app_sent; auto
        | apply all_sent_app; auto
        | apply all_sent_sorted; auto
        | match goal with H : PReturned _ = PReturned _ |- _ => inversion H; auto end
        | match goal with H : 1 <= _ -> _, H1 : 1 <= _ |- _ => specialize (H H1); lia end
        | match goal with H : 0 < _ -> all_sent _ = true |- _ => apply H; lia end ].

Lemma invA_pstep : forall files c, invA files c -> invA files (pstep c).
Proof.
  intros files c I. destruct I as [Il I0 I1 Iw Iq Iu Is Iso Ia Ij Ir In].
  inv_c c. unfold pstep; simpl.
  destruct p as [[|f todo]|f todo|f todo|ts todo|[|k]|[|k]| |b]; simpl in *.
  - (* POpenSrc [] *)
    destruct (N =? 0) eqn:EN;
      [apply Nat.eqb_eq in EN|apply Nat.eqb_neq in EN]; constructor; simpl; intros; tA.
  - (* POpenSrc (f :: todo) *)
    constructor; simpl; intros; tA.
  - (* POpenDst *)
    destruct (N =? 0) eqn:EN;
      [apply Nat.eqb_eq in EN|apply Nat.eqb_neq in EN]; constructor; simpl; intros; tA.
  - (* PPut *)
    unfold room; simpl. destruct (length q <? N) eqn:R.
    + apply Nat.ltb_lt in R. constructor; simpl; intros; tA.
    + constructor; simpl; auto.
  - (* PInline *)
    assert (N = 0) by (destruct N; auto; exfalso; apply I1; lia). subst N.
    destruct (tstep ts) as [[t'|[f [|]]] hs]; constructor; simpl; intros; tA.
  - (* PSentinels 0 *)
    constructor; simpl; intros; tA.
  - (* PSentinels (S k) *)
    unfold room; simpl. destruct (length q <? N) eqn:R.
    + apply Nat.ltb_lt in R. constructor; simpl; intros; tA.
    + constructor; simpl; auto.
  - (* PJoins 0 *)
    constructor; simpl; intros; try tA. apply Ij; lia.
  - (* PJoins (S k) *)
    destruct (nth_error wl (N - S k)) as [[| | | |]|] eqn:E;
      try (constructor; simpl; auto; fail).
    constructor; simpl; intros; try tA.
    destruct (Nat.eq_dec i (N - S k)); subst; auto. apply Ij; lia.
  - (* PQJoin *)
    destruct (u =? 0) eqn:U; constructor; simpl; intros; tA.
  - constructor; simpl; auto.
Qed.

Lemma invA_wstep : forall files c i, invA files c -> invA files (wstep c i).
Proof.
  intros files c i I.
  destruct (final c) eqn:F.
  { change (wstep c i) with (step c (S i)). rewrite (final_stuck files); auto. }
  destruct I as [Il I0 I1 Iw Iq Iu Is Iso Ia Ij Ir In].
  inv_c c. unfold wstep; simpl.
  destruct (nth_error wl i) as [w|] eqn:E; [|constructor; simpl; auto].
  assert (NS : forall j, j < joined N p -> j <> i \/ w = WStopped).
  { intros j Hj. destruct (Nat.eq_dec j i); auto. subst. right.
    rewrite (Ij _ Hj) in E; inversion E; auto. }
  assert (UPD : forall w', w <> WStopped ->
            forall j, j < joined N p -> nth_error (upd i w' wl) j = Some WStopped).
  { intros w' Hw j Hj. destruct (NS j Hj) as [Hn|Hn]; [|congruence].
    rewrite nth_error_upd_neq; auto. }
  destruct w as [|ts| | |].
  - (* WIdle: get *)
    destruct q as [|[f|] q']; rewrite ?sumf_cons in Is; simpl in *.
    + constructor; simpl; auto.
    + pose proof (sumf_upd _ busy wl i _ (WRun (start_task f)) E) as B.
      pose proof (sumf_upd _ gotsent wl i _ (WRun (start_task f)) E) as G. simpl in B, G.
      constructor; simpl; intros; try tA.
      apply UPD; auto; discriminate.
    + pose proof (sumf_upd _ busy wl i _ WSentinel E) as B.
      pose proof (sumf_upd _ gotsent wl i _ WSentinel E) as G. simpl in B, G.
      constructor; simpl; intros; try tA.
      apply UPD; auto; discriminate.
  - (* WRun *)
    destruct (tstep ts) as [[t'|[f failed]] hs].
    + pose proof (sumf_upd _ busy wl i _ (WRun t') E) as B.
      pose proof (sumf_upd _ gotsent wl i _ (WRun t') E) as G. simpl in B, G.
      constructor; simpl; intros; try tA.
      apply UPD; auto; discriminate.
    + pose proof (sumf_upd _ busy wl i _ WTaskDone E) as B.
      pose proof (sumf_upd _ gotsent wl i _ WTaskDone E) as G. simpl in B, G.
      unfold do_verdict; destruct failed; simpl;
        (constructor; simpl; intros; try tA; try (apply UPD; auto; discriminate);
         try (subst p; discriminate)).
  - (* WTaskDone *)
    pose proof (sumf_upd _ busy wl i _ WIdle E) as B.
    pose proof (sumf_upd _ gotsent wl i _ WIdle E) as G. simpl in B, G.
    constructor; simpl; intros; try tA.
    apply UPD; auto; discriminate.
  - (* WSentinel *)
    pose proof (sumf_upd _ busy wl i _ WStopped E) as B.
    pose proof (sumf_upd _ gotsent wl i _ WStopped E) as G. simpl in B, G.
    constructor; simpl; intros; try tA.
    destruct (Nat.eq_dec i0 i); subst.
    + eapply nth_error_upd_eq; eauto.
    + rewrite nth_error_upd_neq; auto.
  - constructor; simpl; auto.
Qed.

Lemma invA_step : forall files c t, invA files c -> invA files (step c t).
Proof. intros files c [|i] I; simpl; [apply invA_pstep|apply invA_wstep]; auto. Qed.

Lemma invA_run : forall files sched c, invA files c -> invA files (run sched c).
Proof.
  intros files sched; induction sched; simpl; intros c I; auto.
  apply IHsched, invA_step; auto.
Qed.

(* ------------------------------------------------------------------ multiset counting *)

Section Count.
  Variable A : Type.
  Variable dec : forall x y : A, {x = y} + {x <> y}.

  Definition cnt (l : list A) (x : A) : nat := count_occ dec l x.
  Definition one (a x : A) : nat := if dec a x then 1 else 0.

  Lemma cnt_nil : forall x, cnt [] x = 0.
  Proof. reflexivity. Qed.

  Lemma cnt_cons : forall a l x, cnt (a :: l) x = one a x + cnt l x.
  Proof. intros; unfold cnt, one; simpl; destruct (dec a x); auto. Qed.

  Lemma cnt_app : forall l1 l2 x, cnt (l1 ++ l2) x = cnt l1 x + cnt l2 x.
  Proof. intros; apply count_occ_app. Qed.

  Lemma cnt_flat : forall B (g : B -> list A) l x,
    cnt (flat_map g l) x = sumf (fun w => cnt (g w) x) l.
  Proof.
    intros B g l x; induction l; simpl; auto.
    rewrite cnt_app, sumf_cons, IHl; auto.
  Qed.

  Lemma cnt_flat_upd : forall B (g : B -> list A) l i w w' x,
    nth_error l i = Some w ->
    cnt (flat_map g (upd i w' l)) x + cnt (g w) x = cnt (flat_map g l) x + cnt (g w') x.
  Proof.
    intros. rewrite !cnt_flat.
    apply (sumf_upd _ (fun w => cnt (g w) x)); auto.
  Qed.

  Lemma cnt_perm : forall l1 l2, (forall x, cnt l1 x = cnt l2 x) -> Permutation l1 l2.
  Proof. intros l1 l2 H. apply (Permutation_count_occ dec). exact H. Qed.

  Lemma cnt_in : forall l x, 0 < cnt l x <-> In x l.
  Proof. intros; unfold cnt; split; apply count_occ_In. Qed.
End Count.

Lemma file_dec : forall a b : file, {a = b} + {a <> b}.
Proof.
  decide equality; try apply bool_dec; try apply Nat.eq_dec. apply (list_eq_dec bool_dec).
Qed.

Lemma handle_dec : forall a b : handle, {a = b} + {a <> b}.
Proof. decide equality; [decide equality | apply file_dec]. Qed.

Global Opaque cnt one.

Notation cf := (cnt file file_dec).
Notation ch := (cnt handle handle_dec).

Ltac cn :=
  repeat (rewrite ?flat_map_app, ?cnt_app, ?cnt_cons, ?cnt_nil in *; simpl in * ).

(* ------------------------------------------------------------------ transfers *)

Definition t_ok (t : tstate) : Prop :=
  match t with
  | TData f rest => anyb (fdata f) = anyb rest
  | TCloseSrc f b => b = anyb (fdata f)
  | TCloseDst f b => b = (anyb (fdata f) || fcs f)
  end.

Definition t_held (t : tstate) : list handle :=
  match t with
  | TData f _ | TCloseSrc f _ => [(f, Src); (f, Dst)]
  | TCloseDst f _ => [(f, Dst)]
  end.

Lemma t_file_after : forall f rest, t_file (after_data f rest) = f.
Proof. destruct rest; auto. Qed.

Lemma t_held_after : forall f rest, t_held (after_data f rest) = [(f, Src); (f, Dst)].
Proof. destruct rest; auto. Qed.

Lemma t_ok_after : forall f rest, anyb (fdata f) = anyb rest -> t_ok (after_data f rest).
Proof. destruct rest; simpl; auto. Qed.

Lemma t_ok_start : forall f, t_ok (start_task f).
Proof. intros; apply t_ok_after; auto. Qed.

Lemma tstep_inl : forall t t' hs, tstep t = (inl t', hs) -> t_ok t ->
  t_file t' = t_file t /\ t_ok t'.
Proof.
  intros [f [|[|] rest]|f b|f b] t' hs E K; simpl in *; inversion E; subst; simpl; auto.
  split; [apply t_file_after|apply t_ok_after; auto].
Qed.

Lemma tstep_inr : forall t f b hs, tstep t = (inr (f, b), hs) -> t_ok t ->
  f = t_file t /\ b = faulty f.
Proof.
  intros [g [|[|] rest]|g c|g c] f b hs E K; simpl in *; inversion E; subst; simpl; auto.
Qed.

Lemma tstep_held_inl : forall t t' hs, tstep t = (inl t', hs) ->
  forall x, ch (t_held t) x = ch hs x + ch (t_held t') x.
Proof.
  intros [f [|[|] rest]|f b|f b] t' hs E x; simpl in *; inversion E; subst;
    rewrite ?t_held_after; cn; lia.
Qed.

Lemma tstep_held_inr : forall t r hs, tstep t = (inr r, hs) ->
  forall x, ch (t_held t) x = ch hs x.
Proof.
  intros [f [|[|] rest]|f b|f b] r hs E x; simpl in *; inversion E; subst; cn; lia.
Qed.

(* ------------------------------------------------------------------ invariant B: files *)

Definition i_files (it : item) : list file := match it with Task f => [f] | Sentinel => [] end.
Definition w_files (w : wstate) : list file := match w with WRun t => [t_file t] | _ => [] end.
Definition w_ok (w : wstate) : Prop := match w with WRun t => t_ok t | _ => True end.
Definition p_ok (p : pstate) : Prop := match p with PInline t _ => t_ok t | _ => True end.

Record invB (files : list file) (c : config) : Prop := {
  b_files : forall x,
    cf files x = cf (p_files (prod c)) x + cf (flat_map i_files (queue c)) x
                 + cf (flat_map w_files (ws c)) x + cf (copied c) x + cf (failedl c) x
                 + cf (skipped c) x;
  b_wok : Forall w_ok (ws c);
  b_pok : p_ok (prod c);
  b_cop : Forall (fun f => faulty f = false) (copied c);
  b_fail : Forall (fun f => faulty f = true) (failedl c);
  b_skip0 : final c = false -> skipped c = [];
  b_skip : skipped c <> [] -> failedl c <> []
}.

Lemma flat_map_nil : forall A B (g : A -> list B) l,
  (forall x, g x = []) -> flat_map g l = [].
Proof. intros A B g l H; induction l; simpl; auto. rewrite H; auto. Qed.

Lemma flat_repeat_nil : forall A B (g : A -> list B) x n,
  g x = [] -> flat_map g (repeat x n) = [].
Proof. intros A B g x n H; induction n; simpl; auto. rewrite H; auto. Qed.

Lemma invB_init : forall N files, invB files (init N files).
Proof.
  intros N files; constructor; simpl; intros; auto; try congruence.
  - rewrite flat_repeat_nil; auto; cn; lia.
  - induction N; simpl; constructor; simpl; auto.
Qed.
