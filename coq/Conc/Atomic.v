(* C08 -- a generic interleaving semantics for threads over a shared state.

   A thread is a list of actions over a private local state L and the shared state G:
     Local f   a silent step (argument validation, path normalisation, building the
               result, ...): touches only the thread's own local state;
     Atomic f  one atomic block: a maximal region executed under the filesystem lock
               (`with self._lock:` in fs/memoryfs.py), reads and writes the shared state.
   The result of a call is the thread's final local state.

   A method of the library such as MemoryFS.makedir / remove / move / setinfo is
     [Local ..; Local ..; Atomic body; Local ..]         (exactly one atomic block)
   whereas MemoryFS.removedir = isempty ; removetree is
     [Local ..; Atomic check; Atomic act]                (check then act: two blocks).

   A schedule is a list of thread ids; a pick of a thread that has finished is skipped.
   No Section, no axioms; stdlib only. *)

From Coq Require Import List Arith Bool.
Import ListNotations.

Inductive action (G L : Type) : Type :=
| Local  (f : L -> L)
| Atomic (f : G -> L -> G * L).
Arguments Local {G L} f.
Arguments Atomic {G L} f.

(* thread state: remaining code and current local state; the pool maps thread ids to
   thread states (ids that are not in use have no code) *)
Definition tstate (G L : Type) : Type := (list (action G L) * L)%type.
Definition pool (G L : Type) : Type := nat -> tstate G L.
Definition config (G L : Type) : Type := (G * pool G L)%type.

Definition exec_action {G L} (a : action G L) (g : G) (l : L) : G * L :=
  match a with
  | Local f => (g, f l)
  | Atomic f => f g l
  end.

Definition upd {A : Type} (p : nat -> A) (i : nat) (v : A) : nat -> A :=
  fun j => if Nat.eqb j i then v else p j.

(* one step of thread i (skipped when the thread has finished) *)
Definition step {G L} (i : nat) (c : config G L) : config G L :=
  match fst (snd c i) with
  | [] => c
  | a :: k =>
      let r := exec_action a (fst c) (snd (snd c i)) in
      (fst r, upd (snd c) i (k, snd r))
  end.

Definition run {G L} (sched : list nat) (c : config G L) : config G L :=
  fold_left (fun c i => step i c) sched c.

Definition finished {G L} (p : pool G L) : Prop := forall i, fst (p i) = [].

(* ---- sequential execution: a whole call at once *)

Fixpoint complete {G L} (code : list (action G L)) (g : G) (l : L) : G * L :=
  match code with
  | [] => (g, l)
  | a :: k => complete k (fst (exec_action a g l)) (snd (exec_action a g l))
  end.

Definition seq_step {G L} (i : nat) (c : config G L) : config G L :=
  let r := complete (fst (snd c i)) (fst c) (snd (snd c i)) in
  (fst r, upd (snd c) i ([], snd r)).

(* run the calls of the threads listed in [order], one after the other *)
Definition seq_run {G L} (order : list nat) (c : config G L) : config G L :=
  fold_left (fun c i => seq_step i c) order c.

(* ---- atomic blocks *)

Definition is_atomic {G L} (a : action G L) : bool :=
  match a with Atomic _ => true | Local _ => false end.

Fixpoint count_atomic {G L} (code : list (action G L)) : nat :=
  match code with
  | [] => 0
  | a :: k => (if is_atomic a then 1 else 0) + count_atomic k
  end.

(* pure prefix ; ONE atomic block ; pure suffix *)
Definition single_atomic {G L} (code : list (action G L)) : Prop := count_atomic code = 1.

(* what the remaining silent steps make of a local state *)
Fixpoint locals_only {G L} (code : list (action G L)) (l : L) : L :=
  match code with
  | [] => l
  | Local f :: k => locals_only k (f l)
  | Atomic _ :: k => locals_only k l
  end.

(* the order in which the threads execute their atomic block under a schedule *)
Fixpoint commit_order {G L} (sched : list nat) (c : config G L) : list nat :=
  match sched with
  | [] => []
  | i :: s =>
      match fst (snd c i) with
      | Atomic _ :: _ => i :: commit_order s (step i c)
      | _ => commit_order s (step i c)
      end
  end.

(* ---- the instance behind the known race  removedir(d) || writebytes(d/f)

   shared state: does directory d exist, does it contain the file f *)

Record dstate : Type := { d_exists : bool; f_exists : bool }.

Inductive res : Type :=
| Pending | SawEmpty | SawNonEmpty | SawMissing          (* local knowledge of a thread *)
| Ok | DirectoryNotEmpty | ResourceNotFound.             (* what the call returns *)

(* MemoryFS.removedir: `if not self.isempty(path): raise DirectoryNotEmpty` (first block,
   under the lock inside scandir) then `self.removetree(_path)` (second block) *)
Definition removedir_check (g : dstate) (_ : res) : dstate * res :=
  (g, if d_exists g then (if f_exists g then SawNonEmpty else SawEmpty) else SawMissing).

Definition removedir_act (g : dstate) (l : res) : dstate * res :=
  match l with
  | SawEmpty =>
      if d_exists g then ({| d_exists := false; f_exists := false |}, Ok)
      else (g, ResourceNotFound)
  | SawNonEmpty => (g, DirectoryNotEmpty)
  | _ => (g, ResourceNotFound)
  end.

Definition removedir_code : list (action dstate res) :=
  [Local (fun l => l); Atomic removedir_check; Atomic removedir_act].

(* the same call with check and act in ONE block (what holding the lock across both gives) *)
Definition removedir_atomic_code : list (action dstate res) :=
  [Local (fun l => l);
   Atomic (fun g l => removedir_act (fst (removedir_check g l)) (snd (removedir_check g l)))].

(* MemoryFS.writebytes(d/f): openbin under the lock creates the entry *)
Definition writebytes_body (g : dstate) (_ : res) : dstate * res :=
  if d_exists g then ({| d_exists := true; f_exists := true |}, Ok)
  else (g, ResourceNotFound).

Definition writebytes_code : list (action dstate res) :=
  [Local (fun l => l); Atomic writebytes_body; Local (fun l => l)].

Definition race_pool (rd : list (action dstate res)) : pool dstate res :=
  fun i => match i with
           | 0 => (rd, Pending)
           | 1 => (writebytes_code, Pending)
           | _ => ([], Pending)
           end.

Definition race_init : dstate := {| d_exists := true; f_exists := false |}.

(* thread 0: validate, check; thread 1: the whole writebytes; thread 0: act *)
Definition race_schedule : list nat := [0; 0; 1; 1; 1; 0].

(* observable outcome: final tree and the two results *)
Definition outcome (c : config dstate res) : dstate * res * res :=
  (fst c, snd (snd c 0), snd (snd c 1)).
