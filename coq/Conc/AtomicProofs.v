(* C08 -- proofs about Conc/Atomic.v.

   atomic_linearizable: threads of the form  pure prefix ; ONE atomic block ; pure suffix
   are linearizable: for every schedule and any number of threads, a completed run ends in
   exactly the shared state and the per-thread results obtained by running the calls one
   after the other in the order in which their atomic blocks committed.

   two_block_not_linearizable: a check-then-act call (two atomic blocks, the shape of
   MemoryFS.removedir = isempty ; removetree) racing with a one-block mutator has a
   schedule whose outcome no sequential order produces.  *)

From Coq Require Import List Arith Bool Lia Permutation.
Import ListNotations.
From PyFS Require Import Conc.Atomic.

(* ---- small facts *)

Lemma upd_same : forall {A : Type} (p : nat -> A) i v, upd p i v i = v.
Proof. intros. unfold upd. rewrite Nat.eqb_refl. reflexivity. Qed.

Lemma upd_other : forall {A : Type} (p : nat -> A) i j v, j <> i -> upd p i v j = p j.
Proof.
  intros. unfold upd. destruct (Nat.eqb j i) eqn:E.
  - apply Nat.eqb_eq in E. contradiction.
  - reflexivity.
Qed.

Lemma step_nil : forall {G L : Type} i (c : config G L), fst (snd c i) = [] -> step i c = c.
Proof. intros. unfold step. rewrite H. reflexivity. Qed.

Lemma step_cons : forall {G L : Type} i (c : config G L) a k,
    fst (snd c i) = a :: k ->
    step i c = (fst (exec_action a (fst c) (snd (snd c i))),
                upd (snd c) i (k, snd (exec_action a (fst c) (snd (snd c i))))).
Proof. intros. unfold step. rewrite H. reflexivity. Qed.

Lemma run_cons : forall {G L : Type} i s (c : config G L), run (i :: s) c = run s (step i c).
Proof. reflexivity. Qed.

Lemma seq_run_cons : forall {G L : Type} i o (c : config G L),
    seq_run (i :: o) c = seq_run o (seq_step i c).
Proof. reflexivity. Qed.

Lemma complete_locals : forall {G L : Type} (k : list (action G L)) g l,
    count_atomic k = 0 -> complete k g l = (g, locals_only k l).
Proof.
  induction k as [|a k IH]; intros g l H.
  - reflexivity.
  - destruct a as [f|f]; simpl in H.
    + simpl. apply IH. exact H.
    + discriminate H.
Qed.

(* ---- two thread states are equivalent when completing them gives the same thing *)

Definition teq {G L} (t t' : tstate G L) : Prop :=
  forall g, complete (fst t) g (snd t) = complete (fst t') g (snd t').

Lemma seq_run_teq : forall {G L : Type} (order : list nat) (g : G) (p p' : pool G L),
    (forall j, teq (p j) (p' j)) ->
    fst (seq_run order (g, p)) = fst (seq_run order (g, p')) /\
    forall j,
      (In j order -> snd (seq_run order (g, p)) j = snd (seq_run order (g, p')) j) /\
      (~ In j order -> snd (seq_run order (g, p)) j = p j /\
                       snd (seq_run order (g, p')) j = p' j).
Proof.
  induction order as [|i o IH]; intros g p p' H.
  - simpl. split; [reflexivity|]. intros j. split; [intros []|]. intros _. split; reflexivity.
  - rewrite !seq_run_cons.
    remember (complete (fst (p i)) g (snd (p i))) as r eqn:Er.
    assert (E1 : seq_step i (g, p) = (fst r, upd p i ([], snd r))).
    { unfold seq_step. simpl. rewrite <- Er. reflexivity. }
    assert (E2 : seq_step i (g, p') = (fst r, upd p' i ([], snd r))).
    { unfold seq_step. simpl. rewrite <- (H i g). rewrite <- Er. reflexivity. }
    rewrite E1, E2.
    assert (Hq : forall j, teq (upd p i ([], snd r) j) (upd p' i ([], snd r) j)).
    { intros j. destruct (Nat.eq_dec j i) as [->|Hne].
      - rewrite !upd_same. intros g'. reflexivity.
      - rewrite !upd_other by assumption. apply H. }
    destruct (IH (fst r) _ _ Hq) as [IH1 IH2].
    split; [exact IH1|].
    intros j. destruct (IH2 j) as [IHa IHb]. split.
    + intros Hin. destruct (in_dec Nat.eq_dec j o) as [Hjo|Hjo].
      * apply IHa. exact Hjo.
      * destruct Hin as [Heq|Hin]; [|contradiction].
        subst j. destruct (IHb Hjo) as [Ea Eb].
        rewrite upd_same in Ea, Eb.
        etransitivity; [exact Ea|]. symmetry. exact Eb.
    + intros Hn.
      assert (Hne : j <> i) by (intros ->; apply Hn; left; reflexivity).
      assert (Hjo : ~ In j o) by (intros X; apply Hn; right; exact X).
      destruct (IHb Hjo) as [Ea Eb].
      rewrite upd_other in Ea, Eb by assumption.
      split; [exact Ea|exact Eb].
Qed.

Lemma teq_refl : forall {G L : Type} (t : tstate G L), teq t t.
Proof. intros G L t g. reflexivity. Qed.

Lemma seq_run_untouched : forall {G L : Type} (order : list nat) (c : config G L) j,
    ~ In j order -> snd (seq_run order c) j = snd c j.
Proof.
  intros G L order [g p] j H.
  destruct (seq_run_teq order g p p (fun j => teq_refl (p j))) as [_ X].
  destruct (X j) as [_ Y]. destruct (Y H) as [E _]. exact E.
Qed.

(* ---- every thread has at most one atomic block left *)

Definition at_most_one {G L} (p : pool G L) : Prop :=
  forall i, count_atomic (fst (p i)) <= 1.

Lemma step_count : forall {G L : Type} i (c : config G L) j,
    count_atomic (fst (snd (step i c) j)) <= count_atomic (fst (snd c j)).
Proof.
  intros G L i c j. destruct (fst (snd c i)) as [|a k] eqn:E.
  - rewrite (step_nil i c E). lia.
  - rewrite (step_cons i c _ _ E). simpl.
    destruct (Nat.eq_dec j i) as [->|Hne].
    + rewrite upd_same. simpl. rewrite E. simpl. lia.
    + rewrite upd_other by assumption. lia.
Qed.

Lemma at_most_one_step : forall {G L : Type} i (c : config G L),
    at_most_one (snd c) -> at_most_one (snd (step i c)).
Proof.
  intros G L i c H j. eapply Nat.le_trans; [apply step_count|apply H].
Qed.

Lemma commit_order_in : forall {G L : Type} (s : list nat) (c : config G L) j,
    In j (commit_order s c) -> 1 <= count_atomic (fst (snd c j)).
Proof.
  induction s as [|i s IH]; intros c j H.
  - destruct H.
  - simpl in H. destruct (fst (snd c i)) as [|[f|f] k] eqn:E.
    + apply IH in H. eapply Nat.le_trans; [exact H|apply step_count].
    + apply IH in H. eapply Nat.le_trans; [exact H|apply step_count].
    + destruct H as [->|H].
      * rewrite E. simpl. lia.
      * apply IH in H. eapply Nat.le_trans; [exact H|apply step_count].
Qed.

(* a thread that has committed does not commit again *)
Lemma committed_not_again : forall {G L : Type} (s : list nat) (c : config G L) i f k,
    at_most_one (snd c) -> fst (snd c i) = Atomic f :: k ->
    count_atomic k = 0 /\ ~ In i (commit_order s (step i c)).
Proof.
  intros G L s c i f k Hone E.
  assert (Hk : count_atomic k = 0).
  { pose proof (Hone i) as X. rewrite E in X. simpl in X. lia. }
  split; [exact Hk|].
  intros Hin. apply commit_order_in in Hin.
  rewrite (step_cons i c _ _ E) in Hin. simpl in Hin. rewrite upd_same in Hin. simpl in Hin. lia.
Qed.

Lemma commit_order_nodup : forall {G L : Type} (s : list nat) (c : config G L),
    at_most_one (snd c) -> NoDup (commit_order s c).
Proof.
  induction s as [|i s IH]; intros c Hone.
  - constructor.
  - simpl. destruct (fst (snd c i)) as [|[f|f] k] eqn:E.
    + apply IH. apply at_most_one_step. exact Hone.
    + apply IH. apply at_most_one_step. exact Hone.
    + constructor.
      * destruct (committed_not_again s c i _ _ Hone E) as [_ X]. exact X.
      * apply IH. apply at_most_one_step. exact Hone.
Qed.

(* a thread that never commits keeps its atomic blocks *)
Lemma not_committed_count : forall {G L : Type} (s : list nat) (c : config G L) j,
    ~ In j (commit_order s c) ->
    count_atomic (fst (snd (run s c) j)) = count_atomic (fst (snd c j)).
Proof.
  induction s as [|i s IH]; intros c j H.
  - reflexivity.
  - rewrite run_cons. simpl in H. destruct (fst (snd c i)) as [|[f|f] k] eqn:E.
    + rewrite (step_nil i c E) in *. apply IH. exact H.
    + rewrite (IH _ _ H). rewrite (step_cons i c _ _ E). simpl.
      destruct (Nat.eq_dec j i) as [->|Hne].
      * rewrite upd_same. simpl. rewrite E. reflexivity.
      * rewrite upd_other by assumption. reflexivity.
    + assert (Hne : j <> i) by (intros ->; apply H; left; reflexivity).
      assert (Hjo : ~ In j (commit_order s (step i c))) by (intros X; apply H; right; exact X).
      rewrite (IH _ _ Hjo). rewrite (step_cons i c _ _ E). simpl.
      rewrite upd_other by assumption. reflexivity.
Qed.

(* ---- the invariant, stated from an arbitrary configuration on *)

Lemma linearize : forall {G L : Type} (s : list nat) (c : config G L),
    at_most_one (snd c) ->
    finished (snd (run s c)) ->
    fst (seq_run (commit_order s c) c) = fst (run s c) /\
    forall j,
      (In j (commit_order s c) ->
       snd (seq_run (commit_order s c) c) j = snd (run s c) j) /\
      (~ In j (commit_order s c) ->
       snd (snd (run s c) j) = locals_only (fst (snd c j)) (snd (snd c j))).
Proof.
  induction s as [|i s IH]; intros c Hone Hfin.
  - simpl in *. split; [reflexivity|]. intros j. split; [intros []|].
    intros _. rewrite (Hfin j). reflexivity.
  - rewrite run_cons in *. simpl commit_order.
    destruct (fst (snd c i)) as [|[f|f] k] eqn:E.
    + (* thread i has finished: the pick is skipped *)
      rewrite (step_nil i c E) in *. apply IH; assumption.
    + (* a silent step *)
      pose proof (at_most_one_step i c Hone) as Hone1.
      destruct (IH (step i c) Hone1 Hfin) as [A B].
      destruct c as [g p]. simpl in E.
      assert (Es : step i (g, p) = (g, upd p i (k, f (snd (p i))))).
      { rewrite (step_cons i (g, p) _ _ E). reflexivity. }
      rewrite Es in *.
      set (o := commit_order s (g, upd p i (k, f (snd (p i))))) in *.
      assert (Hq : forall j, teq (p j) (upd p i (k, f (snd (p i))) j)).
      { intros j. destruct (Nat.eq_dec j i) as [->|Hne].
        - rewrite upd_same. intros g'. rewrite E. reflexivity.
        - rewrite upd_other by assumption. apply teq_refl. }
      destruct (seq_run_teq o g _ _ Hq) as [T1 T2].
      split.
      * rewrite T1. exact A.
      * intros j. destruct (B j) as [Ba Bb]. destruct (T2 j) as [Ta _]. split.
        -- intros Hin. rewrite (Ta Hin). apply Ba. exact Hin.
        -- intros Hn. rewrite (Bb Hn). simpl.
           destruct (Nat.eq_dec j i) as [->|Hne].
           ++ rewrite upd_same. simpl. rewrite E. reflexivity.
           ++ rewrite upd_other by assumption. reflexivity.
    + (* the atomic block of thread i commits *)
      pose proof (at_most_one_step i c Hone) as Hone1.
      destruct (committed_not_again s c i _ _ Hone E) as [Hk Hnot].
      destruct (IH (step i c) Hone1 Hfin) as [A B].
      destruct c as [g p]. simpl in E.
      set (r := f g (snd (p i))) in *.
      assert (Es : step i (g, p) = (fst r, upd p i (k, snd r))).
      { rewrite (step_cons i (g, p) _ _ E). reflexivity. }
      rewrite Es in *.
      set (o := commit_order s (fst r, upd p i (k, snd r))) in *.
      rewrite seq_run_cons.
      assert (Eq : seq_step i (g, p) = (fst r, upd p i ([], locals_only k (snd r)))).
      { unfold seq_step. simpl. rewrite E. simpl. fold r.
        rewrite (complete_locals k (fst r) (snd r) Hk). reflexivity. }
      rewrite Eq.
      assert (Hq : forall j, teq (upd p i ([], locals_only k (snd r)) j)
                                 (upd p i (k, snd r) j)).
      { intros j. destruct (Nat.eq_dec j i) as [->|Hne].
        - rewrite !upd_same. intros g'. simpl.
          rewrite (complete_locals k g' (snd r) Hk). reflexivity.
        - rewrite !upd_other by assumption. apply teq_refl. }
      destruct (seq_run_teq o (fst r) _ _ Hq) as [T1 T2].
      split.
      * etransitivity; [exact T1|exact A].
      * intros j. destruct (B j) as [Ba Bb]. destruct (T2 j) as [Ta Tb]. split.
        -- intros Hin. destruct (in_dec Nat.eq_dec j o) as [Hjo|Hjo].
           ++ etransitivity; [exact (Ta Hjo)|exact (Ba Hjo)].
           ++ destruct Hin as [Heq|Hin]; [|contradiction]. subst j.
              destruct (Tb Hjo) as [Ea _]. rewrite upd_same in Ea.
              etransitivity; [exact Ea|].
              pose proof (Bb Hjo) as X. simpl in X. rewrite upd_same in X. simpl in X.
              pose proof (Hfin i) as Y.
              destruct (snd (run s (fst r, upd p i (k, snd r))) i) as [cd lc].
              simpl in X, Y. subst. reflexivity.
        -- intros Hn.
           assert (Hne : j <> i) by (intros ->; apply Hn; left; reflexivity).
           assert (Hjo : ~ In j o) by (intros X; apply Hn; right; exact X).
           rewrite (Bb Hjo). simpl. rewrite upd_other by assumption. reflexivity.
Qed.

(* ---- C08, the positive half *)

Theorem atomic_linearizable :
  forall {G L : Type} (n : nat) (g0 : G) (p0 : pool G L) (sched : list nat),
    (forall i, i < n -> single_atomic (fst (p0 i))) ->     (* threads 0..n-1: one block each *)
    (forall i, n <= i -> fst (p0 i) = []) ->                (* no other thread *)
    finished (snd (run sched (g0, p0))) ->                  (* the run completes *)
    let order := commit_order sched (g0, p0) in
    Permutation order (seq 0 n) /\
    fst (seq_run order (g0, p0)) = fst (run sched (g0, p0)) /\
    forall i, snd (seq_run order (g0, p0)) i = snd (run sched (g0, p0)) i.
Proof.
  intros G L n g0 p0 sched Hsingle Hnone Hfin order.
  assert (Hone : at_most_one (snd (g0, p0))).
  { intros i. simpl. destruct (Nat.lt_ge_cases i n) as [Hlt|Hge].
    - rewrite (Hsingle i Hlt). lia.
    - rewrite (Hnone i Hge). simpl. lia. }
  destruct (linearize sched (g0, p0) Hone Hfin) as [A B].
  assert (Hin : forall i, In i order <-> i < n).
  { intros i. split.
    - intros H. apply commit_order_in in H. simpl in H.
      destruct (Nat.lt_ge_cases i n) as [Hlt|Hge]; [exact Hlt|].
      rewrite (Hnone i Hge) in H. simpl in H. lia.
    - intros Hlt. destruct (in_dec Nat.eq_dec i order) as [Hi|Hi]; [exact Hi|].
      exfalso. pose proof (not_committed_count sched (g0, p0) i Hi) as X.
      rewrite (Hfin i) in X. simpl in X. rewrite (Hsingle i Hlt) in X. discriminate X. }
  split; [|split].
  - apply NoDup_Permutation.
    + apply commit_order_nodup. exact Hone.
    + apply seq_NoDup.
    + intros i. rewrite Hin. rewrite in_seq. lia.
  - exact A.
  - intros i. destruct (in_dec Nat.eq_dec i order) as [Hi|Hi].
    + destruct (B i) as [Ba _]. apply Ba. exact Hi.
    + destruct (B i) as [_ Bb].
      rewrite (seq_run_untouched order (g0, p0) i Hi). simpl.
      assert (Hge : n <= i).
      { destruct (Nat.lt_ge_cases i n) as [Hlt|Hge]; [|exact Hge].
        exfalso. apply Hi. apply Hin. exact Hlt. }
      pose proof (Bb Hi) as X. simpl in X. rewrite (Hnone i Hge) in X. simpl in X.
      pose proof (Hfin i) as Y. pose proof (Hnone i Hge) as Z.
      destruct (snd (run sched (g0, p0)) i) as [cd lc]. destruct (p0 i) as [cd0 l0].
      simpl in *. subst. reflexivity.
Qed.

(* "some sequential order of the same calls produces exactly this outcome" *)
Corollary atomic_linearizable_exists :
  forall {G L : Type} (n : nat) (g0 : G) (p0 : pool G L) (sched : list nat),
    (forall i, i < n -> single_atomic (fst (p0 i))) ->
    (forall i, n <= i -> fst (p0 i) = []) ->
    finished (snd (run sched (g0, p0))) ->
    exists order,
      Permutation order (seq 0 n) /\
      fst (seq_run order (g0, p0)) = fst (run sched (g0, p0)) /\
      forall i, snd (seq_run order (g0, p0)) i = snd (run sched (g0, p0)) i.
Proof.
  intros. exists (commit_order sched (g0, p0)). apply atomic_linearizable; assumption.
Qed.

(* ---- C08, the negative half: check-then-act is not one block *)

Theorem two_block_not_linearizable :
  count_atomic removedir_code = 2 /\
  finished (snd (run race_schedule (race_init, race_pool removedir_code))) /\
  outcome (run race_schedule (race_init, race_pool removedir_code))
    = ({| d_exists := false; f_exists := false |}, Ok, Ok) /\
  forall order, Permutation [0; 1] order ->
    outcome (seq_run order (race_init, race_pool removedir_code))
      <> outcome (run race_schedule (race_init, race_pool removedir_code)).
Proof.
  split; [reflexivity|]. split; [|split].
  - intros i. destruct i as [|[|i]]; reflexivity.
  - reflexivity.
  - intros order Hp. apply Permutation_length_2_inv in Hp.
    destruct Hp as [->| ->]; vm_compute; discriminate.
Qed.

(* the same call with check and act under one lock is linearizable for every schedule *)
Corollary one_block_removedir_linearizable :
  forall sched,
    finished (snd (run sched (race_init, race_pool removedir_atomic_code))) ->
    exists order,
      Permutation order [0; 1] /\
      outcome (seq_run order (race_init, race_pool removedir_atomic_code))
        = outcome (run sched (race_init, race_pool removedir_atomic_code)).
Proof.
  intros sched Hfin.
  destruct (atomic_linearizable_exists 2 race_init (race_pool removedir_atomic_code) sched)
    as [order [P [A B]]].
  - intros i Hi. destruct i as [|[|i]]; [reflexivity|reflexivity|lia].
  - intros i Hi. destruct i as [|[|i]]; [lia|lia|reflexivity].
  - exact Hfin.
  - exists order. split; [exact P|]. unfold outcome. rewrite A, (B 0), (B 1). reflexivity.
Qed.
