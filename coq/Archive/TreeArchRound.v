(* C15 -- the round trip write -> read on TREE level (model: Archive/TreeArch.v):
   whatever well-formed tree write_zip / write_tar is given, ReadZipFS / ReadTarFS presents exactly
   that tree again (same entry order, times as stored by the container, no time on the root). *)
From Coq Require Import List NArith ZArith Bool Arith Lia.
From PyFS Require Import Base.PyStr Base.Outcome Path.PathModel Path.PathSpec Path.PathProofs
     FS.Tree FS.Ref FS.Wf FS.TreeLemmas FS.RefineWalkLemmasMk
     Archive.Members Archive.MembersProofs Archive.TreeArch.
Import ListNotations.

(* ================================================================ lists *)

Lemma NoDup_app_intro {A} (a b : list A) :
  NoDup a -> NoDup b -> (forall x, In x a -> ~ In x b) -> NoDup (a ++ b).
Proof.
  induction a as [|x a IH]; intros Ha Hb Hd; [exact Hb|].
  inversion Ha as [|? ? Hx Ha']; subst. simpl. constructor.
  - intro Hi. apply in_app_or in Hi as [Hi|Hi]; [contradiction|].
    apply (Hd x); [now left|exact Hi].
  - apply IH; auto. intros y Hy. apply Hd. now right.
Qed.

Lemma NoDup_flat_map_gen {A B} (f : A -> list B) l :
  NoDup l -> (forall x, In x l -> NoDup (f x)) ->
  (forall x y b, In x l -> In y l -> In b (f x) -> In b (f y) -> x = y) ->
  NoDup (flat_map f l).
Proof.
  induction l as [|x l IH]; intros Hl Hf Hd; [constructor|].
  inversion Hl as [|? ? Hx Hl']; subst. simpl. apply NoDup_app_intro.
  - apply Hf. now left.
  - apply IH; auto.
    + intros y Hy. apply Hf. now right.
    + intros y z b Hy Hz. apply Hd; now right.
  - intros b Hb Hi. apply in_flat_map in Hi as [y [Hy Hby]].
    assert (x = y) by (apply (Hd x y b); auto; [now left|now right]). subst y. contradiction.
Qed.

Lemma NoDup_map_inj_in {A B} (f : A -> B) l :
  (forall x y, In x l -> In y l -> f x = f y -> x = y) -> NoDup l -> NoDup (map f l).
Proof.
  induction l as [|x l IH]; intros Hinj Hl; [constructor|].
  inversion Hl as [|? ? Hx Hl']; subst. simpl. constructor.
  - intro Hi. apply in_map_iff in Hi as [y [Hy Hin]].
    assert (y = x) by (apply Hinj; auto; [now right|now left]). subst y. contradiction.
  - apply IH; auto. intros y z Hy Hz. apply Hinj; now right.
Qed.

Lemma map_flat_map {A B C} (g : B -> C) (f : A -> list B) l :
  map g (flat_map f l) = flat_map (fun x => map g (f x)) l.
Proof. induction l as [|x l IH]; simpl; [reflexivity|]. now rewrite map_app, IH. Qed.

Lemma filter_none {A} (f : A -> bool) l : (forall x, In x l -> f x = false) -> filter f l = [].
Proof.
  induction l as [|x l IH]; intro H; [reflexivity|]. simpl.
  rewrite (H x) by now left. apply IH. intros y Hy. apply H. now right.
Qed.

Lemma find_unique {A} (f : A -> bool) l x :
  In x l -> f x = true -> (forall y, In y l -> f y = true -> y = x) -> find f l = Some x.
Proof.
  induction l as [|z l IH]; intros Hin Hfx Hu; [contradiction|]. simpl.
  destruct (f z) eqn:E.
  - f_equal. apply Hu; [now left|exact E].
  - destruct Hin as [->|Hin]; [congruence|]. apply IH; auto. intros y Hy. apply Hu. now right.
Qed.

(* ================================================================ association lists / trees *)

Lemma In_assoc {A} k (v : A) l : NoDup (keys l) -> In (k, v) l -> assoc k l = Some v.
Proof.
  induction l as [|[k2 v2] r IH]; simpl; intros Hnd Hin; [contradiction|].
  inversion Hnd as [|? ? Hn Hr]; subst.
  destruct Hin as [E|Hin].
  - inversion E; subst. now rewrite str_eqb_refl.
  - destruct (str_eqb k k2) eqn:E.
    + apply str_eqb_eq in E. subst k2. exfalso. apply Hn.
      change (In (fst (k, v)) (map fst r)). now apply in_map.
    + now apply IH.
Qed.

Lemma assoc_set_none_app {A} k (v : A) l : assoc k l = None -> assoc_set k v l = l ++ [(k, v)].
Proof.
  induction l as [|[k2 v2] r IH]; simpl; [reflexivity|].
  destruct (str_eqb k k2); [discriminate|]. intro H. now rewrite IH.
Qed.

Lemma assoc_set_id {A} k (v : A) l : assoc k l = Some v -> assoc_set k v l = l.
Proof.
  induction l as [|[k2 v2] r IH]; simpl; [discriminate|].
  destruct (str_eqb k k2) eqn:E.
  - intro H. inversion H; subst. apply str_eqb_eq in E. now subst.
  - intro H. now rewrite IH.
Qed.

Lemma assoc_app_notin {A} k (a b : list (str * A)) :
  ~ In k (keys a) -> assoc k (a ++ b) = assoc k b.
Proof.
  induction a as [|[k2 v2] r IH]; simpl; intro H; [reflexivity|].
  destruct (str_eqb k k2) eqn:E.
  - apply str_eqb_eq in E. subst. exfalso. apply H. now left.
  - apply IH. intro Hi. apply H. now right.
Qed.

Lemma assoc_set_app_notin {A} k (v : A) (a b : list (str * A)) :
  ~ In k (keys a) -> assoc_set k v (a ++ b) = a ++ assoc_set k v b.
Proof.
  induction a as [|[k2 v2] r IH]; simpl; intro H; [reflexivity|].
  destruct (str_eqb k k2) eqn:E.
  - apply str_eqb_eq in E. subst. exfalso. apply H. now left.
  - rewrite IH; [reflexivity|]. intro Hi. apply H. now right.
Qed.

Lemma assoc_map_snd {A B} (f : A -> B) k (l : list (str * A)) :
  assoc k (map (fun e => (fst e, f (snd e))) l) = option_map f (assoc k l).
Proof.
  induction l as [|[k2 v2] r IH]; simpl; [reflexivity|].
  destruct (str_eqb k k2); [reflexivity|exact IH].
Qed.

Lemma keys_map_snd {A B} (f : A -> B) (l : list (str * A)) :
  keys (map (fun e => (fst e, f (snd e))) l) = keys l.
Proof. unfold keys. rewrite map_map. reflexivity. Qed.

Lemma tree_size_dir ents m :
  tree_size (Dir ents m) = S (list_sum (map (fun e => tree_size (snd e)) ents)).
Proof.
  cbn [tree_size]. f_equal.
  unfold list_sum. induction ents as [|[k n] r IH]; [reflexivity|]. cbn [map fold_right snd]. now rewrite IH.
Qed.

Lemma tree_size_pos t : 1 <= tree_size t.
Proof. destruct t; [simpl; lia|rewrite tree_size_dir; lia]. Qed.

Lemma tree_size_child ents m e : In e ents -> tree_size (snd e) < tree_size (Dir ents m).
Proof.
  rewrite tree_size_dir. intro H.
  assert (tree_size (snd e) <= list_sum (map (fun e => tree_size (snd e)) ents)); [|lia].
  unfold list_sum. induction ents as [|x r IH]; [contradiction|]. cbn [map fold_right].
  destruct H as [->|H]; [lia|]. specialize (IH H). lia.
Qed.

Lemma lookup_size q : forall t n, lookup t q = Some n -> length q + tree_size n <= tree_size t.
Proof.
  induction q as [|c q IH]; intros t n H.
  - simpl in H. inversion H; subst. simpl. lia.
  - simpl in H. destruct t as [|ents m]; [discriminate|].
    destruct (assoc c ents) as [ch|] eqn:E; [|discriminate].
    apply IH in H. apply assoc_some_In in E.
    pose proof (tree_size_child ents m (c, ch) E) as Hc. cbn [snd] in Hc. simpl length. lia.
Qed.

(* ================================================================ the breadth-first walk *)

Lemma at_depth_In k : forall pre t p n, wf_node t ->
  (In (p, n) (at_depth k pre t) <->
   exists q, p = pre ++ q /\ length q = S k /\ lookup t q = Some n).
Proof.
  induction k as [|k IH]; intros pre t p n W.
  - destruct t as [d m|ents m]; cbn [at_depth].
    + split; [contradiction|]. intros (q & _ & Hl & H). destruct q; simpl in *; discriminate.
    + apply wf_node_dir in W as (Hnd & _ & _). split.
      * intro H. apply in_map_iff in H as ([c ch] & E & Hin). cbn [fst snd] in E.
        inversion E; subst. exists [c]. repeat split. simpl.
        now rewrite (In_assoc _ _ _ Hnd Hin).
      * intros (q & -> & Hl & H). destruct q as [|c [|c2 q]]; try discriminate.
        simpl in H. destruct (assoc c ents) as [ch|] eqn:E; [|discriminate].
        inversion H; subst ch. apply assoc_some_In in E.
        apply in_map_iff. exists (c, n). split; [reflexivity|exact E].
  - destruct t as [d m|ents m]; cbn [at_depth].
    + split; [contradiction|]. intros (q & _ & Hl & H). destruct q; simpl in *; discriminate.
    + apply wf_node_dir in W as (Hnd & _ & Hw). rewrite Forall_forall in Hw. split.
      * intro H. apply in_flat_map in H as ([c ch] & Hin & H). cbn [fst snd] in H.
        apply IH in H; [|exact (Hw _ Hin)]. destruct H as (q & -> & Hl & H).
        exists (c :: q). rewrite <- app_assoc. repeat split; [simpl; lia|].
        simpl. now rewrite (In_assoc _ _ _ Hnd Hin).
      * intros (q & -> & Hl & H). destruct q as [|c q]; [discriminate|].
        simpl in H. destruct (assoc c ents) as [ch|] eqn:E; [|discriminate].
        apply assoc_some_In in E. apply in_flat_map. exists (c, ch). split; [exact E|].
        cbn [fst snd]. apply IH; [exact (Hw _ E)|]. exists q. rewrite <- app_assoc.
        repeat split; [simpl in Hl; lia|exact H].
Qed.

Theorem bfs_complete : forall t, wf_node t ->
  forall p n, In (p, n) (bfs t) <-> (p <> [] /\ lookup t p = Some n).
Proof.
  intros t W p n. unfold bfs. rewrite in_flat_map. split.
  - intros (k & _ & H). apply at_depth_In in H; [|exact W].
    destruct H as (q & -> & Hl & H). simpl. split; [|exact H]. destruct q; discriminate.
  - intros [Hne H]. destruct p as [|c p]; [congruence|]. exists (length p). split.
    + apply in_seq. apply lookup_size in H. pose proof (tree_size_pos n). simpl in *. lia.
    + apply at_depth_In; [exact W|]. exists (c :: p). auto.
Qed.

Lemma at_depth_form k : forall pre t p, In p (map fst (at_depth k pre t)) ->
  exists q, p = pre ++ q /\ length q = S k.
Proof.
  induction k as [|k IH]; intros pre t p H; destruct t as [d m|ents m]; cbn [at_depth] in H;
    try contradiction.
  - rewrite map_map in H. apply in_map_iff in H as (e & <- & _). cbn [fst]. now exists [fst e].
  - rewrite map_flat_map in H. apply in_flat_map in H as (e & _ & H).
    apply IH in H as (q & -> & Hl). exists (fst e :: q). rewrite <- app_assoc.
    split; [reflexivity|simpl; lia].
Qed.

Lemma at_depth_nodup k : forall pre t, wf_node t -> NoDup (map fst (at_depth k pre t)).
Proof.
  induction k as [|k IH]; intros pre t W; destruct t as [d m|ents m]; cbn [at_depth];
    try constructor; apply wf_node_dir in W as (Hnd & _ & Hw).
  - rewrite map_map. cbn [fst].
    replace (map (fun x : str * node => pre ++ [fst x]) ents)
      with (map (fun c => pre ++ [c]) (keys ents)) by (unfold keys; now rewrite map_map).
    apply NoDup_map_inj_in; [|exact Hnd].
    intros x y _ _ E. apply app_inv_head in E. now inversion E.
  - rewrite map_flat_map. rewrite Forall_forall in Hw. apply NoDup_flat_map_gen.
    + eapply NoDup_map_inv. exact Hnd.
    + intros e He. apply IH. exact (Hw _ He).
    + intros [c1 n1] [c2 n2] b H1 H2 Hb1 Hb2. cbn [fst snd] in *.
      apply at_depth_form in Hb1 as (q1 & -> & _). apply at_depth_form in Hb2 as (q2 & E & _).
      rewrite <- !app_assoc in E. apply app_inv_head in E. inversion E; subst c2.
      pose proof (In_assoc _ _ _ Hnd H1) as A1. pose proof (In_assoc _ _ _ Hnd H2) as A2.
      congruence.
Qed.

Theorem bfs_nodup : forall t, wf_node t -> NoDup (map fst (bfs t)).
Proof.
  intros t W. unfold bfs. rewrite map_flat_map. apply NoDup_flat_map_gen.
  - apply seq_NoDup.
  - intros k _. now apply at_depth_nodup.
  - intros k1 k2 b _ _ H1 H2.
    apply at_depth_form in H1 as (q1 & -> & L1). apply at_depth_form in H2 as (q2 & E & L2).
    simpl in E. subst q2. lia.
Qed.
Print Assumptions bfs_complete.
Print Assumptions bfs_nodup.

(* ================================================================ stamp *)

Lemma stamp_dir now tm ents m :
  stamp now tm (Dir ents m) =
  Dir (map (fun e => (fst e, stamp now tm (snd e))) ents) (Some (tm (node_time now (Dir ents m)))).
Proof.
  cbn [stamp]. f_equal. induction ents as [|[k c] r IH]; [reflexivity|].
  cbn [map fst snd]. now rewrite IH.
Qed.

Lemma files_of_dir' ents m :
  files_of (Dir ents m) =
  flat_map (fun e => map (fun pb => (fst e :: fst pb, snd pb)) (files_of (snd e))) ents.
Proof.
  cbn [files_of]. induction ents as [|[k c] r IH]; [reflexivity|].
  cbn [flat_map fst snd]. now rewrite IH.
Qed.

Lemma paths_of_dir' ents m :
  paths_of (Dir ents m) =
  flat_map (fun e => ([fst e], is_dir (snd e)) ::
                     map (fun pb => (fst e :: fst pb, snd pb)) (paths_of (snd e))) ents.
Proof.
  cbn [paths_of]. induction ents as [|[k c] r IH]; [reflexivity|].
  cbn [flat_map fst snd app]. now rewrite IH.
Qed.

Lemma is_dir_stamp now tm n : is_dir (stamp now tm n) = is_dir n.
Proof. destruct n; reflexivity. Qed.

Lemma stamp_files_node now tm : forall t, files_of (stamp now tm t) = files_of t.
Proof.
  induction t as [d m|ents m IH] using node_ind'; [reflexivity|].
  rewrite stamp_dir, !files_of_dir'.
  induction IH as [|[k c] r Hc _ IHr]; [reflexivity|].
  cbn [map flat_map fst snd] in *. now rewrite Hc, IHr.
Qed.

Lemma stamp_paths_node now tm : forall t, paths_of (stamp now tm t) = paths_of t.
Proof.
  induction t as [d m|ents m IH] using node_ind'; [reflexivity|].
  rewrite stamp_dir, !paths_of_dir'.
  induction IH as [|[k c] r Hc _ IHr]; [reflexivity|].
  cbn [map flat_map fst snd] in *. now rewrite Hc, IHr, is_dir_stamp.
Qed.

Lemma stamp_root_dir now tm ents m :
  stamp_root now tm (Dir ents m) = Dir (map (fun e => (fst e, stamp now tm (snd e))) ents) None.
Proof. unfold stamp_root. now rewrite stamp_dir. Qed.

Theorem stamp_files : forall now tm t, files_of (stamp_root now tm t) = files_of t.
Proof.
  intros now tm [d m|ents m]; [reflexivity|].
  rewrite <- (stamp_files_node now tm (Dir ents m)), stamp_root_dir, stamp_dir.
  now rewrite !files_of_dir'.
Qed.

Theorem stamp_paths : forall now tm t, paths_of (stamp_root now tm t) = paths_of t.
Proof.
  intros now tm [d m|ents m]; [reflexivity|].
  rewrite <- (stamp_paths_node now tm (Dir ents m)), stamp_root_dir, stamp_dir.
  now rewrite !paths_of_dir'.
Qed.
Print Assumptions stamp_files.
Print Assumptions stamp_paths.

(* ================================================================ put *)

Lemma notin_assoc_none {A} k (l : list (str * A)) : ~ In k (keys l) -> assoc k l = None.
Proof.
  intro H. destruct (assoc k l) eqn:E; [|reflexivity]. apply assoc_some_in in E. contradiction.
Qed.

Lemma put_snoc d : forall b c x es m, lookup b d = Some (Dir es m) ->
  put b (d ++ [c]) x = put b d (Dir (assoc_set c x es) m).
Proof.
  induction d as [|a d IH]; intros b c x es m H.
  - simpl in H. inversion H; subst. reflexivity.
  - simpl in H. destruct b as [|e0 m0]; [discriminate|].
    destruct (assoc a e0) as [ch|] eqn:E; [|discriminate].
    change ((a :: d) ++ [c]) with (a :: (d ++ [c])).
    rewrite put_cons_ne by apply snoc_ne. rewrite E. rewrite (IH ch c x es m H).
    destruct d as [|a2 d2]; [reflexivity|].
    rewrite (put_cons_ne e0 m0 a (a2 :: d2)) by discriminate. now rewrite E.
Qed.

Lemma lookup_put_eq d : forall b n x, lookup b d = Some n -> lookup (put b d x) d = Some x.
Proof.
  induction d as [|a d IH]; intros b n x H; [reflexivity|].
  simpl in H. destruct b as [|e0 m0]; [discriminate|].
  destruct (assoc a e0) as [ch|] eqn:E; [|discriminate].
  destruct d as [|a2 d2].
  - simpl. now rewrite assoc_set_same.
  - rewrite put_cons_ne by discriminate. rewrite E.
    remember (a2 :: d2) as d'. simpl. rewrite assoc_set_same. subst d'. eapply IH; eauto.
Qed.

Lemma put_id d : forall b n, lookup b d = Some n -> put b d n = b.
Proof.
  induction d as [|a d IH]; intros b n H.
  - simpl in H. inversion H. reflexivity.
  - simpl in H. destruct b as [|e0 m0]; [discriminate|].
    destruct (assoc a e0) as [ch|] eqn:E; [|discriminate].
    destruct d as [|a2 d2].
    + simpl in H. inversion H; subst. simpl. now rewrite assoc_set_id.
    + rewrite put_cons_ne by discriminate. rewrite E. rewrite (IH ch n H).
      now rewrite assoc_set_id.
Qed.

(* all names of a tree satisfy P *)
Fixpoint tok (P : str -> Prop) (t : node) : Prop :=
  match t with
  | File _ _ => True
  | Dir ents _ =>
    (fix go (l : list (str * node)) : Prop :=
       match l with [] => True | (k, c) :: r => P k /\ tok P c /\ go r end) ents
  end.

Lemma tok_dir P ents m :
  tok P (Dir ents m) <-> Forall (fun e => P (fst e) /\ tok P (snd e)) ents.
Proof.
  cbn [tok]. induction ents as [|[k c] r IH].
  - split; auto.
  - split.
    + intros (H1 & H2 & H3). constructor; [split; assumption|]. now apply IH.
    + intro H. inversion H as [|? ? [H1 H2] H3]; subst. cbn [fst snd] in *.
      split; [assumption|]. split; [assumption|]. now apply IH.
Qed.

Lemma tok_lookup P p : forall t n, tok P t -> lookup t p = Some n -> Forall P p /\ tok P n.
Proof.
  induction p as [|c p IH]; intros t n T H.
  - simpl in H. inversion H; subst. split; [constructor|exact T].
  - simpl in H. destruct t as [|ents m]; [discriminate|].
    destruct (assoc c ents) as [ch|] eqn:E; [|discriminate].
    apply tok_dir in T. rewrite Forall_forall in T. apply assoc_some_In in E.
    destruct (T _ E) as [Hc Hch]. cbn [fst snd] in *.
    destruct (IH ch n Hch H) as [Hp Hn]. split; [constructor; assumption|exact Hn].
Qed.

Lemma tok_wf t : wf_node t -> tok good t.
Proof.
  induction t as [d m|ents m IH] using node_ind'; intro W; [exact I|].
  apply wf_node_dir in W as (_ & Hg & Hw). apply tok_dir.
  rewrite Forall_forall in *. intros e He. split.
  - apply Hg. unfold keys. now apply in_map.
  - apply IH; [exact He|]. now apply Hw.
Qed.

Lemma tok_and (P Q : str -> Prop) t : tok P t -> tok Q t -> tok (fun c => P c /\ Q c) t.
Proof.
  induction t as [d m|ents m IH] using node_ind'; intros HP HQ; [exact I|].
  apply tok_dir in HP. apply tok_dir in HQ. apply tok_dir.
  rewrite Forall_forall in *. intros e He.
  destruct (HP e He) as [P1 P2]. destruct (HQ e He) as [Q1 Q2]. split; [tauto|].
  now apply IH.
Qed.

(* ================================================================ building a tree level by level *)

Section Build.
  Variable lfile : bytes -> option Z -> node.
  Variable dm : option Z -> option Z.
  Variable P : str -> Prop.
  Variable step : node -> list str * node -> option node.

  (* the node the reader creates for a resource, before anything is put below it *)
  Definition lf (n : node) : node :=
    match n with File d m => lfile d m | Dir _ m => Dir [] (dm m) end.

  Hypothesis step_spec : forall b d c n es m,
    Forall P (d ++ [c]) -> lookup b d = Some (Dir es m) -> assoc c es = None ->
    step b (d ++ [c], n) = Some (put b (d ++ [c]) (lf n)).

  Fixpoint run (b : node) (l : list (list str * node)) : option node :=
    match l with
    | [] => Some b
    | x :: r => match step b x with Some b' => run b' r | None => None end
    end.

  Lemma run_app a : forall b c,
    run b (a ++ c) = match run b a with Some b' => run b' c | None => None end.
  Proof.
    induction a as [|x a IH]; intros b c; [reflexivity|]. simpl.
    destruct (step b x); [apply IH|reflexivity].
  Qed.

  (* s cut below depth k *)
  Fixpoint tr (k : nat) (n : node) : node :=
    match k with
    | 0 => lf n
    | S k' =>
      match n with
      | File _ _ => lf n
      | Dir ents m => Dir (map (fun e => (fst e, tr k' (snd e))) ents) (dm m)
      end
    end.

  Lemma tr_file k d m : tr k (File d m) = lfile d m.
  Proof. destruct k; reflexivity. Qed.

  Lemma at_depth_file k pre d m : at_depth k pre (File d m) = [].
  Proof. destruct k; reflexivity. Qed.

  Lemma run_level0 : forall todo pre b done mm,
    Forall P pre -> Forall (fun e => P (fst e)) todo -> NoDup (keys todo) ->
    (forall c, In c (keys todo) -> ~ In c (keys done)) ->
    lookup b pre = Some (Dir done mm) ->
    run b (map (fun e => (pre ++ [fst e], snd e)) todo) =
    Some (put b pre (Dir (done ++ map (fun e => (fst e, lf (snd e))) todo) mm)).
  Proof.
    induction todo as [|[c n] r IH]; intros pre b done mm Hpre HP Hnd Hdis Hl.
    - cbn [map run]. rewrite app_nil_r. now rewrite (put_id _ _ _ Hl).
    - cbn [map run fst snd].
      inversion HP as [|? ? Hc HPr]; subst. inversion Hnd as [|? ? Hcn Hndr]; subst.
      cbn [fst] in Hc.
      assert (Ha : assoc c done = None).
      { apply notin_assoc_none. apply Hdis. now left. }
      rewrite (step_spec b pre c n done mm); [|apply Forall_app; split; auto|exact Hl|exact Ha].
      rewrite (put_snoc pre b c (lf n) done mm Hl). rewrite (assoc_set_none_app _ _ _ Ha).
      rewrite (IH pre _ (done ++ [(c, lf n)]) mm); auto.
      + rewrite put_put. now rewrite <- app_assoc.
      + intros k Hk Hin. unfold keys in Hin. rewrite map_app in Hin.
        apply in_app_or in Hin as [Hin|Hin].
        * apply (Hdis k); [now right|exact Hin].
        * simpl in Hin. destruct Hin as [<-|[]]. contradiction.
      + eapply lookup_put_eq; eauto.
  Qed.

  Section LevelS.
    Variable k : nat.
    Hypothesis IHk : forall s pre b, wf_node s -> tok P s -> Forall P pre ->
      lookup b pre = Some (tr k s) ->
      run b (at_depth k pre s) = Some (put b pre (tr (S k) s)).

    Lemma run_levelS : forall todo pre b done mm,
      Forall P pre ->
      Forall (fun e => P (fst e) /\ tok P (snd e) /\ wf_node (snd e)) todo ->
      NoDup (keys todo) ->
      (forall c, In c (keys todo) -> ~ In c (keys done)) ->
      lookup b pre = Some (Dir (done ++ map (fun e => (fst e, tr k (snd e))) todo) mm) ->
      run b (flat_map (fun e => at_depth k (pre ++ [fst e]) (snd e)) todo) =
      Some (put b pre (Dir (done ++ map (fun e => (fst e, tr (S k) (snd e))) todo) mm)).
    Proof.
      induction todo as [|[c n] r IH]; intros pre b done mm Hpre HP Hnd Hdis Hl.
      - cbn [map flat_map run] in *. now rewrite (put_id _ _ _ Hl).
      - cbn [flat_map map fst snd] in *. rewrite run_app.
        inversion HP as [|? ? (Hc & Htk & Hwf) HPr]; subst.
        inversion Hnd as [|? ? Hcn Hndr]; subst. cbn [fst snd] in *.
        assert (Hnot : ~ In c (keys done)) by (apply Hdis; now left).
        assert (Hlc : lookup b (pre ++ [c]) = Some (tr k n)).
        { rewrite lookup_snoc, Hl. rewrite assoc_app_notin by exact Hnot.
          simpl. now rewrite str_eqb_refl. }
        rewrite (IHk n (pre ++ [c]) b Hwf Htk); [|apply Forall_app; split; auto|exact Hlc].
        rewrite (put_snoc pre b c _ _ mm Hl). rewrite assoc_set_app_notin by exact Hnot.
        cbn [assoc_set]. rewrite str_eqb_refl.
        rewrite (IH pre _ (done ++ [(c, tr (S k) n)]) mm); auto.
        + rewrite put_put. now rewrite <- app_assoc.
        + intros x Hx Hin. unfold keys in Hin. rewrite map_app in Hin.
          apply in_app_or in Hin as [Hin|Hin].
          * apply (Hdis x); [now right|exact Hin].
          * simpl in Hin. destruct Hin as [<-|[]]. contradiction.
        + rewrite <- app_assoc. eapply lookup_put_eq; eauto.
    Qed.
  End LevelS.

  Lemma wf_tok_entries ents m : wf_node (Dir ents m) -> tok P (Dir ents m) ->
    Forall (fun e => P (fst e) /\ tok P (snd e) /\ wf_node (snd e)) ents.
  Proof.
    intros W T. apply wf_node_dir in W as (_ & _ & Hw). apply tok_dir in T.
    rewrite Forall_forall in *. intros e He. destruct (T e He). auto.
  Qed.

  Lemma run_level k : forall s pre b, wf_node s -> tok P s -> Forall P pre ->
    lookup b pre = Some (tr k s) ->
    run b (at_depth k pre s) = Some (put b pre (tr (S k) s)).
  Proof.
    induction k as [|k IHk]; intros s pre b W T Hpre Hl.
    - destruct s as [d m|ents m].
      + cbn [at_depth run]. rewrite tr_file in *. now rewrite (put_id _ _ _ Hl).
      + cbn [at_depth tr lf] in *.
        pose proof (wf_tok_entries ents m W T) as HE.
        apply wf_node_dir in W as (Hnd & _ & _).
        rewrite (run_level0 ents pre b [] (dm m)); auto.
        * eapply Forall_impl; [|exact HE]. cbn. tauto.
    - destruct s as [d m|ents m].
      + rewrite at_depth_file. cbn [run]. rewrite tr_file in *. now rewrite (put_id _ _ _ Hl).
      + pose proof (wf_tok_entries ents m W T) as HE.
        apply wf_node_dir in W as (Hnd & _ & _).
        cbn [at_depth]. change (tr (S k) (Dir ents m))
          with (Dir (map (fun e => (fst e, tr k (snd e))) ents) (dm m)) in Hl.
        rewrite (run_levelS k IHk ents pre b [] (dm m)); auto.
  Qed.

  Definition rootk (k : nat) (ents : list (str * node)) : node :=
    match k with
    | 0 => Dir [] None
    | S k' => Dir (map (fun e => (fst e, tr k' (snd e))) ents) None
    end.

  Lemma run_root ents m : wf_node (Dir ents m) -> tok P (Dir ents m) ->
    forall k, run (rootk k ents) (at_depth k [] (Dir ents m)) = Some (rootk (S k) ents).
  Proof.
    intros W T k. pose proof (wf_tok_entries ents m W T) as HE.
    apply wf_node_dir in W as (Hnd & _ & _). destruct k as [|k]; cbn [at_depth rootk].
    - rewrite (run_level0 ents [] (Dir [] None) [] None); auto.
      eapply Forall_impl; [|exact HE]. cbn. tauto.
    - rewrite (run_levelS k (run_level k) ents [] _ [] None); auto.
  Qed.

  Lemma run_levels ents m : wf_node (Dir ents m) -> tok P (Dir ents m) ->
    forall N, run (rootk 0 ents) (flat_map (fun k => at_depth k [] (Dir ents m)) (seq 0 N)) =
              Some (rootk N ents).
  Proof.
    intros W T. induction N as [|N IH]; [reflexivity|].
    rewrite seq_S, flat_map_app, run_app, IH. cbn [flat_map plus]. rewrite app_nil_r.
    now apply run_root.
  Qed.

  (* the whole tree as the reader creates it *)
  Fixpoint full (n : node) : node :=
    match n with
    | File d m => lfile d m
    | Dir ents m =>
      Dir ((fix go (l : list (str * node)) : list (str * node) :=
              match l with [] => [] | (k, c) :: r => (k, full c) :: go r end) ents) (dm m)
    end.

  Lemma full_dir ents m :
    full (Dir ents m) = Dir (map (fun e => (fst e, full (snd e))) ents) (dm m).
  Proof.
    cbn [full]. f_equal. induction ents as [|[k c] r IH]; [reflexivity|].
    cbn [map fst snd]. now rewrite IH.
  Qed.

  Lemma tr_full : forall k n, tree_size n <= S k -> tr k n = full n.
  Proof.
    induction k as [|k IH]; intros [d m|ents m] H; try reflexivity.
    - destruct ents as [|e r]; [reflexivity|]. exfalso.
      pose proof (tree_size_child (e :: r) m e (or_introl eq_refl)).
      pose proof (tree_size_pos (snd e)). lia.
    - rewrite full_dir. cbn [tr]. f_equal. apply map_ext_in. intros e He. f_equal.
      apply IH. pose proof (tree_size_child ents m e He). lia.
  Qed.

  Lemma run_bfs ents m : wf_node (Dir ents m) -> tok P (Dir ents m) ->
    run empty_dir (bfs (Dir ents m)) = Some (Dir (map (fun e => (fst e, full (snd e))) ents) None).
  Proof.
    intros W T. unfold bfs. change empty_dir with (rootk 0 ents).
    rewrite (run_levels ents m W T).
    remember (tree_size (Dir ents m)) as N eqn:EN. destruct N as [|N].
    - pose proof (tree_size_pos (Dir ents m)). lia.
    - cbn [rootk]. f_equal. f_equal. apply map_ext_in. intros e He. f_equal.
      apply tr_full. pose proof (tree_size_child ents m e He). lia.
  Qed.

  Lemma lookup_full p : forall t n, lookup t p = Some n -> lookup (full t) p = Some (full n).
  Proof.
    induction p as [|c p IH]; intros t n H.
    - simpl in H. inversion H. reflexivity.
    - simpl in H. destruct t as [|ents m]; [discriminate|].
      destruct (assoc c ents) as [ch|] eqn:E; [|discriminate].
      rewrite full_dir. simpl. rewrite (assoc_map_snd full), E. simpl. now apply IH.
  Qed.
End Build.

(* ================================================================ what the walk yields *)

Lemma bfs_item t : wf_node t -> forall it, In it (bfs t) ->
  fst it <> [] /\ Forall good (fst it) /\ lookup t (fst it) = Some (snd it).
Proof.
  intros W [p n] H. apply bfs_complete in H as [Hne Hl]; [|exact W]. cbn [fst snd].
  split; [exact Hne|]. split; [|exact Hl].
  exact (proj1 (tok_lookup good p t n (tok_wf t W) Hl)).
Qed.

Lemma to_path_inj p q : p <> [] -> q <> [] -> Forall good p -> Forall good q ->
  to_path false p = to_path false q -> p = q.
Proof.
  intros Hp Hq Gp Gq E. apply (f_equal (split_on slash)) in E.
  rewrite !split_to_path in E by assumption. exact E.
Qed.

Lemma bfs_keys_nodup t : wf_node t -> NoDup (map (fun it => to_path false (fst it)) (bfs t)).
Proof.
  intro W. rewrite <- (map_map fst (to_path false)).
  apply NoDup_map_inj_in; [|now apply bfs_nodup].
  intros p q Hp Hq E.
  apply in_map_iff in Hp as (ip & <- & Hp). apply in_map_iff in Hq as (iq & <- & Hq).
  destruct (bfs_item t W ip Hp) as (P1 & P2 & _). destruct (bfs_item t W iq Hq) as (Q1 & Q2 & _).
  now apply to_path_inj.
Qed.

(* ================================================================ tar *)

Definition tar_lfile (now : Z) (tm : Z -> Z) (d : bytes) (m : option Z) : node :=
  File d (Some (tm (node_time now (File d m)))).
Definition tar_dm (now : Z) (tm : Z -> Z) (m : option Z) : option Z :=
  Some (tm (match m with Some z => z | None => now end)).

Lemma full_stamp now tm : forall n, full (tar_lfile now tm) (tar_dm now tm) n = stamp now tm n.
Proof.
  induction n as [d m|ents m IH] using node_ind'; [reflexivity|].
  rewrite full_dir, stamp_dir. f_equal. apply map_ext_in. intros e He. f_equal.
  rewrite Forall_forall in IH. now apply IH.
Qed.

Lemma tins_put d : forall b c es mm m, lookup b d = Some (Dir es mm) -> assoc c es = None ->
  tins b (d ++ [c]) m =
  put b (d ++ [c]) (if m_dir m then Dir [] (Some (m_mt m)) else File (m_data m) (Some (m_mt m))).
Proof.
  induction d as [|a d IH]; intros b c es mm m Hl Ha.
  - simpl in Hl. inversion Hl; subst. cbn [app tins put]. rewrite Ha. reflexivity.
  - simpl in Hl. destruct b as [|e0 m0]; [discriminate|].
    destruct (assoc a e0) as [ch|] eqn:E; [|discriminate].
    change ((a :: d) ++ [c]) with (a :: (d ++ [c])).
    rewrite put_cons_ne by apply snoc_ne. rewrite E.
    rewrite <- (IH ch c es mm m Hl Ha).
    cbn [tins]. destruct (d ++ [c]) eqn:Ed; [destruct d; discriminate|]. now rewrite E.
Qed.

Definition tar_item (now : Z) (tm : Z -> Z) (it : list str * node) : str * member :=
  (to_path false (fst it), store tm (tar_member_of now it)).

Definition tstep (now : Z) (tm : Z -> Z) (b : node) (it : list str * node) : option node :=
  Some (tins b (comps (fst (tar_item now tm it))) (snd (tar_item now tm it))).

Lemma tstep_spec now tm : forall b d c n es m,
  Forall good (d ++ [c]) -> lookup b d = Some (Dir es m) -> assoc c es = None ->
  tstep now tm b (d ++ [c], n) =
  Some (put b (d ++ [c]) (lf (tar_lfile now tm) (tar_dm now tm) n)).
Proof.
  intros b d c n es m Hg Hl Ha. unfold tstep, tar_item. cbn [fst snd]. f_equal.
  unfold comps. rewrite split_to_path by first [exact Hg|apply snoc_ne]. cbn [app].
  rewrite (tins_put d b c es m _ Hl Ha). f_equal. destruct n; reflexivity.
Qed.

Lemma tar_tree_run now tm : forall items b,
  run (tstep now tm) b items =
  Some (fold_left (fun t e => tins t (comps (fst e)) (snd e)) (map (tar_item now tm) items) b).
Proof. induction items as [|it r IH]; intro b; [reflexivity|]. cbn [run tstep map fold_left]. apply IH. Qed.

Lemma tar_entries_items now tm : forall items acc,
  (forall it, In it items -> fst it <> [] /\ Forall good (fst it)) ->
  NoDup (keys acc ++ map (fun it => to_path false (fst it)) items) ->
  fold_left (fun d m => match tar_key (m_name m) with
                        | Some k => assoc_set k m d
                        | None => d
                        end) (map (store tm) (map (tar_member_of now) items)) acc =
  acc ++ map (tar_item now tm) items.
Proof.
  induction items as [|it r IH]; intros acc Hg Hnd; [cbn; now rewrite app_nil_r|].
  destruct (Hg it (or_introl eq_refl)) as [Hne Hgd].
  cbn [map fold_left]. cbn [store tar_member_of m_name].
  rewrite tar_member_name_nf by exact Hgd. rewrite tar_key_nf by assumption.
  cbn [map] in Hnd. pose proof (NoDup_remove_2 _ _ _ Hnd) as Hnot.
  rewrite assoc_set_none_app.
  - rewrite IH.
    + rewrite <- app_assoc. reflexivity.
    + intros x Hx. apply Hg. now right.
    + unfold keys. rewrite map_app, <- app_assoc. exact Hnd.
  - apply notin_assoc_none. intro Hi. apply Hnot. apply in_or_app. now left.
Qed.

Lemma tar_entries_bfs now tm t : wf_node t ->
  tar_entries (map (store tm) (tar_members now t)) = map (tar_item now tm) (bfs t).
Proof.
  intro W. unfold tar_entries, tar_members. rewrite (tar_entries_items now tm (bfs t) []).
  - reflexivity.
  - intros it Hit. destruct (bfs_item t W it Hit) as (H1 & H2 & _). auto.
  - cbn [keys map app]. now apply bfs_keys_nodup.
Qed.

Theorem tar_roundtrip : forall now tm t, wf t ->
  tar_read (map (store tm) (tar_members now t)) = stamp_root now tm t.
Proof.
  intros now tm t [Hd W]. destruct t as [|ents m]; [discriminate|].
  unfold tar_read. rewrite (tar_entries_bfs now tm _ W). unfold tar_tree.
  pose proof (run_bfs (tar_lfile now tm) (tar_dm now tm) good (tstep now tm) (tstep_spec now tm)
                      ents m W (tok_wf _ W)) as H.
  rewrite tar_tree_run in H. inversion H as [H']. rewrite H'.
  rewrite stamp_root_dir. f_equal. apply map_ext_in. intros e _. f_equal. apply full_stamp.
Qed.
Print Assumptions tar_roundtrip.

Lemma lookup_stamp_root now tm t p n : is_dir t = true -> p <> [] ->
  lookup t p = Some n -> lookup (stamp_root now tm t) p = Some (stamp now tm n).
Proof.
  intros Hd Hp H. destruct t as [|ents m]; [discriminate|]. destruct p as [|c p]; [congruence|].
  apply (lookup_full (tar_lfile now tm) (tar_dm now tm)) in H. rewrite !full_stamp in H.
  rewrite stamp_root_dir. rewrite stamp_dir in H. exact H.
Qed.

Theorem tar_roundtrip_nothing_hidden : forall now tm t, wf t ->
  tar_shadowed (map (store tm) (tar_members now t)) = [].
Proof.
  intros now tm t Hwf. unfold tar_shadowed. rewrite (tar_roundtrip now tm t Hwf).
  destruct Hwf as [Hd W]. rewrite (tar_entries_bfs now tm t W).
  apply filter_none. intros k Hk. unfold keys in Hk. rewrite map_map in Hk.
  apply in_map_iff in Hk as (it & <- & Hit). destruct (bfs_item t W it Hit) as (H1 & H2 & H3).
  unfold tar_item. cbn [fst]. unfold comps. rewrite split_to_path by assumption. cbn [app].
  now rewrite (lookup_stamp_root now tm t (fst it) (snd it) Hd H1 H3).
Qed.
Print Assumptions tar_roundtrip_nothing_hidden.

(* ================================================================ zip: building the directory *)

Definition zip_lfile (d : bytes) (m : option Z) : node := File [] None.
Definition zip_dm (m : option Z) : option Z := None.
Definition shape : node -> node := full zip_lfile zip_dm.
Definition zP (c : str) : Prop := good c /\ has_char nul c = false.

Definition zname (it : list str * node) : str :=
  zip_member_name (walk_path (fst it)) (is_dir (snd it)).

Definition zstep_o (b : node) (it : list str * node) : option node :=
  match zstep b (zname it) with
  | (b', Ok _) => Some b'
  | _ => None
  end.

Lemma has_char_join x sep l :
  has_char x sep = false -> Forall (fun s => has_char x s = false) l ->
  has_char x (join sep l) = false.
Proof.
  intros Hs Hl. induction Hl as [|s r Hx Hr IH]; [reflexivity|].
  destruct r as [|s2 r2]; [exact Hx|].
  rewrite join_cons by discriminate. rewrite !has_char_app, Hx, Hs, IH. reflexivity.
Qed.

Lemma zP_good p : Forall zP p -> Forall good p.
Proof. intro H. eapply Forall_impl; [|exact H]. intros c [Hc _]. exact Hc. Qed.

Lemma zP_nonul p : Forall zP p -> has_char nul (to_path false p) = false.
Proof.
  intro H. unfold to_path. cbn [app]. apply has_char_join; [reflexivity|].
  eapply Forall_impl; [|exact H]. intros c [_ Hc]. exact Hc.
Qed.

Lemma zname_eq p n : p <> [] -> Forall good p ->
  zname (p, n) = to_path false p ++ (if is_dir n then [slash] else []).
Proof.
  intros Hne Hg. unfold zname. cbn [fst snd]. destruct (is_dir n).
  - apply zip_member_name_dir; assumption.
  - rewrite app_nil_r. apply zip_member_name_file; assumption.
Qed.

Lemma pif_dir a : forall b pre es m,
  lookup b (pre ++ a) = Some (Dir es m) -> prefix_is_file b pre a = false.
Proof.
  induction a as [|x a IH]; intros b pre es m H; [reflexivity|].
  cbn [prefix_is_file].
  assert (E : pre ++ x :: a = (pre ++ [x]) ++ a) by (rewrite <- app_assoc; reflexivity).
  rewrite E in H. rewrite lookup_app in H.
  destruct (lookup b (pre ++ [x])) as [[dd mm|e2 m2]|] eqn:El; try discriminate.
  - destruct a; simpl in H; discriminate.
  - apply (IH b (pre ++ [x]) es m). rewrite lookup_app, El. exact H.
Qed.

Lemma status_new d : forall b c es m, lookup b d = Some (Dir es m) -> assoc c es = None ->
  status_of b (d ++ [c]) = Missing.
Proof.
  induction d as [|a d IH]; intros b c es m Hl Ha.
  - simpl in Hl. inversion Hl; subst. simpl. now rewrite Ha.
  - simpl in Hl. destruct b as [|e0 m0]; [discriminate|].
    destruct (assoc a e0) as [ch|] eqn:E; [|discriminate].
    simpl. rewrite E. eapply IH; eauto.
Qed.

Lemma zmakedirs_existing b d es m : Forall good d -> lookup b d = Some (Dir es m) ->
  zmakedirs b (to_path false d) = (b, Ok tt).
Proof.
  intros Hg Hl. unfold zmakedirs. rewrite resolve_comps_nf by exact Hg.
  rewrite (pif_dir d b [] es m Hl). now rewrite (mkdirs_exists d b [] _ Hl).
Qed.

Lemma pif_new b d c es m : lookup b d = Some (Dir es m) -> assoc c es = None ->
  prefix_is_file b [] (d ++ [c]) = false.
Proof.
  intros Hl Ha. rewrite pif_app, (pif_dir d b [] es m Hl). cbn [app orb prefix_is_file].
  rewrite lookup_snoc, Hl, Ha. reflexivity.
Qed.

Lemma zmakedirs_new b d c es m : Forall good (d ++ [c]) ->
  lookup b d = Some (Dir es m) -> assoc c es = None ->
  zmakedirs b (to_path false (d ++ [c]) ++ [slash]) = (put b (d ++ [c]) empty_dir, Ok tt).
Proof.
  intros Hg Hl Ha. unfold zmakedirs, resolve. rewrite comps_snoc_slash, resolve_snoc_empty.
  fold (resolve (comps (to_path false (d ++ [c])))). rewrite resolve_comps_nf by exact Hg.
  rewrite (pif_new b d c es m Hl Ha). rewrite mkdirs_app, (mkdirs_exists d b [] _ Hl).
  cbn [app mkdirs]. rewrite lookup_snoc, Hl, Ha. reflexivity.
Qed.

Lemma zcreate_new b d c es m : Forall good (d ++ [c]) ->
  lookup b d = Some (Dir es m) -> assoc c es = None ->
  zcreate b (to_path false (d ++ [c])) = (put b (d ++ [c]) (File [] None), Ok tt).
Proof.
  intros Hg Hl Ha. unfold zcreate. rewrite resolve_comps_nf by exact Hg.
  rewrite (status_new d b c es m Hl Ha). rewrite removelast_app1, Hl. reflexivity.
Qed.

Lemma zstep_spec : forall b d c n es m,
  Forall zP (d ++ [c]) -> lookup b d = Some (Dir es m) -> assoc c es = None ->
  zstep_o b (d ++ [c], n) = Some (put b (d ++ [c]) (lf zip_lfile zip_dm n)).
Proof.
  intros b d c n es m HP Hl Ha. pose proof (zP_good _ HP) as Hg.
  pose proof (zP_nonul _ HP) as Hn.
  unfold zstep_o. rewrite zname_eq by first [apply snoc_ne|exact Hg]. unfold zstep.
  destruct n as [dd mm|e2 mm]; cbn [is_dir lf].
  - rewrite app_nil_r, Hn. rewrite ends_c_to_path by first [exact Hg|apply snoc_ne].
    apply Forall_app in Hg as [Hgd Hgc]. inversion Hgc as [|? ? Hc _]; subst.
    unfold dirname. rewrite psplit_snoc by assumption. cbn [fst].
    rewrite (zmakedirs_existing b d es m Hgd Hl).
    rewrite (zcreate_new b d c es m); auto. apply Forall_app; auto.
  - rewrite has_char_app, Hn. cbn [has_char existsb orb]. 
    replace (ceqb nul slash) with false by reflexivity. cbn [orb].
    rewrite ends_c_app, ceqb_refl.
    rewrite (zmakedirs_new b d c es m Hg Hl Ha). reflexivity.
Qed.

Lemma zip_build_run : forall items b b',
  run zstep_o b items = Some b' -> zip_build b (map zname items) = (b', Ok tt).
Proof.
  induction items as [|it r IH]; intros b b' H.
  - simpl in H. inversion H. reflexivity.
  - cbn [run] in H. cbn [map zip_build]. unfold zstep_o in H.
    destruct (zstep b (zname it)) as [b1 [u| |]]; try discriminate. now apply IH.
Qed.

Lemma names_ok_dir ents m :
  names_ok (Dir ents m) = forallb (fun e => name_ok (fst e) && names_ok (snd e)) ents.
Proof.
  cbn [names_ok]. induction ents as [|[k c] r IH]; [reflexivity|].
  cbn [forallb fst snd]. now rewrite IH.
Qed.

Lemma names_ok_tok : forall t, names_ok t = true -> tok (fun c => has_char nul c = false) t.
Proof.
  induction t as [d m|ents m IH] using node_ind'; intro H; [exact I|].
  rewrite names_ok_dir in H. rewrite forallb_forall in H. apply tok_dir.
  rewrite Forall_forall in *. intros e He. specialize (H e He).
  apply andb_true_iff in H as [H1 H2]. split; [|now apply IH].
  unfold name_ok in H1. apply andb_true_iff in H1 as [_ H1]. now apply negb_true_iff in H1.
Qed.

Lemma zip_build_bfs ents m : wf_node (Dir ents m) -> names_ok (Dir ents m) = true ->
  zip_build empty_dir (map zname (bfs (Dir ents m))) =
  (Dir (map (fun e => (fst e, shape (snd e))) ents) None, Ok tt).
Proof.
  intros W N. apply zip_build_run.
  apply (run_bfs zip_lfile zip_dm zP zstep_o zstep_spec ents m W).
  apply (tok_and good (fun c => has_char nul c = false)); [now apply tok_wf|now apply names_ok_tok].
Qed.

(* ================================================================ zip: bytes and times by name *)

Lemma decorate_dir ms pre ents m :
  decorate ms pre (Dir ents m) =
  VDir (map (fun e => (fst e, decorate ms (pre ++ [fst e]) (snd e))) ents)
       (match pre with
        | [] => None
        | _ => option_map m_mt (zfind ms (to_path false pre ++ [slash]))
        end).
Proof.
  cbn [decorate]. f_equal. induction ents as [|[k c] r IH]; [reflexivity|].
  cbn [map fst snd]. now rewrite IH.
Qed.

Lemma embed_dir ents m :
  embed (Dir ents m) = VDir (map (fun e => (fst e, embed (snd e))) ents) m.
Proof.
  cbn [embed]. f_equal. induction ents as [|[k c] r IH]; [reflexivity|].
  cbn [map fst snd]. now rewrite IH.
Qed.

Lemma shape_dir ents m : shape (Dir ents m) = Dir (map (fun e => (fst e, shape (snd e))) ents) None.
Proof. unfold shape. now rewrite full_dir. Qed.

Lemma zname_inj t : wf_node t -> forall it it', In it (bfs t) -> In it' (bfs t) ->
  zname it = zname it' -> it = it'.
Proof.
  intros W [p n] [p' n'] H H' E.
  destruct (bfs_item t W _ H) as (H1 & H2 & H3). destruct (bfs_item t W _ H') as (H1' & H2' & H3').
  cbn [fst snd] in *. rewrite !zname_eq in E by assumption.
  assert (Ep : p = p').
  { destruct (is_dir n), (is_dir n').
    - apply app_inv_tail in E. now apply to_path_inj.
    - apply (f_equal (ends_c slash)) in E. rewrite ends_c_app, ceqb_refl, app_nil_r in E.
      rewrite ends_c_to_path in E by assumption. discriminate.
    - apply (f_equal (ends_c slash)) in E. rewrite ends_c_app, ceqb_refl, app_nil_r in E.
      rewrite ends_c_to_path in E by assumption. discriminate.
    - rewrite !app_nil_r in E. now apply to_path_inj. }
  subst p'. rewrite H3 in H3'. inversion H3'. reflexivity.
Qed.

Section ZipFind.
  Variables (now : Z) (tm : Z -> Z) (t : node).
  Hypothesis W : wf_node t.
  Let ms := map (store tm) (zip_members now t).

  Lemma zfind_item it : In it (bfs t) -> zfind ms (zname it) = Some (store tm (zip_member_of now it)).
  Proof.
    intro H. unfold zfind. apply find_unique.
    - rewrite <- in_rev. unfold ms, zip_members. now apply in_map, in_map.
    - apply str_eqb_refl.
    - intros y Hy E. rewrite <- in_rev in Hy. unfold ms, zip_members in Hy.
      rewrite map_map in Hy. apply in_map_iff in Hy as (it' & <- & Hit').
      apply str_eqb_eq in E. change (zname it' = zname it) in E.
      now rewrite (zname_inj t W it' it Hit' H E).
  Qed.

  Lemma decorate_sub : forall s pre, pre <> [] -> lookup t pre = Some s ->
    decorate ms pre (shape s) = embed (stamp now tm s).
  Proof.
    induction s as [d m|ents m IH] using node_ind'; intros pre Hne Hl.
    - assert (Hin : In (pre, File d m) (bfs t)) by (apply bfs_complete; auto).
      destruct (bfs_item t W _ Hin) as (_ & Hg & _). cbn [fst] in Hg.
      pose proof (zfind_item _ Hin) as Hz. rewrite zname_eq in Hz by assumption.
      cbn [is_dir] in Hz. rewrite app_nil_r in Hz.
      change (shape (File d m)) with (File [] None). cbn [decorate]. rewrite Hz. reflexivity.
    - assert (Hin : In (pre, Dir ents m) (bfs t)) by (apply bfs_complete; auto).
      destruct (bfs_item t W _ Hin) as (_ & Hg & _). cbn [fst] in Hg.
      pose proof (zfind_item _ Hin) as Hz. rewrite zname_eq in Hz by assumption.
      cbn [is_dir] in Hz.
      rewrite shape_dir, decorate_dir, stamp_dir, embed_dir, Hz.
      destruct pre as [|c0 pre0]; [congruence|]. cbn [option_map store zip_member_of m_mt snd].
      f_equal. rewrite !map_map. apply map_ext_in. intros e He. cbn [fst snd]. f_equal.
      rewrite Forall_forall in IH. apply (IH e He); [apply snoc_ne|].
      rewrite lookup_snoc, Hl. apply In_assoc; [|now destruct e].
      pose proof (wf_lookup _ _ _ W Hl) as Wd. now apply wf_node_dir in Wd as (Hnd & _).
  Qed.
End ZipFind.

Theorem zip_roundtrip : forall now tm t, wf t -> names_ok t = true ->
  zip_read (map (store tm) (zip_members now t)) =
  {| zv_first := Ok tt; zv_tree := embed (stamp_root now tm t) |}.
Proof.
  intros now tm t [Hd W] N. destruct t as [|ents m]; [discriminate|].
  unfold zip_read.
  replace (map m_name (map (store tm) (zip_members now (Dir ents m))))
    with (map zname (bfs (Dir ents m)))
    by (unfold zip_members; rewrite !map_map; reflexivity).
  rewrite (zip_build_bfs ents m W N). f_equal.
  rewrite decorate_dir, stamp_root_dir, embed_dir. f_equal.
  rewrite !map_map. apply map_ext_in. intros e He. cbn [fst snd app]. f_equal.
  apply (decorate_sub now tm (Dir ents m) W); [discriminate|].
  simpl. apply wf_node_dir in W as (Hnd & _).
  rewrite (In_assoc (fst e) (snd e) ents Hnd); [reflexivity|now destruct e].
Qed.
Print Assumptions zip_roundtrip.
