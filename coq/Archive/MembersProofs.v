(* C15 -- proofs about archive member names (model: Archive/Members.v). *)
From Coq Require Import List NArith Bool Arith Lia.
From PyFS Require Import Base.PyStr Base.Outcome Path.PathModel Path.PathSpec Path.PathProofs
  Archive.Members.
Import ListNotations.

(* ---------------------------------------------------------------- strip("/") *)

Lemma lstrip_c_not_starts c s : starts_c c (lstrip_c c s) = false.
Proof.
  induction s as [|x s IH]; simpl; [reflexivity|].
  destruct (ceqb x c) eqn:E; [exact IH|]. simpl. exact E.
Qed.

Lemma rstrip_c_prefix c s : exists t, s = rstrip_c c s ++ t.
Proof.
  induction s as [|x s IH] using rev_ind.
  - exists []. rewrite rstrip_c_nil. reflexivity.
  - destruct (ceqb x c) eqn:E.
    + apply ceqb_eq in E. subst x. rewrite rstrip_c_app_slash.
      destruct IH as [t Ht]. exists (t ++ [c]). rewrite app_assoc, <- Ht. reflexivity.
    + apply ceqb_neq in E. rewrite rstrip_c_app_nonslash by exact E.
      exists []. rewrite app_nil_r. reflexivity.
Qed.

Lemma strip_not_abs s : starts_c slash (strip_c slash s) = false.
Proof.
  unfold strip_c.
  destruct (rstrip_c_prefix slash (lstrip_c slash s)) as [t E].
  pose proof (lstrip_c_not_starts slash s) as H.
  destruct (rstrip_c slash (lstrip_c slash s)) as [|x r]; [reflexivity|].
  rewrite E in H. simpl in H. simpl. exact H.
Qed.

Lemma comps_cons_slash s : comps (slash :: s) = [] :: comps s.
Proof. reflexivity. Qed.

Lemma comps_snoc_slash s : comps (s ++ [slash]) = comps s ++ [[]].
Proof.
  unfold comps. induction s as [|x s IH]; simpl.
  - reflexivity.
  - destruct (ceqb x slash); [rewrite IH; reflexivity|].
    rewrite IH. pose proof (split_on_nonnil slash s) as Hn.
    destruct (split_on slash s) as [|h t]; [congruence|]. reflexivity.
Qed.

Lemma resolve_lstrip s st :
  resolve_stack (comps (lstrip_c slash s)) st = resolve_stack (comps s) st.
Proof.
  induction s as [|x s IH]; simpl; [reflexivity|].
  destruct (ceqb x slash) eqn:E; [|reflexivity].
  apply ceqb_eq in E. subst x. rewrite comps_cons_slash. simpl. exact IH.
Qed.

Lemma resolve_rstrip s st :
  resolve_stack (comps (rstrip_c slash s)) st = resolve_stack (comps s) st.
Proof.
  induction s as [|x s IH] using rev_ind.
  - rewrite rstrip_c_nil. reflexivity.
  - destruct (ceqb x slash) eqn:E.
    + apply ceqb_eq in E. subst x. rewrite rstrip_c_app_slash, comps_snoc_slash.
      rewrite resolve_snoc_empty. exact IH.
    + apply ceqb_neq in E. rewrite rstrip_c_app_nonslash by exact E. reflexivity.
Qed.

(* stripping slashes at both ends does not change what a name resolves to *)
Lemma resolve_strip s : resolve (comps (strip_c slash s)) = resolve (comps s).
Proof. unfold resolve, strip_c. rewrite resolve_rstrip. apply resolve_lstrip. Qed.

(* ---------------------------------------------------------------- tar_key *)

(* exact characterisation of what the reader does with one raw member name *)
Lemma tar_key_char raw :
  tar_key raw = match resolve (comps raw) with
                | None => None
                | Some [] => None
                | Some cs => Some (to_path false cs)
                end.
Proof.
  unfold tar_key. rewrite normpath_spec. unfold spec_normpath.
  rewrite resolve_strip, strip_not_abs.
  destruct (resolve (comps raw)) as [cs|] eqn:E; [|reflexivity].
  destruct cs as [|c cs]; [reflexivity|].
  assert (Hg : Forall good (c :: cs)).
  { rewrite <- resolve_strip in E. apply (resolve_comps_good _ _ E). }
  rewrite is_empty_to_path by first [discriminate|exact Hg]. reflexivity.
Qed.

Lemma tar_key_safe raw n : tar_key raw = Some n -> safe_name n.
Proof.
  unfold tar_key. intro H.
  destruct (normpath (strip_c slash raw)) as [t| |] eqn:En; try discriminate.
  destruct (normpath_clean _ _ En) as [cs [Hg Et]].
  rewrite strip_not_abs in Et.
  destruct (is_empty t) eqn:Ee; [discriminate|]. inversion H; subst n.
  exists cs. split; [|split; assumption].
  intro Hc. subst cs. subst t. discriminate.
Qed.

(* ---------------------------------------------------------------- theorems *)

(* every name kept by ReadTarFS is relative, non-empty, without '..', '.', '' components *)
Theorem tar_names_safe : forall raws, Forall safe_name (tar_names raws).
Proof.
  induction raws as [|raw rest IH]; simpl; [constructor|].
  destruct (tar_key raw) as [n|] eqn:E; [|exact IH].
  constructor; [exact (tar_key_safe _ _ E)|exact IH].
Qed.

(* in particular: no kept name is absolute, and none has a '..' component *)
Corollary tar_names_relative_no_dotdot : forall raws n, In n (tar_names raws) ->
  starts_c slash n = false /\ ~ In [dot; dot] (comps n) /\ ~ In [] (comps n).
Proof.
  intros raws n Hin.
  pose proof (tar_names_safe raws) as Hs. rewrite Forall_forall in Hs.
  destruct (Hs n Hin) as [cs [Hne [Hg E]]]. subst n.
  split; [apply starts_c_to_path; exact Hg|].
  unfold comps. rewrite split_to_path by assumption. simpl.
  rewrite Forall_forall in Hg.
  split; intro Hc; destruct (Hg _ Hc) as [H1 [H2 [H3 H4]]]; congruence.
Qed.

(* a member whose name climbs above the root contributes nothing *)
Theorem tar_drops_climbers : forall raw rest,
  resolve (comps raw) = None -> tar_names (raw :: rest) = tar_names rest.
Proof.
  intros raw rest H. simpl. rewrite tar_key_char, H. reflexivity.
Qed.

Corollary tar_drops_climbers_anywhere : forall l1 raw l2,
  resolve (comps raw) = None -> tar_names (l1 ++ raw :: l2) = tar_names (l1 ++ l2).
Proof.
  induction l1 as [|x l1 IH]; intros raw l2 H.
  - apply tar_drops_climbers. exact H.
  - simpl. rewrite (IH raw l2 H). reflexivity.
Qed.

(* every kept name is the resolution of some member of the archive (nothing is invented) *)
Theorem tar_names_origin : forall raws n, In n (tar_names raws) ->
  exists raw cs, In raw raws /\ resolve (comps raw) = Some cs /\ cs <> [] /\ n = to_path false cs.
Proof.
  induction raws as [|raw rest IH]; simpl; intros n Hin; [contradiction|].
  destruct (tar_key raw) as [k|] eqn:E.
  - destruct Hin as [Hk|Hin].
    + subst k. rewrite tar_key_char in E.
      destruct (resolve (comps raw)) as [cs|] eqn:Er; [|discriminate].
      destruct cs as [|c cs]; [discriminate|]. inversion E.
      exists raw, (c :: cs). repeat split; auto. discriminate.
    + destruct (IH n Hin) as [r [cs [H1 H2]]]. exists r, cs. split; [right; exact H1|exact H2].
  - destruct (IH n Hin) as [r [cs [H1 H2]]]. exists r, cs. split; [right; exact H1|exact H2].
Qed.

(* the exception-faithful loop never lets anything escape: it equals the pure function *)
Theorem list_tar_total : forall raws, list_tar raws = Ok (tar_names raws).
Proof.
  induction raws as [|raw rest IH]; simpl; [reflexivity|].
  unfold tar_key. rewrite normpath_spec. unfold spec_normpath.
  destruct (resolve (comps (strip_c slash raw))) as [cs|].
  - rewrite IH. simpl. destruct (is_empty _); reflexivity.
  - exact IH.
Qed.

Lemma dedup_incl l x : In x (dedup l) -> In x l.
Proof.
  induction l as [|y l IH]; simpl; [tauto|].
  intros [H|H]; [left; exact H|]. right. apply IH.
  apply filter_In in H. tauto.
Qed.

Theorem tar_dir_keys_safe : forall raws, Forall safe_name (tar_dir_keys raws).
Proof.
  intro raws. apply Forall_forall. intros x Hx.
  pose proof (tar_names_safe raws) as Hs. rewrite Forall_forall in Hs.
  apply Hs. apply dedup_incl. exact Hx.
Qed.

(* ---------------------------------------------------------------- writer / reader round trip *)

Lemma strip_rel_nf cs : Forall good cs -> strip_c slash (to_path false cs) = to_path false cs.
Proof.
  intro Hg. unfold strip_c, to_path. simpl.
  rewrite join_good_lstrip by exact Hg. apply rstrip_join_good. exact Hg.
Qed.

Lemma tar_key_nf cs : cs <> [] -> Forall good cs -> tar_key (to_path false cs) = Some (to_path false cs).
Proof.
  intros Hne Hg. unfold tar_key. rewrite strip_rel_nf by exact Hg.
  rewrite normpath_nf by exact Hg. rewrite is_empty_to_path by assumption. reflexivity.
Qed.

Lemma tar_member_name_nf cs : Forall good cs -> tar_member_name (walk_path cs) = to_path false cs.
Proof. intro Hg. unfold tar_member_name, walk_path. apply relpath_nf_gen. exact Hg. Qed.

(* the names write_tar generates for a tree are read back unchanged, in order *)
Theorem names_roundtrip : forall tree_paths,
  Forall (fun cs => cs <> [] /\ Forall good cs) tree_paths ->
  tar_names (written_tar_names tree_paths) = map (to_path false) tree_paths.
Proof.
  induction tree_paths as [|cs rest IH]; intro H; [reflexivity|].
  inversion H as [|? ? [Hne Hg] Hrest]; subst.
  unfold written_tar_names in *. simpl.
  rewrite tar_member_name_nf by exact Hg. rewrite tar_key_nf by assumption.
  f_equal. apply IH. exact Hrest.
Qed.

(* ... and for any list of normalised relative names whatsoever *)
Theorem names_roundtrip_rel : forall names,
  Forall safe_name names -> tar_names names = names.
Proof.
  induction names as [|n rest IH]; intro H; [reflexivity|].
  inversion H as [|? ? [cs [Hne [Hg E]]] Hrest]; subst. simpl.
  rewrite tar_key_nf by assumption. f_equal. apply IH. exact Hrest.
Qed.

(* write_zip: directories, and only directories, get a trailing slash; removing it gives the
   relative name (this is the test ReadZipFS._directory uses to tell them apart) *)
Theorem zip_member_name_dir : forall cs, cs <> [] -> Forall good cs ->
  zip_member_name (walk_path cs) true = to_path false cs ++ [slash] /\
  ends_c slash (zip_member_name (walk_path cs) true) = true.
Proof.
  intros cs Hne Hg. unfold zip_member_name, walk_path, relpath.
  assert (E : lstrip_c slash (to_path true cs ++ [slash]) = to_path false cs ++ [slash]).
  { unfold to_path. simpl.
    destruct cs as [|c cs']; [congruence|].
    destruct (join_head [slash] c cs') as [t Et]. rewrite Et.
    inversion Hg; subst. rewrite <- app_assoc. apply good_lstrip. assumption. }
  rewrite E. split; [reflexivity|]. rewrite ends_c_app. apply ceqb_refl.
Qed.

Theorem zip_member_name_file : forall cs, cs <> [] -> Forall good cs ->
  zip_member_name (walk_path cs) false = to_path false cs /\
  ends_c slash (zip_member_name (walk_path cs) false) = false.
Proof.
  intros cs Hne Hg. unfold zip_member_name, walk_path.
  rewrite relpath_nf_gen by exact Hg. split; [reflexivity|].
  apply ends_c_to_path; assumption.
Qed.
