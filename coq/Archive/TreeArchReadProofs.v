(* C15 -- what the archive READERS (ReadZipFS / ReadTarFS, model: Archive/TreeArch.v) do with an
   ARBITRARY member list: confinement, totality, duplicates, implicit directories. *)
From Coq Require Import List NArith ZArith Bool Arith Lia.
From PyFS Require Import Base.PyStr Base.Outcome Path.PathModel Path.PathSpec Path.PathProofs
     FS.Tree FS.Ref FS.Wf FS.TreeLemmas FS.RefineWalkLemmasMk
     Archive.Members Archive.MembersProofs Archive.TreeArch.
Import ListNotations.

(* ================================================================ small list facts *)

Lemma NoDup_snoc {A} (l : list A) x : NoDup l -> ~ In x l -> NoDup (l ++ [x]).
Proof.
  induction l as [|y l IH]; intros Hn Hx; simpl.
  - constructor; [intros []|constructor].
  - inversion Hn as [|? ? Hy Hl]; subst. constructor.
    + rewrite in_app_iff. intros [H|[H|[]]]; [now apply Hy|]. subst. apply Hx. now left.
    + apply IH; [assumption|]. intro H. apply Hx. now right.
Qed.

Lemma in_keys_assoc {A} k (l : list (str * A)) : In k (keys l) -> exists v, assoc k l = Some v.
Proof.
  intro H. destruct (assoc k l) as [v|] eqn:E; [eauto|].
  exfalso. eapply assoc_none_notin; eauto.
Qed.

Lemma In_assoc_nodup {A} k (v : A) l : NoDup (keys l) -> In (k, v) l -> assoc k l = Some v.
Proof.
  induction l as [|[k2 v2] r IH]; simpl; intros Hn Hi; [contradiction|].
  inversion Hn as [|? ? Hk Hr]; subst.
  destruct Hi as [Hi|Hi].
  - inversion Hi; subst. now rewrite str_eqb_refl.
  - destruct (str_eqb k k2) eqn:E.
    + apply str_eqb_eq in E. subst k2. exfalso. apply Hk.
      change (In (fst (k, v)) (map fst r)). now apply in_map.
    + now apply IH.
Qed.

(* ================================================================ mkdirs *)

Lemma wf_mkdirs rest : forall t pre, wf t -> Forall good (pre ++ rest) -> wf (mkdirs t pre rest).
Proof.
  induction rest as [|c r IH]; intros t pre W G; [exact W|].
  cbn [mkdirs].
  assert (G2 : Forall good ((pre ++ [c]) ++ r)) by (rewrite <- app_assoc; exact G).
  destruct (lookup t (pre ++ [c])) as [x|].
  - apply IH; assumption.
  - apply IH; [|assumption].
    apply wf_put_ne; [exact W|apply snoc_ne| |apply wf_empty_dir].
    apply Forall_app in G2. tauto.
Qed.

(* monotone growth: nothing disappears, nothing changes its kind *)
Definition grows (b b' : node) : Prop :=
  forall p n, lookup b p = Some n -> exists n', lookup b' p = Some n' /\ is_dir n' = is_dir n.

Lemma grows_refl b : grows b b.
Proof. intros p n H. eauto. Qed.

Lemma grows_trans a b c : grows a b -> grows b c -> grows a c.
Proof.
  intros H1 H2 p n H. destruct (H1 _ _ H) as (n1 & L1 & E1).
  destruct (H2 _ _ L1) as (n2 & L2 & E2). exists n2. split; [assumption|congruence].
Qed.

Lemma put_grows p : forall t x, lookup t p = None -> grows t (put t p x).
Proof.
  intros t x Hp q. revert t p Hp.
  induction q as [|a q IH]; intros t p Hp n Hq.
  - simpl in Hq. inversion Hq; subst n. exists (put t p x). split; [reflexivity|].
    apply is_dir_put. intro E. subst p. discriminate.
  - destruct t as [d m|ents m]; [discriminate|].
    simpl in Hq. destruct (assoc a ents) as [ch|] eqn:Ea; [|discriminate].
    destruct p as [|c rest]; [discriminate|].
    destruct rest as [|c2 rest2].
    + simpl in Hp. destruct (assoc c ents) eqn:Ec; [discriminate|].
      assert (a <> c) by (intro E; subst; congruence).
      exists n. split; [|reflexivity]. cbn [put lookup].
      rewrite assoc_set_other by assumption. now rewrite Ea.
    + remember (c2 :: rest2) as rest eqn:Er.
      assert (Hne : rest <> []) by (subst; discriminate).
      rewrite put_cons_ne by assumption.
      destruct (assoc c ents) as [ch2|] eqn:Ec.
      * destruct (str_eqb a c) eqn:Eac.
        -- apply str_eqb_eq in Eac. subst c. rewrite Ea in Ec. inversion Ec; subst ch2.
           simpl in Hp. rewrite Ea in Hp.
           destruct (IH ch rest Hp n Hq) as (n' & L & E).
           exists n'. split; [|assumption]. cbn [lookup]. now rewrite assoc_set_same.
        -- apply str_eqb_neq in Eac. exists n. split; [|reflexivity].
           cbn [lookup]. rewrite assoc_set_other by assumption. now rewrite Ea.
      * exists n. split; [|reflexivity]. simpl. now rewrite Ea.
Qed.

Lemma mkdirs_grows rest : forall t pre, grows t (mkdirs t pre rest).
Proof.
  induction rest as [|c r IH]; intros t pre; [apply grows_refl|].
  cbn [mkdirs]. destruct (lookup t (pre ++ [c])) as [x|] eqn:E.
  - apply IH.
  - eapply grows_trans; [|apply IH]. apply put_grows. exact E.
Qed.

(* after makedirs every prefix is a directory *)
Lemma mkdirs_dirs rest : forall t pre e m,
  lookup t pre = Some (Dir e m) -> prefix_is_file t pre rest = false ->
  forall p q, rest = p ++ q ->
  exists e' m', lookup (mkdirs t pre rest) (pre ++ p) = Some (Dir e' m').
Proof.
  induction rest as [|c r IH]; intros t pre e m L F p q E.
  - destruct p; [|discriminate]. rewrite app_nil_r. simpl. eauto.
  - cbn [mkdirs]. cbn [prefix_is_file] in F.
    assert (Hstep : exists t' e1 m1, (match lookup t (pre ++ [c]) with Some _ => t
                                      | None => put t (pre ++ [c]) empty_dir end) = t' /\
                     lookup t' (pre ++ [c]) = Some (Dir e1 m1) /\
                     prefix_is_file t' (pre ++ [c]) r = false).
    { destruct (lookup t (pre ++ [c])) as [[d0 m0|e1 m1]|] eqn:El.
      - discriminate.
      - exists t, e1, m1. auto.
      - exists (put t (pre ++ [c]) empty_dir), [], None. split; [reflexivity|].
        assert (L2 : lookup (put t (pre ++ [c]) empty_dir) (pre ++ [c]) = Some empty_dir)
          by (eapply lookup_put_same; eauto).
        split; [exact L2|]. apply pif_missing. intros c0 r0 _.
        rewrite lookup_app, L2. reflexivity. }
    destruct Hstep as (t' & e1 & m1 & Et & L1 & F1). rewrite Et.
    destruct p as [|c' p'].
    + rewrite app_nil_r.
      destruct (IH t' (pre ++ [c]) e1 m1 L1 F1 [] r eq_refl) as (e' & m' & H).
      rewrite app_nil_r in H.
      eapply (lookup_dir_prefix _ pre c []). exact H.
    + simpl in E. inversion E; subst c' r.
      destruct (IH t' (pre ++ [c]) e1 m1 L1 F1 p' q eq_refl) as (e' & m' & H).
      exists e', m'. rewrite <- app_assoc in H. exact H.
Qed.

Lemma mkdirs_dirs0 t cs p q :
  is_dir t = true -> prefix_is_file t [] cs = false -> cs = p ++ q ->
  exists e' m', lookup (mkdirs t [] cs) p = Some (Dir e' m').
Proof.
  intros D F E. destruct t as [|e m]; [discriminate|].
  exact (mkdirs_dirs cs (Dir e m) [] e m eq_refl F p q E).
Qed.

(* ================================================================ dirname / basename and resolution *)

Lemma rsplit1_some c s : forall a b,
  rsplit1 c s = Some (a, b) -> s = a ++ c :: b /\ has_char c b = false.
Proof.
  induction s as [|x xs IH]; intros a b H; simpl in H; [discriminate|].
  destruct (rsplit1 c xs) as [[a' b']|] eqn:E.
  - inversion H; subst. destruct (IH a' b eq_refl) as [E1 E2]. subst xs.
    split; [reflexivity|assumption].
  - destruct (ceqb x c) eqn:Ex; [|discriminate]. inversion H; subst.
    apply ceqb_eq in Ex. subst x. split; [reflexivity|]. now apply rsplit1_none.
Qed.

Lemma split_on_app_gen c a b : split_on c (a ++ c :: b) = split_on c a ++ split_on c b.
Proof.
  induction a as [|x a IH]; simpl.
  - now rewrite ceqb_refl.
  - destruct (ceqb x c); [now rewrite IH|].
    rewrite IH. pose proof (split_on_nonnil c a) as Hn.
    destruct (split_on c a) as [|h t]; [congruence|]. reflexivity.
Qed.

Lemma resolve_stack_app X : forall Y st,
  resolve_stack (X ++ Y) st =
  match resolve_stack X st with Some r => resolve_stack Y (rev r) | None => None end.
Proof.
  induction X as [|c X IH]; intros Y st; simpl.
  - now rewrite rev_involutive.
  - destruct (c_empty c || c_dot c); [apply IH|].
    destruct (c_dotdot c); [destruct st; [reflexivity|apply IH]|apply IH].
Qed.

(* resolving a name = resolving its dirname, then its last component *)
Lemma resolve_dirname raw :
  resolve (comps raw) = match resolve (comps (dirname raw)) with
                        | Some ds => resolve_stack [basename raw] (rev ds)
                        | None => None
                        end.
Proof.
  unfold dirname, basename, psplit.
  destruct (rsplit1 slash raw) as [[a b]|] eqn:E.
  - apply rsplit1_some in E as [E1 E2]. subst raw. cbn [fst snd].
    unfold resolve, comps. rewrite split_on_app_gen. rewrite (split_on_nochar _ _ E2).
    rewrite resolve_stack_app.
    destruct a as [|x a]; reflexivity.
  - apply rsplit1_none in E. cbn [fst snd]. unfold resolve, comps.
    rewrite (split_on_nochar _ _ E). reflexivity.
Qed.

Lemma resolve_last_some l ds cs :
  resolve_stack [l] (rev ds) = Some cs -> cs = ds \/ cs = removelast ds \/ cs = ds ++ [l].
Proof.
  simpl. destruct (c_empty l || c_dot l).
  - intro H. inversion H. left. apply rev_involutive.
  - destruct (c_dotdot l).
    + destruct (list_snoc_case ds) as [->|[d [c ->]]]; [discriminate|].
      rewrite rev_app_distr. simpl. intro H. inversion H. right; left.
      now rewrite removelast_app1, rev_involutive.
    + intro H. inversion H. right; right. simpl. now rewrite rev_involutive.
Qed.

Lemma resolve_last_none l ds : resolve_stack [l] (rev ds) = None -> ds = [].
Proof.
  simpl. destruct (c_empty l || c_dot l); [discriminate|].
  destruct (c_dotdot l); [|discriminate].
  destruct (list_snoc_case ds) as [->|[d [c ->]]]; [reflexivity|].
  rewrite rev_app_distr. discriminate.
Qed.

(* ================================================================ one step of ReadZipFS._directory *)

Lemma zmakedirs_ok b p b' u :
  zmakedirs b p = (b', Ok u) ->
  exists cs, resolve (comps p) = Some cs /\ prefix_is_file b [] cs = false /\ b' = mkdirs b [] cs.
Proof.
  unfold zmakedirs. destruct (resolve (comps p)) as [cs|]; [|discriminate].
  destruct (prefix_is_file b [] cs) eqn:F; [discriminate|].
  intro H. inversion H. eauto.
Qed.

Lemma zmakedirs_cases b p b' o :
  zmakedirs b p = (b', o) ->
  o = Ok tt \/ (b' = b /\ (o = Err IllegalBackReference \/ o = Err DirectoryExpected)).
Proof.
  unfold zmakedirs. destruct (resolve (comps p)) as [cs|].
  - destruct (prefix_is_file b [] cs); intro H; inversion H; auto.
  - intro H; inversion H; auto.
Qed.

Lemma zmakedirs_wf b p b' o : wf b -> zmakedirs b p = (b', o) -> wf b'.
Proof.
  intro W. unfold zmakedirs. destruct (resolve (comps p)) as [cs|] eqn:E.
  - destruct (prefix_is_file b [] cs); intro H; inversion H; subst; [exact W|].
    apply wf_mkdirs; [exact W|]. simpl. eapply resolve_comps_good; eauto.
  - intro H; inversion H; subst; exact W.
Qed.

Lemma zcreate_wf b p b' o : wf b -> zcreate b p = (b', o) -> wf b'.
Proof.
  intro W. unfold zcreate. destruct (resolve (comps p)) as [cs|] eqn:E.
  - destruct (status_of b cs) eqn:S; try (intro H; inversion H; subst; exact W).
    destruct (lookup b (removelast cs)) as [[|e m]|]; intro H; inversion H; subst; try exact W.
    apply wf_put_ne; [exact W| |eapply resolve_comps_good; eauto|exact I].
    intro Ec. subst cs. simpl in S. destruct (is_dir b); discriminate.
  - intro H; inversion H; subst; exact W.
Qed.

Lemma zstep_wf b raw b' o : wf b -> zstep b raw = (b', o) -> wf b'.
Proof.
  intro W. unfold zstep. destruct (has_char nul raw); [intro H; inversion H; subst; exact W|].
  destruct (ends_c slash raw); [apply zmakedirs_wf; exact W|].
  destruct (zmakedirs b (dirname raw)) as [b1 [u| |]] eqn:E;
    try solve [intro H; inversion H; subst; eapply zmakedirs_wf; eauto].
  apply zcreate_wf. eapply zmakedirs_wf; eauto.
Qed.

Lemma zip_build_wf_gen raws : forall b b' o, wf b -> zip_build b raws = (b', o) -> wf b'.
Proof.
  induction raws as [|raw rest IH]; intros b b' o W H; simpl in H.
  - inversion H; subst; exact W.
  - destruct (zstep b raw) as [b1 [u| |]] eqn:E;
      try solve [inversion H; subst; eapply zstep_wf; eauto].
    eapply IH; [|exact H]. eapply zstep_wf; eauto.
Qed.

Theorem zip_build_wf : forall b raws, wf b -> wf (fst (zip_build b raws)).
Proof.
  intros b raws W. destruct (zip_build b raws) as [b' o] eqn:E.
  simpl. eapply zip_build_wf_gen; eauto.
Qed.
Print Assumptions zip_build_wf.

(* create() after makedirs(dirname) always finds the parent *)
Lemma zcreate_after b raw b1 u :
  is_dir b = true -> zmakedirs b (dirname raw) = (b1, Ok u) ->
  (exists b2, zcreate b1 raw = (b2, Ok tt)) \/ zcreate b1 raw = (b1, Err IllegalBackReference).
Proof.
  intros D H. apply zmakedirs_ok in H as (ds & Hr & F & ->).
  unfold zcreate. rewrite resolve_dirname, Hr.
  destruct (resolve_stack [basename raw] (rev ds)) as [cs|] eqn:Er; [|now right].
  left.
  assert (Hd : forall p q, ds = p ++ q ->
               exists e m, lookup (mkdirs b [] ds) p = Some (Dir e m))
    by (intros p q E; eapply mkdirs_dirs0; eauto).
  apply resolve_last_some in Er as [->|[->| ->]].
  - destruct (Hd ds [] (eq_sym (app_nil_r _))) as (e & m & L).
    rewrite (status_lookup_some _ _ _ L). simpl. eauto.
  - destruct (list_snoc_case ds) as [E|[d [c E]]].
    + rewrite E. simpl. rewrite D. eauto.
    + rewrite E, removelast_app1. destruct (Hd d [c] E) as (e & m & L).
      rewrite <- E. rewrite (status_lookup_some _ _ _ L). simpl. eauto.
  - destruct (Hd ds [] (eq_sym (app_nil_r _))) as (e & m & L).
    rewrite removelast_app1.
    destruct (path_view ds (mkdirs b [] ds) (basename raw))
      as [(L1 & _)|[(dt & m1 & L1 & _)|[(e1 & m1 & L1 & _ & _ & S & _)|(e1 & m1 & n & L1 & _ & _ & S & _)]]];
      try congruence.
    + rewrite S, L. eauto.
    + rewrite S. destruct (is_dir n); eauto.
Qed.

Lemma zstep_cases b raw b' o : is_dir b = true -> zstep b raw = (b', o) ->
  o = Ok tt \/ o = Err IllegalBackReference \/ o = Err DirectoryExpected \/ o = Err InvalidCharsInPath.
Proof.
  intro D. unfold zstep. destruct (has_char nul raw); [intro H; inversion H; auto|].
  destruct (ends_c slash raw).
  - intro H. apply zmakedirs_cases in H. tauto.
  - destruct (zmakedirs b (dirname raw)) as [b1 o1] eqn:E.
    pose proof (zmakedirs_cases _ _ _ _ E) as [->|[-> [->| ->]]];
      try (intro H; inversion H; auto).
    destruct (zcreate_after _ _ _ _ D E) as [[b2 H2]|H2]; rewrite H2 in H; inversion H; auto.
Qed.

Lemma zip_build_cases raws : forall b b' o, wf b -> zip_build b raws = (b', o) ->
  o = Ok tt \/ o = Err IllegalBackReference \/ o = Err DirectoryExpected \/ o = Err InvalidCharsInPath.
Proof.
  induction raws as [|raw rest IH]; intros b b' o W H; simpl in H.
  - inversion H; auto.
  - destruct (zstep b raw) as [b1 o1] eqn:E.
    pose proof (zstep_cases _ _ _ _ (proj1 W) E) as Hc.
    destruct o1 as [u| |]; try (inversion H; subst; exact Hc).
    eapply IH; [|exact H]. eapply zstep_wf; eauto.
Qed.

Lemma wf_empty : wf empty_dir.
Proof. split; [reflexivity|apply wf_empty_dir]. Qed.

Theorem zip_first_cases : forall ms, let o := zv_first (zip_read ms) in
  o = Ok tt \/ o = Err IllegalBackReference \/ o = Err DirectoryExpected \/ o = Err InvalidCharsInPath.
Proof.
  intros ms. unfold zip_read.
  destruct (zip_build empty_dir (map m_name ms)) as [b o] eqn:E. simpl.
  eapply zip_build_cases; [apply wf_empty|exact E].
Qed.
Print Assumptions zip_first_cases.

Theorem zip_build_stops : forall b raws b' (e : ecls), zip_build b raws = (b', Err e) ->
  exists l1 raw l2 b1, raws = l1 ++ raw :: l2 /\ zip_build b l1 = (b1, Ok tt) /\ zstep b1 raw = (b', Err e).
Proof.
  intros b raws. revert b. induction raws as [|raw rest IH]; intros b b' e H; simpl in H.
  - discriminate.
  - destruct (zstep b raw) as [b1 [[]| |]] eqn:E.
    + destruct (IH _ _ _ H) as (l1 & r & l2 & b2 & E1 & E2 & E3).
      exists (raw :: l1), r, l2, b2. split; [simpl; congruence|]. split; [|exact E3].
      simpl. rewrite E. exact E2.
    + inversion H; subst. exists [], raw, rest, b. auto.
    + discriminate.
Qed.
Print Assumptions zip_build_stops.

Theorem zip_climber_raises : forall b raw, has_char nul raw = false -> resolve (comps raw) = None ->
  zstep b raw = (b, Err IllegalBackReference).
Proof.
  intros b raw Hn Hr. unfold zstep. rewrite Hn.
  destruct (ends_c slash raw).
  - unfold zmakedirs. now rewrite Hr.
  - rewrite resolve_dirname in Hr. unfold zmakedirs at 1.
    destruct (resolve (comps (dirname raw))) as [ds|] eqn:Ed; [|reflexivity].
    apply resolve_last_none in Hr as Hd. subst ds. simpl.
    unfold zcreate. rewrite resolve_dirname, Ed, Hr. reflexivity.
Qed.
Print Assumptions zip_climber_raises.

(* ================================================================ duplicates (zip) *)

Lemma zmakedirs_idem b p b' u b2 :
  is_dir b = true -> zmakedirs b p = (b', Ok u) -> grows b' b2 -> is_dir b2 = true ->
  zmakedirs b2 p = (b2, Ok tt).
Proof.
  intros D H G D2. apply zmakedirs_ok in H as (cs & Hr & F & ->).
  destruct (mkdirs_dirs0 b cs cs [] D F (eq_sym (app_nil_r _))) as (e & m & L).
  destruct (G _ _ L) as (n' & L2 & Dn). simpl in Dn.
  unfold zmakedirs. rewrite Hr.
  assert (P : prefix_is_file b2 [] (cs ++ []) = negb (is_dir n')).
  { apply pif_decomp; [exact D2|exact L2|]. intros c r Hc. discriminate. }
  rewrite app_nil_r, Dn in P. rewrite P.
  now rewrite (mkdirs_exists cs b2 [] n' L2).
Qed.

Lemma status_missing_ne b cs : status_of b cs = Missing -> exists d c, cs = d ++ [c].
Proof.
  intro S. destruct (list_snoc_case cs) as [->|H]; [|exact H].
  simpl in S. destruct (is_dir b); discriminate.
Qed.

Lemma zcreate_grows b p b' o : zcreate b p = (b', o) -> grows b b'.
Proof.
  unfold zcreate. destruct (resolve (comps p)) as [cs|];
    [|intro H; inversion H; apply grows_refl].
  destruct (status_of b cs) eqn:S; try (intro H; inversion H; apply grows_refl).
  destruct (lookup b (removelast cs)) as [[|e m]|]; intro H; inversion H; try apply grows_refl.
  apply put_grows. pose proof (exists_st_lookup cs b) as X. rewrite S in X. simpl in X.
  destruct (lookup b cs); [discriminate|reflexivity].
Qed.

Lemma zcreate_idem b p b' u : zcreate b p = (b', Ok u) -> zcreate b' p = (b', Ok tt).
Proof.
  unfold zcreate. destruct (resolve (comps p)) as [cs|]; [|discriminate].
  destruct (status_of b cs) eqn:S; try discriminate.
  - destruct (status_missing_ne _ _ S) as (d & c & ->). rewrite removelast_app1.
    destruct (lookup b d) as [[|e m]|] eqn:L; try discriminate.
    intro H. inversion H.
    rewrite (status_lookup_some _ _ _ (lookup_put_same d b c (File [] None) e m L)).
    reflexivity.
  - intro H; inversion H; subst. now rewrite S.
  - intro H; inversion H; subst. now rewrite S.
Qed.

Theorem zstep_idempotent : forall b raw b', wf b -> zstep b raw = (b', Ok tt) -> zstep b' raw = (b', Ok tt).
Proof.
  intros b raw b' W H.
  pose proof (zstep_wf _ _ _ _ W H) as W'.
  unfold zstep in *. destruct (has_char nul raw); [discriminate|].
  destruct (ends_c slash raw).
  - eapply zmakedirs_idem; [exact (proj1 W)|exact H|apply grows_refl|exact (proj1 W')].
  - destruct (zmakedirs b (dirname raw)) as [b1 [u| |]] eqn:E; try discriminate.
    rewrite (zmakedirs_idem _ _ _ _ b' (proj1 W) E (zcreate_grows _ _ _ _ H) (proj1 W')).
    eapply zcreate_idem; eauto.
Qed.
Print Assumptions zstep_idempotent.

Lemma find_app {A} (f : A -> bool) l1 l2 :
  find f (l1 ++ l2) = match find f l1 with Some x => Some x | None => find f l2 end.
Proof. induction l1 as [|x l1 IH]; simpl; [reflexivity|]. destruct (f x); [reflexivity|exact IH]. Qed.

Theorem zip_dup_last : forall pre m post, Forall (fun x => m_name x <> m_name m) post ->
  zfind (pre ++ m :: post) (m_name m) = Some m.
Proof.
  intros pre m post Hp. unfold zfind. rewrite rev_app_distr. simpl. rewrite <- app_assoc.
  rewrite find_app.
  assert (Hn : find (fun m0 => str_eqb (m_name m0) (m_name m)) (rev post) = None).
  { apply Forall_rev in Hp. induction Hp as [|x l Hx Hl IH]; [reflexivity|].
    simpl. apply str_eqb_neq in Hx. now rewrite Hx. }
  rewrite Hn. simpl. now rewrite str_eqb_refl.
Qed.
Print Assumptions zip_dup_last.

(* ================================================================ the tar entry dictionary *)

Definition tstep (d : list (str * member)) (m : member) : list (str * member) :=
  match tar_key (m_name m) with Some k => assoc_set k m d | None => d end.

Lemma tar_entries_fold ms : tar_entries ms = fold_left tstep ms [].
Proof. reflexivity. Qed.

Lemma tar_entries_snoc ms m : tar_entries (ms ++ [m]) = tstep (tar_entries ms) m.
Proof. rewrite !tar_entries_fold, fold_left_app. reflexivity. Qed.

Theorem tar_read_drops_climbers : forall l1 m l2, resolve (comps (m_name m)) = None ->
  tar_read (l1 ++ m :: l2) = tar_read (l1 ++ l2).
Proof.
  intros l1 m l2 H. unfold tar_read. f_equal.
  rewrite !tar_entries_fold, !fold_left_app. simpl.
  unfold tstep at 2. rewrite tar_key_char, H. reflexivity.
Qed.
Print Assumptions tar_read_drops_climbers.

Theorem tar_dup_last : forall ms m k, tar_key (m_name m) = Some k -> In k (keys (tar_entries ms)) ->
  keys (tar_entries (ms ++ [m])) = keys (tar_entries ms) /\ assoc k (tar_entries (ms ++ [m])) = Some m.
Proof.
  intros ms m k Hk Hi. rewrite tar_entries_snoc. unfold tstep. rewrite Hk.
  destruct (in_keys_assoc _ _ Hi) as [v Hv].
  split; [eapply keys_assoc_set_some; eauto|apply assoc_set_same].
Qed.
Print Assumptions tar_dup_last.

Lemma entries_inv ms : NoDup (keys (tar_entries ms)) /\ Forall safe_name (keys (tar_entries ms)).
Proof.
  induction ms as [|m ms IH] using rev_ind.
  - split; constructor.
  - destruct IH as [N S]. rewrite tar_entries_snoc. unfold tstep.
    destruct (tar_key (m_name m)) as [k|] eqn:Hk; [|split; assumption].
    destruct (assoc k (tar_entries ms)) as [v|] eqn:Ha.
    + rewrite (keys_assoc_set_some _ _ _ _ Ha). split; assumption.
    + rewrite (keys_assoc_set_none _ _ _ Ha). split.
      * apply NoDup_snoc; [assumption|now apply assoc_none_notin].
      * apply Forall_app. split; [assumption|]. constructor; [|constructor].
        eapply tar_key_safe; eauto.
Qed.

Lemma safe_comps k : safe_name k ->
  comps k <> [] /\ Forall good (comps k) /\ k = to_path false (comps k).
Proof.
  intros (cs & Hne & Hg & ->). unfold comps. rewrite split_to_path by assumption. simpl. auto.
Qed.

(* ================================================================ tins *)

Definition child (c : str) (ents : list (str * node)) : node :=
  match assoc c ents with Some n => n | None => Dir [] None end.
Definition tnew (m : member) (c : str) (ents : list (str * node)) : node :=
  if m_dir m then Dir (match assoc c ents with Some (Dir e _) => e | _ => [] end) (Some (m_mt m))
  else File (m_data m) (Some (m_mt m)).

Lemma tins_one ents mt c m : tins (Dir ents mt) [c] m = Dir (assoc_set c (tnew m c ents) ents) mt.
Proof. reflexivity. Qed.
Lemma tins_cons_ne ents mt c rest m : rest <> [] ->
  tins (Dir ents mt) (c :: rest) m = Dir (assoc_set c (tins (child c ents) rest m) ents) mt.
Proof. destruct rest; [congruence|reflexivity]. Qed.
Lemma tins_file d mt cs m : tins (File d mt) cs m = File d mt.
Proof. destruct cs; reflexivity. Qed.

Lemma wf_dir_nil mt : wf_node (Dir [] mt).
Proof. apply wf_node_dir. simpl. repeat split; constructor. Qed.

Lemma wf_child c ents mt : wf_node (Dir ents mt) -> wf_node (child c ents).
Proof.
  intro W. unfold child. destruct (assoc c ents) eqn:E; [eapply wf_assoc; eauto|apply wf_dir_nil].
Qed.

Lemma wf_tnew m c ents mt : wf_node (Dir ents mt) -> wf_node (tnew m c ents).
Proof.
  intro W. unfold tnew. destruct (m_dir m); [|exact I].
  destruct (assoc c ents) as [[|e m']|] eqn:E; try apply wf_dir_nil.
  exact (wf_assoc _ _ _ _ W E).
Qed.

Lemma wf_tins cs : forall t m, wf_node t -> Forall good cs -> wf_node (tins t cs m).
Proof.
  induction cs as [|c rest IH]; intros t m W G; [exact W|].
  inversion G as [|? ? Gc Gr]; subst.
  destruct t as [d mt|ents mt]; [rewrite tins_file; exact W|].
  destruct rest as [|c2 r2].
  - rewrite tins_one. apply wf_assoc_set; auto. eapply wf_tnew; eauto.
  - rewrite tins_cons_ne by discriminate. apply wf_assoc_set; auto.
    apply IH; auto. eapply wf_child; eauto.
Qed.

Lemma is_dir_tins t cs m : is_dir (tins t cs m) = is_dir t.
Proof.
  destruct cs as [|c rest]; [reflexivity|]. destruct t as [|ents mt]; [reflexivity|].
  destruct rest; reflexivity.
Qed.

Lemma tar_tree_snoc es e : tar_tree (es ++ [e]) = tins (tar_tree es) (comps (fst e)) (snd e).
Proof. unfold tar_tree. rewrite fold_left_app. reflexivity. Qed.

Lemma keys_snoc {A} (es : list (str * A)) e : keys (es ++ [e]) = keys es ++ [fst e].
Proof. unfold keys. now rewrite map_app. Qed.

Lemma tar_tree_wf es : Forall safe_name (keys es) -> wf (tar_tree es).
Proof.
  induction es as [|e es IH] using rev_ind; intro S.
  - apply wf_empty.
  - rewrite keys_snoc in S. apply Forall_app in S as [S1 S2]. inversion S2 as [|? ? Se _]; subst.
    destruct (IH S1) as [D W]. rewrite tar_tree_snoc. split.
    + now rewrite is_dir_tins.
    + apply wf_tins; [exact W|]. now apply safe_comps in Se.
Qed.

Theorem tar_read_wf : forall ms, wf (tar_read ms).
Proof. intro ms. apply tar_tree_wf. apply entries_inv. Qed.
Print Assumptions tar_read_wf.

(* ================================================================ confinement *)

Lemma vpaths_decorate_good ms : forall n pre p,
  wf_node n -> In p (vpaths (decorate ms pre n)) -> p <> [] /\ Forall good p.
Proof.
  induction n as [d m|ents m IH] using node_ind'; intros pre p W H.
  - simpl in H. destruct (zfind ms (to_path false pre)); contradiction.
  - apply wf_node_dir in W as (_ & G & Wc). cbn [decorate vpaths] in H.
    revert IH G Wc H. induction ents as [|[k c] r IHr]; intros IH G Wc H.
    + contradiction.
    + inversion IH as [|? ? IH1 IH2]; inversion G as [|? ? G1 G2]; inversion Wc as [|? ? W1 W2]; subst.
      simpl in H. destruct H as [H|H].
      * subst p. split; [discriminate|]. constructor; [exact G1|constructor].
      * apply in_app_iff in H as [H|H].
        -- apply in_map_iff in H as (p' & <- & Hp').
           destruct (IH1 _ _ W1 Hp') as [_ Hg]. split; [discriminate|]. constructor; assumption.
        -- apply IHr; assumption.
Qed.

Lemma vpaths_embed_good : forall n p,
  wf_node n -> In p (vpaths (embed n)) -> p <> [] /\ Forall good p.
Proof.
  induction n as [d m|ents m IH] using node_ind'; intros p W H.
  - contradiction.
  - apply wf_node_dir in W as (_ & G & Wc). cbn [embed vpaths] in H.
    revert IH G Wc H. induction ents as [|[k c] r IHr]; intros IH G Wc H.
    + contradiction.
    + inversion IH as [|? ? IH1 IH2]; inversion G as [|? ? G1 G2]; inversion Wc as [|? ? W1 W2]; subst.
      simpl in H. destruct H as [H|H].
      * subst p. split; [discriminate|]. constructor; [exact G1|constructor].
      * apply in_app_iff in H as [H|H].
        -- apply in_map_iff in H as (p' & <- & Hp').
           destruct (IH1 _ W1 Hp') as [_ Hg]. split; [discriminate|]. constructor; assumption.
        -- apply IHr; assumption.
Qed.

Theorem read_confined : forall ms p,
  In p (vpaths (zv_tree (zip_read ms))) \/ In p (vpaths (embed (tar_read ms))) ->
  p <> [] /\ Forall good p /\ normpath (to_path true p) = Ok (to_path true p) /\ resolve (comps (to_path true p)) = Some p.
Proof.
  intros ms p H.
  assert (Hg : p <> [] /\ Forall good p).
  { destruct H as [H|H].
    - unfold zip_read in H. destruct (zip_build empty_dir (map m_name ms)) as [b o] eqn:E.
      simpl in H. eapply vpaths_decorate_good; [|exact H].
      exact (proj2 (zip_build_wf_gen _ _ _ _ wf_empty E)).
    - eapply vpaths_embed_good; [|exact H]. exact (proj2 (tar_read_wf ms)). }
  destruct Hg as [Hne Hg]. repeat split; try assumption.
  - now apply normpath_nf.
  - now apply resolve_comps_nf.
Qed.
Print Assumptions read_confined.

(* ================================================================ zip: members are present *)

Lemma decorate_dir ms pre ents m :
  decorate ms pre (Dir ents m) =
  VDir (map (fun kc => (fst kc, decorate ms (pre ++ [fst kc]) (snd kc))) ents)
       (match pre with
        | [] => None
        | _ => option_map m_mt (zfind ms (to_path false pre ++ [slash]))
        end).
Proof.
  cbn [decorate]. f_equal. induction ents as [|[k c] r IH]; [reflexivity|].
  cbn [map fst snd]. f_equal. exact IH.
Qed.

Lemma decorate_file ms pre d m : exists o mt, decorate ms pre (File d m) = VFile o mt.
Proof. cbn [decorate]. destruct (zfind ms (to_path false pre)); eauto. Qed.

Lemma assoc_map_dec {A B} (f : str -> A -> B) c (l : list (str * A)) :
  assoc c (map (fun kc => (fst kc, f (fst kc) (snd kc))) l) = option_map (f c) (assoc c l).
Proof.
  induction l as [|[k v] r IH]; [reflexivity|]. simpl.
  destruct (str_eqb c k) eqn:E; [|exact IH]. apply str_eqb_eq in E. now subst.
Qed.

Lemma vlookup_decorate ms p : forall n pre,
  vlookup (decorate ms pre n) p = option_map (decorate ms (pre ++ p)) (lookup n p).
Proof.
  induction p as [|c r IH]; intros n pre.
  - simpl. now rewrite app_nil_r.
  - destruct n as [d m|ents m].
    + destruct (decorate_file ms pre d m) as (o & mt & ->). reflexivity.
    + rewrite decorate_dir. cbn [vlookup lookup].
      rewrite (assoc_map_dec (fun k => decorate ms (pre ++ [k])) c ents).
      destruct (assoc c ents) as [ch|]; [|reflexivity]. simpl.
      rewrite IH. now rewrite <- app_assoc.
Qed.

Lemma zmakedirs_grows b p b' o : zmakedirs b p = (b', o) -> grows b b'.
Proof.
  unfold zmakedirs. destruct (resolve (comps p)) as [cs|];
    [|intro H; inversion H; apply grows_refl].
  destruct (prefix_is_file b [] cs); intro H; inversion H; [apply grows_refl|apply mkdirs_grows].
Qed.

Lemma zstep_grows b raw b' o : zstep b raw = (b', o) -> grows b b'.
Proof.
  unfold zstep. destruct (has_char nul raw); [intro H; inversion H; apply grows_refl|].
  destruct (ends_c slash raw); [apply zmakedirs_grows|].
  destruct (zmakedirs b (dirname raw)) as [b1 [u| |]] eqn:E;
    try solve [intro H; inversion H; subst; eapply zmakedirs_grows; eauto].
  intro H. eapply grows_trans; [eapply zmakedirs_grows; eauto|eapply zcreate_grows; eauto].
Qed.

Lemma zip_build_grows raws : forall b b' o, zip_build b raws = (b', o) -> grows b b'.
Proof.
  induction raws as [|raw rest IH]; intros b b' o H; simpl in H.
  - inversion H. apply grows_refl.
  - destruct (zstep b raw) as [b1 [u| |]] eqn:E;
      try solve [inversion H; subst; eapply zstep_grows; eauto].
    eapply grows_trans; [eapply zstep_grows; eauto|eapply IH; eauto].
Qed.

Lemma zstep_creates b raw b' u cs :
  is_dir b = true -> zstep b raw = (b', Ok u) -> resolve (comps raw) = Some cs ->
  exists n, lookup b' cs = Some n /\ (ends_c slash raw = true -> is_dir n = true).
Proof.
  intros D H Hr. unfold zstep in H. destruct (has_char nul raw); [discriminate|].
  destruct (ends_c slash raw) eqn:Ee.
  - apply zmakedirs_ok in H as (cs' & Hr' & F & ->).
    rewrite Hr in Hr'. inversion Hr'; subst cs'.
    destruct (mkdirs_dirs0 b cs cs [] D F (eq_sym (app_nil_r _))) as (e & m & L).
    exists (Dir e m). auto.
  - destruct (zmakedirs b (dirname raw)) as [b1 [u1| |]] eqn:E; try discriminate.
    unfold zcreate in H. rewrite Hr in H.
    destruct (status_of b1 cs) eqn:S; try discriminate.
    + destruct (status_missing_ne _ _ S) as (d & c & ->). rewrite removelast_app1 in H.
      destruct (lookup b1 d) as [[|e m]|] eqn:L; try discriminate.
      inversion H. exists (File [] None). split; [|discriminate].
      eapply lookup_put_same; eauto.
    + inversion H; subst b1. pose proof (exists_st_lookup cs b') as X. rewrite S in X.
      destruct (lookup b' cs) as [n|]; [|discriminate]. exists n. split; [reflexivity|discriminate].
    + inversion H; subst b1. pose proof (exists_st_lookup cs b') as X. rewrite S in X.
      destruct (lookup b' cs) as [n|]; [|discriminate]. exists n. split; [reflexivity|discriminate].
Qed.

Lemma zip_build_present raws : forall b b' u, wf b -> zip_build b raws = (b', Ok u) ->
  forall raw cs, In raw raws -> resolve (comps raw) = Some cs ->
  exists n, lookup b' cs = Some n /\ (ends_c slash raw = true -> is_dir n = true).
Proof.
  induction raws as [|raw0 rest IH]; intros b b' u W H raw cs Hi Hr; [contradiction|].
  simpl in H. destruct (zstep b raw0) as [b1 [u1| |]] eqn:E; try discriminate.
  pose proof (zstep_wf _ _ _ _ W E) as W1.
  destruct Hi as [->|Hi].
  - destruct (zstep_creates _ _ _ _ _ (proj1 W) E Hr) as (n & L & Dn).
    destruct (zip_build_grows _ _ _ _ H _ _ L) as (n' & L' & Dn').
    exists n'. split; [exact L'|]. intro X. rewrite Dn'. auto.
  - eapply IH; eauto.
Qed.

Lemma zip_read_present ms m cs : zv_first (zip_read ms) = Ok tt -> In m ms ->
  resolve (comps (m_name m)) = Some cs ->
  exists b n, zv_tree (zip_read ms) = decorate ms [] b /\ lookup b cs = Some n /\
              (ends_c slash (m_name m) = true -> is_dir n = true).
Proof.
  unfold zip_read. destruct (zip_build empty_dir (map m_name ms)) as [b o] eqn:E. simpl.
  intros -> Hi Hr.
  destruct (zip_build_present _ _ _ _ wf_empty E (m_name m) cs (in_map m_name _ _ Hi) Hr)
    as (n & L & Dn).
  exists b, n. auto.
Qed.

Theorem zip_implicit_directories : forall ms m cs p q, zv_first (zip_read ms) = Ok tt -> In m ms ->
  resolve (comps (m_name m)) = Some cs -> cs = p ++ q -> q <> [] ->
  exists e mt, vlookup (zv_tree (zip_read ms)) p = Some (VDir e mt).
Proof.
  intros ms m cs p q H1 Hi Hr -> Hq.
  destruct (zip_read_present ms m _ H1 Hi Hr) as (b & n & -> & L & _).
  destruct q as [|c q']; [congruence|].
  destruct (lookup_dir_prefix _ _ _ _ _ L) as (e & mt & Lp).
  rewrite vlookup_decorate, Lp. cbn [option_map app]. rewrite decorate_dir. eauto.
Qed.
Print Assumptions zip_implicit_directories.

Theorem zip_member_present : forall ms m cs, zv_first (zip_read ms) = Ok tt -> In m ms ->
  resolve (comps (m_name m)) = Some cs ->
  exists v, vlookup (zv_tree (zip_read ms)) cs = Some v /\ (ends_c slash (m_name m) = true -> exists e mt, v = VDir e mt).
Proof.
  intros ms m cs H1 Hi Hr.
  destruct (zip_read_present ms m _ H1 Hi Hr) as (b & n & -> & L & Dn).
  rewrite vlookup_decorate, L. cbn [option_map app]. eexists. split; [reflexivity|].
  intro He. apply Dn in He. destruct n as [|e mt]; [discriminate|].
  rewrite decorate_dir. eauto.
Qed.
Print Assumptions zip_member_present.

(* ================================================================ tar: lookups in the presented tree *)

Lemma status_ancfile_app p1 : forall t p2 d mt,
  lookup t p1 = Some (File d mt) -> p2 <> [] -> status_of t (p1 ++ p2) = AncFile.
Proof.
  induction p1 as [|a p1 IH]; intros t p2 d mt L Hne.
  - simpl in L. inversion L; subst t. destruct p2; [congruence|reflexivity].
  - destruct t as [|ents m]; [discriminate|]. simpl in L |- *.
    destruct (assoc a ents) as [ch|]; [|discriminate]. eapply IH; eauto.
Qed.

Lemma status_ancfile_inv p : forall t, status_of t p = AncFile ->
  exists p1 p2 d mt, p = p1 ++ p2 /\ p2 <> [] /\ lookup t p1 = Some (File d mt).
Proof.
  induction p as [|c p IH]; intros t S.
  - simpl in S. destruct (is_dir t); discriminate.
  - destruct t as [d mt|ents m].
    + exists [], (c :: p), d, mt. repeat split. discriminate.
    + simpl in S. destruct (assoc c ents) as [ch|] eqn:E; [|discriminate].
      destruct (IH _ S) as (p1 & p2 & d & mt & E1 & E2 & E3).
      exists (c :: p1), p2, d, mt. split; [simpl; congruence|]. split; [exact E2|].
      simpl. now rewrite E.
Qed.

Lemma status_ancfile_lookup t p : status_of t p = AncFile -> lookup t p = None.
Proof.
  intro S. pose proof (exists_st_lookup p t) as X. rewrite S in X. simpl in X.
  destruct (lookup t p); [discriminate|reflexivity].
Qed.

Lemma status_ancfile_ext t p q : status_of t p = AncFile -> status_of t (p ++ q) = AncFile.
Proof.
  intro S. destruct (status_ancfile_inv _ _ S) as (p1 & p2 & d & mt & -> & Hne & L).
  rewrite <- app_assoc. eapply status_ancfile_app; eauto.
  destruct p2; [congruence|discriminate].
Qed.

Lemma assoc_set_id {A} k (v : A) l : assoc k l = Some v -> assoc_set k v l = l.
Proof.
  induction l as [|[k2 v2] r IH]; simpl; [discriminate|].
  destruct (str_eqb k k2) eqn:E.
  - intro H. inversion H. apply str_eqb_eq in E. now subst.
  - intro H. now rewrite IH.
Qed.

Lemma tins_ancfile cs : forall t m, status_of t cs = AncFile -> tins t cs m = t.
Proof.
  induction cs as [|c rest IH]; intros t m S; [reflexivity|].
  destruct t as [d mt|ents mt]; [apply tins_file|].
  simpl in S. destruct (assoc c ents) as [ch|] eqn:E; [|discriminate].
  assert (Hne : rest <> []).
  { intro Hr. subst rest. simpl in S. destruct (is_dir ch); discriminate. }
  rewrite tins_cons_ne by assumption. unfold child. rewrite E.
  rewrite IH by assumption. now rewrite assoc_set_id.
Qed.

Definition node_at (t : node) (a : list str) : node :=
  match lookup t a with Some n => n | None => Dir [] None end.

Lemma tins_at a : forall t rest m, rest <> [] -> status_of t a <> AncFile ->
  lookup (tins t (a ++ rest) m) a = Some (tins (node_at t a) rest m).
Proof.
  unfold node_at. induction a as [|c a IH]; intros t rest m Hne S; [reflexivity|].
  destruct t as [d mt|ents mt]; [simpl in S; congruence|].
  simpl app. rewrite tins_cons_ne by (destruct a; simpl; [assumption|discriminate]).
  cbn [lookup]. rewrite assoc_set_same. unfold child.
  destruct (assoc c ents) as [ch|] eqn:E.
  - apply IH; [assumption|]. simpl in S. now rewrite E in S.
  - rewrite IH; [|assumption|destruct a; simpl; discriminate].
    destruct a; reflexivity.
Qed.

Lemma node_at_dir t a c : status_of t (a ++ [c]) <> AncFile ->
  status_of t a <> AncFile /\ exists ents mt, node_at t a = Dir ents mt.
Proof.
  intro S. split.
  - intro S2. apply S. now apply status_ancfile_ext.
  - unfold node_at. destruct (lookup t a) as [[d mt|ents mt]|] eqn:L; eauto.
    exfalso. apply S. eapply status_ancfile_app; eauto. discriminate.
Qed.

Definition props (m : member) (n : node) : Prop :=
  is_dir n = m_dir m /\ node_mt n = Some (m_mt m) /\
  (m_dir m = false -> n = File (m_data m) (Some (m_mt m))).

Lemma props_tnew m c ents : props m (tnew m c ents).
Proof.
  unfold props, tnew. destruct (m_dir m); simpl; repeat split; auto. discriminate.
Qed.

Lemma tins_lookup_self t a c m : status_of t (a ++ [c]) <> AncFile ->
  exists n, lookup (tins t (a ++ [c]) m) (a ++ [c]) = Some n /\ props m n.
Proof.
  intro S. destruct (node_at_dir _ _ _ S) as (Sa & ents & mt & En).
  rewrite lookup_app, tins_at by (assumption || discriminate). rewrite En, tins_one.
  cbn [lookup]. rewrite assoc_set_same. eexists. split; [reflexivity|apply props_tnew].
Qed.

Lemma lookup_dir_mt e m1 m2 q : q <> [] -> lookup (Dir e m1) q = lookup (Dir e m2) q.
Proof. destruct q; [congruence|reflexivity]. Qed.

Lemma lookup_nil_ne mt q : q <> [] -> lookup (Dir [] mt) q = None.
Proof. destruct q; [congruence|reflexivity]. Qed.

Lemma lookup_file_ne d mt q : q <> [] -> lookup (File d mt) q = None.
Proof. destruct q; [congruence|reflexivity]. Qed.

Lemma tins_lookup_below t a c m q : status_of t (a ++ [c]) <> AncFile -> q <> [] ->
  lookup (tins t (a ++ [c]) m) ((a ++ [c]) ++ q) =
  if m_dir m then lookup t ((a ++ [c]) ++ q) else None.
Proof.
  intros S Hq. destruct (node_at_dir _ _ _ S) as (Sa & ents & mt & En).
  rewrite <- !app_assoc. cbn [app].
  rewrite lookup_app, tins_at by (assumption || discriminate). rewrite En, tins_one.
  cbn [lookup]. rewrite assoc_set_same. unfold tnew.
  destruct (m_dir m); [|now apply lookup_file_ne].
  rewrite lookup_app. unfold node_at in En.
  destruct (lookup t a) as [n|].
  - subst n. cbn [lookup].
    destruct (assoc c ents) as [[d0 m0|e0 m0]|].
    + rewrite lookup_file_ne by assumption. now apply lookup_nil_ne.
    + now apply lookup_dir_mt.
    + now apply lookup_nil_ne.
  - inversion En; subst. simpl. now apply lookup_nil_ne.
Qed.

Lemma tins_dir_shape ents mt q m : q <> [] -> exists e, tins (Dir ents mt) q m = Dir e mt.
Proof.
  destruct q as [|c q]; [congruence|]. intros _.
  destruct q; [rewrite tins_one|rewrite tins_cons_ne by discriminate]; eauto.
Qed.

Lemma tins_lookup_prefix t p q m : status_of t (p ++ q) <> AncFile -> q <> [] ->
  exists e mt, lookup (tins t (p ++ q) m) p = Some (Dir e mt) /\
               (forall n, lookup t p = Some n -> exists e0, n = Dir e0 mt).
Proof.
  intros S Hq.
  assert (Sp : status_of t p <> AncFile) by (intro X; apply S; now apply status_ancfile_ext).
  rewrite tins_at by assumption. unfold node_at.
  destruct (lookup t p) as [[d mt|ents mt]|] eqn:L.
  - exfalso. apply S. eapply status_ancfile_app; eauto.
  - destruct (tins_dir_shape ents mt q m Hq) as [e ->].
    exists e, mt. split; [reflexivity|]. intros n Hn. inversion Hn. eauto.
  - destruct (tins_dir_shape [] None q m Hq) as [e ->].
    exists e, None. split; [reflexivity|]. intros n Hn. discriminate.
Qed.

Lemma tins_lookup_diverge a : forall t x y p' cs' m, x <> y ->
  lookup (tins t (a ++ y :: cs') m) (a ++ x :: p') = lookup t (a ++ x :: p').
Proof.
  induction a as [|c a IH]; intros t x y p' cs' m Hxy;
    (destruct t as [d mt|ents mt]; [now rewrite tins_file|]).
  - simpl app. destruct cs'; [rewrite tins_one|rewrite tins_cons_ne by discriminate];
      cbn [lookup]; now rewrite assoc_set_other by assumption.
  - simpl app. rewrite tins_cons_ne by apply app_cons_ne.
    cbn [lookup]. rewrite assoc_set_same. unfold child.
    destruct (assoc c ents); [now apply IH|].
    rewrite IH by assumption. destruct a; reflexivity.
Qed.

Lemma path_cmp (p : list str) : forall cs,
  p = cs \/ (exists q, q <> [] /\ cs = p ++ q) \/ (exists q, q <> [] /\ p = cs ++ q) \/
  (exists a x y p' cs', x <> y /\ p = a ++ x :: p' /\ cs = a ++ y :: cs').
Proof.
  induction p as [|x p IH]; intros cs.
  - destruct cs as [|y cs]; [now left|]. right; left. exists (y :: cs). split; [discriminate|reflexivity].
  - destruct cs as [|y cs].
    + right; right; left. exists (x :: p). split; [discriminate|reflexivity].
    + destruct (str_eqb x y) eqn:E.
      * apply str_eqb_eq in E. subst y.
        destruct (IH cs) as [->|[(q & Hq & ->)|[(q & Hq & ->)|(a & x' & y' & p' & cs' & Hn & -> & ->)]]].
        -- now left.
        -- right; left. eauto.
        -- right; right; left. eauto.
        -- right; right; right. exists (x :: a), x', y', p', cs'. auto.
      * apply str_eqb_neq in E. right; right; right. exists [], x, y, p, cs. auto.
Qed.

(* ================================================================ tar: the invariant of the presented tree *)

Record tinv (es : list (str * member)) (T : node) : Prop := {
  J1 : forall k m, In (k, m) es ->
       status_of T (comps k) = AncFile \/ exists n, lookup T (comps k) = Some n /\ props m n;
  J3 : forall p d mt, lookup T p = Some (File d mt) ->
       exists k m, In (k, m) es /\ comps k = p /\ m_dir m = false }.

Lemma tinv_step es T k m :
  tinv es T -> comps k <> [] -> (forall k' m', In (k', m') es -> comps k' <> comps k) ->
  tinv (es ++ [(k, m)]) (tins T (comps k) m).
Proof.
  intros [HJ1 HJ3] Hne Hfresh. remember (comps k) as cs eqn:Ecs.
  assert (Hold : forall p d mt, lookup T p = Some (File d mt) ->
            exists k0 m0, In (k0, m0) (es ++ [(k, m)]) /\ comps k0 = p /\ m_dir m0 = false).
  { intros p d mt L. destruct (HJ3 _ _ _ L) as (k0 & m0 & Hi & Hc & Hd).
    exists k0, m0. rewrite in_app_iff. auto. }
  assert (Hdec : status_of T cs = AncFile \/ status_of T cs <> AncFile)
    by (destruct (status_of T cs); [right|left|right|right]; congruence).
  destruct Hdec as [S|Sne].
  { rewrite tins_ancfile by assumption. split; [|exact Hold].
    intros k' m' Hi. apply in_app_iff in Hi as [Hi|[Hi|[]]]; [now apply HJ1|].
    inversion Hi; subst k' m'. left. now rewrite <- Ecs. }
  destruct (list_snoc_case cs) as [Ea|(a & c & Ea)]; [congruence|].
  destruct (tins_lookup_self T a c m) as (n0 & L0 & P0); [now rewrite <- Ea|].
  assert (B : forall q, q <> [] ->
              lookup (tins T cs m) (cs ++ q) = if m_dir m then lookup T (cs ++ q) else None).
  { intros q Hq. rewrite Ea. apply tins_lookup_below; [now rewrite <- Ea|exact Hq]. }
  rewrite <- Ea in L0.
  assert (HF : m_dir m = false -> lookup (tins T cs m) cs = Some (File (m_data m) (Some (m_mt m)))).
  { intro Dm. destruct P0 as (_ & _ & P3). now rewrite <- (P3 Dm). }
  split.
  - intros k' m' Hi. apply in_app_iff in Hi as [Hi|[Hi|[]]].
    2:{ inversion Hi; subst k' m'. right. exists n0. rewrite <- Ecs. auto. }
    pose proof (Hfresh _ _ Hi) as Hd.
    destruct (HJ1 _ _ Hi) as [A|(n & L & P)].
    + destruct (status_ancfile_inv _ _ A) as (p1 & p2 & d & mt & Ek & Hp2 & Lp1).
      left. rewrite Ek.
      destruct (path_cmp p1 cs)
        as [E|[(q & Hq & Eq)|[(q & Hq & Eq)|(a' & x & y & p' & cs' & Hn & Ep & Eq)]]].
      * exfalso. subst p1. destruct (HJ3 _ _ _ Lp1) as (k0 & m0 & Hi0 & Hc0 & _).
        exact (Hfresh _ _ Hi0 Hc0).
      * exfalso. apply Sne. rewrite Eq. eapply status_ancfile_app; eauto.
      * destruct (m_dir m) eqn:Dm.
        -- eapply status_ancfile_app; [|exact Hp2]. rewrite Eq, (B q Hq). exact (eq_trans (f_equal (lookup T) (eq_sym Eq)) Lp1).
        -- rewrite Eq, <- app_assoc. eapply status_ancfile_app; [exact (HF eq_refl)|].
           destruct q; [congruence|discriminate].
      * eapply status_ancfile_app; [|exact Hp2].
        rewrite Ep in Lp1 |- *. rewrite Eq. rewrite tins_lookup_diverge by auto. exact Lp1.
    + destruct (path_cmp (comps k') cs)
        as [E|[(q & Hq & Eq)|[(q & Hq & Eq)|(a' & x & y & p' & cs' & Hn & Ep & Eq)]]].
      * contradiction.
      * right. rewrite Eq in Sne |- *.
        destruct (tins_lookup_prefix T (comps k') q m Sne Hq) as (e & mt & Le & Hsame).
        destruct (Hsame _ L) as (e0 & En). subst n.
        exists (Dir e mt). split; [exact Le|].
        destruct P as (P1 & P2 & P3). split; [exact P1|split; [exact P2|]].
        intro X. simpl in P1. congruence.
      * rewrite Eq in L |- *. destruct (m_dir m) eqn:Dm.
        -- right. exists n. split; [|exact P]. rewrite (B q Hq). exact L.
        -- left. eapply status_ancfile_app; [exact (HF eq_refl)|exact Hq].
      * right. exists n. split; [|exact P]. rewrite Ep in L |- *. rewrite Eq.
        rewrite tins_lookup_diverge by auto. exact L.
  - intros p d mt L.
    destruct (path_cmp p cs)
      as [E|[(q & Hq & Eq)|[(q & Hq & Eq)|(a' & x & y & p' & cs' & Hn & Ep & Eq)]]].
    + subst p. rewrite L0 in L. inversion L; subst n0. exists k, m. rewrite in_app_iff.
      split; [right; now left|]. split; [now rewrite Ecs|].
      destruct P0 as (P1 & _). simpl in P1. congruence.
    + exfalso. rewrite Eq in Sne, L.
      destruct (tins_lookup_prefix T p q m Sne Hq) as (e & mt' & Le & _). congruence.
    + rewrite Eq, (B q Hq) in L. destruct (m_dir m); [|discriminate].
      rewrite <- Eq in L. eapply Hold; eauto.
    + rewrite Ep, Eq, tins_lookup_diverge in L by auto. rewrite <- Ep in L. eapply Hold; eauto.
Qed.

Lemma tinv_tar_tree es : NoDup (keys es) -> Forall safe_name (keys es) -> tinv es (tar_tree es).
Proof.
  induction es as [|[k m] es IH] using rev_ind; intros N S.
  - split; [intros k m []|]. intros p d mt L. destruct p; simpl in L; discriminate.
  - rewrite keys_snoc in N, S. cbn [fst] in N, S.
    apply Forall_app in S as [S1 S2]. inversion S2 as [|? ? Sk _]; subst.
    pose proof (NoDup_remove_1 _ _ _ N) as N1. rewrite app_nil_r in N1.
    pose proof (NoDup_remove_2 _ _ _ N) as N2. rewrite app_nil_r in N2.
    rewrite tar_tree_snoc. cbn [fst snd].
    destruct (safe_comps _ Sk) as (Hne & _ & Ek).
    apply tinv_step; [now apply IH|exact Hne|].
    intros k' m' Hi Hc. apply N2.
    assert (Hk' : In k' (keys es)) by (change k' with (fst (k', m')); now apply in_map).
    rewrite Forall_forall in S1. destruct (safe_comps _ (S1 _ Hk')) as (_ & _ & Ek').
    rewrite Ek, <- Hc, <- Ek'. exact Hk'.
Qed.

Lemma tinv_tar_read ms : tinv (tar_entries ms) (tar_read ms).
Proof. apply tinv_tar_tree; apply entries_inv. Qed.

Lemma tar_shadowed_char ms k :
  In k (tar_shadowed ms) <-> In k (keys (tar_entries ms)) /\ lookup (tar_read ms) (comps k) = None.
Proof.
  unfold tar_shadowed. rewrite filter_In.
  destruct (lookup (tar_read ms) (comps k)); split; intros [H1 H2]; split; auto; discriminate.
Qed.

(* ================================================================ implicit directories, and the one exception *)

Theorem tar_shadowed_iff : forall ms k, In k (tar_shadowed ms) <->
  (In k (keys (tar_entries ms)) /\ exists p q m, comps k = p ++ q /\ p <> [] /\ q <> [] /\
      assoc (to_path false p) (tar_entries ms) = Some m /\ m_dir m = false).
Proof.
  intros ms k. rewrite tar_shadowed_char.
  destruct (tinv_tar_read ms) as [HJ1 HJ3]. destruct (entries_inv ms) as [N S].
  rewrite Forall_forall in S.
  split; intros [Hin H]; (split; [exact Hin|]).
  - destruct (in_keys_assoc _ _ Hin) as [m Hm]. apply assoc_some_In in Hm.
    destruct (HJ1 _ _ Hm) as [A|(n & L & _)]; [|congruence].
    destruct (status_ancfile_inv _ _ A) as (p1 & p2 & d & mt & Ek & Hp2 & Lp1).
    destruct (HJ3 _ _ _ Lp1) as (k1 & m1 & Hi1 & Hc1 & Hd1).
    assert (Hk1 : In k1 (keys (tar_entries ms)))
      by (change k1 with (fst (k1, m1)); now apply in_map).
    destruct (safe_comps _ (S _ Hk1)) as (Hne1 & _ & Ek1).
    exists p1, p2, m1. split; [exact Ek|]. split; [now rewrite <- Hc1|]. split; [exact Hp2|].
    split; [|exact Hd1]. rewrite <- Hc1, <- Ek1. now apply In_assoc_nodup.
  - destruct H as (p & q & m' & Ek & Hp & Hq & Ha & Hd).
    destruct (safe_comps _ (S _ Hin)) as (_ & Hg & _). rewrite Ek in Hg.
    apply Forall_app in Hg as [Hgp _].
    apply assoc_some_In in Ha.
    assert (Ec : comps (to_path false p) = p)
      by (unfold comps; now rewrite split_to_path by assumption).
    rewrite Ek. apply status_ancfile_lookup.
    destruct (HJ1 _ _ Ha) as [A|(n & L & P)]; rewrite Ec in *.
    + now apply status_ancfile_ext.
    + destruct P as (_ & _ & P3). rewrite (P3 Hd) in L. eapply status_ancfile_app; eauto.
Qed.
Print Assumptions tar_shadowed_iff.

Theorem tar_key_present : forall ms k m, assoc k (tar_entries ms) = Some m -> ~ In k (tar_shadowed ms) ->
  exists n, lookup (tar_read ms) (comps k) = Some n /\ is_dir n = m_dir m /\ node_mt n = Some (m_mt m) /\
            (m_dir m = false -> n = File (m_data m) (Some (m_mt m))).
Proof.
  intros ms k m Ha Hns. destruct (tinv_tar_read ms) as [HJ1 _].
  destruct (HJ1 _ _ (assoc_some_In _ _ _ Ha)) as [A|(n & L & P1 & P2 & P3)].
  - exfalso. apply Hns. apply tar_shadowed_char. split; [eapply assoc_some_in; eauto|].
    now apply status_ancfile_lookup.
  - exists n. auto.
Qed.
Print Assumptions tar_key_present.

Theorem tar_implicit_directories : forall ms k p q, In k (keys (tar_entries ms)) -> ~ In k (tar_shadowed ms) ->
  comps k = p ++ q -> q <> [] -> exists e mt, lookup (tar_read ms) p = Some (Dir e mt).
Proof.
  intros ms k p q Hin Hns Ek Hq.
  destruct (lookup (tar_read ms) (comps k)) as [n|] eqn:L.
  - rewrite Ek in L. destruct q as [|c q']; [congruence|].
    eapply lookup_dir_prefix; eauto.
  - exfalso. apply Hns. apply tar_shadowed_char. auto.
Qed.
Print Assumptions tar_implicit_directories.
