(* C15 -- theorems about the tree-level archive model (Archive/TreeArch.v).

   The proofs live in three files, re-exported here:
     Archive/TreeArchRound.v       write -> read round trip for every well-formed tree
     Archive/TreeArchReadProofs.v  what the readers do with an ARBITRARY member list
     Archive/TreeArchLink.v        the model's definitions agree with code-shaped formulations
   This file adds the corollaries in the form the property states them, one concrete Example
   (by vm_compute) beside every theorem, and the counterexamples that show which side
   conditions are needed.  Every example member list below was also run against the real
   ReadZipFS / ReadTarFS (harness/h_treearch.py compares them on every run). *)
From Coq Require Import List NArith ZArith Bool Arith String.
From PyFS Require Import Base.PyStr Base.Outcome Base.Render Path.PathModel Path.PathSpec FS.Tree FS.Ref FS.Wf
     Archive.Members Archive.MembersProofs Archive.TreeArch.
From PyFS Require Export Archive.TreeArchRound Archive.TreeArchReadProofs Archive.TreeArchLink.
Import ListNotations.
Local Open Scope string_scope. Local Open Scope list_scope.

(* ================================================================ concrete inputs *)

(* nesting, an empty directory, an empty file, a missing time, odd but legal names *)
Definition exT : node :=
  Dir [(lit "d", Dir [(lit "x", File (lit "X") (Some 1000000001%Z));
                      (lit "e", Dir [] (Some 1000000003%Z));
                      (lit "sub", Dir [(lit "deep", File [] None)] (Some 1000000007%Z))]
                     (Some 1000000005%Z));
       (lit "f", File (lit "hello") (Some 1000000007%Z));
       (lit "a\b ", File (lit "odd") (Some 1000000008%Z));
       (lit "d2", Dir [(lit "y", File (lit "Y") (Some 1000000009%Z))] None)] (Some 5%Z).

Definition mf (n d : string) (t : Z) : member := mk_member (lit n) false (lit d) t.
Definition md (n : string) (t : Z) : member := mk_member (lit n) true [] t.

(* a crafted zip: duplicate, implicit directories, explicit directory after its content, absolute,
   "./", "//", duplicate with other bytes, a climbing member, and a member after it *)
Definition exZ : list member :=
  [mf "a/b/c" "1" 10; mf "a/b/c" "2" 12; md "a/" 14; mf "/abs" "3" 16; mf "./p" "4" 18;
   mf "q//r" "5" 20; mf "s" "6" 22; mf "s" "7" 24; mf "../up" "8" 26; mf "late" "9" 28].
(* the tar analogue, with a member below a file member and a directory member resolving to the root *)
Definition exR : list member :=
  [mf "a/b/c" "1" 10; mf "a/b/c" "2" 12; md "a" 14; mf "/abs" "3" 16; mf "./p" "4" 18;
   mf "q//r" "5" 20; mf "s" "6" 22; mf "s/t" "7" 24; mf "../up" "8" 26; md "q/x/../.." 27;
   mf "late" "9" 28].

(* ================================================================ writers *)

Example ex_wf : names_ok exT = true. Proof. vm_compute. reflexivity. Qed.

(* breadth first, directories as members of their own with a trailing slash (zip) *)
Example ex_zip_members :
  map (fun m => (m_name m, m_dir m)) (zip_members 0 exT) =
  [(lit "d/", true); (lit "f", false); (lit "a\b ", false); (lit "d2/", true);
   (lit "d/x", false); (lit "d/e/", true); (lit "d/sub/", true); (lit "d2/y", false);
   (lit "d/sub/deep", false)].
Proof. vm_compute. reflexivity. Qed.

Example ex_tar_members :
  map (fun m => (m_name m, m_dir m)) (tar_members 0 exT) =
  [(lit "d", true); (lit "f", false); (lit "a\b ", false); (lit "d2", true);
   (lit "d/x", false); (lit "d/e", true); (lit "d/sub", true); (lit "d2/y", false);
   (lit "d/sub/deep", false)].
Proof. vm_compute. reflexivity. Qed.

Example ex_bfs_code : bfs_code exT = bfs exT. Proof. vm_compute. reflexivity. Qed.

(* ================================================================ round trips *)

Example ex_zip_roundtrip :
  zip_read (map (store zip_time) (zip_members 77 exT))
  = {| zv_first := Ok tt; zv_tree := embed (stamp_root 77 zip_time exT) |}.
Proof. vm_compute. reflexivity. Qed.

Example ex_tar_roundtrip :
  tar_read (map (store tar_time) (tar_members 77 exT)) = stamp_root 77 tar_time exT.
Proof. vm_compute. reflexivity. Qed.

(* times come back with the format's resolution; a missing time is "now" *)
Example ex_zip_times :
  option_map (fun v => match v with VFile _ mt => mt | VDir _ mt => mt end)
             (vlookup (zv_tree (zip_read (map (store zip_time) (zip_members 77 exT)))) [lit "d"; lit "x"])
  = Some (Some 1000000000%Z)
  /\ lookup (tar_read (map (store tar_time) (tar_members 77 exT))) [lit "d"; lit "sub"; lit "deep"]
     = Some (File [] (Some 77%Z)).
Proof. vm_compute. split; reflexivity. Qed.

(* ================================================================ arbitrary member lists *)

(* zip: the first query raises at "../up"; "late" is never seen; the non-normalised names are listed
   but unreadable (KeyError); the explicit "a/" gives its time to the directory made by "a/b/c";
   duplicates: position of the first, bytes and time of the last *)
Example ex_zip_read :
  zip_read exZ =
  {| zv_first := Err IllegalBackReference;
     zv_tree :=
       VDir [(lit "a", VDir [(lit "b", VDir [(lit "c", VFile (Ok (lit "2")) (Some 12%Z))] None)] (Some 14%Z));
             (lit "abs", VFile (Crash KeyError) None);
             (lit "p", VFile (Crash KeyError) None);
             (lit "q", VDir [(lit "r", VFile (Crash KeyError) None)] None);
             (lit "s", VFile (Ok (lit "7")) (Some 24%Z))] None |}.
Proof. vm_compute. reflexivity. Qed.

(* tar: nothing raises; the climbing member and the one resolving to the root are dropped; names are
   normalised; "s/t" exists (getinfo, openbin) but is hidden below the file "s" *)
Example ex_tar_read :
  tar_read exR =
  Dir [(lit "a", Dir [(lit "b", Dir [(lit "c", File (lit "2") (Some 12%Z))] None)] (Some 14%Z));
       (lit "abs", File (lit "3") (Some 16%Z));
       (lit "p", File (lit "4") (Some 18%Z));
       (lit "q", Dir [(lit "r", File (lit "5") (Some 20%Z))] None);
       (lit "s", File (lit "6") (Some 22%Z));
       (lit "late", File (lit "9") (Some 28%Z))] None
  /\ tar_shadowed exR = [lit "s/t"].
Proof. vm_compute. split; reflexivity. Qed.

(* zip: a file member FOLLOWED by a member below it raises DirectoryExpected on first use; the reverse
   order silently keeps the directory and drops the file *)
Example ex_zip_clash :
  zip_read [mf "a" "1" 10; mf "a/b" "2" 12]
  = {| zv_first := Err DirectoryExpected; zv_tree := VDir [(lit "a", VFile (Ok (lit "1")) (Some 10%Z))] None |}
  /\ zip_read [mf "a/b" "2" 12; mf "a" "1" 10]
  = {| zv_first := Ok tt;
       zv_tree := VDir [(lit "a", VDir [(lit "b", VFile (Ok (lit "2")) (Some 12%Z))] None)] None |}.
Proof. vm_compute. split; reflexivity. Qed.

(* tar: a later duplicate replaces type, bytes and time and keeps the position *)
Example ex_tar_dup :
  tar_read [mf "k" "1" 10; mf "z" "2" 12; md "k" 14; mf "k/in" "3" 16]
  = Dir [(lit "k", Dir [(lit "in", File (lit "3") (Some 16%Z))] (Some 14%Z));
         (lit "z", File (lit "2") (Some 12%Z))] None.
Proof. vm_compute. reflexivity. Qed.

(* ================================================================ the side conditions are needed *)

(* names that are no proper path component do not survive (wf demands `good` names): *)
Example roundtrip_needs_good_slash_ce :
  zip_read (zip_members 0 (Dir [(lit "a/b", File (lit "x") (Some 2%Z))] None))
  = {| zv_first := Ok tt;
       zv_tree := VDir [(lit "a", VDir [(lit "b", VFile (Ok (lit "x")) (Some 2%Z))] None)] None |}
  /\ tar_read (tar_members 0 (Dir [(lit "a/b", File (lit "x") (Some 2%Z))] None))
  = Dir [(lit "a", Dir [(lit "b", File (lit "x") (Some 2%Z))] None)] None.
Proof. vm_compute. split; reflexivity. Qed.

Example roundtrip_needs_good_dot_ce :
  zip_read (zip_members 0 (Dir [(lit ".", File (lit "x") (Some 2%Z))] None))
  = {| zv_first := Ok tt; zv_tree := VDir [] None |}
  /\ zip_read (zip_members 0 (Dir [(lit "..", File (lit "x") (Some 2%Z))] None))
  = {| zv_first := Err IllegalBackReference; zv_tree := VDir [] None |}
  /\ tar_read (tar_members 0 (Dir [(lit "..", File (lit "x") (Some 2%Z))] None)) = Dir [] None.
Proof. vm_compute. repeat split; reflexivity. Qed.

(* NUL (names_ok, zip only): the directory of ReadZipFS is a MemoryFS *)
Example zip_roundtrip_needs_nonul_ce :
  zip_read (zip_members 0 (Dir [([120; 0]%N, File (lit "x") (Some 2%Z))] None))
  = {| zv_first := Err InvalidCharsInPath; zv_tree := VDir [] None |}.
Proof. vm_compute. reflexivity. Qed.

(* unique names per directory (wf): the second entry of the same name merges into the first *)
Example roundtrip_needs_unique_ce :
  zip_read (zip_members 0 (Dir [(lit "k", File (lit "x") (Some 2%Z)); (lit "k", File (lit "y") (Some 4%Z))] None))
  = {| zv_first := Ok tt; zv_tree := VDir [(lit "k", VFile (Ok (lit "y")) (Some 4%Z))] None |}
  /\ tar_read (tar_members 0 (Dir [(lit "k", File (lit "x") (Some 2%Z)); (lit "k", Dir [] (Some 4%Z))] None))
  = Dir [(lit "k", Dir [] (Some 4%Z))] None.
Proof. vm_compute. split; reflexivity. Qed.

(* ... while a backslash, a trailing blank, a leading dash or dots beyond two are ordinary names *)
Example odd_names_are_ok :
  forallb name_ok [lit "a\b"; lit "x "; lit " x"; lit "-x"; lit "..."; lit "..x"; [46; 10]%N] = true.
Proof. vm_compute. reflexivity. Qed.

(* ================================================================ the property's form *)

(* zip: same paths, types and bytes (in the same order); times to the 2-second resolution of the format *)
Theorem zip_roundtrip_content : forall now t, wf t -> names_ok t = true ->
  let v := zip_read (map (store zip_time) (zip_members now t)) in
  zv_first v = Ok tt /\ zv_tree v = embed (stamp_root now zip_time t) /\
  files_of (stamp_root now zip_time t) = files_of t /\
  paths_of (stamp_root now zip_time t) = paths_of t.
Proof.
  intros now t W N. cbv zeta. rewrite (zip_roundtrip now zip_time t W N). cbn [zv_first zv_tree].
  repeat split; [apply stamp_files|apply stamp_paths].
Qed.
Print Assumptions zip_roundtrip_content.

(* tar: likewise, times in whole seconds; nothing is hidden *)
Theorem tar_roundtrip_content : forall now t, wf t ->
  let r := tar_read (map (store tar_time) (tar_members now t)) in
  r = stamp_root now tar_time t /\ files_of r = files_of t /\ paths_of r = paths_of t /\
  tar_shadowed (map (store tar_time) (tar_members now t)) = [].
Proof.
  intros now t W. cbv zeta. rewrite (tar_roundtrip now tar_time t W).
  repeat split; [apply stamp_files|apply stamp_paths|apply tar_roundtrip_nothing_hidden; exact W].
Qed.
Print Assumptions tar_roundtrip_content.

(* the members are those of the code's queue walk *)
Theorem members_follow_the_queue_walk : forall now t,
  zip_members now t = map (zip_member_of now) (bfs_code t) /\
  tar_members now t = map (tar_member_of now) (bfs_code t).
Proof. intros now t. unfold zip_members, tar_members. rewrite bfs_code_eq. split; reflexivity. Qed.
Print Assumptions members_follow_the_queue_walk.

(* totality: ReadTarFS never raises over a member list and presents a well-formed tree; the first query
   of ReadZipFS either succeeds or raises one of three classes, and the directory it leaves is well formed *)
Theorem read_total : forall ms,
  (list_tar (map m_name ms) = Ok (tar_names (map m_name ms)) /\ wf (tar_read ms)) /\
  (let o := zv_first (zip_read ms) in
   o = Ok tt \/ o = Err IllegalBackReference \/ o = Err DirectoryExpected \/ o = Err InvalidCharsInPath) /\
  wf (fst (zip_build empty_dir (map m_name ms))).
Proof.
  intro ms. split; [split; [apply list_tar_total|apply tar_read_wf]|].
  split; [apply zip_first_cases|]. apply zip_build_wf. split; [reflexivity|apply FS.TreeLemmas.wf_empty_dir].
Qed.
Print Assumptions read_total.
