(* C15 -- member-name handling of the archive filesystems (fs/tarfs.py, fs/compress.py).

   Reader  : ReadTarFS._directory_entries
               _directory_entries = ((_decode(info.name).strip("/"), info) for info in self._tar)
               def _list_tar():
                   for name, info in _directory_entries:
                       try:    _name = normpath(name)
                       except IllegalBackReference: pass       # dropped
                       else:
                           if _name: yield _name, info          # empty names dropped
               self._directory_cache = OrderedDict(_list_tar())
   Writers : write_tar   tar_name = relpath(path)
             write_zip   zip_name = relpath(path + "/" if info.is_dir else path)
             where `path` ranges over the paths produced by Walker.info (absolute, normalised).
   (_decode is the identity on Python 3.) *)
From Coq Require Import List NArith Bool Arith Lia.
From PyFS Require Import Base.PyStr Base.Outcome Path.PathModel Path.PathSpec.
Import ListNotations.

(* ---------------------------------------------------------------- reader *)

(* what one member name contributes: Some key, or None when the member is skipped *)
Definition tar_key (raw : str) : option str :=
  match normpath (strip_c slash raw) with
  | Ok n => if is_empty n then None else Some n
  | Err _ => None
  | Crash _ => None
  end.

(* the sequence of names yielded by _list_tar, in archive order *)
Fixpoint tar_names (raws : list str) : list str :=
  match raws with
  | [] => []
  | raw :: rest =>
    match tar_key raw with
    | Some n => n :: tar_names rest
    | None => tar_names rest
    end
  end.

(* the same loop with Python's exception behaviour spelled out: only IllegalBackReference is
   caught, anything else raised by normpath would propagate out of the property *)
Fixpoint list_tar (raws : list str) : outcome (list str) :=
  match raws with
  | [] => Ok []
  | raw :: rest =>
    match normpath (strip_c slash raw) with
    | Ok n => let* r := list_tar rest in Ok (if is_empty n then r else n :: r)
    | Err IllegalBackReference => list_tar rest
    | Err e => Err e
    | Crash k => Crash k
    end
  end.

(* keys of OrderedDict(pairs): first-insertion order, one entry per name *)
Fixpoint dedup (l : list str) : list str :=
  match l with
  | [] => []
  | x :: r => x :: filter (fun y => negb (str_eqb x y)) (dedup r)
  end.

Definition tar_dir_keys (raws : list str) : list str := dedup (tar_names raws).

(* a name the read-only filesystem may safely expose: relative, non-empty, and every component
   is a proper name (not '', '.', '..', no '/') *)
Definition safe_name (n : str) : Prop :=
  exists cs, cs <> [] /\ Forall good cs /\ n = to_path false cs.

(* ---------------------------------------------------------------- writers *)

Definition tar_member_name (walk_path : str) : str := relpath walk_path.

Definition zip_member_name (walk_path : str) (is_dir : bool) : str :=
  relpath (if is_dir then walk_path ++ [slash] else walk_path).

(* paths handed out by the walker below the root: "/" + "/".join(components) *)
Definition walk_path (cs : list str) : str := to_path true cs.

Definition written_tar_names (tree_paths : list (list str)) : list str :=
  map (fun cs => tar_member_name (walk_path cs)) tree_paths.

Definition written_zip_names (tree_paths : list (list str * bool)) : list str :=
  map (fun p => zip_member_name (walk_path (fst p)) (snd p)) tree_paths.
