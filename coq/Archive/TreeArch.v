(* C15 -- TREE-level model of writing and reading archives (fs/compress.py, fs/zipfs.py, fs/tarfs.py).

   The container formats (zipfile / tarfile) stay external: an archive is the ordered LIST OF MEMBERS
   (raw name, is_dir, data, mtime) the library hands to / gets back from them.

   Writers (fs.compress.write_zip / write_tar, also used by WriteZipFS / WriteTarFS on close):
       for path, info in Walker().info(src_fs, ...):          # default walker: breadth first (FIFO deque)
           zip_name = relpath(path + "/" if info.is_dir else path)      tar_name = relpath(path)
           directories are members of their own (zip: empty data, name ends with "/"; tar: DIRTYPE);
           the root itself is never a member.
   Readers:
       ReadZipFS._directory : a MemoryFS filled on FIRST USE, one member name after the other,
           name.endswith("/") ? makedirs(name, recreate=True)
                               : makedirs(dirname(name), recreate=True) ; create(name)
           the cache attribute is assigned BEFORE the loop: an exception leaves the half-built directory
           behind and only the first query raises.  Bytes and times are looked up afterwards, by NAME,
           in zipfile's NameToInfo (last member of that name): relpath(normpath(path)) [+ "/"].
       ReadTarFS._directory_entries : OrderedDict (normpath(name.strip("/")) -> TarInfo), members whose
           name climbs above the root or normalises to "" are dropped; position of the first, value of
           the last duplicate.  isdir / listdir / getinfo are computed from the keys: a path that is no
           key is an (implicit) directory iff it is a component prefix of a key.

   Domain: member names without NUL (zipfile and tarfile cut names at NUL, such names are never
   delivered); on a NUL name the zip model answers InvalidCharsInPath without modelling the partial
   creation of MemoryFS.makedirs. *)
From Coq Require Import List NArith ZArith Bool Arith Lia.
From PyFS Require Import Base.PyStr Base.Outcome Path.PathModel Path.PathSpec FS.Tree FS.Ref
     Archive.Members.
Import ListNotations.

Record member := mk_member { m_name : str; m_dir : bool; m_data : bytes; m_mt : Z }.

(* the container keeps a member but stores its time with the format's resolution *)
Definition store (tm : Z -> Z) (m : member) : member :=
  {| m_name := m_name m; m_dir := m_dir m; m_data := m_data m; m_mt := tm (m_mt m) |}.
(* zip: DOS time, 2-second resolution (valid between 1980 and 2107; zipfile raises outside) *)
Definition zip_time (z : Z) : Z := (2 * (z / 2))%Z.
(* tar: integer seconds (write_tar hands over int(mtime)) *)
Definition tar_time (z : Z) : Z := z.

(* ================================================================ writers *)

(* resources at depth k+1 below t, with their component paths, in directory order *)
Fixpoint at_depth (k : nat) (pre : list str) (t : node) : list (list str * node) :=
  match t with
  | File _ _ => []
  | Dir ents _ =>
    match k with
    | O => map (fun e => (pre ++ [fst e], snd e)) ents
    | S k' => flat_map (fun e => at_depth k' (pre ++ [fst e]) (snd e)) ents
    end
  end.

(* Walker.info, breadth first: level after level (what a FIFO queue yields) *)
Definition bfs (t : node) : list (list str * node) :=
  flat_map (fun k => at_depth k [] t) (seq 0 (tree_size t)).

(* the same walk written as the code does it: deque of directories, every popped directory yields
   its entries and pushes its sub-directories (fuel: one unit per directory) *)
Fixpoint bfs_queue (fuel : nat) (queue : list (list str * node)) : list (list str * node) :=
  match fuel with
  | O => []
  | S f =>
    match queue with
    | [] => []
    | (pre, n) :: q =>
      let kids := map (fun e => (pre ++ [fst e], snd e)) (dir_ents n) in
      kids ++ bfs_queue f (q ++ filter (fun it => is_dir (snd it)) kids)
    end
  end.
Definition bfs_code (t : node) : list (list str * node) := bfs_queue (S (tree_size t)) [([], t)].

Definition node_data (n : node) : bytes := match n with File d _ => d | Dir _ _ => [] end.
(* info.modified or "now" *)
Definition node_time (now : Z) (n : node) : Z := match node_mt n with Some z => z | None => now end.

Definition zip_member_of (now : Z) (it : list str * node) : member :=
  {| m_name := zip_member_name (walk_path (fst it)) (is_dir (snd it));
     m_dir := is_dir (snd it); m_data := node_data (snd it); m_mt := node_time now (snd it) |}.

Definition tar_member_of (now : Z) (it : list str * node) : member :=
  {| m_name := tar_member_name (walk_path (fst it));
     m_dir := is_dir (snd it); m_data := node_data (snd it); m_mt := node_time now (snd it) |}.

Definition zip_members (now : Z) (t : node) : list member := map (zip_member_of now) (bfs t).
Definition tar_members (now : Z) (t : node) : list member := map (tar_member_of now) (bfs t).

(* ================================================================ ReadZipFS *)

(* what the reader presents: file contents may be unreadable (zipfile's KeyError) *)
Inductive vnode :=
| VFile (d : outcome bytes) (mt : option Z)
| VDir (ents : list (str * vnode)) (mt : option Z).

Fixpoint embed (n : node) : vnode :=
  match n with
  | File d mt => VFile (Ok d) mt
  | Dir ents mt =>
    VDir ((fix go (l : list (str * node)) : list (str * vnode) :=
             match l with [] => [] | (k, c) :: r => (k, embed c) :: go r end) ents) mt
  end.

(* MemoryFS.makedirs(p, recreate=True) on component level *)
Definition zmakedirs (b : node) (p : str) : node * outcome unit :=
  match resolve (comps p) with
  | None => (b, Err IllegalBackReference)
  | Some cs => if prefix_is_file b [] cs then (b, Err DirectoryExpected)
               else (mkdirs b [] cs, Ok tt)
  end.

(* FS.create(p): nothing when the path exists (file or directory), else an empty file *)
Definition zcreate (b : node) (p : str) : node * outcome unit :=
  match resolve (comps p) with
  | None => (b, Err IllegalBackReference)
  | Some cs =>
    match status_of b cs with
    | IsFile | IsDir => (b, Ok tt)
    | AncFile => (b, Err ResourceNotFound)
    | Missing =>
      match lookup b (removelast cs) with
      | Some (Dir _ _) => (put b cs (File [] None), Ok tt)
      | _ => (b, Err ResourceNotFound)
      end
    end
  end.

(* one iteration of the loop of ReadZipFS._directory *)
Definition zstep (b : node) (raw : str) : node * outcome unit :=
  if has_char nul raw then (b, Err InvalidCharsInPath)
  else if ends_c slash raw then zmakedirs b raw
  else match zmakedirs b (dirname raw) with
       | (b', Ok _) => zcreate b' raw
       | r => r
       end.

Fixpoint zip_build (b : node) (raws : list str) : node * outcome unit :=
  match raws with
  | [] => (b, Ok tt)
  | raw :: rest =>
    match zstep b raw with
    | (b', Ok _) => zip_build b' rest
    | r => r
    end
  end.

(* zipfile.NameToInfo[name]: the LAST member stored under exactly this name *)
Definition zfind (ms : list member) (name : str) : option member :=
  find (fun m => str_eqb (m_name m) name) (rev ms).

(* readbytes / getinfo(details) of the node at component path pre *)
Fixpoint decorate (ms : list member) (pre : list str) (n : node) : vnode :=
  match n with
  | File _ _ =>
    match zfind ms (to_path false pre) with
    | Some m => VFile (Ok (m_data m)) (Some (m_mt m))
    | None => VFile (Crash KeyError) None
    end
  | Dir ents _ =>
    VDir ((fix go (l : list (str * node)) : list (str * vnode) :=
             match l with
             | [] => []
             | (k, c) :: r => (k, decorate ms (pre ++ [k]) c) :: go r
             end) ents)
         (match pre with
          | [] => None        (* getinfo("/") never consults the archive *)
          | _ => option_map m_mt (zfind ms (to_path false pre ++ [slash]))
          end)
  end.

Record zview := mk_zview { zv_first : outcome unit;   (* outcome of the first query *)
                           zv_tree : vnode }.          (* what every later query sees *)

Definition zip_read (ms : list member) : zview :=
  let '(b, o) := zip_build empty_dir (map m_name ms) in
  {| zv_first := o; zv_tree := decorate ms [] b |}.

(* ================================================================ ReadTarFS *)

(* OrderedDict(_list_tar()) *)
Definition tar_entries (ms : list member) : list (str * member) :=
  fold_left (fun d m => match tar_key (m_name m) with
                        | Some k => assoc_set k m d
                        | None => d
                        end) ms [].

(* the code's queries on the entries (relative normalised path q, "" = root) *)
Definition tar_isdir_q (es : list (str * member)) (q : str) : bool :=
  match assoc q es with
  | Some m => m_dir m
  | None => is_empty q || existsb (fun e => isbase q (fst e)) es
  end.
Definition tar_isfile_q (es : list (str * member)) (q : str) : bool :=
  match assoc q es with Some m => negb (m_dir m) | None => false end.
Definition tar_exists_q (es : list (str * member)) (q : str) : bool :=
  match assoc q es with Some _ => true | None => tar_isdir_q es q end.

(* the presented tree: insert the final entries one after the other; intermediate directories are
   implicit (no time); a non-directory member hides whatever lies below it *)
Fixpoint tins (t : node) (cs : list str) (m : member) : node :=
  match cs with
  | [] => t
  | c :: rest =>
    match t with
    | File _ _ => t
    | Dir ents mt =>
      match rest with
      | [] =>
        let new := if m_dir m
                   then Dir (match assoc c ents with Some (Dir e _) => e | _ => [] end) (Some (m_mt m))
                   else File (m_data m) (Some (m_mt m)) in
        Dir (assoc_set c new ents) mt
      | _ =>
        let ch := match assoc c ents with Some n => n | None => Dir [] None end in
        Dir (assoc_set c (tins ch rest m) ents) mt
      end
    end
  end.

Definition tar_tree (es : list (str * member)) : node :=
  fold_left (fun t e => tins t (comps (fst e)) (snd e)) es empty_dir.

Definition tar_read (ms : list member) : node := tar_tree (tar_entries ms).

(* keys that answer getinfo / exists / openbin but can never be reached by listing: an ancestor
   is a non-directory member *)
Definition tar_shadowed (ms : list member) : list str :=
  filter (fun k => match lookup (tar_read ms) (comps k) with Some _ => false | None => true end)
         (keys (tar_entries ms)).

(* ================================================================ expected round-trip results *)

(* every resource gets the time the container stored for it *)
Fixpoint stamp (now : Z) (tm : Z -> Z) (n : node) : node :=
  match n with
  | File d _ => File d (Some (tm (node_time now n)))
  | Dir ents _ =>
    Dir ((fix go (l : list (str * node)) : list (str * node) :=
            match l with [] => [] | (k, c) :: r => (k, stamp now tm c) :: go r end) ents)
        (Some (tm (node_time now n)))
  end.
(* ... except the root, which is no member *)
Definition stamp_root (now : Z) (tm : Z -> Z) (t : node) : node :=
  match stamp now tm t with Dir e _ => Dir e None | f => f end.

(* all component paths of a presented tree (root excluded) *)
Fixpoint vpaths (v : vnode) : list (list str) :=
  match v with
  | VFile _ _ => []
  | VDir ents _ =>
    (fix go (l : list (str * vnode)) : list (list str) :=
       match l with
       | [] => []
       | (k, c) :: r => [k] :: map (cons k) (vpaths c) ++ go r
       end) ents
  end.

Fixpoint vlookup (v : vnode) (p : list str) : option vnode :=
  match p with
  | [] => Some v
  | c :: rest =>
    match v with
    | VDir ents _ => match assoc c ents with Some n => vlookup n rest | None => None end
    | VFile _ _ => None
    end
  end.

(* ================================================================ side condition on source trees *)

(* a name write_zip / write_tar can carry: a proper path component (not "", ".", "..", no "/")
   without NUL (MemoryFS, which holds the directory of ReadZipFS, rejects NUL) *)
Definition name_ok (c : str) : bool := goodb c && negb (has_char nul c).

Fixpoint names_ok (t : node) : bool :=
  match t with
  | File _ _ => true
  | Dir ents _ =>
    (fix go (l : list (str * node)) : bool :=
       match l with [] => true | (k, c) :: r => name_ok k && names_ok c && go r end) ents
  end.
