(* C15 -- the definitions of Archive/TreeArch.v agree with code-shaped formulations:
     1. bfs (level after level) is what the FIFO queue of Walker._walk_breadth yields (bfs_code);
     2. zstep (one iteration of ReadZipFS._directory) is what the MemoryFS model of FS/Mem.v does;
     3. ReadTarFS.isdir computed from the keys agrees with the presented tree. *)
From Coq Require Import List NArith ZArith Bool Arith Lia.
From PyFS Require Import Base.PyStr Base.Outcome Path.PathModel Path.PathSpec Path.PathProofs
     FS.Tree FS.Monad FS.Mode FS.Base FS.Mem FS.Ops FS.Ref FS.Wf FS.TreeLemmas FS.RefineLemmas
     FS.RefineProofs FS.RefineWalkLemmasMk Archive.Members Archive.MembersProofs Archive.TreeArch.
Import ListNotations.

(* ================================================================== *)
(* 1. breadth first: levels = FIFO queue                               *)
(* ================================================================== *)

Definition kids_of (pre : list str) (n : node) : list (list str * node) :=
  map (fun e => (pre ++ [fst e], snd e)) (dir_ents n).

(* resources at depth k+1 below the items of a queue *)
Definition lvl (k : nat) (q : list (list str * node)) : list (list str * node) :=
  flat_map (fun it => at_depth k (fst it) (snd it)) q.

Definition qdirs (q : list (list str * node)) : list (list str * node) :=
  filter (fun it => is_dir (snd it)) q.

(* total size of a list of things carrying a node *)
Definition sz {A} (q : list (A * node)) : nat :=
  list_sum (map (fun it => tree_size (snd it)) q).

Lemma at_depth_0 pre n : at_depth 0 pre n = kids_of pre n.
Proof. destruct n; reflexivity. Qed.

Lemma at_depth_S k pre n : at_depth (S k) pre n = lvl k (kids_of pre n).
Proof.
  destruct n as [d m|ents m]; [reflexivity|].
  unfold lvl, kids_of. cbn [at_depth dir_ents].
  induction ents as [|e ents IH]; [reflexivity|].
  cbn [flat_map map fst snd]. now rewrite IH.
Qed.

Lemma lvl_nil k : lvl k [] = [].
Proof. reflexivity. Qed.

Lemma lvl_app k a b : lvl k (a ++ b) = lvl k a ++ lvl k b.
Proof. unfold lvl. apply flat_map_app. Qed.

Lemma lvl_cons k it q : lvl k (it :: q) = at_depth k (fst it) (snd it) ++ lvl k q.
Proof. reflexivity. Qed.

Lemma lvl_S k q : lvl (S k) q = lvl k (lvl 0 q).
Proof.
  induction q as [|it q IH]; [reflexivity|].
  rewrite !lvl_cons, lvl_app, IH, at_depth_S, at_depth_0. reflexivity.
Qed.

Lemma lvl_qdirs k q : lvl k (qdirs q) = lvl k q.
Proof.
  induction q as [|[pre n] q IH]; [reflexivity|].
  unfold qdirs in *. cbn [filter snd]. destruct n as [d m|ents m]; cbn [is_dir].
  - rewrite lvl_cons. cbn [snd fst]. destruct k; cbn [at_depth app]; exact IH.
  - rewrite !lvl_cons, IH. reflexivity.
Qed.

Lemma qdirs_app a b : qdirs (a ++ b) = qdirs a ++ qdirs b.
Proof. unfold qdirs. apply filter_app. Qed.

Lemma sz_app {A} (a b : list (A * node)) : sz (a ++ b) = sz a + sz b.
Proof. unfold sz. now rewrite map_app, list_sum_app. Qed.

Lemma sz_cons {A} (it : A * node) q : sz (it :: q) = tree_size (snd it) + sz q.
Proof. reflexivity. Qed.

Lemma tree_size_dir ents m : tree_size (Dir ents m) = S (sz ents).
Proof.
  cbn [tree_size]. f_equal. induction ents as [|[k n] ents IH]; [reflexivity|].
  rewrite sz_cons. cbn [snd]. now rewrite IH.
Qed.

Lemma tree_size_pos n : 1 <= tree_size n.
Proof. destruct n; cbn [tree_size]; lia. Qed.

Lemma sz_kids pre n : S (sz (kids_of pre n)) = tree_size n.
Proof.
  destruct n as [d m|ents m]; [reflexivity|].
  rewrite tree_size_dir. f_equal. unfold kids_of, sz. cbn [dir_ents].
  rewrite map_map. reflexivity.
Qed.

Lemma sz_lvl0 q : sz (lvl 0 q) + length q = sz q.
Proof.
  induction q as [|it q IH]; [reflexivity|].
  rewrite lvl_cons, at_depth_0, sz_app, sz_cons. cbn [length].
  pose proof (sz_kids (fst it) (snd it)). lia.
Qed.

Lemma sz_qdirs q : sz (qdirs q) <= sz q.
Proof.
  induction q as [|it q IH]; [apply Nat.le_refl|].
  unfold qdirs in *. cbn [filter]. destruct (is_dir (snd it)); rewrite ?sz_cons; lia.
Qed.

Lemma sz_length {A} (q : list (A * node)) : length q <= sz q.
Proof.
  induction q as [|it q IH]; [apply Nat.le_refl|].
  rewrite sz_cons. cbn [length]. pose proof (tree_size_pos (snd it)). lia.
Qed.

Lemma bfs_queue_nil fuel : bfs_queue fuel [] = [].
Proof. destruct fuel; reflexivity. Qed.

Lemma bfs_queue_cons f pre n q :
  bfs_queue (S f) ((pre, n) :: q) = kids_of pre n ++ bfs_queue f (q ++ qdirs (kids_of pre n)).
Proof. reflexivity. Qed.

(* the queue works off one whole level; the directories found are appended in order *)
Lemma bfs_queue_level q1 : forall f r,
  bfs_queue (length q1 + f) (q1 ++ r) = lvl 0 q1 ++ bfs_queue f (r ++ qdirs (lvl 0 q1)).
Proof.
  induction q1 as [|[pre n] q1 IH]; intros f r.
  - cbn [length app lvl flat_map qdirs filter plus]. now rewrite app_nil_r.
  - cbn [length app plus]. rewrite bfs_queue_cons, <- app_assoc, IH.
    rewrite lvl_cons, at_depth_0. cbn [fst snd].
    rewrite qdirs_app, <- !app_assoc. reflexivity.
Qed.

Lemma flat_map_all_nil {A B} (f : A -> list B) l : (forall x, f x = []) -> flat_map f l = [].
Proof. intro H. induction l as [|x l IH]; [reflexivity|]. cbn [flat_map]. now rewrite H, IH. Qed.

Lemma flat_map_map {A B C} (f : B -> list C) (g : A -> B) l :
  flat_map f (map g l) = flat_map (fun x => f (g x)) l.
Proof. induction l as [|x l IH]; [reflexivity|]. cbn [map flat_map]. now rewrite IH. Qed.

Lemma bfs_queue_levels N : forall q fuel,
  sz q <= N -> sz q <= fuel ->
  bfs_queue fuel q = flat_map (fun k => lvl k q) (seq 0 N).
Proof.
  induction N as [|N IH]; intros q fuel HN Hf.
  - assert (q = []) as ->.
    { destruct q as [|it q]; [reflexivity|]. rewrite sz_cons in HN.
      pose proof (tree_size_pos (snd it)). lia. }
    apply bfs_queue_nil.
  - destruct (length q) as [|len] eqn:El.
    + destruct q; [|discriminate]. rewrite bfs_queue_nil. symmetry.
      apply flat_map_all_nil. intro k. apply lvl_nil.
    + pose proof (sz_length q) as Hl. pose proof (sz_lvl0 q) as H0.
      pose proof (sz_qdirs (lvl 0 q)) as Hd.
      pose proof (bfs_queue_level q (fuel - length q) []) as Hq.
      rewrite app_nil_r in Hq. cbn [app] in Hq.
      replace (length q + (fuel - length q)) with fuel in Hq by lia. rewrite Hq.
      rewrite (IH (qdirs (lvl 0 q)) (fuel - length q)) by lia.
      cbn [seq flat_map]. f_equal.
      rewrite <- seq_shift, flat_map_map.
      apply flat_map_ext. intro k. rewrite lvl_qdirs, lvl_S. reflexivity.
Qed.

Theorem bfs_code_eq : forall t, bfs_code t = bfs t.
Proof.
  intro t. unfold bfs_code, bfs.
  rewrite (bfs_queue_levels (tree_size t)).
  - apply flat_map_ext. intro k. unfold lvl. cbn [flat_map fst snd]. apply app_nil_r.
  - unfold sz. cbn [map list_sum fold_right snd]. lia.
  - unfold sz. cbn [map list_sum fold_right snd]. lia.
Qed.
Print Assumptions bfs_code_eq.

(* ================================================================== *)
(* 2. zstep = what the MemoryFS model does                             *)
(* ================================================================== *)

Definition zstep_mem (raw : str) : MM unit :=
  if ends_c slash raw then mem_makedirs raw true
  else mbind (mem_makedirs (dirname raw) true)
             (fun _ => mbind (mem_create raw false) (fun _ => ret tt)).

Lemma rsplit1_some c s : forall a b, rsplit1 c s = Some (a, b) -> s = a ++ c :: b.
Proof.
  induction s as [|x xs IH]; intros a b H; [discriminate|].
  cbn [rsplit1] in H. destruct (rsplit1 c xs) as [[a' b']|].
  - inversion H; subst. cbn [app]. f_equal. now apply IH.
  - destruct (ceqb x c) eqn:E; [|discriminate]. inversion H; subst.
    apply ceqb_eq in E. subst. reflexivity.
Qed.

Lemma dirname_nonul raw : has_char Mem.nul raw = false -> has_char Mem.nul (dirname raw) = false.
Proof.
  intro H. unfold dirname, psplit. destruct (rsplit1 slash raw) as [[a b]|] eqn:E; [|reflexivity].
  cbn [fst]. destruct (is_empty a); [reflexivity|].
  apply rsplit1_some in E. subst raw. rewrite has_char_app in H.
  now apply orb_false_iff in H as [H _].
Qed.

Lemma rpath_some p cs : has_char Mem.nul p = false -> resolve (comps p) = Some cs -> rpath p = inl cs.
Proof. intros H R. unfold rpath. change Ref.nul with Mem.nul. now rewrite H, R. Qed.

Lemma rpath_none p : has_char Mem.nul p = false -> resolve (comps p) = None ->
  rpath p = inr [IllegalBackReference] /\ bad_err p = IllegalBackReference.
Proof.
  intros H R. unfold rpath, bad_err. change Ref.nul with Mem.nul. now rewrite H, R.
Qed.

(* a climbing path: get_intermediate_dirs -> recursepath -> normpath raises *)
Lemma mem_makedirs_climb p r s : resolve (comps p) = None ->
  mem_makedirs p r s = (s, Err IllegalBackReference).
Proof.
  intro R. unfold mem_makedirs, b_makedirs. rewrite gid_unfold.
  assert (E : recursepath (abspath p) true = Err IllegalBackReference).
  { unfold recursepath. destruct (in_slash (abspath p)) eqn:I.
    - apply in_slash_true in I. pose proof (resolve_abspath p) as Ha.
      rewrite R in Ha. destruct I as [I|I]; rewrite I in Ha; discriminate.
    - rewrite normpath_spec. unfold spec_normpath. rewrite resolve_abspath, R. reflexivity. }
  rewrite E. reflexivity.
Qed.

Lemma zmakedirs_mem p s : wf s -> has_char Mem.nul p = false ->
  mem_makedirs p true s = zmakedirs s p /\ wf (fst (zmakedirs s p)).
Proof.
  intros W H. unfold zmakedirs. destruct (resolve (comps p)) as [cs|] eqn:R.
  - destruct (makedirs_spec p true s cs W (rpath_some _ _ H R)) as [E Wf].
    rewrite E in Wf. rewrite E. unfold makedirs_rhs in *.
    destruct (prefix_is_file s [] cs); [split; [reflexivity|exact W]|].
    destruct (status_of s cs) eqn:St; try (split; [reflexivity|exact Wf]).
    pose proof (exists_st_lookup cs s) as Hl. rewrite St in Hl. cbn [exists_st] in Hl.
    destruct (lookup s cs) as [n|] eqn:L; [|discriminate].
    rewrite (mkdirs_exists cs s [] n L). split; [reflexivity|exact W].
  - rewrite (mem_makedirs_climb _ _ _ R). split; [reflexivity|exact W].
Qed.

Lemma zcreate_mem p s : has_char Mem.nul p = false ->
  mbind (mem_create p false) (fun _ => ret tt) s = zcreate s p.
Proof.
  intro H. unfold zcreate, mem_create, b_create. cbn [l_openwrite mem_low].
  destruct (resolve (comps p)) as [cs|] eqn:R.
  - pose proof (rpath_some _ _ H R) as RP. mstep.
    rewrite (mem_exists_spec _ _ s RP).
    destruct (lookup s cs) as [n|] eqn:L.
    + rewrite (status_lookup_some _ _ _ L). destruct (is_dir n); reflexivity.
    + destruct (list_snoc_case cs) as [->|[d [c ->]]]; [discriminate|].
      assert (Hw : @None bytes = None \/ m_writing m_wb = true) by (left; reflexivity).
      rewrite (mem_openwrite_snoc _ _ _ _ _ s RP m_wb_valid Hw).
      rewrite removelast_last.
      destruct (path_view d s c) as
        [(Hl & Hs & Hs2 & Hl2)|[(dt & m & Hl & Hs & Hs2 & Hl2)|[(ents & m & Hl & Hs & Ha & Hs2 & Hl2)
        |(ents & m & n & Hl & Hs & Ha & Hs2 & Hl2)]]].
      * rewrite Hl, Hs2. destruct Hs as [-> | ->]; reflexivity.
      * rewrite Hl, Hs2. reflexivity.
      * rewrite Hl, Hs2, Ha. reflexivity.
      * congruence.
  - destruct (rpath_none _ H R) as [RP Be]. mstep.
    rewrite (mem_exists_bad _ _ s RP), Be. reflexivity.
Qed.

Theorem zstep_is_mem : forall b raw, wf b -> has_char nul raw = false -> zstep_mem raw b = zstep b raw.
Proof.
  intros b raw W H. unfold zstep_mem, zstep. rewrite H. change nul with Mem.nul in H.
  destruct (ends_c slash raw).
  - exact (proj1 (zmakedirs_mem raw b W H)).
  - destruct (zmakedirs_mem (dirname raw) b W (dirname_nonul _ H)) as [E Wf].
    unfold mbind at 1. rewrite E.
    destruct (zmakedirs b (dirname raw)) as [b' [u|e|k]]; try reflexivity.
    apply zcreate_mem. exact H.
Qed.
Print Assumptions zstep_is_mem.

(* ================================================================== *)
(* 3. ReadTarFS.isdir from the keys = the presented tree               *)
(* ================================================================== *)

Inductive kind := KD | KF | KN.
Definition kind_of (t : node) (p : list str) : kind :=
  match lookup t p with Some (Dir _ _) => KD | Some (File _ _) => KF | None => KN end.

(* no proper prefix of p is a file of t *)
Fixpoint clear (t : node) (p : list str) : bool :=
  match p with
  | [] => true
  | c :: r =>
    match t with
    | File _ _ => false
    | Dir ents _ => match assoc c ents with Some n => clear n r | None => true end
    end
  end.

Lemma clear_nil_dir mt p : clear (Dir [] mt) p = true.
Proof. destruct p; reflexivity. Qed.

Lemma tins_cons_ne ents mt c rest m : rest <> [] ->
  tins (Dir ents mt) (c :: rest) m =
  Dir (assoc_set c (tins (match assoc c ents with Some n => n | None => Dir [] None end) rest m)
                 ents) mt.
Proof. destruct rest; [congruence|reflexivity]. Qed.

Lemma lookup_dir_cons ents mt c p :
  lookup (Dir ents mt) (c :: p) = match assoc c ents with Some n => lookup n p | None => None end.
Proof. reflexivity. Qed.

Lemma kind_of_cons ents mt c p :
  kind_of (Dir ents mt) (c :: p) = match assoc c ents with Some n => kind_of n p | None => KN end.
Proof. unfold kind_of. rewrite lookup_dir_cons. destruct (assoc c ents); reflexivity. Qed.

Lemma lookup_nil_dir mt p : p <> [] -> lookup (Dir [] mt) p = None.
Proof. destruct p; [congruence|reflexivity]. Qed.

(* (a) the inserted path itself *)
Lemma kind_tins_same cs : forall t m, cs <> [] -> clear t cs = true ->
  kind_of (tins t cs m) cs = if m_dir m then KD else KF.
Proof.
  induction cs as [|c rest IH]; intros t m Hn Hc; [congruence|].
  destruct t as [d x|ents mt]; [discriminate|].
  destruct rest as [|c2 rest2].
  - cbn [tins]. rewrite kind_of_cons, assoc_set_same. destruct (m_dir m); reflexivity.
  - remember (c2 :: rest2) as rest eqn:Er. assert (Hr : rest <> []) by (subst; discriminate).
    rewrite tins_cons_ne by exact Hr. rewrite kind_of_cons, assoc_set_same.
    cbn [clear] in Hc.
    apply IH; [exact Hr|]. destruct (assoc c ents); [exact Hc|apply clear_nil_dir].
Qed.

(* (b) a proper prefix of the inserted path *)
Lemma kind_tins_below p : forall t r m, r <> [] -> clear t p = true ->
  kind_of (tins t (p ++ r) m) p = match kind_of t p with KN => KD | k => k end.
Proof.
  induction p as [|c p IH]; intros t r m Hr Hc.
  - cbn [app]. destruct t as [d x|ents mt].
    + destruct r; reflexivity.
    + destruct r as [|c rest]; [congruence|]. destruct rest; reflexivity.
  - destruct t as [d x|ents mt]; [discriminate|].
    cbn [app]. rewrite tins_cons_ne by (destruct p; [exact Hr|discriminate]).
    rewrite !kind_of_cons, assoc_set_same. cbn [clear] in Hc.
    destruct (assoc c ents) as [n|].
    + apply IH; assumption.
    + rewrite IH by (try assumption; apply clear_nil_dir). destruct p; reflexivity.
Qed.

(* (c) below an inserted directory member *)
Lemma lookup_tins_above cs : forall t r m, cs <> [] -> r <> [] -> m_dir m = true ->
  lookup (tins t cs m) (cs ++ r) = lookup t (cs ++ r).
Proof.
  induction cs as [|c rest IH]; intros t r m Hn Hr Hd; [congruence|].
  destruct t as [d x|ents mt]; [reflexivity|].
  destruct rest as [|c2 rest2].
  - cbn [tins app]. rewrite Hd. cbv iota. rewrite !lookup_dir_cons, assoc_set_same.
    destruct (assoc c ents) as [[d x|e x]|].
    + rewrite lookup_nil_dir by exact Hr. destruct r; [congruence|reflexivity].
    + destruct r; [congruence|reflexivity].
    + apply lookup_nil_dir; exact Hr.
  - remember (c2 :: rest2) as rest eqn:Er. assert (Hne : rest <> []) by (subst; discriminate).
    rewrite tins_cons_ne by exact Hne. cbn [app]. rewrite !lookup_dir_cons, assoc_set_same.
    rewrite IH by assumption.
    destruct (assoc c ents); [reflexivity|]. apply lookup_nil_dir.
    destruct rest; [congruence|discriminate].
Qed.

(* (d) elsewhere *)
Lemma lookup_tins_diverge p : forall t cs m, cprefix p cs = false -> cprefix cs p = false ->
  lookup (tins t cs m) p = lookup t p.
Proof.
  induction p as [|c' p IH]; intros t cs m H1 H2; [discriminate|].
  destruct cs as [|c rest]; [discriminate|].
  destruct t as [d x|ents mt]; [reflexivity|].
  cbn [cprefix] in H1, H2. rewrite (str_eqb_sym c c') in H2.
  destruct (str_eqb c' c) eqn:E.
  - apply str_eqb_eq in E. subst c'. cbn [andb] in H1, H2.
    assert (Hne : rest <> []) by (intro; subst; discriminate).
    rewrite tins_cons_ne by exact Hne. rewrite !lookup_dir_cons, assoc_set_same.
    rewrite IH by assumption. destruct (assoc c ents); [reflexivity|].
    apply lookup_nil_dir. intro; subst; discriminate.
  - assert (Hc : c' <> c) by (apply str_eqb_neq; exact E).
    assert (exists X, tins (Dir ents mt) (c :: rest) m = Dir (assoc_set c X ents) mt) as [X ->].
    { destruct rest; eexists; reflexivity. }
    rewrite !lookup_dir_cons, assoc_set_other by exact Hc. reflexivity.
Qed.

Lemma path_cases p : forall cs,
  p = cs \/ (exists r, r <> [] /\ cs = p ++ r) \/ (exists r, r <> [] /\ p = cs ++ r) \/
  (cprefix p cs = false /\ cprefix cs p = false).
Proof.
  induction p as [|c p IH]; intros cs.
  - destruct cs as [|c rest]; [now left|]. right; left. exists (c :: rest).
    split; [discriminate|reflexivity].
  - destruct cs as [|c2 rest].
    + right; right; left. exists (c :: p). split; [discriminate|reflexivity].
    + destruct (str_eqb c c2) eqn:E.
      * apply str_eqb_eq in E. subst c2.
        destruct (IH rest) as [->|[(r & Hr & ->)|[(r & Hr & ->)|[H1 H2]]]].
        -- now left.
        -- right; left. exists r. split; [exact Hr|reflexivity].
        -- right; right; left. exists r. split; [exact Hr|reflexivity].
        -- right; right; right. cbn [cprefix]. rewrite str_eqb_refl, H1, H2. split; reflexivity.
      * right; right; right. cbn [cprefix]. rewrite (str_eqb_sym c2 c), E. split; reflexivity.
Qed.

Lemma cprefix_app_self p r : cprefix p (p ++ r) = true.
Proof. induction p as [|c p IH]; [reflexivity|]. cbn [app cprefix]. now rewrite str_eqb_refl. Qed.

Lemma cprefix_longer cs r : r <> [] -> cprefix (cs ++ r) cs = false.
Proof.
  intro Hr. induction cs as [|c cs IH]; cbn [app cprefix].
  - destruct r; [congruence|reflexivity].
  - now rewrite str_eqb_refl.
Qed.

Lemma app_self_ne {A} (p r : list A) : r <> [] -> p <> p ++ r.
Proof.
  intros Hr E. rewrite <- (app_nil_r p) in E at 1. apply app_inv_head in E. congruence.
Qed.

Lemma clear_of_kinds p : forall t,
  (forall p1 p2, p = p1 ++ p2 -> p2 <> [] -> kind_of t p1 <> KF) -> clear t p = true.
Proof.
  induction p as [|c p IH]; intros t H; [reflexivity|].
  destruct t as [d x|ents mt].
  - exfalso. apply (H [] (c :: p)); [reflexivity|discriminate|reflexivity].
  - cbn [clear]. destruct (assoc c ents) as [n|] eqn:E; [|reflexivity].
    apply IH. intros p1 p2 Hp Hn. specialize (H (c :: p1) p2).
    rewrite kind_of_cons, E in H. apply H; [subst; reflexivity|exact Hn].
Qed.

(* entries keyed by component paths *)
Fixpoint cassoc (p : list str) (l : list (list str * member)) : option member :=
  match l with
  | [] => None
  | (k, v) :: r => if path_eqb p k then Some v else cassoc p r
  end.

Definition ctree (l : list (list str * member)) : node :=
  fold_left (fun t e => tins t (fst e) (snd e)) l empty_dir.

Definition is_nil {A} (l : list A) : bool := match l with [] => true | _ => false end.

Definition kspec (l : list (list str * member)) (p : list str) : kind :=
  match cassoc p l with
  | Some m => if m_dir m then KD else KF
  | None => if is_nil p || existsb (fun e => cprefix p (fst e)) l then KD else KN
  end.

Lemma cassoc_app p l1 l2 :
  cassoc p (l1 ++ l2) = match cassoc p l1 with Some m => Some m | None => cassoc p l2 end.
Proof.
  induction l1 as [|[k v] l1 IH]; [reflexivity|]. cbn [app cassoc].
  destruct (path_eqb p k); [reflexivity|exact IH].
Qed.

Lemma cassoc_notin p l : ~ In p (map fst l) -> cassoc p l = None.
Proof.
  induction l as [|[k v] l IH]; intro H; [reflexivity|]. cbn [cassoc].
  destruct (path_eqb p k) eqn:E.
  - apply path_eqb_eq in E. subst. exfalso. apply H. now left.
  - apply IH. intro Hi. apply H. now right.
Qed.

Lemma cassoc_nil l : Forall (fun e : list str * member => fst e <> []) l -> cassoc [] l = None.
Proof.
  induction 1 as [|[k v] l Hk _ IH]; [reflexivity|]. cbn [cassoc]. cbn [fst] in Hk.
  destruct k; [congruence|exact IH].
Qed.

Lemma ctree_kind l :
  Forall (fun e : list str * member => fst e <> []) l -> NoDup (map fst l) ->
  forall p,
    (forall p1 p2 m, p = p1 ++ p2 -> p1 <> [] -> p2 <> [] -> cassoc p1 l = Some m -> m_dir m = true) ->
    kind_of (ctree l) p = kspec l p.
Proof.
  induction l as [|[cs m] l IH] using rev_ind; intros Hne Hnd p Hp.
  - unfold ctree, kspec. destruct p; reflexivity.
  - apply Forall_app in Hne as [Hne Hcs]. inversion Hcs as [|? ? Hcs' _]; subst. cbn [fst] in Hcs'.
    rewrite map_app in Hnd. cbn [map fst] in Hnd.
    apply NoDup_remove in Hnd as [Hnd Hnotin]. rewrite app_nil_r in Hnd, Hnotin.
    assert (Hcl : cassoc cs l = None) by (apply cassoc_notin; exact Hnotin).
    assert (IHp : forall q,
      (forall p1 p2 m0, q = p1 ++ p2 -> p1 <> [] -> p2 <> [] ->
                        cassoc p1 (l ++ [(cs, m)]) = Some m0 -> m_dir m0 = true) ->
      kind_of (ctree l) q = kspec l q).
    { intros q Hq. apply IH; auto. intros p1 p2 m0 E N1 N2 C. apply (Hq p1 p2 m0 E N1 N2).
      rewrite cassoc_app, C. reflexivity. }
    assert (Hclear : clear (ctree l) p = true).
    { apply clear_of_kinds. intros p1 p2 E N2. rewrite IHp.
      - unfold kspec. destruct (cassoc p1 l) as [m0|] eqn:C.
        + destruct p1 as [|c1 p1'].
          * rewrite (cassoc_nil l Hne) in C. discriminate.
          * rewrite (Hp (c1 :: p1') p2 m0 E ltac:(discriminate) N2); [discriminate|].
            rewrite cassoc_app, C. reflexivity.
        + destruct (is_nil p1 || existsb (fun e => cprefix p1 (fst e)) l); discriminate.
      - intros q1 q2 m0 E' N1' N2' C. apply (Hp q1 (q2 ++ p2) m0); [|exact N1'| |exact C].
        + subst. rewrite app_assoc. reflexivity.
        + destruct q2; [congruence|discriminate]. }
    unfold ctree. rewrite fold_left_app. cbn [fold_left fst snd]. fold (ctree l).
    destruct (path_cases p cs) as [->|[(r & Hr & ->)|[(r & Hr & ->)|[H1 H2]]]].
    + rewrite kind_tins_same by assumption. unfold kspec. rewrite cassoc_app, Hcl.
      cbn [cassoc]. rewrite path_eqb_refl. reflexivity.
    + rewrite kind_tins_below by assumption. rewrite IHp by exact Hp.
      unfold kspec. rewrite cassoc_app. destruct (cassoc p l) as [m0|] eqn:C.
      * destruct (m_dir m0); reflexivity.
      * cbn [cassoc]. rewrite (path_eqb_neq _ _ (app_self_ne p r Hr)).
        rewrite existsb_app. cbn [existsb fst]. rewrite cprefix_app_self.
        cbn [orb]. rewrite !orb_true_r.
        destruct (is_nil p || existsb (fun e => cprefix p (fst e)) l); reflexivity.
    + unfold kind_of. rewrite lookup_tins_above; [|assumption|assumption|].
      2:{ apply (Hp cs r m eq_refl Hcs' Hr). rewrite cassoc_app, Hcl. cbn [cassoc].
          now rewrite path_eqb_refl. }
      fold (kind_of (ctree l) (cs ++ r)). rewrite IHp by exact Hp.
      unfold kspec. rewrite cassoc_app. destruct (cassoc (cs ++ r) l); [reflexivity|].
      cbn [cassoc].
      assert (Hx : path_eqb (cs ++ r) cs = false).
      { apply path_eqb_neq. intro E. symmetry in E. exact (app_self_ne cs r Hr E). }
      rewrite Hx, existsb_app. cbn [existsb fst]. rewrite (cprefix_longer cs r Hr).
      cbn [orb]. rewrite orb_false_r. reflexivity.
    + unfold kind_of. rewrite lookup_tins_diverge by assumption.
      fold (kind_of (ctree l) p). rewrite IHp by exact Hp.
      unfold kspec. rewrite cassoc_app. destruct (cassoc p l); [reflexivity|]. cbn [cassoc].
      assert (Hx : path_eqb p cs = false).
      { apply path_eqb_neq. intros ->. pose proof (cprefix_app_self cs []) as Hy.
        rewrite app_nil_r in Hy. congruence. }
      rewrite Hx, existsb_app. cbn [existsb fst]. rewrite H1. cbn [orb].
      rewrite orb_false_r. reflexivity.
Qed.

(* ---- from the OrderedDict of ReadTarFS to component-keyed entries ---- *)
Definition centries_of (es : list (str * member)) : list (list str * member) :=
  map (fun e => (comps (fst e), snd e)) es.

Lemma tar_tree_ctree es : tar_tree es = ctree (centries_of es).
Proof.
  unfold tar_tree, ctree, centries_of. generalize empty_dir.
  induction es as [|e es IH]; intro t; [reflexivity|]. cbn [map fold_left fst snd]. apply IH.
Qed.

Definition safe_keys (es : list (str * member)) : Prop := Forall (fun e => safe_name (fst e)) es.

Lemma NoDup_snoc {A} (l : list A) x : NoDup l -> ~ In x l -> NoDup (l ++ [x]).
Proof.
  induction l as [|a l IH]; intros Hn Hi; cbn [app].
  - constructor; [intros []|constructor].
  - inversion Hn; subst. constructor.
    + rewrite in_app_iff. intros [H|[H|[]]]; [contradiction|]. subst. apply Hi. now left.
    + apply IH; [assumption|]. intro H. apply Hi. now right.
Qed.

Lemma tar_entries_safe ms : safe_keys (tar_entries ms) /\ NoDup (keys (tar_entries ms)).
Proof.
  unfold tar_entries.
  assert (G : forall d, safe_keys d /\ NoDup (keys d) ->
    safe_keys (fold_left (fun d m => match tar_key (m_name m) with
                                     | Some k => assoc_set k m d
                                     | None => d
                                     end) ms d) /\
    NoDup (keys (fold_left (fun d m => match tar_key (m_name m) with
                                       | Some k => assoc_set k m d
                                       | None => d
                                       end) ms d))).
  { induction ms as [|m ms IH]; intros d [Hs Hn]; [split; assumption|]. cbn [fold_left]. apply IH.
    destruct (tar_key (m_name m)) as [k|] eqn:K; [|split; assumption]. split.
    - apply Forall_assoc_set; [exact Hs|]. cbn [fst]. eapply tar_key_safe; eauto.
    - destruct (assoc k d) as [x|] eqn:A.
      + rewrite (keys_assoc_set_some _ _ _ _ A). exact Hn.
      + rewrite (keys_assoc_set_none _ _ _ A). apply NoDup_snoc; [exact Hn|].
        now apply assoc_none_notin. }
  apply G. split; constructor.
Qed.

Lemma comps_safe cs : cs <> [] -> Forall good cs -> comps (to_path false cs) = cs.
Proof. intros N G. unfold comps. rewrite split_to_path by assumption. reflexivity. Qed.

Lemma to_path_false_eqb a b : Forall good a -> Forall good b ->
  str_eqb (to_path false a) (to_path false b) = path_eqb a b.
Proof.
  intros Ga Gb. destruct (path_eqb a b) eqn:E.
  - apply path_eqb_eq in E. subst. apply str_eqb_refl.
  - apply str_eqb_neq. intro H.
    assert (H' : to_path true a = to_path true b).
    { unfold to_path in *. cbn [app] in *. now rewrite H. }
    apply to_path_inj in H'; auto. subst. now rewrite path_eqb_refl in E.
Qed.

Lemma cassoc_centries es p : safe_keys es -> Forall good p ->
  cassoc p (centries_of es) = assoc (to_path false p) es.
Proof.
  intros Hs Hp. induction es as [|[k v] es IH]; [reflexivity|].
  inversion Hs as [|? ? Hk Hs']; subst. cbn [fst] in Hk. destruct Hk as (cs & N & G & ->).
  unfold centries_of in *. cbn [map cassoc assoc fst snd]. rewrite comps_safe by assumption.
  rewrite to_path_false_eqb by assumption. rewrite IH by assumption. reflexivity.
Qed.

Lemma existsb_centries es p : safe_keys es -> Forall good p ->
  existsb (fun e => cprefix p (fst e)) (centries_of es)
  = existsb (fun e => isbase (to_path false p) (fst e)) es.
Proof.
  intros Hs Hp. induction es as [|[k v] es IH]; [reflexivity|].
  inversion Hs as [|? ? Hk Hs']; subst. cbn [fst] in Hk. destruct Hk as (cs & N & G & ->).
  unfold centries_of in *. cbn [map existsb fst snd]. rewrite comps_safe by assumption.
  rewrite isbase_nf by assumption. rewrite IH by assumption. reflexivity.
Qed.

Lemma NoDup_map_inj {A B} (f : A -> B) l :
  (forall x y, In x l -> In y l -> f x = f y -> x = y) -> NoDup l -> NoDup (map f l).
Proof.
  induction l as [|a l IH]; intros Hi Hn; cbn [map]; [constructor|].
  inversion Hn; subst. constructor.
  - intro H. apply in_map_iff in H as (y & E & Hy).
    assert (y = a) by (apply Hi; [now right|now left|exact E]). subst. contradiction.
  - apply IH; [|assumption]. intros x y Hx Hy. apply Hi; now right.
Qed.

Lemma centries_ok es : safe_keys es -> NoDup (keys es) ->
  Forall (fun e : list str * member => fst e <> []) (centries_of es) /\
  NoDup (map fst (centries_of es)).
Proof.
  intros Hs Hn. split.
  - unfold centries_of. apply Forall_map. eapply Forall_impl; [|exact Hs].
    intros [k v] (cs & N & G & E). cbn [fst] in *. subst k. now rewrite comps_safe.
  - unfold centries_of. rewrite map_map. cbn [fst].
    change (map (fun x : str * member => comps (fst x)) es) with (map (fun x => comps (fst x)) es).
    rewrite <- (map_map fst comps). apply NoDup_map_inj; [|exact Hn].
    intros x y Hx Hy E.
    assert (Sx : forall z, In z (keys es) -> safe_name z).
    { intros z Hz. unfold keys in Hz. apply in_map_iff in Hz as ([k v] & <- & Hin).
      unfold safe_keys in Hs. rewrite Forall_forall in Hs. exact (Hs _ Hin). }
    destruct (Sx x Hx) as (c1 & N1 & G1 & ->). destruct (Sx y Hy) as (c2 & N2 & G2 & ->).
    rewrite !comps_safe in E by assumption. now subst.
Qed.

Theorem tar_tree_isdir : forall ms p, Forall good p ->
  (forall p1 p2 m, p = p1 ++ p2 -> p1 <> [] -> p2 <> [] ->
                   assoc (to_path false p1) (tar_entries ms) = Some m -> m_dir m = true) ->
  ((exists e mt, lookup (tar_read ms) p = Some (Dir e mt))
   <-> tar_isdir_q (tar_entries ms) (to_path false p) = true).
Proof.
  intros ms p G H. destruct (tar_entries_safe ms) as [Hs Hn].
  destruct (centries_ok _ Hs Hn) as [Hne Hnd].
  assert (K : kind_of (tar_read ms) p = kspec (centries_of (tar_entries ms)) p).
  { unfold tar_read. rewrite tar_tree_ctree. apply ctree_kind; [exact Hne|exact Hnd|].
    intros p1 p2 m E N1 N2 C. apply (H p1 p2 m E N1 N2). rewrite <- cassoc_centries; auto.
    subst p. apply Forall_app in G as [G1 _]. exact G1. }
  unfold kspec in K. rewrite cassoc_centries, existsb_centries in K by assumption.
  unfold tar_isdir_q.
  assert (Hemp : is_empty (to_path false p) = is_nil p).
  { destruct p; [reflexivity|]. apply is_empty_to_path; [discriminate|assumption]. }
  rewrite Hemp. unfold kind_of in K.
  split.
  - intros (e & mt & L). rewrite L in K.
    destruct (assoc (to_path false p) (tar_entries ms)) as [m|].
    + destruct (m_dir m); [reflexivity|discriminate].
    + destruct (is_nil p || _); [reflexivity|discriminate].
  - intro T. destruct (assoc (to_path false p) (tar_entries ms)) as [m|]; rewrite T in K;
      destruct (lookup (tar_read ms) p) as [[d x|e mt]|]; try discriminate; eauto.
Qed.
Print Assumptions tar_tree_isdir.
