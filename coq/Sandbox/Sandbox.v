(* How path arguments become paths handed to the layer below:
   FS.validatepath + OSFS._to_sys_path, SubFS.delegate_path (any nesting depth). *)
From Coq Require Import List NArith Bool Arith Lia.
From PyFS Require Import Base.PyStr Base.Outcome Path.PathModel Path.PathSpec.
Import ListNotations.

(* FS.validatepath without the closed / invalid-character checks: abspath(normpath(path)) *)
Definition validate (p : str) : outcome str :=
  match normpath p with
  | Ok n => Ok (abspath n)
  | Err e => Err e
  | Crash k => Crash k
  end.

(* OSFS._to_sys_path / getsyspath on a validated path: os.path.join(root, path.lstrip("/")) ;
   the root is given by its components, the result by its component list *)
Definition sys_components (root : list str) (validated : str) : list str :=
  root ++ match relpath validated with
          | [] => []
          | r => split_on slash r
          end.

Definition osfs_syspath (root : list str) (p : str) : outcome (list str) :=
  match validate p with
  | Ok q => Ok (sys_components root q)
  | Err e => Err e
  | Crash k => Crash k
  end.

(* SubFS.delegate_path: join(self._sub_dir, relpath(normpath(path))) *)
Definition subfs_delegate (sub_dir : str) (p : str) : outcome str :=
  match normpath p with
  | Ok n => pjoin [sub_dir; relpath n]
  | Err e => Err e
  | Crash k => Crash k
  end.

(* SubFS of SubFS of ... : innermost first *)
Fixpoint nested_delegate (subs : list str) (p : str) : outcome str :=
  match subs with
  | [] => Ok p
  | s :: outer =>
    match subfs_delegate s p with
    | Ok q => nested_delegate outer q
    | Err e => Err e
    | Crash k => Crash k
    end
  end.
