(* No path argument escapes the root: statements and proofs. *)
From Coq Require Import List NArith Bool Arith Lia.
From PyFS Require Import Base.PyStr Base.Outcome Path.PathModel Path.PathSpec Path.PathProofs Sandbox.Sandbox.
Import ListNotations.

(* ------------------------------------------------------------------ *)
(* helper lemmas                                                       *)
(* ------------------------------------------------------------------ *)

Lemma join_app_ne sep (a b : list str) : a <> [] -> b <> [] ->
  join sep (a ++ b) = join sep a ++ sep ++ join sep b.
Proof.
  induction a as [|x a IH]; intros Ha Hb; [congruence|].
  destruct a as [|y a].
  - simpl app. rewrite join_cons by exact Hb. reflexivity.
  - change ((x :: y :: a) ++ b) with (x :: ((y :: a) ++ b)).
    rewrite join_cons by (simpl; discriminate).
    rewrite IH by first [discriminate|exact Hb].
    rewrite (join_cons sep x (y :: a)) by discriminate.
    rewrite <- !app_assoc. reflexivity.
Qed.

Lemma to_path_app_ne abs (a b : list str) : a <> [] -> b <> [] ->
  to_path abs (a ++ b) = to_path abs a ++ slash :: to_path false b.
Proof.
  intros Ha Hb. unfold to_path. rewrite join_app_ne by assumption.
  simpl. rewrite <- app_assoc. reflexivity.
Qed.

Lemma Forall_good_app (a b : list str) : Forall good a -> Forall good b -> Forall good (a ++ b).
Proof. intros Ha Hb. apply Forall_app. split; assumption. Qed.

(* to_path on good component lists is injective *)
Lemma to_path_inj abs a b : Forall good a -> Forall good b ->
  to_path abs a = to_path abs b -> a = b.
Proof.
  intros Ha Hb E.
  pose proof (resolve_comps_nf abs a Ha) as H1.
  pose proof (resolve_comps_nf abs b Hb) as H2.
  rewrite E in H1. rewrite H1 in H2. inversion H2. reflexivity.
Qed.

(* the key lemma: join of an absolute normalised path with a relative normalised path *)
Lemma pjoin_abs_rel a b : Forall good a -> Forall good b ->
  pjoin [to_path true a; to_path false b] = Ok (to_path true (a ++ b)).
Proof.
  intros Ha Hb.
  destruct b as [|c b'].
  - (* second argument is the empty string: skipped by join_scan *)
    rewrite app_nil_r. change (to_path false []) with (@nil char).
    assert (Ejs : join_scan [to_path true a; []] false [] = (true, [to_path true a])).
    { unfold to_path. simpl. rewrite ?ceqb_refl. reflexivity. }
    erewrite pjoin_eq by exact Ejs.
    change (join s_slash [to_path true a]) with (to_path true a).
    rewrite normpath_nf by exact Ha. cbn [bind].
    rewrite abspath_nf_gen by exact Ha. reflexivity.
  - assert (Hab : Forall good (a ++ c :: b')) by (apply Forall_good_app; assumption).
    assert (Ejs : join_scan [to_path true a; to_path false (c :: b')] false []
                  = (true, [to_path true a; to_path false (c :: b')])).
    { pose proof (starts_c_to_path false (c :: b') Hb) as Hs.
      pose proof (to_path_ne false (c :: b') ltac:(discriminate) Hb) as Hn.
      destruct (to_path false (c :: b')) as [|y t] eqn:Et; [congruence|].
      simpl in Hs. unfold to_path at 1. simpl. rewrite ?ceqb_refl, Hs. reflexivity. }
    erewrite pjoin_eq by exact Ejs.
    change (join s_slash [to_path true a; to_path false (c :: b')])
      with (to_path true a ++ slash :: to_path false (c :: b')).
    destruct a as [|a0 a'].
    + (* first argument is "/" : the joined string is "//..." *)
      change (to_path true [] ++ slash :: to_path false (c :: b'))
        with (slash :: slash :: to_path false (c :: b')).
      rewrite normpath_spec. unfold spec_normpath, comps.
      assert (Es : split_on slash (slash :: slash :: to_path false (c :: b'))
                   = [] :: [] :: c :: b').
      { simpl split_on. rewrite split_to_path by first [exact Hb|discriminate]. reflexivity. }
      rewrite Es. unfold resolve.
      change (resolve_stack ([] :: [] :: c :: b') []) with (resolve_stack (c :: b') []).
      rewrite resolve_good_all by exact Hb.
      cbn [bind starts_c rev app]. rewrite ?ceqb_refl.
      rewrite abspath_nf_gen by exact Hb. reflexivity.
    + rewrite <- to_path_app_ne by discriminate.
      rewrite normpath_nf by exact Hab. cbn [bind].
      rewrite abspath_nf_gen by exact Hab. reflexivity.
Qed.

Lemma sys_components_nf root cs : Forall good cs ->
  sys_components root (to_path true cs) = root ++ cs.
Proof.
  intro Hg. unfold sys_components. rewrite relpath_nf_gen by exact Hg.
  destruct cs as [|c cs'].
  - reflexivity.
  - pose proof (to_path_ne false (c :: cs') ltac:(discriminate) Hg) as Hn.
    pose proof (split_to_path false (c :: cs') Hg ltac:(discriminate)) as Hs.
    destruct (to_path false (c :: cs')) as [|y t] eqn:Et; [congruence|].
    rewrite Hs. reflexivity.
Qed.

Lemma subfs_delegate_spec sub p : Forall good sub ->
  subfs_delegate (to_path true sub) p
  = match resolve (comps p) with
    | Some cs => Ok (to_path true (sub ++ cs))
    | None => Err IllegalBackReference
    end.
Proof.
  intro Hs. unfold subfs_delegate. rewrite normpath_spec. unfold spec_normpath.
  destruct (resolve (comps p)) as [cs|] eqn:E; [|reflexivity].
  pose proof (resolve_comps_good p cs E) as Hg.
  rewrite relpath_nf_gen by exact Hg.
  apply pjoin_abs_rel; assumption.
Qed.

Lemma cprefix_app_false other : forall sub cs,
  cprefix sub other = false -> cprefix other sub = false ->
  cprefix other (sub ++ cs) = false.
Proof.
  induction other as [|x other IH]; intros sub cs H1 H2.
  - simpl in H2. discriminate.
  - destruct sub as [|y sub]; [simpl in H1; discriminate|].
    simpl in *.
    destruct (str_eqb x y) eqn:E.
    + apply str_eqb_eq in E. subst y. rewrite str_eqb_refl in H1. simpl in *.
      apply IH; assumption.
    + reflexivity.
Qed.

(* ------------------------------------------------------------------ *)
(* theorems                                                            *)
(* ------------------------------------------------------------------ *)

(* validatepath yields an absolute, normalised path without '..' components, or raises
   IllegalBackReference exactly when the path climbs above the root *)
Theorem validate_spec : forall p,
  validate p = match resolve (comps p) with
               | Some cs => Ok (to_path true cs)
               | None => Err IllegalBackReference
               end.
Proof.
  intro p. unfold validate. rewrite normpath_spec. unfold spec_normpath.
  destruct (resolve (comps p)) as [cs|] eqn:E; [|reflexivity].
  rewrite abspath_nf_gen by (apply (resolve_comps_good p); exact E). reflexivity.
Qed.

Theorem validate_components_good : forall p q, validate p = Ok q ->
  exists cs, Forall good cs /\ q = to_path true cs.
Proof.
  intros p q H. rewrite validate_spec in H.
  destruct (resolve (comps p)) as [cs|] eqn:E; [|discriminate].
  inversion H; subst. exists cs. split; [apply (resolve_comps_good p); exact E|reflexivity].
Qed.

(* the system path is the root extended by whole components, none of them '..', '.', '' or
   containing '/': every OS call made with it stays inside the root directory *)
Theorem osfs_syspath_inside : forall root p sc,
  osfs_syspath root p = Ok sc ->
  exists cs, Forall good cs /\ sc = root ++ cs /\ resolve (comps p) = Some cs.
Proof.
  intros root p sc H. unfold osfs_syspath in H. rewrite validate_spec in H.
  destruct (resolve (comps p)) as [cs|] eqn:E; [|discriminate].
  pose proof (resolve_comps_good p cs E) as Hg.
  rewrite sys_components_nf in H by exact Hg. inversion H; subst.
  exists cs. split; [exact Hg|]. split; reflexivity.
Qed.

Theorem osfs_syspath_escape_rejected : forall root p,
  resolve (comps p) = None -> osfs_syspath root p = Err IllegalBackReference.
Proof.
  intros root p H. unfold osfs_syspath. rewrite validate_spec, H. reflexivity.
Qed.

(* SubFS: the delegated path is the sub-directory extended by whole components *)
Theorem subfs_inside : forall sub p q,
  Forall good sub ->
  subfs_delegate (to_path true sub) p = Ok q ->
  exists cs, Forall good cs /\ q = to_path true (sub ++ cs) /\ resolve (comps p) = Some cs.
Proof.
  intros sub p q Hs H. rewrite subfs_delegate_spec in H by exact Hs.
  destruct (resolve (comps p)) as [cs|] eqn:E; [|discriminate].
  inversion H; subst. exists cs.
  split; [apply (resolve_comps_good p); exact E|]. split; reflexivity.
Qed.

Theorem subfs_escape_rejected : forall sub p,
  Forall good sub -> resolve (comps p) = None ->
  subfs_delegate (to_path true sub) p = Err IllegalBackReference.
Proof.
  intros sub p Hs H. rewrite subfs_delegate_spec by exact Hs. rewrite H. reflexivity.
Qed.

(* any nesting depth: the path reaching the outermost parent lies below the concatenation
   of all sub-directories (outermost first) *)

(* generalised form: once the path is validated, every level only prepends its sub-directory *)
Lemma nested_delegate_nf : forall (subs : list (list str)) cs,
  Forall (Forall good) subs -> Forall good cs ->
  nested_delegate (map (to_path true) subs) (to_path true cs)
  = Ok (to_path true (concat (rev subs) ++ cs)).
Proof.
  induction subs as [|s subs IH]; intros cs Hs Hc.
  - reflexivity.
  - inversion Hs as [|? ? Hs1 Hs2]; subst.
    cbn [map nested_delegate]. rewrite subfs_delegate_spec by exact Hs1.
    rewrite resolve_comps_nf by exact Hc.
    rewrite IH by first [exact Hs2|apply Forall_good_app; assumption].
    cbn [rev]. rewrite concat_app. cbn [concat]. rewrite app_nil_r, <- app_assoc.
    reflexivity.
Qed.

(* STATEMENT CHANGED: with subs = [] nested_delegate returns p itself, untouched, so
   the original statement
     Theorem subfs_nested_inside : forall (subs : list (list str)) p q,
       Forall (Forall good) subs ->
       nested_delegate (map (to_path true) subs) p = Ok q ->
       exists cs, Forall good cs /\ q = to_path true (concat (rev subs) ++ cs).
   is false: counterexample subs = [], p = "" (or "a", or ".."): q = p does not start
   with "/", whereas to_path true cs always does.  (There is no SubFS at nesting depth 0,
   so nothing is lost.)  True version: at least one SubFS level (subs <> []); it is also
   strengthened to say that cs are the resolved components of p.  For depth 0 see
   subfs_nested_inside_validated below: true for any depth once p is a validated path. *)
Theorem subfs_nested_inside : forall (subs : list (list str)) p q,
  subs <> [] ->
  Forall (Forall good) subs ->
  nested_delegate (map (to_path true) subs) p = Ok q ->
  exists cs, Forall good cs /\ q = to_path true (concat (rev subs) ++ cs)
             /\ resolve (comps p) = Some cs.
Proof.
  intros subs p q Hn Hs H.
  destruct subs as [|s subs]; [congruence|].
  inversion Hs as [|? ? Hs1 Hs2]; subst.
  cbn [map nested_delegate] in H. rewrite subfs_delegate_spec in H by exact Hs1.
  destruct (resolve (comps p)) as [cs|] eqn:E; [|discriminate].
  pose proof (resolve_comps_good p cs E) as Hg.
  rewrite nested_delegate_nf in H by first [exact Hs2|apply Forall_good_app; assumption].
  inversion H; subst. exists cs. split; [exact Hg|]. split; [|reflexivity].
  cbn [rev]. rewrite concat_app. cbn [concat]. rewrite app_nil_r, <- app_assoc.
  reflexivity.
Qed.

(* any depth (including 0) when the argument is a validated path *)
Theorem subfs_nested_inside_validated : forall (subs : list (list str)) p0 p q,
  Forall (Forall good) subs ->
  validate p0 = Ok p ->
  nested_delegate (map (to_path true) subs) p = Ok q ->
  exists cs, Forall good cs /\ q = to_path true (concat (rev subs) ++ cs)
             /\ resolve (comps p0) = Some cs.
Proof.
  intros subs p0 p q Hs Hv H. rewrite validate_spec in Hv.
  destruct (resolve (comps p0)) as [cs|] eqn:E; [|discriminate].
  pose proof (resolve_comps_good p0 cs E) as Hg.
  inversion Hv; subst. rewrite nested_delegate_nf in H by assumption.
  inversion H; subst. exists cs. split; [exact Hg|]. split; reflexivity.
Qed.

(* an escaping path is rejected at the innermost level, whatever the depth *)
Theorem subfs_nested_escape_rejected : forall (subs : list (list str)) p,
  subs <> [] -> Forall (Forall good) subs -> resolve (comps p) = None ->
  nested_delegate (map (to_path true) subs) p = Err IllegalBackReference.
Proof.
  intros subs p Hn Hs H. destruct subs as [|s subs]; [congruence|].
  inversion Hs as [|? ? Hs1 Hs2]; subst.
  cbn [map nested_delegate]. rewrite subfs_delegate_spec by exact Hs1. rewrite H. reflexivity.
Qed.

(* what is outside stays outside: the delegated path of a SubFS at 'sub' never has a
   component prefix equal to a sibling directory's path *)
Theorem subfs_never_reaches_sibling : forall sub other p q,
  Forall good sub -> Forall good other -> cprefix sub other = false -> cprefix other sub = false ->
  subfs_delegate (to_path true sub) p = Ok q ->
  forall qc, q = to_path true qc -> Forall good qc -> cprefix other qc = false.
Proof.
  intros sub other p q Hs Ho H1 H2 H qc Eq Hqc.
  destruct (subfs_inside sub p q Hs H) as [cs [Hg [Eq' _]]].
  subst q. apply to_path_inj in Eq'; [|exact Hqc|apply Forall_good_app; assumption].
  subst qc. apply cprefix_app_false; assumption.
Qed.
