(* Python strings as lists of code points, and the str methods the code uses. *)
From Coq Require Import List NArith Bool Lia.
Import ListNotations.

Definition char := N.
Definition str := list char.

Definition slash : char := 47%N.
Definition dot : char := 46%N.
Definition newline : char := 10%N.

Definition ceqb (a b : char) : bool := N.eqb a b.

Fixpoint str_eqb (a b : str) : bool :=
  match a, b with
  | [], [] => true
  | x :: a', y :: b' => ceqb x y && str_eqb a' b'
  | _, _ => false
  end.

Lemma ceqb_eq a b : ceqb a b = true <-> a = b.
Proof. apply N.eqb_eq. Qed.

Lemma ceqb_refl a : ceqb a a = true.
Proof. apply N.eqb_refl. Qed.

Lemma ceqb_neq a b : ceqb a b = false <-> a <> b.
Proof. apply N.eqb_neq. Qed.

Lemma str_eqb_eq a b : str_eqb a b = true <-> a = b.
Proof.
  revert b; induction a as [|x a IH]; intros [|y b]; simpl; split; intro H;
    try reflexivity; try discriminate.
  - apply andb_true_iff in H as [H1 H2]. apply ceqb_eq in H1. apply IH in H2. congruence.
  - inversion H; subst. rewrite ceqb_refl. simpl. apply IH. reflexivity.
Qed.

Lemma str_eqb_refl a : str_eqb a a = true.
Proof. apply str_eqb_eq. reflexivity. Qed.

Lemma str_eqb_neq a b : str_eqb a b = false <-> a <> b.
Proof.
  split.
  - intros H E. apply str_eqb_eq in E. congruence.
  - intro H. destruct (str_eqb a b) eqn:E; [|reflexivity]. apply str_eqb_eq in E. contradiction.
Qed.

Lemma str_eqb_spec a b : reflect (a = b) (str_eqb a b).
Proof.
  destruct (str_eqb a b) eqn:E; constructor.
  - apply str_eqb_eq; exact E.
  - apply str_eqb_neq; exact E.
Qed.

(* s.split(c): never returns the empty list *)
Fixpoint split_on (c : char) (s : str) : list str :=
  match s with
  | [] => [[]]
  | x :: xs =>
    if ceqb x c then [] :: split_on c xs
    else match split_on c xs with
         | [] => [[x]]
         | h :: t => (x :: h) :: t
         end
  end.

(* sep.join(l) *)
Fixpoint join (sep : str) (l : list str) : str :=
  match l with
  | [] => []
  | [x] => x
  | x :: xs => x ++ sep ++ join sep xs
  end.

Definition has_char (c : char) (s : str) : bool := existsb (ceqb c) s.

Lemma split_on_nonnil c s : split_on c s <> [].
Proof.
  destruct s as [|x xs]; simpl; [discriminate|].
  destruct (ceqb x c); [discriminate|].
  destruct (split_on c xs); discriminate.
Qed.

Lemma join_cons sep x xs : xs <> [] -> join sep (x :: xs) = x ++ sep ++ join sep xs.
Proof. destruct xs; [congruence|reflexivity]. Qed.

Lemma join_split c s : join [c] (split_on c s) = s.
Proof.
  induction s as [|x xs IH]; simpl; [reflexivity|].
  destruct (ceqb x c) eqn:E.
  - apply ceqb_eq in E; subst x.
    rewrite join_cons by apply split_on_nonnil. simpl. now rewrite IH.
  - pose proof (split_on_nonnil c xs) as Hn.
    destruct (split_on c xs) as [|h t] eqn:Es; [congruence|].
    destruct t as [|h2 t2]; simpl in *; now rewrite <- IH.
Qed.

Lemma split_on_nochar c s : has_char c s = false -> split_on c s = [s].
Proof.
  induction s as [|x xs IH]; simpl; [reflexivity|].
  intro H. apply orb_false_iff in H as [H1 H2].
  assert (ceqb x c = false) as ->.
  { destruct (ceqb x c) eqn:E; [|reflexivity]. apply ceqb_eq in E; subst.
    now rewrite ceqb_refl in H1. }
  now rewrite IH.
Qed.

Lemma has_char_app c a b : has_char c (a ++ b) = has_char c a || has_char c b.
Proof. unfold has_char. apply existsb_app. Qed.

Lemma split_on_app c a b :
  has_char c a = false ->
  split_on c (a ++ c :: b) = a :: split_on c b.
Proof.
  induction a as [|x a IH]; simpl.
  - now rewrite ceqb_refl.
  - intro H. apply orb_false_iff in H as [H1 H2].
    assert (ceqb x c = false) as ->.
    { destruct (ceqb x c) eqn:E; [|reflexivity]. apply ceqb_eq in E; subst.
      now rewrite ceqb_refl in H1. }
    now rewrite IH.
Qed.

Definition noslash (c : char) (l : list str) : Prop := Forall (fun s => has_char c s = false) l.

Lemma split_join c l : l <> [] -> noslash c l -> split_on c (join [c] l) = l.
Proof.
  induction l as [|x xs IH]; [congruence|].
  intros _ H. inversion H as [|? ? Hx Hxs]; subst.
  destruct xs as [|y ys].
  - simpl. now apply split_on_nochar.
  - rewrite join_cons by discriminate. simpl app.
    rewrite split_on_app by assumption. f_equal. apply IH; [discriminate|assumption].
Qed.

Lemma split_on_noslash c s : noslash c (split_on c s).
Proof.
  induction s as [|x xs IH]; simpl.
  - constructor; [reflexivity|constructor].
  - destruct (ceqb x c) eqn:E.
    + constructor; [reflexivity|assumption].
    + pose proof (split_on_nonnil c xs).
      destruct (split_on c xs) as [|h t]; [congruence|].
      inversion IH; subst. constructor; [|assumption].
      simpl. rewrite H2. rewrite N.eqb_sym in E. unfold ceqb in *. now rewrite E.
Qed.

(* startswith / endswith with a single character *)
Definition starts_c (c : char) (s : str) : bool :=
  match s with x :: _ => ceqb x c | [] => false end.

Fixpoint ends_c (c : char) (s : str) : bool :=
  match s with
  | [] => false
  | [x] => ceqb x c
  | _ :: xs => ends_c c xs
  end.

Fixpoint starts_with (p s : str) : bool :=
  match p, s with
  | [], _ => true
  | x :: p', y :: s' => ceqb x y && starts_with p' s'
  | _ :: _, [] => false
  end.

Lemma starts_with_app p s : starts_with p (p ++ s) = true.
Proof. induction p; simpl; [reflexivity|]. now rewrite ceqb_refl. Qed.

Lemma starts_with_iff p s : starts_with p s = true <-> exists t, s = p ++ t.
Proof.
  revert s; induction p as [|x p IH]; intros s; simpl.
  - split; [intros _; now exists s|reflexivity].
  - destruct s as [|y s]; [split; [discriminate|intros [t H]; discriminate]|].
    split.
    + intro H. apply andb_true_iff in H as [H1 H2]. apply ceqb_eq in H1; subst.
      apply IH in H2 as [t ->]. now exists t.
    + intros [t H]. inversion H; subst. rewrite ceqb_refl. simpl. apply IH. now exists t.
Qed.

(* lstrip / rstrip of one character *)
Fixpoint lstrip_c (c : char) (s : str) : str :=
  match s with
  | x :: xs => if ceqb x c then lstrip_c c xs else s
  | [] => []
  end.

Definition rstrip_c (c : char) (s : str) : str := rev (lstrip_c c (rev s)).

Definition strip_c (c : char) (s : str) : str := rstrip_c c (lstrip_c c s).

Lemma rstrip_c_app_nonslash c s x : x <> c -> rstrip_c c (s ++ [x]) = s ++ [x].
Proof.
  intro H. unfold rstrip_c. rewrite rev_app_distr. simpl.
  apply ceqb_neq in H. rewrite H. simpl. now rewrite rev_involutive.
Qed.

Lemma rstrip_c_app_slash c s : rstrip_c c (s ++ [c]) = rstrip_c c s.
Proof.
  unfold rstrip_c. rewrite rev_app_distr. simpl. now rewrite ceqb_refl.
Qed.

Lemma rstrip_c_nil c : rstrip_c c [] = [].
Proof. reflexivity. Qed.

Lemma ends_c_app c s x : ends_c c (s ++ [x]) = ceqb x c.
Proof.
  induction s as [|y s IH]; simpl; [reflexivity|].
  destruct (s ++ [x]) eqn:E; [destruct s; discriminate|]. exact IH.
Qed.

Lemma rstrip_c_noend c s : ends_c c s = false -> rstrip_c c s = s.
Proof.
  destruct (rev s) as [|x r] eqn:E.
  - intros _. apply (f_equal (@rev _)) in E. rewrite rev_involutive in E. subst. reflexivity.
  - apply (f_equal (@rev _)) in E. rewrite rev_involutive in E. simpl in E. subst s.
    rewrite ends_c_app. intro H. apply rstrip_c_app_nonslash. now apply ceqb_neq.
Qed.

(* s.rsplit(c, 1) when c occurs: (before last c, after last c) *)
Fixpoint rsplit1 (c : char) (s : str) : option (str * str) :=
  match s with
  | [] => None
  | x :: xs =>
    match rsplit1 c xs with
    | Some (a, b) => Some (x :: a, b)
    | None => if ceqb x c then Some ([], xs) else None
    end
  end.

Lemma rsplit1_none c s : rsplit1 c s = None <-> has_char c s = false.
Proof.
  induction s as [|x xs IH]; simpl; [tauto|].
  destruct (rsplit1 c xs) as [[a b]|].
  - split; [discriminate|]. intro H. apply orb_false_iff in H as [_ H].
    apply IH in H. discriminate.
  - destruct (ceqb x c) eqn:E.
    + apply ceqb_eq in E; subst. rewrite ceqb_refl. split; discriminate.
    + assert (ceqb c x = false) as -> by (apply ceqb_neq; apply ceqb_neq in E; congruence).
      simpl. tauto.
Qed.

Lemma rsplit1_app c a b :
  has_char c b = false -> rsplit1 c (a ++ c :: b) = Some (a, b).
Proof.
  intro H. induction a as [|x a IH]; simpl.
  - apply rsplit1_none in H. rewrite H. now rewrite ceqb_refl.
  - now rewrite IH.
Qed.

(* s.find(c, pos) as an offset from the start of s (None = -1) *)
Fixpoint find_c (c : char) (s : str) : option nat :=
  match s with
  | [] => None
  | x :: xs => if ceqb x c then Some 0
               else match find_c c xs with Some n => Some (S n) | None => None end
  end.

Definition count_c (c : char) (s : str) : nat := length (filter (ceqb c) s).

Fixpoint last_opt {A} (l : list A) : option A :=
  match l with [] => None | [x] => Some x | _ :: xs => last_opt xs end.

Lemma last_opt_app {A} (l : list A) x : last_opt (l ++ [x]) = Some x.
Proof.
  induction l as [|y l IH]; simpl; [reflexivity|].
  destruct (l ++ [x]) eqn:E; [destruct l; discriminate|]. exact IH.
Qed.

Lemma removelast_app1 {A} (l : list A) x : removelast (l ++ [x]) = l.
Proof. rewrite removelast_app by discriminate. simpl. apply app_nil_r. Qed.
