(* Outcomes of API calls: a value, an fs.errors class, or a foreign exception. *)
From Coq Require Import List Bool.
Import ListNotations.

Inductive ecls :=
| ResourceNotFound | FileExpected | DirectoryExpected | DirectoryExists | FileExists
| DestinationExists | DirectoryNotEmpty | RemoveRootError | IllegalDestination
| IllegalBackReference | InvalidCharsInPath | InvalidPath | ResourceReadOnly | FilesystemClosed
| ResourceInvalid | ResourceError | Unsupported | NoSysPath | NoURL | BulkCopyFailed | OperationFailed
| PermissionDenied | ResourceLocked | InsufficientStorage | RemoteConnectionError
| CreateFailed | ParseError | FSError.

Inductive crash :=
| AssertionError | AttributeError | KeyError | ValueError | TypeError | IndexError
| RawOSError | NonTermination | Unreachable | OtherException.

Inductive outcome (V : Type) :=
| Ok (v : V)
| Err (e : ecls)
| Crash (k : crash).
Arguments Ok {V} v.
Arguments Err {V} e.
Arguments Crash {V} k.

Definition bind {A B} (o : outcome A) (f : A -> outcome B) : outcome B :=
  match o with Ok v => f v | Err e => Err e | Crash k => Crash k end.

Definition omap {A B} (f : A -> B) (o : outcome A) : outcome B :=
  match o with Ok v => Ok (f v) | Err e => Err e | Crash k => Crash k end.

Notation "'let*' x ':=' o 'in' k" := (bind o (fun x => k))
  (at level 200, x pattern, o at level 100, k at level 200, right associativity).

Definition ecls_eqb (a b : ecls) : bool :=
  match a, b with
  | ResourceNotFound, ResourceNotFound | FileExpected, FileExpected
  | DirectoryExpected, DirectoryExpected | DirectoryExists, DirectoryExists
  | FileExists, FileExists | DestinationExists, DestinationExists
  | DirectoryNotEmpty, DirectoryNotEmpty | RemoveRootError, RemoveRootError
  | IllegalDestination, IllegalDestination | IllegalBackReference, IllegalBackReference
  | InvalidCharsInPath, InvalidCharsInPath | InvalidPath, InvalidPath
  | ResourceReadOnly, ResourceReadOnly | FilesystemClosed, FilesystemClosed
  | ResourceInvalid, ResourceInvalid | ResourceError, ResourceError
  | Unsupported, Unsupported | NoSysPath, NoSysPath | NoURL, NoURL
  | BulkCopyFailed, BulkCopyFailed | OperationFailed, OperationFailed
  | PermissionDenied, PermissionDenied | ResourceLocked, ResourceLocked
  | InsufficientStorage, InsufficientStorage | RemoteConnectionError, RemoteConnectionError
  | CreateFailed, CreateFailed | ParseError, ParseError | FSError, FSError => true
  | _, _ => false
  end.

Lemma ecls_eqb_eq a b : ecls_eqb a b = true <-> a = b.
Proof. destruct a, b; simpl; split; intro H; try reflexivity; try discriminate. Qed.

Definition is_ok {V} (o : outcome V) : bool := match o with Ok _ => true | _ => false end.
Definition is_crash {V} (o : outcome V) : bool := match o with Crash _ => true | _ => false end.
