(* Canonical text rendering of model observations (shared with the Python harness,
   which renders the implementation's observations the same way), and helpers to
   write string literals. *)
From Coq Require Import List NArith ZArith Bool String Ascii.
From PyFS Require Import Base.PyStr Base.Outcome.
Import ListNotations.
Local Open Scope N_scope.

Definition lit (x : string) : str := List.map N_of_ascii (list_ascii_of_string x).

Fixpoint N_dec_fuel (fuel : nat) (n : N) (acc : str) : str :=
  match fuel with
  | O => acc
  | S f =>
    let acc' := (48 + n mod 10) :: acc in
    let q := n / 10 in
    if q =? 0 then acc' else N_dec_fuel f q acc'
  end.
Definition N_dec (n : N) : str := N_dec_fuel (S (N.to_nat (N.log2 n))) n [].
Definition nat_dec (n : nat) : str := N_dec (N.of_nat n).
Definition Z_dec (z : Z) : str :=
  match z with
  | Z0 => lit "0"
  | Zpos p => N_dec (Npos p)
  | Zneg p => lit "-" ++ N_dec (Npos p)
  end.

Fixpoint sep_by (sep : str) (l : list str) : str :=
  match l with
  | [] => []
  | [x] => x
  | x :: xs => x ++ sep ++ sep_by sep xs
  end.

Definition r_str (s : str) : str := lit "s" ++ sep_by (lit ",") (List.map N_dec s).
Definition r_bool (b : bool) : str := if b then lit "T" else lit "F".
Definition r_nat (n : nat) : str := lit "i" ++ nat_dec n.
Definition r_N (n : N) : str := lit "i" ++ N_dec n.
Definition r_Z (z : Z) : str := lit "i" ++ Z_dec z.
Definition r_list {A} (f : A -> str) (l : list A) : str :=
  lit "[" ++ sep_by (lit ";") (List.map f l) ++ lit "]".
Definition r_pair {A B} (f : A -> str) (g : B -> str) (p : A * B) : str :=
  lit "(" ++ f (fst p) ++ lit "|" ++ g (snd p) ++ lit ")".
Definition r_option {A} (f : A -> str) (o : option A) : str :=
  match o with None => lit "N" | Some x => lit "S" ++ f x end.

Definition ecls_name (e : ecls) : str :=
  match e with
  | ResourceNotFound => lit "ResourceNotFound" | FileExpected => lit "FileExpected"
  | DirectoryExpected => lit "DirectoryExpected" | DirectoryExists => lit "DirectoryExists"
  | FileExists => lit "FileExists" | DestinationExists => lit "DestinationExists"
  | DirectoryNotEmpty => lit "DirectoryNotEmpty" | RemoveRootError => lit "RemoveRootError"
  | IllegalDestination => lit "IllegalDestination"
  | IllegalBackReference => lit "IllegalBackReference"
  | InvalidCharsInPath => lit "InvalidCharsInPath" | InvalidPath => lit "InvalidPath"
  | ResourceReadOnly => lit "ResourceReadOnly" | FilesystemClosed => lit "FilesystemClosed"
  | ResourceInvalid => lit "ResourceInvalid" | ResourceError => lit "ResourceError"
  | Unsupported => lit "Unsupported" | NoSysPath => lit "NoSysPath" | NoURL => lit "NoURL"
  | BulkCopyFailed => lit "BulkCopyFailed" | OperationFailed => lit "OperationFailed"
  | PermissionDenied => lit "PermissionDenied" | ResourceLocked => lit "ResourceLocked"
  | InsufficientStorage => lit "InsufficientStorage"
  | RemoteConnectionError => lit "RemoteConnectionError"
  | CreateFailed => lit "CreateFailed" | ParseError => lit "ParseError" | FSError => lit "FSError"
  end.

Definition crash_name (k : crash) : str :=
  match k with
  | AssertionError => lit "AssertionError" | AttributeError => lit "AttributeError"
  | KeyError => lit "KeyError" | ValueError => lit "ValueError" | TypeError => lit "TypeError"
  | IndexError => lit "IndexError" | RawOSError => lit "OSError"
  | NonTermination => lit "NonTermination" | Unreachable => lit "Unreachable"
  | OtherException => lit "OtherException"
  end.

Definition r_outcome {A} (f : A -> str) (o : outcome A) : str :=
  match o with
  | Ok v => lit "ok:" ++ f v
  | Err e => lit "err:" ++ ecls_name e
  | Crash k => lit "crash:" ++ crash_name k
  end.

Definition r_unit (_ : unit) : str := lit "U".

(* argument access for dispatchers: missing arguments read as "" *)
Definition arg (n : nat) (args : list str) : str := nth n args [].
Definition arg_bool (n : nat) (args : list str) : bool :=
  match arg n args with 1 :: _ => true | _ => false end.
Definition arg_nat (n : nat) (args : list str) : nat :=
  match arg n args with x :: _ => N.to_nat x | [] => O end.
