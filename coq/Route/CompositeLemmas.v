(* Shared definitions and basic lemmas for the theorems about Route/Composite.v. *)
From Coq Require Import List NArith ZArith Bool Arith Lia Permutation Sorting.
From PyFS Require Import Base.PyStr Base.Outcome Path.PathModel Path.PathSpec FS.Tree FS.Monad FS.Mode FS.Base
     FS.Mem FS.Ops FS.Ref FS.Agree FS.Wf FS.TreeLemmas FS.RefineLemmas Route.Route Route.RouteProofs Route.Composite.
Import ListNotations.

(* ------------------------------------------------------------------ *)
(* lists of members                                                    *)
(* ------------------------------------------------------------------ *)
Definition tree_at {C} (st : list (C * node)) (i : nat) : node :=
  match nth_error st i with Some (_, t) => t | None => empty_dir end.

(* member i has the resolved path cs *)
Definition has {C} (st : list (C * node)) (i : nat) (cs : list str) : bool :=
  match nth_error st i with
  | Some (_, t) => match lookup t cs with Some _ => true | None => false end
  | None => false
  end.

(* MultiFS: the first member, in iterate_fs order, that has the path *)
Definition holder (st : mstate) (cs : list str) : option nat :=
  find (fun i => has st i cs) (order st).

(* the same members (names, priorities, flags), possibly other trees *)
Definition same_members {C} (a b : list (C * node)) : Prop := map fst a = map fst b.

(* all trees but the one at position w are the same *)
Definition frame_but {C} (w : option nat) (a b : list (C * node)) : Prop :=
  same_members a b /\ forall i, Some i <> w -> tree_at b i = tree_at a i.

Lemma set_nth_length {A} i (x : A) l : length (set_nth i x l) = length l.
Proof. revert i. induction l as [|y r IH]; intros [|i]; cbn; auto. Qed.

Lemma nth_error_set_nth_eq {A} i (x : A) l : i < length l -> nth_error (set_nth i x l) i = Some x.
Proof.
  revert i. induction l as [|y r IH]; intros [|i] H; cbn in *; try lia; auto. apply IH. lia.
Qed.

Lemma nth_error_set_nth_neq {A} i j (x : A) l : i <> j -> nth_error (set_nth i x l) j = nth_error l j.
Proof.
  revert i j. induction l as [|y r IH]; intros [|i] [|j] H; cbn; auto; try congruence.
Qed.

Lemma set_nth_same {A} i (x : A) l : nth_error l i = Some x -> set_nth i x l = l.
Proof.
  revert i. induction l as [|y r IH]; intros [|i] H; cbn in *; try discriminate; auto.
  - inversion H; reflexivity.
  - f_equal. apply IH. exact H.
Qed.

Lemma set_nth_map_fst {C} i (c : C) (t t' : node) l :
  nth_error l i = Some (c, t) -> map fst (set_nth i (c, t') l) = map fst l.
Proof.
  revert i. induction l as [|y r IH]; intros [|i] H; cbn in *; try discriminate; auto.
  - inversion H; subst. reflexivity.
  - f_equal. apply IH. exact H.
Qed.

(* on_nth: what it returns and what it changes *)
Lemma on_nth_some {C A} i (m : MM A) (st : list (C * node)) c t :
  nth_error st i = Some (c, t) ->
  on_nth i m st = (set_nth i (c, fst (m t)) st, snd (m t)).
Proof. intro H. unfold on_nth. rewrite H. destruct (m t); reflexivity. Qed.

Lemma on_nth_query {C A} i (m : MM A) (st : list (C * node)) c t :
  nth_error st i = Some (c, t) -> fst (m t) = t -> on_nth i m st = (st, snd (m t)).
Proof.
  intros H E. rewrite (on_nth_some _ _ _ _ _ H). rewrite E. rewrite (set_nth_same _ _ _ H). reflexivity.
Qed.

Lemma on_nth_frame {C A} i (m : MM A) (st : list (C * node)) :
  frame_but (Some i) st (fst (on_nth i m st)).
Proof.
  unfold on_nth. destruct (nth_error st i) as [[c t]|] eqn:E.
  - destruct (m t) as [t' o]. cbn [fst]. split.
    + unfold same_members. symmetry. eapply set_nth_map_fst; eassumption.
    + intros j Hj. unfold tree_at. rewrite nth_error_set_nth_neq; [reflexivity|congruence].
  - cbn [fst]. split; [reflexivity|]. intros; reflexivity.
Qed.

(* ------------------------------------------------------------------ *)
(* the order of a well-formed MultiFS                                  *)
(* ------------------------------------------------------------------ *)
Lemma ids_from_spec st k : ids_from st k = true -> map m_id (members_of st) = seq k (length st).
Proof.
  revert k. induction st as [|[c t] r IH]; intros k H; cbn in *; [reflexivity|].
  apply andb_true_iff in H as [H1 H2]. apply Nat.eqb_eq in H1. rewrite H1. f_equal. apply IH. exact H2.
Qed.

Lemma nat_nodup_spec l : nat_nodup l = true -> NoDup l.
Proof.
  induction l as [|x r IH]; intro H; [constructor|]. cbn in H. apply andb_true_iff in H as [H1 H2].
  constructor; [|apply IH; exact H2]. intro I. apply negb_true_iff in H1.
  assert (X : existsb (Nat.eqb x) r = true); [|congruence].
  apply existsb_exists. exists x. split; [exact I|apply Nat.eqb_refl].
Qed.

Lemma order_perm st : mwf st = true -> Permutation (order st) (seq 0 (length st)).
Proof.
  intro W. unfold mwf in W. apply andb_true_iff in W as [W1 _].
  unfold order. rewrite <- (ids_from_spec _ _ W1). apply Permutation_map. apply iterate_fs_perm.
Qed.

Lemma order_valid st i : mwf st = true -> In i (order st) -> i < length st.
Proof.
  intros W I. pose proof (Permutation_in _ (order_perm st W) I) as J. apply in_seq in J. lia.
Qed.

Lemma order_complete st i : mwf st = true -> i < length st -> In i (order st).
Proof.
  intros W I. apply (Permutation_in _ (Permutation_sym (order_perm st W))). apply in_seq. lia.
Qed.

Lemma order_nodup st : mwf st = true -> NoDup (order st).
Proof.
  intro W. eapply Permutation_NoDup; [apply Permutation_sym; apply order_perm; exact W|apply seq_NoDup].
Qed.

(* the order depends on the members only, not on their trees *)
Lemma order_same_members (a b : mstate) : same_members a b -> order a = order b.
Proof.
  intro H. unfold order, members_of. f_equal. f_equal.
  unfold same_members in H. rewrite <- !(map_map fst cm). rewrite H. reflexivity.
Qed.

Lemma write_index_from_same (a b : mstate) k acc :
  same_members a b -> write_index_from a k acc = write_index_from b k acc.
Proof.
  revert b k acc. induction a as [|[c t] r IH]; intros [|[c' t'] r'] k acc H; cbn in *;
    try discriminate; [reflexivity|].
  unfold same_members in H. cbn in H. inversion H; subst. apply IH. exact H2.
Qed.

Lemma write_index_same_members (a b : mstate) : same_members a b -> write_index a = write_index b.
Proof. apply write_index_from_same. Qed.

Lemma mwf_same_members (a b : mstate) : same_members a b -> mwf a = mwf b.
Proof.
  intro H. unfold mwf. f_equal.
  - clear - H. generalize 0. revert b H. induction a as [|[c t] r IH]; intros [|[c' t'] r'] H k; cbn in *;
      try discriminate; [reflexivity|].
    unfold same_members in H. cbn in H. inversion H; subst. f_equal. apply IH. exact H2.
  - f_equal. unfold members_of. unfold same_members in H. rewrite <- !(map_map fst cm). rewrite H. reflexivity.
Qed.

(* ------------------------------------------------------------------ *)
(* specification vocabulary                                            *)
(* ------------------------------------------------------------------ *)
(* point queries: answered by exactly one member *)
Definition query_path (o : op) : option str :=
  match o with
  | OGetinfo p | OExists p | OIsdir p | OIsfile p | OReadbytes p | OGetsize p | OGettype p => Some p
  | OOpenread p m => if mode_valid_bin m && negb (m_writing m) then Some p else None
  | _ => None
  end.

(* the answer when no member has the path *)
Definition notfound (o : op) : outcome value :=
  match o with
  | OExists _ | OIsdir _ | OIsfile _ => Ok (VBool false)
  | _ => Err ResourceNotFound
  end.

(* calls MultiFS hands to the write member without looking at the other members *)
Definition direct_write (o : op) : bool :=
  match o with
  | OMakedir _ _ | OMakedirs _ _ | OWritebytes _ _ | OAppendbytes _ _ | OSetinfo _ _ => true
  | OOpenwrite _ m _ => mode_valid m && m_writing m
  | OOpenread _ m => mode_valid m && m_writing m
  | _ => false
  end.

(* calls that can delete: MultiFS sends remove / removedir to the first member HOLDING the path,
   and removetree / move / movedir end in them *)
Definition removing (o : op) : bool :=
  match o with
  | ORemove _ | ORemovedir _ | ORemovetree _ | OMove _ _ _ _ | OMovedir _ _ _ _ => true
  | _ => false
  end.

(* priority-merged union of two trees: the entries of hi (merged with lo's where both are
   directories), then the entries only lo has *)
Fixpoint union2 (hi lo : node) : node :=
  match hi with
  | Dir e1 m1 =>
    match lo with
    | Dir e2 _ =>
      Dir ((fix go (l : list (str * node)) : list (str * node) :=
              match l with
              | [] => []
              | (k, n) :: r =>
                (k, match assoc k e2 with Some n2 => union2 n n2 | None => n end) :: go r
              end) e1
           ++ filter (fun kn => match assoc (fst kn) e1 with Some _ => false | None => true end) e2) m1
    | File _ _ => hi
    end
  | File _ _ => hi
  end.

Fixpoint union_list (ts : list node) : node :=
  match ts with
  | [] => empty_dir
  | [t] => t
  | t :: r => union2 t (union_list r)
  end.

(* the union tree of a MultiFS: members in iterate_fs order, highest priority first *)
Definition union (st : mstate) : node := union_list (map (tree_at st) (order st)).

(* no path is a file in one tree and a directory in the other *)
Fixpoint compat (a b : node) : bool :=
  match a, b with
  | Dir e1 _, Dir e2 _ =>
    (fix go (l : list (str * node)) : bool :=
       match l with
       | [] => true
       | (k, n) :: r => match assoc k e2 with Some n2 => compat n n2 | None => true end && go r
       end) e1
  | File _ _, File _ _ => true
  | _, _ => false
  end.

Fixpoint pairwise {A} (f : A -> A -> bool) (l : list A) : bool :=
  match l with
  | [] => true
  | x :: r => forallb (f x) r && pairwise f r
  end.

(* ------------------------------------------------------------------ *)
(* MountFS vocabulary                                                  *)
(* ------------------------------------------------------------------ *)
Definition mount_tree (st : tstate) (i : nat) : node := tree_at (t_mounts st) i.

(* calls MountFS hands to one filesystem with the delegated path and whose answer it returns as it is
   (getinfo renames the info of a mount point: mount_getinfo; scandir of a default-tree directory reports
   the mount points in it as getinfo does: mount_scandir) *)
Definition mount_direct (o : op) : option str :=
  match o with
  | OListdir p | OMakedir p _ | OWritebytes p _ | OReadbytes p | ORemove p
  | OSetinfo p _ | OIsdir p | OIsfile p | OGetsize p | OGettype p => Some p
  | OOpenwrite p m _ | OOpenread p m => if mode_valid_bin m then Some p else None
  | _ => None
  end.

(* the same call with another path argument *)
Definition with_path (o : op) (q : str) : op :=
  match o with
  | OGetinfo _ => OGetinfo q | OListdir _ => OListdir q | OScandir _ => OScandir q
  | OMakedir _ r => OMakedir q r | OMakedirs _ r => OMakedirs q r
  | OWritebytes _ x => OWritebytes q x | OAppendbytes _ x => OAppendbytes q x
  | OReadbytes _ => OReadbytes q | OCreate _ w => OCreate q w | OTouch _ => OTouch q
  | OOpenwrite _ m x => OOpenwrite q m x | OOpenread _ m => OOpenread q m
  | ORemove _ => ORemove q | ORemovedir _ => ORemovedir q | ORemovetree _ => ORemovetree q
  | OSetinfo _ m => OSetinfo q m
  | OExists _ => OExists q | OIsdir _ => OIsdir q | OIsfile _ => OIsfile q
  | OIsempty _ => OIsempty q | OGetsize _ => OGetsize q | OGettype _ => OGettype q
  | o' => o'
  end.
