(* MountFS (Route/Composite.v): delegation, frame, mount(). *)
From Coq Require Import List NArith ZArith Bool Arith Lia Permutation Sorting.
From PyFS Require Import Base.PyStr Base.Outcome Path.PathModel Path.PathSpec Path.PathProofs FS.Tree FS.Monad FS.Mode FS.Base FS.Mem FS.Ops FS.Ref
     FS.Agree FS.Wf FS.TreeLemmas FS.RefineLemmas FS.PropsProofs Route.Route Route.RouteProofs Route.Composite Route.CompositeLemmas Route.CompositeEx.
Import ListNotations.
Local Open Scope monad_scope.

(* ------------------------------------------------------------------ *)
(* basic facts about route / on_mount / on_default                     *)
(* ------------------------------------------------------------------ *)
Lemma tstate_eta st : {| t_default := t_default st; t_mounts := t_mounts st |} = st.
Proof. destruct st; reflexivity. Qed.

Lemma route_member {A} p (f : str -> MM A) st i rel :
  mount_delegate (mounts_of st) p = Ok (Some (i, rel)) -> route p f st = on_mount i (f rel) st.
Proof. intro H. unfold route. rewrite H. reflexivity. Qed.

Lemma route_default {A} p (f : str -> MM A) st :
  mount_delegate (mounts_of st) p = Ok None -> route p f st = on_default (f p) st.
Proof. intro H. unfold route. rewrite H. reflexivity. Qed.

Lemma route_err {A} p (f : str -> MM A) st e :
  mount_delegate (mounts_of st) p = Err e -> route p f st = (st, Err e).
Proof. intro H. unfold route. rewrite H. reflexivity. Qed.

Lemma vmap_on_mount {A} (g : A -> value) i (m : MM A) st :
  vmap g (on_mount i m) st = on_mount i (vmap g m) st.
Proof.
  unfold vmap, mbind, ret, on_mount, on_nth.
  destruct (nth_error (t_mounts st) i) as [[c t]|]; [|reflexivity].
  destruct (m t) as [t' [a|e|k]]; reflexivity.
Qed.

Lemma vmap_on_default {A} (g : A -> value) (m : MM A) st :
  vmap g (on_default m) st = on_default (vmap g m) st.
Proof.
  unfold vmap, mbind, ret, on_default.
  destruct (m (t_default st)) as [t' [a|e|k]]; reflexivity.
Qed.

Lemma vmap_route_member {A} (g : A -> value) p (f : str -> MM A) st i rel :
  mount_delegate (mounts_of st) p = Ok (Some (i, rel)) ->
  vmap g (route p f) st = on_mount i (vmap g (f rel)) st.
Proof.
  intro H. rewrite <- vmap_on_mount. unfold vmap, mbind. rewrite (route_member _ _ _ _ _ H). reflexivity.
Qed.

Lemma vmap_route_default {A} (g : A -> value) p (f : str -> MM A) st :
  mount_delegate (mounts_of st) p = Ok None ->
  vmap g (route p f) st = on_default (vmap g (f p)) st.
Proof.
  intro H. rewrite <- vmap_on_default. unfold vmap, mbind. rewrite (route_default _ _ _ H). reflexivity.
Qed.

Lemma vmap_route_err {A} (g : A -> value) p (f : str -> MM A) st e :
  mount_delegate (mounts_of st) p = Err e -> vmap g (route p f) st = (st, Err e).
Proof. intro H. unfold vmap, mbind. rewrite (route_err _ _ _ _ H). reflexivity. Qed.

(* the renaming of a mount point's info keeps everything but the name *)
Lemma mount_point_name_isdir p rel x : i_isdir (mount_point_name p rel x) = i_isdir x.
Proof.
  unfold mount_point_name. destruct (is_empty rel || str_eqb rel s_slash); [|reflexivity].
  destruct (normpath p) as [n|e|k]; try reflexivity. destruct (is_empty (basename (abspath n))); reflexivity.
Qed.
Lemma mount_point_name_size p rel x : i_size (mount_point_name p rel x) = i_size x.
Proof.
  unfold mount_point_name. destruct (is_empty rel || str_eqb rel s_slash); [|reflexivity].
  destruct (normpath p) as [n|e|k]; try reflexivity. destruct (is_empty (basename (abspath n))); reflexivity.
Qed.
Lemma mount_point_name_mt p rel x : i_mt (mount_point_name p rel x) = i_mt x.
Proof.
  unfold mount_point_name. destruct (is_empty rel || str_eqb rel s_slash); [|reflexivity].
  destruct (normpath p) as [n|e|k]; try reflexivity. destruct (is_empty (basename (abspath n))); reflexivity.
Qed.

(* ------------------------------------------------------------------ *)
(* D1 - D3                                                             *)
(* ------------------------------------------------------------------ *)
Ltac direct_cases o Hd E :=
  destruct o; cbn [mount_direct] in Hd; try discriminate Hd;
  try (match type of Hd with (if mode_valid_bin ?m then _ else _) = _ =>
         destruct (mode_valid_bin m) eqn:E; [|discriminate Hd] end);
  injection Hd as Hd; subst;
  cbn [mount_run with_path mem_run]; unfold mount_scandir, mount_remove, mount_openwrite;
  try (rewrite E; cbn [negb]).

Theorem mount_delegation : forall o p st i rel, mount_direct o = Some p ->
  mount_delegate (mounts_of st) p = Ok (Some (i, rel)) ->
  mount_run o st = on_mount i (mem_run (with_path o rel)) st.
Proof.
  intros o p st i rel Hd H.
  direct_cases o Hd E;
    first [ exact (vmap_route_member _ _ _ _ _ _ H)
          | exact (vmap_route_member _ _ (fun q => mem_makedir q _) _ _ _ H)
          | exact (vmap_route_member _ _ (fun q => mem_writebytes q _) _ _ _ H)
          | exact (vmap_route_member _ _ (fun q => mem_openwrite q _ _) _ _ _ H)
          | exact (vmap_route_member _ _ (fun q => mem_setinfo q _) _ _ _ H)
          | exact (route_member _ (fun q => mem_run (OOpenread q _)) _ _ _ H) ].
Qed.
Print Assumptions mount_delegation.

Theorem mount_default : forall o p st, mount_direct o = Some p -> mount_delegate (mounts_of st) p = Ok None ->
  mount_run o st = on_default (mem_run o) st.
Proof.
  intros o p st Hd H.
  direct_cases o Hd E;
    first [ exact (vmap_route_default _ _ _ _ H)
          | exact (vmap_route_default _ _ (fun q => mem_makedir q _) _ H)
          | exact (vmap_route_default _ _ (fun q => mem_writebytes q _) _ H)
          | exact (vmap_route_default _ _ (fun q => mem_openwrite q _ _) _ H)
          | exact (vmap_route_default _ _ (fun q => mem_setinfo q _) _ H)
          | exact (route_default _ (fun q => mem_run (OOpenread q _)) _ H) ].
Qed.
Print Assumptions mount_default.

Theorem mount_bad_path : forall o p st e, mount_direct o = Some p -> mount_delegate (mounts_of st) p = Err e ->
  mount_run o st = (st, Err e).
Proof.
  intros o p st e Hd H.
  direct_cases o Hd E;
    first [ exact (vmap_route_err _ _ _ _ _ H) | exact (route_err _ _ _ _ H) ].
Qed.
Print Assumptions mount_bad_path.

(* ------------------------------------------------------------------ *)
(* getinfo: the member's answer, the info of a mount point renamed     *)
(* ------------------------------------------------------------------ *)
Theorem mount_getinfo_member : forall p st i rel, mount_delegate (mounts_of st) p = Ok (Some (i, rel)) ->
  mount_run (OGetinfo p) st = on_mount i (vmap (fun x => VInfo (mount_point_name p rel x)) (mem_getinfo rel)) st.
Proof.
  intros p st i rel H. cbn [mount_run]. unfold vmap at 1. unfold mbind at 1. unfold mount_getinfo. rewrite H.
  unfold on_mount, on_nth. destruct (nth_error (t_mounts st) i) as [[c t]|]; [|reflexivity].
  unfold vmap, mbind, ret. destruct (mem_getinfo rel t) as [t' [a|e|k]]; reflexivity.
Qed.
Print Assumptions mount_getinfo_member.

Theorem mount_getinfo_default : forall p st, mount_delegate (mounts_of st) p = Ok None ->
  mount_run (OGetinfo p) st = on_default (mem_run (OGetinfo p)) st.
Proof.
  intros p st H. cbn [mount_run mem_run]. rewrite <- vmap_on_default.
  unfold vmap, mbind. unfold mount_getinfo. rewrite H. reflexivity.
Qed.
Print Assumptions mount_getinfo_default.

Theorem mount_getinfo_bad_path : forall p st e, mount_delegate (mounts_of st) p = Err e -> mount_run (OGetinfo p) st = (st, Err e).
Proof.
  intros p st e H. cbn [mount_run]. unfold vmap, mbind, mount_getinfo. rewrite H. reflexivity.
Qed.
Print Assumptions mount_getinfo_bad_path.

(* the name of a mount point is the last component of the path, as the listing of its parent says; below a mount
   point nothing is renamed *)
Theorem mount_point_name_spec : forall p cs rel x, resolve (comps p) = Some cs -> cs <> [] ->
  (is_empty rel || str_eqb rel s_slash) = true ->
  mount_point_name p rel x = rename_info x (last cs []).
Proof.
  intros p cs rel x R Hne Hrel. unfold mount_point_name. rewrite Hrel.
  pose proof (resolve_comps_good p cs R) as G.
  rewrite normpath_spec. unfold spec_normpath. rewrite R.
  rewrite (abspath_nf_gen _ _ G). rewrite (basename_nf _ G).
  assert (Hl : good (last cs [])).
  { apply (proj1 (Forall_forall good cs) G). destruct (exists_last Hne) as (l & a & ->).
    rewrite last_last. apply in_or_app. right. left. reflexivity. }
  rewrite (good_not_empty _ Hl). reflexivity.
Qed.
Print Assumptions mount_point_name_spec.

Theorem mount_point_name_below : forall p rel x, (is_empty rel || str_eqb rel s_slash) = false -> mount_point_name p rel x = x.
Proof. intros p rel x H. unfold mount_point_name. rewrite H. reflexivity. Qed.
Print Assumptions mount_point_name_below.

(* ------------------------------------------------------------------ *)
(* D6: frame                                                           *)
(* ------------------------------------------------------------------ *)
Lemma on_mount_fst {A} i (m : MM A) st :
  fst (on_mount i m st) = {| t_default := t_default st; t_mounts := fst (on_nth i m (t_mounts st)) |}.
Proof. unfold on_mount. destruct (on_nth i m (t_mounts st)); reflexivity. Qed.

Lemma on_default_fst {A} (m : MM A) st :
  t_mounts (fst (on_default m st)) = t_mounts st.
Proof. unfold on_default. destruct (m (t_default st)); reflexivity. Qed.

Theorem mount_frame_member : forall o p st i rel, mount_direct o = Some p ->
  mount_delegate (mounts_of st) p = Ok (Some (i, rel)) ->
  t_default (fst (mount_run o st)) = t_default st /\
  map fst (t_mounts (fst (mount_run o st))) = map fst (t_mounts st) /\
  forall j, j <> i -> mount_tree (fst (mount_run o st)) j = mount_tree st j.
Proof.
  intros o p st i rel Hd H. rewrite (mount_delegation o p st i rel Hd H).
  rewrite on_mount_fst. cbn [t_default t_mounts].
  destruct (on_nth_frame i (mem_run (with_path o rel)) (t_mounts st)) as [F1 F2].
  split; [reflexivity|]. split.
  - symmetry. exact F1.
  - intros j Hj. unfold mount_tree. cbn [t_mounts]. apply F2. congruence.
Qed.
Print Assumptions mount_frame_member.

Theorem mount_frame_default : forall o p st, mount_direct o = Some p -> mount_delegate (mounts_of st) p = Ok None ->
  t_mounts (fst (mount_run o st)) = t_mounts st.
Proof.
  intros o p st Hd H. rewrite (mount_default o p st Hd H). apply on_default_fst.
Qed.
Print Assumptions mount_frame_default.

(* ------------------------------------------------------------------ *)
(* D5: removedir                                                       *)
(* ------------------------------------------------------------------ *)
Theorem mount_removedir_root : forall p n st, normpath p = Ok n -> (is_empty n || str_eqb n s_slash) = true ->
  mount_run (ORemovedir p) st = (st, Err RemoveRootError).
Proof.
  intros p n st Hn Hr. cbn [mount_run]. unfold mount_removedir. mstep. rewrite Hn, Hr. reflexivity.
Qed.
Print Assumptions mount_removedir_root.

Theorem mount_removedir_delegation : forall p n st i rel, normpath p = Ok n -> (is_empty n || str_eqb n s_slash) = false ->
  mount_delegate (mounts_of st) n = Ok (Some (i, rel)) ->
  mount_run (ORemovedir p) st = on_mount i (mem_run (ORemovedir rel)) st.
Proof.
  intros p n st i rel Hn Hr H. cbn [mount_run mem_run]. rewrite <- vmap_on_mount.
  unfold mount_removedir. unfold vmap at 1 2. unfold mbind at 1 3. unfold mbind at 1. unfold lift.
  rewrite Hn, Hr. rewrite (route_member _ _ _ _ _ H). reflexivity.
Qed.
Print Assumptions mount_removedir_delegation.

(* ------------------------------------------------------------------ *)
(* D8: mount()                                                         *)
(* ------------------------------------------------------------------ *)
Lemma bind_ok_inv {S A B} (m : M S A) (f : A -> M S B) s s' b :
  mbind m f s = (s', Ok b) -> exists a s1, m s = (s1, Ok a) /\ f a s1 = (s', Ok b).
Proof.
  unfold mbind. destruct (m s) as [s1 [a|e|k]]; intro H; try discriminate.
  exists a, s1. auto.
Qed.

Lemma mem_getinfo_state q s : fst (mem_getinfo q s) = s.
Proof.
  destruct (rpath q) as [cs|adm] eqn:R.
  - rewrite (mem_getinfo_spec _ _ s R). reflexivity.
  - rewrite (mem_getinfo_bad _ _ s R). reflexivity.
Qed.

Lemma mem_makedirs_isdir k r t t' :
  mem_makedirs k r t = (t', Ok tt) -> mem_isdir k t' = (t', Ok true).
Proof.
  unfold mem_makedirs, b_makedirs. intro H.
  apply bind_ok_inv in H as (dirs & s1 & _ & H).
  apply bind_ok_inv in H as (u1 & s2 & _ & H).
  apply bind_ok_inv in H as (u2 & s3 & _ & H).
  unfold b_opendir in H. apply bind_ok_inv in H as (i & s4 & H1 & H2).
  cbn [l_getinfo mem_low] in H1.
  pose proof (mem_getinfo_state k s3) as E. rewrite H1 in E. cbn [fst] in E. subst s4.
  destruct (i_isdir i) eqn:Ei; [|discriminate H2].
  unfold ret in H2. injection H2 as H2. subst s3.
  unfold mem_isdir, b_isdir. cbn [l_getinfo mem_low]. mstep. rewrite H1. rewrite Ei. reflexivity.
Qed.

Theorem mount_point_is_dir : forall path t st st', mount_mount path t st = (st', Ok tt) ->
  exists k, mount_key path = Ok k /\ t_mounts st' = t_mounts st ++ [(k, t)] /\ snd (mem_isdir k (t_default st')) = Ok true.
Proof.
  intros path t st st' H. unfold mount_mount in H.
  destruct (mount_key path) as [k|e|c]; try discriminate H.
  destruct (mount_overlaps (mounts_of st) k); [discriminate H|].
  unfold on_default in H. cbn [t_default t_mounts] in H.
  destruct (mem_makedirs k true (t_default st)) as [t' o] eqn:E.
  injection H as H1 H2. subst o st'. cbn [t_default t_mounts].
  exists k. split; [reflexivity|]. split; [reflexivity|].
  rewrite (mem_makedirs_isdir _ _ _ _ E). reflexivity.
Qed.
Print Assumptions mount_point_is_dir.

Theorem mount_refused_inside : forall path t st k, mount_key path = Ok k -> mount_overlaps (mounts_of st) k = true ->
  mount_mount path t st = (st, Crash OtherException).
Proof. intros path t st k Hk Ho. unfold mount_mount. rewrite Hk, Ho. reflexivity. Qed.
Print Assumptions mount_refused_inside.

(* the numbered keys of a state whose mount points are key_of of component lists *)
Lemma number_from_keyed {A} (l : list (str * A)) : forall (mcs : list (list str)) k,
  map fst l = map key_of mcs -> number_from l k = keyed (List.combine mcs (seq k (length mcs))).
Proof.
  induction l as [|[key a] r IH]; intros [|mc mcs] k H; cbn in H; try discriminate H; [reflexivity|].
  injection H as H1 H2. subst key. cbn [number_from length seq List.combine keyed map fst snd].
  f_equal. apply IH. exact H2.
Qed.

Lemma mounts_of_keyed st mcs : map fst (t_mounts st) = map key_of mcs ->
  mounts_of st = keyed (List.combine mcs (seq 0 (length mcs))).
Proof. apply number_from_keyed. Qed.

Lemma combine_good (mcs : list (list str)) : forall k, Forall (Forall good) mcs ->
  Forall (fun m : list str * nat => Forall good (fst m)) (List.combine mcs (seq k (length mcs))).
Proof.
  induction mcs as [|mc r IH]; intros k H; [constructor|].
  inversion H; subst. cbn [length seq List.combine]. constructor; [assumption|]. apply IH. assumption.
Qed.

Lemma existsb_combine_fst {B} (f : list str -> bool) (mcs : list (list str)) : forall (l : list B),
  length l = length mcs ->
  existsb (fun m => f (fst m)) (List.combine mcs l) = existsb f mcs.
Proof.
  induction mcs as [|mc r IH]; intros [|x l] H; cbn in H; try discriminate H; [reflexivity|].
  cbn [List.combine existsb fst]. f_equal. apply IH. lia.
Qed.

Theorem mount_refused_inside_components : forall path t st (mcs : list (list str)) cs,
  map fst (t_mounts st) = map key_of mcs -> Forall (Forall good) mcs -> resolve (comps path) = Some cs ->
  existsb (fun mc => cprefix mc cs) mcs = true -> mount_mount path t st = (st, Crash OtherException).
Proof.
  intros path t st mcs cs Hk Hg Hr He.
  apply (mount_refused_inside path t st (key_of cs)); [apply mount_key_spec; exact Hr|].
  rewrite (mounts_of_keyed _ _ Hk).
  rewrite mount_overlaps_spec; [|apply combine_good; exact Hg|apply (resolve_comps_good path); exact Hr].
  rewrite (existsb_combine_fst (fun mc => cprefix mc cs)); [exact He|apply seq_length].
Qed.
Print Assumptions mount_refused_inside_components.

(* ------------------------------------------------------------------ *)
(* D7: which member                                                    *)
(* ------------------------------------------------------------------ *)
Theorem mount_route_member : forall o p st (mcs : list (list str)) cs, mount_direct o = Some p ->
  map fst (t_mounts st) = map key_of mcs -> Forall (Forall good) mcs -> resolve (comps p) = Some cs ->
  mount_run o st =
  match route_spec (List.combine mcs (seq 0 (length mcs))) cs with
  | Some (i, rest) => on_mount i (mem_run (with_path o (to_path false rest))) st
  | None => on_default (mem_run o) st
  end.
Proof.
  intros o p st mcs cs Hd Hk Hg Hr.
  pose proof (mount_route (List.combine mcs (seq 0 (length mcs))) p cs (combine_good mcs 0 Hg) Hr) as R.
  change (map (fun m : list str * nat => (key_of (fst m), snd m)) (List.combine mcs (seq 0 (length mcs))))
    with (keyed (List.combine mcs (seq 0 (length mcs)))) in R.
  rewrite <- (mounts_of_keyed _ _ Hk) in R.
  destruct (route_spec (List.combine mcs (seq 0 (length mcs))) cs) as [[i rest]|].
  - exact (mount_delegation o p st i _ Hd R).
  - exact (mount_default o p st Hd R).
Qed.
Print Assumptions mount_route_member.

(* ------------------------------------------------------------------ *)
(* D4: derived single-path calls.  A composite computation "tracks" a   *)
(* member computation through an embedding E of the member's tree into  *)
(* the composite state.                                                 *)
(* ------------------------------------------------------------------ *)
Section Track.
  Variable E : node -> tstate.

  Definition tracks {A} (Mx : M tstate A) (m : MM A) : Prop :=
    forall t, Mx (E t) = (E (fst (m t)), snd (m t)).

  Lemma tracks_ret {A} (a : A) : tracks (ret a) (ret a).
  Proof. intro t. reflexivity. Qed.
  Lemma tracks_raise {A} e : tracks (@raise tstate A e) (raise e).
  Proof. intro t. reflexivity. Qed.
  Lemma tracks_crash {A} k : tracks (@Monad.crash tstate A k) (Monad.crash k).
  Proof. intro t. reflexivity. Qed.
  Lemma tracks_lift {A} (o : outcome A) : tracks (lift o) (lift o).
  Proof. intro t. reflexivity. Qed.

  Lemma tracks_bind {A B} (M1 : M tstate A) (m1 : MM A) (F : A -> M tstate B) (f : A -> MM B) :
    tracks M1 m1 -> (forall a, tracks (F a) (f a)) -> tracks (mbind M1 F) (mbind m1 f).
  Proof.
    intros H1 H2 t. unfold mbind. rewrite H1. destruct (m1 t) as [t1 [a|e|k]]; cbn [fst snd]; try reflexivity.
    apply H2.
  Qed.

  Lemma tracks_catch {A} (M1 : M tstate A) (m1 : MM A) e (H : M tstate A) (h : MM A) :
    tracks M1 m1 -> tracks H h -> tracks (catch M1 e H) (catch m1 e h).
  Proof.
    intros H1 H2 t. unfold catch. rewrite H1. destruct (m1 t) as [t1 [a|e'|k]]; cbn [fst snd]; try reflexivity.
    destruct (ecls_eqb e e'); [apply H2|reflexivity].
  Qed.

  Lemma tracks_vmap {A} (g : A -> value) (M1 : M tstate A) (m1 : MM A) :
    tracks M1 m1 -> tracks (vmap g M1) (vmap g m1).
  Proof. intro H. unfold vmap. apply tracks_bind; [exact H|]. intro a. apply tracks_ret. Qed.

  (* a path p of the composite that is routed to the embedded tree as q *)
  Variables p q : str.
  Hypothesis Hr : forall A (f : str -> MM A), tracks (route p f) (f q).

  (* getinfo of p is the embedded tree's getinfo of q up to a renaming g of the info (mount_getinfo) *)
  Variable g : info -> info.
  Hypothesis Hgi : tracks (mount_getinfo p) (x <- mem_getinfo q ;; ret (g x)).

  (* a continuation that does not depend on the renaming *)
  Lemma tracks_bind_getinfo {B} (F : info -> M tstate B) (f : info -> MM B) :
    (forall a, tracks (F (g a)) (f a)) -> tracks (mbind (mount_getinfo p) F) (mbind (mem_getinfo q) f).
  Proof.
    intros H2 t. unfold mbind at 1. rewrite Hgi. unfold mbind, ret.
    destruct (mem_getinfo q t) as [t1 [a|e|k]]; cbn [fst snd]; try reflexivity. apply H2.
  Qed.

  Lemma tracks_exists : tracks (b_exists mount_low p) (mem_exists q).
  Proof.
    unfold mem_exists, b_exists. cbn [l_getinfo mount_low mem_low].
    apply tracks_catch; [|apply tracks_ret]. apply tracks_bind_getinfo. intro a. apply tracks_ret.
  Qed.

  (* scandir of p is the embedded tree's scandir of q (true under a mount; on the default tree only when
     nothing is replaced, see mount_isempty_default) *)
  Hypothesis Hsc : tracks (mount_scandir p) (mem_scandir q).

  Lemma tracks_isempty : tracks (b_isempty mount_low p) (mem_isempty q).
  Proof.
    unfold mem_isempty, b_isempty. cbn [l_scandir mount_low mem_low].
    apply tracks_bind; [apply Hsc|]. intro a. apply tracks_ret.
  Qed.

  Lemma tracks_openwrite mode d : mode_valid_bin mode = true ->
    tracks (mount_openwrite p mode d) (mem_openwrite q mode d).
  Proof. intro V. unfold mount_openwrite. rewrite V. cbn [negb]. apply (Hr _ (fun x => mem_openwrite x mode d)). Qed.

  Lemma tracks_create w : tracks (b_create mount_low p w) (mem_create q w).
  Proof.
    unfold mem_create, b_create. cbn [l_openwrite mount_low mem_low].
    apply tracks_bind.
    - destruct w; [apply tracks_ret|apply tracks_exists].
    - intros [|]; [apply tracks_ret|].
      apply tracks_bind; [apply tracks_openwrite; reflexivity|]. intro a. apply tracks_ret.
  Qed.

  Lemma tracks_touch : tracks (b_touch mount_low p) (mem_touch q).
  Proof.
    unfold mem_touch, b_touch. apply tracks_bind; [apply tracks_create|].
    intros [|]; [apply tracks_ret|]. cbn [l_setinfo mount_low mem_low].
    apply (Hr _ (fun x => mem_setinfo x None)).
  Qed.

  Lemma tracks_appendbytes d : tracks (b_appendbytes mount_low p d) (mem_appendbytes q d).
  Proof.
    unfold mem_appendbytes, b_appendbytes. cbn [l_openwrite mount_low mem_low].
    apply tracks_openwrite. reflexivity.
  Qed.
End Track.

Definition mount_derived (o : op) : option str :=
  match o with OExists p | OIsempty p | OCreate p _ | OTouch p | OAppendbytes p _ => Some p | _ => None end.

(* the derived calls that do not list a directory (isempty does: b_isempty calls scandir) *)
Definition mount_derived_noscan (o : op) : bool :=
  match o with OIsempty _ => false | _ => true end.

Lemma tracks_derived E o p q g : mount_derived o = Some p ->
  (forall A (f : str -> MM A), tracks E (route p f) (f q)) ->
  tracks E (mount_getinfo p) (x <- mem_getinfo q ;; ret (g x)) ->
  (mount_derived_noscan o = false -> tracks E (mount_scandir p) (mem_scandir q)) ->
  tracks E (mount_run o) (mem_run (with_path o q)).
Proof.
  intros Hd Hr Hgi Hsc. destruct o; cbn [mount_derived] in Hd; try discriminate Hd; injection Hd as Hd; subst;
    cbn [mount_run mem_run with_path]; apply tracks_vmap.
  - apply tracks_appendbytes; exact Hr.
  - apply (tracks_create _ _ _ Hr g Hgi).
  - apply (tracks_touch _ _ _ Hr g Hgi).
  - apply (tracks_exists _ _ _ g Hgi).
  - apply tracks_isempty. apply Hsc. reflexivity.
Qed.

(* the embedding of member i *)
Definition emb_mount (st0 : tstate) (i : nat) (c : str) (t : node) : tstate :=
  {| t_default := t_default st0; t_mounts := set_nth i (c, t) (t_mounts st0) |}.

Lemma set_nth_set_nth {A} i (x y : A) l : set_nth i x (set_nth i y l) = set_nth i x l.
Proof. revert i. induction l as [|z r IH]; intros [|i]; cbn; auto. f_equal. apply IH. Qed.

Lemma number_from_ext {A B} (l : list (str * A)) : forall (l' : list (str * B)) k,
  map fst l = map fst l' -> number_from l k = number_from l' k.
Proof.
  induction l as [|[key a] r IH]; intros [|[key' b] r'] k H; cbn in H; try discriminate H; [reflexivity|].
  injection H as H1 H2. subst. cbn [number_from]. f_equal. apply IH. exact H2.
Qed.

Lemma nth_error_lt {A} (l : list A) i x : nth_error l i = Some x -> i < length l.
Proof. intro H. apply nth_error_Some. congruence. Qed.

Lemma emb_mount_self st0 i c t0 : nth_error (t_mounts st0) i = Some (c, t0) -> emb_mount st0 i c t0 = st0.
Proof. intro H. unfold emb_mount. rewrite (set_nth_same _ _ _ H). apply tstate_eta. Qed.

Lemma emb_mount_keys st0 i c t0 t : nth_error (t_mounts st0) i = Some (c, t0) ->
  mounts_of (emb_mount st0 i c t) = mounts_of st0.
Proof.
  intro H. unfold mounts_of, emb_mount. cbn [t_mounts]. apply number_from_ext.
  eapply set_nth_map_fst. exact H.
Qed.

Lemma on_mount_emb {A} st0 i c t0 (m : MM A) t : nth_error (t_mounts st0) i = Some (c, t0) ->
  on_mount i m (emb_mount st0 i c t) = (emb_mount st0 i c (fst (m t)), snd (m t)).
Proof.
  intro H. unfold on_mount, emb_mount. cbn [t_default t_mounts].
  rewrite (on_nth_some i m _ c t) by (apply nth_error_set_nth_eq; eapply nth_error_lt; exact H).
  rewrite set_nth_set_nth. reflexivity.
Qed.

Lemma tracks_route_member st0 i c t0 p rel : nth_error (t_mounts st0) i = Some (c, t0) ->
  mount_delegate (mounts_of st0) p = Ok (Some (i, rel)) ->
  forall A (f : str -> MM A), tracks (emb_mount st0 i c) (route p f) (f rel).
Proof.
  intros Hn H A f t. rewrite (route_member p f _ i rel).
  - apply (on_mount_emb _ _ _ _ _ _ Hn).
  - rewrite (emb_mount_keys _ _ _ _ _ Hn). exact H.
Qed.

(* getinfo under member i's embedding: the member's getinfo, renamed if the path is the mount point *)
Lemma tracks_getinfo_member st0 i c t0 p rel : nth_error (t_mounts st0) i = Some (c, t0) ->
  mount_delegate (mounts_of st0) p = Ok (Some (i, rel)) ->
  tracks (emb_mount st0 i c) (mount_getinfo p) (x <- mem_getinfo rel ;; ret (mount_point_name p rel x)).
Proof.
  intros Hn H t. unfold mount_getinfo. rewrite (emb_mount_keys _ _ _ _ _ Hn). rewrite H.
  apply (on_mount_emb _ _ _ _ _ _ Hn).
Qed.

(* scandir under member i's embedding: the member's own scandir *)
Lemma tracks_scandir_member st0 i c t0 p rel : nth_error (t_mounts st0) i = Some (c, t0) ->
  mount_delegate (mounts_of st0) p = Ok (Some (i, rel)) ->
  tracks (emb_mount st0 i c) (mount_scandir p) (mem_scandir rel).
Proof.
  intros Hn H t. unfold mount_scandir. rewrite (emb_mount_keys _ _ _ _ _ Hn). rewrite H.
  apply (on_mount_emb _ _ _ _ _ _ Hn).
Qed.

Lemma tracks_on_mount {A} st i (Mx : M tstate A) (m : MM A) :
  i < length (t_mounts st) ->
  (forall c t0, nth_error (t_mounts st) i = Some (c, t0) -> tracks (emb_mount st i c) Mx m) ->
  Mx st = on_mount i m st.
Proof.
  intros Hi H. destruct (nth_error (t_mounts st) i) as [[c t0]|] eqn:Hn.
  - specialize (H c t0 eq_refl). rewrite <- (emb_mount_self _ _ _ _ Hn) at 1 2.
    rewrite H. rewrite (on_mount_emb _ _ _ _ _ _ Hn). reflexivity.
  - apply nth_error_None in Hn. lia.
Qed.

Theorem mount_delegation_derived : forall o p st i rel, mount_derived o = Some p ->
  mount_delegate (mounts_of st) p = Ok (Some (i, rel)) -> i < length (t_mounts st) ->
  mount_run o st = on_mount i (mem_run (with_path o rel)) st.
Proof.
  intros o p st i rel Hd H Hi. apply tracks_on_mount; [exact Hi|].
  intros c t0 Hn. apply (tracks_derived _ o p rel (mount_point_name p rel) Hd).
  - apply (tracks_route_member _ _ _ _ _ _ Hn H).
  - apply (tracks_getinfo_member _ _ _ _ _ _ Hn H).
  - intros _. apply (tracks_scandir_member _ _ _ _ _ _ Hn H).
Qed.
Print Assumptions mount_delegation_derived.

(* the embedding of the default tree *)
Definition emb_default (st0 : tstate) (t : node) : tstate :=
  {| t_default := t; t_mounts := t_mounts st0 |}.

Lemma tracks_route_default st0 p : mount_delegate (mounts_of st0) p = Ok None ->
  forall A (f : str -> MM A), tracks (emb_default st0) (route p f) (f p).
Proof.
  intros H A f t. rewrite (route_default p f); [|exact H].
  unfold on_default, emb_default. cbn [t_default t_mounts]. destruct (f p t); reflexivity.
Qed.

Lemma tracks_getinfo_default st0 p : mount_delegate (mounts_of st0) p = Ok None ->
  tracks (emb_default st0) (mount_getinfo p) (x <- mem_getinfo p ;; ret ((fun y : info => y) x)).
Proof.
  intros H t. unfold mount_getinfo. change (mounts_of (emb_default st0 t)) with (mounts_of st0). rewrite H.
  unfold on_default, emb_default, mbind, ret. cbn [t_default t_mounts].
  destruct (mem_getinfo p t) as [t1 [a|e|k]]; reflexivity.
Qed.

Lemma tracks_on_default {A} st (Mx : M tstate A) (m : MM A) :
  tracks (emb_default st) Mx m -> Mx st = on_default m st.
Proof.
  intro H. specialize (H (t_default st)). unfold emb_default in H. rewrite tstate_eta in H. rewrite H.
  unfold on_default. destruct (m (t_default st)); reflexivity.
Qed.

Lemma with_path_derived o p : mount_derived o = Some p -> with_path o p = o.
Proof. destruct o; cbn; intro H; try discriminate H; injection H as H; subst; reflexivity. Qed.

(* the statement as it was (all five calls) is false for isempty: the default tree has a directory "..", "/../" is
   a mount point: the listing of "/" asks getinfo("/.."), which is refused; the default tree's own isempty says False *)
Example mount_default_derived_ce :
  let dd := [46%N; 46%N] in (* ".." *)
  let st := {| t_default := Dir [(dd, Dir [] None)] None; t_mounts := [([slash] ++ dd ++ [slash], Dir [] None)] |} in
  (mount_derived (OIsempty [slash]), mount_delegate (mounts_of st) [slash],
   snd (mount_run (OIsempty [slash]) st), snd (on_default (mem_run (OIsempty [slash])) st))
  = (Some [slash], Ok None, Err IllegalBackReference, Ok (VBool false)).
Proof. vm_compute. reflexivity. Qed.

(* STATEMENT CHANGED: since MountFS.scandir replaces the mount points of a default-tree listing by self.getinfo
   (/repo 75d0617), isempty on the default tree goes through scan_mount_points: the statement holds for the four
   calls that do not list (mount_derived_noscan o = true: exists, create, touch, appendbytes); for isempty the exact
   rule is mount_isempty_default below, and the old statement is false (mount_default_derived_ce) *)
Theorem mount_default_derived : forall o p st, mount_derived o = Some p -> mount_derived_noscan o = true ->
  mount_delegate (mounts_of st) p = Ok None ->
  mount_run o st = on_default (mem_run o) st.
Proof.
  intros o p st Hd Hns H. apply tracks_on_default.
  rewrite <- (with_path_derived o p Hd) at 2. apply (tracks_derived _ o p p (fun y => y) Hd).
  - apply (tracks_route_default _ _ H).
  - apply (tracks_getinfo_default _ _ H).
  - intro F. rewrite F in Hns. discriminate Hns.
Qed.
Print Assumptions mount_default_derived.

(* ------------------------------------------------------------------ *)
(* scandir (/repo 75d0617): the mount points of a default-tree listing  *)
(* are reported as getinfo reports them                                 *)
(* ------------------------------------------------------------------ *)
(* pure form of _scan_mount_points *)
Definition point_info (st : tstate) (d : str) (i : info) : outcome info :=
  if i_isdir i && is_mount_key st (forcedir (d ++ i_name i)) then snd (mount_getinfo (d ++ i_name i) st) else Ok i.

Fixpoint replace_points (st : tstate) (d : str) (l : list info) : outcome (list info) :=
  match l with
  | [] => Ok []
  | i :: r => match point_info st d i with
              | Ok x => match replace_points st d r with Ok xs => Ok (x :: xs) | Err e => Err e | Crash k => Crash k end
              | Err e => Err e
              | Crash k => Crash k
              end
  end.

Definition default_listing (st : tstate) (p d : str) : outcome (list info) :=
  match snd (mem_scandir p (t_default st)) with
  | Ok infos => match t_mounts st with [] => Ok infos | _ => replace_points st d infos end
  | Err e => Err e
  | Crash k => Crash k
  end.

Lemma mem_scandir_state q s : fst (mem_scandir q s) = s.
Proof.
  destruct (rpath q) as [cs|adm] eqn:R.
  - rewrite (mem_scandir_spec _ _ s R). reflexivity.
  - rewrite (mem_scandir_bad _ _ s R). reflexivity.
Qed.

Lemma on_default_same {A} (m : MM A) st : fst (m (t_default st)) = t_default st ->
  on_default m st = (st, snd (m (t_default st))).
Proof.
  intro H. unfold on_default. destruct (m (t_default st)) as [t' o]. cbn [fst snd] in *. subst t'.
  rewrite tstate_eta. reflexivity.
Qed.

Lemma on_mount_same {A} i (m : MM A) st : (forall t, fst (m t) = t) ->
  on_mount i m st = (st, snd (on_mount i m st)).
Proof.
  intro H. unfold on_mount, on_nth. destruct (nth_error (t_mounts st) i) as [[c t]|] eqn:E.
  - specialize (H t). destruct (m t) as [t' o]. cbn [fst snd] in *. subst t'.
    rewrite (set_nth_same _ _ _ E). rewrite tstate_eta. reflexivity.
  - cbn [snd]. rewrite tstate_eta. reflexivity.
Qed.

(* getinfo changes no state *)
Lemma mount_getinfo_same q st : mount_getinfo q st = (st, snd (mount_getinfo q st)).
Proof.
  unfold mount_getinfo. destruct (mount_delegate (mounts_of st) q) as [[[i rel]|]|e|k]; try reflexivity.
  - apply on_mount_same. intro t. unfold mbind, ret. pose proof (mem_getinfo_state rel t) as G.
    destruct (mem_getinfo rel t) as [t' [a|e|k]]; exact G.
  - rewrite (on_default_same _ _ (mem_getinfo_state q _)). reflexivity.
Qed.

(* _scan_mount_points on a state that no step changes *)
Lemma scan_mount_points_replace st d l :
  scan_mount_points mount_getinfo d l st = (st, replace_points st d l).
Proof.
  induction l as [|i r IH]; [reflexivity|].
  cbn [scan_mount_points replace_points]. unfold point_info. unfold mbind at 1.
  destruct (i_isdir i && is_mount_key st (forcedir (d ++ i_name i))).
  - rewrite (mount_getinfo_same (d ++ i_name i) st). cbn [snd].
    destruct (snd (mount_getinfo (d ++ i_name i) st)) as [x|e|k]; try reflexivity.
    unfold mbind. rewrite IH. destruct (replace_points st d r); reflexivity.
  - unfold mbind. rewrite IH. destruct (replace_points st d r); reflexivity.
Qed.

Lemma mount_scandir_default_eq p st d : mount_delegate (mounts_of st) p = Ok None -> mount_key p = Ok d ->
  mount_scandir p st = (st, default_listing st p d).
Proof.
  intros H Hk. unfold mount_scandir, default_listing. rewrite H.
  destruct (t_mounts st) as [|m ms] eqn:Em.
  - rewrite (on_default_same _ _ (mem_scandir_state p _)).
    destruct (snd (mem_scandir p (t_default st))); reflexivity.
  - cbv beta iota. unfold mbind at 1. unfold lift. rewrite Hk. unfold mbind.
    rewrite (on_default_same _ _ (mem_scandir_state p _)).
    destruct (snd (mem_scandir p (t_default st))) as [infos|e|k]; try reflexivity.
    rewrite scan_mount_points_replace. reflexivity.
Qed.

Theorem mount_scandir_member : forall p st i rel, mount_delegate (mounts_of st) p = Ok (Some (i, rel)) ->
  mount_run (OScandir p) st = on_mount i (mem_run (OScandir rel)) st.
Proof.
  intros p st i rel H. cbn [mount_run mem_run]. rewrite <- vmap_on_mount.
  unfold vmap, mbind. unfold mount_scandir. rewrite H. reflexivity.
Qed.
Print Assumptions mount_scandir_member.

Theorem mount_scandir_default : forall p st d, mount_delegate (mounts_of st) p = Ok None -> mount_key p = Ok d ->
  mount_run (OScandir p) st = (st, omap VInfos (default_listing st p d)).
Proof.
  intros p st d H Hk. cbn [mount_run]. unfold vmap, mbind, ret.
  rewrite (mount_scandir_default_eq p st d H Hk). destruct (default_listing st p d); reflexivity.
Qed.
Print Assumptions mount_scandir_default.

Theorem mount_scandir_bad_path : forall p st e, mount_delegate (mounts_of st) p = Err e -> mount_run (OScandir p) st = (st, Err e).
Proof.
  intros p st e H. cbn [mount_run]. unfold vmap, mbind, mount_scandir. rewrite H. reflexivity.
Qed.
Print Assumptions mount_scandir_bad_path.

Theorem mount_isempty_default : forall p st d, mount_delegate (mounts_of st) p = Ok None -> mount_key p = Ok d ->
  mount_run (OIsempty p) st = (st, omap (fun l => VBool (match l with [] => true | _ => false end)) (default_listing st p d)).
Proof.
  intros p st d H Hk. cbn [mount_run]. unfold b_isempty. cbn [l_scandir mount_low]. unfold vmap, mbind, ret.
  rewrite (mount_scandir_default_eq p st d H Hk). destruct (default_listing st p d) as [[|x l]|e|k]; reflexivity.
Qed.
Print Assumptions mount_isempty_default.

(* scandir agrees with getinfo: entries that are no mount points are the default tree's own entries *)
Theorem mount_scandir_plain_entry : forall st d i, (i_isdir i && is_mount_key st (forcedir (d ++ i_name i))) = false -> point_info st d i = Ok i.
Proof. intros st d i H. unfold point_info. rewrite H. reflexivity. Qed.
Print Assumptions mount_scandir_plain_entry.

(* ... and an entry that is a mount point is what getinfo says of it *)
Theorem mount_scandir_point_entry : forall st d i, (i_isdir i && is_mount_key st (forcedir (d ++ i_name i))) = true ->
  omap VInfo (point_info st d i) = snd (mount_run (OGetinfo (d ++ i_name i)) st).
Proof.
  intros st d i H. unfold point_info. rewrite H. cbn [mount_run]. unfold vmap, mbind, ret.
  rewrite (mount_getinfo_same (d ++ i_name i) st). cbn [snd].
  destruct (snd (mount_getinfo (d ++ i_name i) st)); reflexivity.
Qed.
Print Assumptions mount_scandir_point_entry.

(* a delegation to the default tree has a mount key *)
Lemma mount_delegate_none_key ms p : mount_delegate ms p = Ok None -> exists d, mount_key p = Ok d.
Proof.
  unfold mount_delegate. destruct (mount_key p) as [d|e|k]; intro H; try discriminate H. exists d. reflexivity.
Qed.

(* ------------------------------------------------------------------ *)
(* D9: copy inside one member                                          *)
(* ------------------------------------------------------------------ *)
Definition copy_body {S} (L : low S) (_src _dst : str) (overwrite preserve_time : bool) : M S unit :=
  e <- (if overwrite then ret false else b_exists L _dst) ;;
  if e then raise DestinationExists
  else if str_eqb _src _dst then raise IllegalDestination
  else
    d <- l_openread L _src ;;
    _ <- b_upload L _dst d ;;
    if preserve_time then b_copy_modified_time L _src _dst else ret tt.

Lemma b_copy_body {S} (L : low S) s d ov pt :
  b_copy L s d ov pt = (_src <- l_validatepath L s ;; _dst <- l_validatepath L d ;; copy_body L _src _dst ov pt).
Proof. reflexivity. Qed.

(* the primitives see a path only through rpath *)
Lemma getinfo_spelling a b : rpath a = rpath b -> mem_getinfo a = mem_getinfo b.
Proof. intro H. unfold mem_getinfo. rewrite (validatepath_fun_spelling _ _ H). reflexivity. Qed.
Lemma exists_spelling a b : rpath a = rpath b -> b_exists mem_low a = b_exists mem_low b.
Proof. intro H. unfold b_exists. cbn [l_getinfo mem_low]. rewrite (getinfo_spelling _ _ H). reflexivity. Qed.
Lemma open_spelling a b m : rpath a = rpath b -> mem_open a m = mem_open b m.
Proof. intro H. unfold mem_open. rewrite (validatepath_fun_spelling _ _ H). reflexivity. Qed.
Lemma openread_spelling a b : rpath a = rpath b -> mem_openread a = mem_openread b.
Proof. intro H. unfold mem_openread. rewrite (open_spelling _ _ _ H). reflexivity. Qed.
Lemma openwrite_spelling a b m d : rpath a = rpath b -> mem_openwrite a m d = mem_openwrite b m d.
Proof. intro H. unfold mem_openwrite. rewrite (open_spelling _ _ _ H). reflexivity. Qed.
Lemma setinfo_spelling a b mt : rpath a = rpath b -> mem_setinfo a mt = mem_setinfo b mt.
Proof. intro H. unfold mem_setinfo. rewrite (validatepath_fun_spelling _ _ H). reflexivity. Qed.

Lemma tracks_copy_body E _src _dst rs rd gs gd _src' _dst' ov pt :
  (forall A (f : str -> MM A), tracks E (route _src f) (f rs)) ->
  (forall A (f : str -> MM A), tracks E (route _dst f) (f rd)) ->
  tracks E (mount_getinfo _src) (x <- mem_getinfo rs ;; ret (gs x)) -> (forall x, i_mt (gs x) = i_mt x) ->
  tracks E (mount_getinfo _dst) (x <- mem_getinfo rd ;; ret (gd x)) ->
  rpath _src' = rpath rs -> rpath _dst' = rpath rd -> str_eqb _src _dst = str_eqb _src' _dst' ->
  tracks E (copy_body mount_low _src _dst ov pt) (copy_body mem_low _src' _dst' ov pt).
Proof.
  intros Hs Hd Hgs Hmt Hgd Rs Rd Heq. unfold copy_body. apply tracks_bind.
  { destruct ov; [apply tracks_ret|]. rewrite (exists_spelling _ _ Rd). apply (tracks_exists _ _ _ gd Hgd). }
  intros [|]; [apply tracks_raise|]. rewrite Heq. destruct (str_eqb _src' _dst'); [apply tracks_raise|].
  cbn [l_openread mount_low mem_low]. apply tracks_bind.
  { rewrite (openread_spelling _ _ Rs). apply Hs. }
  intro data. apply tracks_bind.
  { unfold b_upload. cbn [l_openwrite mount_low mem_low]. rewrite (openwrite_spelling _ _ _ _ Rd).
    apply tracks_openwrite; [exact Hd|reflexivity]. }
  intros _. destruct pt; [|apply tracks_ret].
  unfold b_copy_modified_time. cbn [l_getinfo l_setinfo mount_low mem_low].
  rewrite (getinfo_spelling _ _ Rs). apply (tracks_bind_getinfo _ _ _ gs Hgs).
  intro i0. rewrite Hmt. rewrite (setinfo_spelling _ _ _ Rd). apply (Hd _ (fun x => mem_setinfo x (i_mt i0))).
Qed.

Lemma tracks_validate {B} E s rs ns (K : str -> M tstate B) (k : str -> MM B) :
  (forall A (f : str -> MM A), tracks E (route s f) (f rs)) -> normpath s = Ok ns ->
  (forall cs', rpath rs = inl cs' -> tracks E (K (abspath ns)) (k (to_path true cs'))) ->
  tracks E (mbind (mount_validatepath s) K) (mbind (mem_validatepath rs) k).
Proof.
  intros Hs Hn HK t. unfold mount_validatepath. unfold mbind, lift, ret.
  rewrite (Hs _ mem_validatepath t).
  destruct (rpath rs) as [cs'|adm] eqn:R.
  - rewrite (validatepath_fun_inl _ _ R). cbn [fst snd]. rewrite Hn. apply (HK cs' eq_refl).
  - rewrite (validatepath_fun_inr _ _ R). cbn [fst snd]. reflexivity.
Qed.

(* a path and its validated form are routed alike *)
Lemma mount_delegate_validated ms s ns : normpath s = Ok ns ->
  mount_delegate ms (abspath ns) = mount_delegate ms s.
Proof.
  intro Hn. unfold mount_delegate.
  assert (E : mount_key (abspath ns) = mount_key s); [|rewrite E; reflexivity].
  rewrite normpath_spec in Hn. unfold spec_normpath in Hn.
  destruct (resolve (comps s)) as [cs|] eqn:R; [|discriminate Hn].
  injection Hn as Hn. subst ns. pose proof (resolve_comps_good s cs R) as G.
  rewrite (abspath_nf_gen _ _ G). rewrite (mount_key_spec s cs R).
  apply mount_key_spec. apply resolve_comps_nf. exact G.
Qed.

(* route_spec over numbered mounts *)
Lemma route_spec_in ms cs i r : route_spec ms cs = Some (i, r) ->
  exists mc, In (mc, i) ms /\ cs = mc ++ r.
Proof.
  induction ms as [|[mc j] rest IH]; cbn [route_spec]; intro H; [discriminate H|].
  destruct (cprefix mc cs) eqn:P.
  - injection H as H1 H2. subst. exists mc. split; [left; reflexivity|].
    apply cprefix_app in P as [t ->]. rewrite skipn_len_app. reflexivity.
  - destruct (IH H) as (mc' & I & Ec). exists mc'. split; [right; exact I|exact Ec].
Qed.

Lemma combine_seq_fun {A} (l : list A) : forall k a b i,
  In (a, i) (List.combine l (seq k (length l))) -> In (b, i) (List.combine l (seq k (length l))) -> a = b.
Proof.
  induction l as [|x r IH]; intros k a b i Ha Hb; [destruct Ha|].
  cbn [length seq List.combine] in Ha, Hb.
  assert (Hge : forall c j, In (c, j) (List.combine r (seq (S k) (length r))) -> S k <= j).
  { intros c j I. apply in_combine_r in I. apply in_seq in I. lia. }
  destruct Ha as [Ha|Ha], Hb as [Hb|Hb].
  - congruence.
  - injection Ha as _ Ha. subst i. apply Hge in Hb. lia.
  - injection Hb as _ Hb. subst i. apply Hge in Ha. lia.
  - eapply IH; eassumption.
Qed.

Lemma to_path_eqb_app mc r1 r2 : Forall good (mc ++ r1) -> Forall good (mc ++ r2) ->
  str_eqb (to_path true (mc ++ r1)) (to_path true (mc ++ r2)) = str_eqb (to_path true r1) (to_path true r2).
Proof.
  intros G1 G2. pose proof (proj2 (proj1 (Forall_app _ _ _) G1)) as g1.
  pose proof (proj2 (proj1 (Forall_app _ _ _) G2)) as g2.
  destruct (str_eqb_spec (to_path true r1) (to_path true r2)) as [e|ne].
  - apply to_path_inj in e; [|assumption..]. subst. apply str_eqb_refl.
  - apply str_eqb_neq. intro H. apply to_path_inj in H; [|assumption..].
    apply app_inv_head in H. subst. apply ne. reflexivity.
Qed.

(* what a delegation to member i says about the path, on a state with proper mount keys *)
Lemma delegate_keyed_inv st (mcs : list (list str)) s i rs :
  map fst (t_mounts st) = map key_of mcs -> Forall (Forall good) mcs ->
  mount_delegate (mounts_of st) s = Ok (Some (i, rs)) ->
  exists cs mc r, resolve (comps s) = Some cs /\
    In (mc, i) (List.combine mcs (seq 0 (length mcs))) /\ cs = mc ++ r /\ rs = to_path false r.
Proof.
  intros Hk Hg H. destruct (resolve (comps s)) as [cs|] eqn:R.
  - pose proof (mount_route (List.combine mcs (seq 0 (length mcs))) s cs (combine_good mcs 0 Hg) R) as Q.
    change (map (fun m : list str * nat => (key_of (fst m), snd m)) (List.combine mcs (seq 0 (length mcs))))
      with (keyed (List.combine mcs (seq 0 (length mcs)))) in Q.
    rewrite <- (mounts_of_keyed _ _ Hk) in Q. rewrite Q in H.
    destruct (route_spec (List.combine mcs (seq 0 (length mcs))) cs) as [[j r]|] eqn:RS; [|discriminate H].
    injection H as H1 H2. subst j rs.
    destruct (route_spec_in _ _ _ _ RS) as (mc & I & Ec).
    exists cs, mc, r. auto.
  - unfold mount_delegate in H. rewrite (mount_key_climbs s R) in H. discriminate H.
Qed.

Definition mount_keys_ok (st : tstate) : bool :=
  forallb (fun k => match mount_key k with Ok k' => str_eqb k' k | _ => false end) (map fst (t_mounts st)).

Lemma mount_keys_ok_mcs (ks : list str) :
  forallb (fun k => match mount_key k with Ok k' => str_eqb k' k | _ => false end) ks = true ->
  exists mcs : list (list str), ks = map key_of mcs /\ Forall (Forall good) mcs.
Proof.
  induction ks as [|k r IH]; intro H.
  - exists []. split; [reflexivity|constructor].
  - cbn [forallb] in H. apply andb_true_iff in H as [H1 H2]. destruct (IH H2) as (mcs & E & G).
    destruct (resolve (comps k)) as [cs|] eqn:R.
    + rewrite (mount_key_spec k cs R) in H1. apply str_eqb_eq in H1.
      exists (cs :: mcs). split; [cbn [map]; congruence|].
      constructor; [apply (resolve_comps_good k); exact R|exact G].
    + rewrite (mount_key_climbs k R) in H1. discriminate H1.
Qed.

(* the statement as given is false on a state whose mount key is not a mount key ("/a" without the
   final "/"): "/a/x" and "/ax" are both sent to member 0, as "/x" and "x": MountFS copies the file
   onto itself, the member's own copy refuses *)
Example mount_copy_within_ce :
  let st := {| t_default := Dir [] None;
               t_mounts := [([slash; ch_a], Dir [([ch_x], File [ch_b] None)] None)] |} in
  let s := [slash; ch_a; slash; ch_x] in let d := [slash; ch_a; ch_x] in
  (mount_delegate (mounts_of st) s, mount_delegate (mounts_of st) d,
   snd (mount_run (OCopy s d true false) st),
   snd (on_mount 0 (mem_run (OCopy [slash; ch_x] [ch_x] true false)) st))
  = (Ok (Some (0, [slash; ch_x])), Ok (Some (0, [ch_x])), Ok VUnit, Err IllegalDestination).
Proof. vm_compute. reflexivity. Qed.

(* STATEMENT CHANGED: the mount points must be mount keys (what mount() stores: forcedir(abspath(normpath))),
   mount_keys_ok st = true; without it two different paths can name the same member file (mount_copy_within_ce) *)
Theorem mount_copy_within : forall s d ov pt st i rs rd, mount_keys_ok st = true -> i < length (t_mounts st) ->
  mount_delegate (mounts_of st) s = Ok (Some (i, rs)) -> mount_delegate (mounts_of st) d = Ok (Some (i, rd)) ->
  mount_run (OCopy s d ov pt) st = on_mount i (mem_run (OCopy rs rd ov pt)) st.
Proof.
  intros s d ov pt st i rs rd Hok Hi Hs Hd.
  destruct (mount_keys_ok_mcs _ Hok) as (mcs & Hk & Hg).
  destruct (delegate_keyed_inv _ _ _ _ _ Hk Hg Hs) as (cs & mc & r1 & Rs & I1 & Ecs & Ers).
  destruct (delegate_keyed_inv _ _ _ _ _ Hk Hg Hd) as (cd & mc' & r2 & Rd & I2 & Ecd & Erd).
  assert (mc' = mc) by (eapply combine_seq_fun; eassumption). subst mc'.
  pose proof (resolve_comps_good s cs Rs) as Gs. pose proof (resolve_comps_good d cd Rd) as Gd.
  assert (Ns : normpath s = Ok (to_path (starts_c slash s) cs)).
  { rewrite normpath_spec. unfold spec_normpath. rewrite Rs. reflexivity. }
  assert (Nd : normpath d = Ok (to_path (starts_c slash d) cd)).
  { rewrite normpath_spec. unfold spec_normpath. rewrite Rd. reflexivity. }
  assert (g1 : Forall good r1) by (subst cs; apply Forall_app in Gs; tauto).
  assert (g2 : Forall good r2) by (subst cd; apply Forall_app in Gd; tauto).
  apply tracks_on_mount; [exact Hi|]. intros c t0 Hn.
  cbn [mount_run mem_run]. apply tracks_vmap.
  unfold mount_copy, mem_copy. rewrite !b_copy_body. cbn [l_validatepath mount_low mem_low].
  pose proof (tracks_route_member _ _ _ _ _ _ Hn Hs) as Ts.
  pose proof (tracks_route_member _ _ _ _ _ _ Hn Hd) as Td.
  apply (tracks_validate _ s rs _ _ _ Ts Ns). intros cs' Rcs'.
  apply (tracks_validate _ d rd _ _ _ Td Nd). intros cd' Rcd'.
  assert (cs' = r1).
  { apply rpath_inl in Rcs' as [_ Q]. rewrite Ers, (resolve_comps_nf false r1 g1) in Q. congruence. }
  assert (cd' = r2).
  { apply rpath_inl in Rcd' as [_ Q]. rewrite Erd, (resolve_comps_nf false r2 g2) in Q. congruence. }
  subst cs' cd'.
  apply (tracks_copy_body _ _ _ rs rd (mount_point_name (abspath (to_path (starts_c slash s) cs)) rs)
           (mount_point_name (abspath (to_path (starts_c slash d) cd)) rd)).
  - intros A f. apply (tracks_route_member _ _ _ _ _ _ Hn). rewrite (mount_delegate_validated _ _ _ Ns). exact Hs.
  - intros A f. apply (tracks_route_member _ _ _ _ _ _ Hn). rewrite (mount_delegate_validated _ _ _ Nd). exact Hd.
  - apply (tracks_getinfo_member _ _ _ _ _ _ Hn). rewrite (mount_delegate_validated _ _ _ Ns). exact Hs.
  - intro x. apply mount_point_name_mt.
  - apply (tracks_getinfo_member _ _ _ _ _ _ Hn). rewrite (mount_delegate_validated _ _ _ Nd). exact Hd.
  - rewrite Rcs'. apply rpath_nf. apply (rpath_vp _ _ Rcs').
  - rewrite Rcd'. apply rpath_nf. apply (rpath_vp _ _ Rcd').
  - rewrite !abspath_nf_gen by assumption. subst cs cd. apply to_path_eqb_app; assumption.
Qed.
Print Assumptions mount_copy_within.


(* ------------------------------------------------------------------ *)
(* Examples on ex_mount (Route/CompositeEx.v)                          *)
(* ------------------------------------------------------------------ *)
From Coq Require Import String.
Local Open Scope string_scope. Local Open Scope list_scope.

(* "/a/x" is read from mount 0 with the relative path "x" *)
Example mount_read_a_ex :
  (mount_delegate (mounts_of ex_mount) (p "/a/x"), mount_run (OReadbytes (p "/a/x")) ex_mount)
  = (Ok (Some (0, p "x")), (ex_mount, Ok (VBytes (p "in-a")))).
Proof. vm_compute. reflexivity. Qed.

(* "/a" is NOT a prefix of "/ab": "/ab/x" is read from mount 1 *)
Example mount_read_ab_ex :
  (mount_delegate (mounts_of ex_mount) (p "/ab/x"), mount_run (OReadbytes (p "/ab/x")) ex_mount)
  = (Ok (Some (1, p "x")), (ex_mount, Ok (VBytes (p "in-ab")))).
Proof. vm_compute. reflexivity. Qed.

(* a path outside every mount is read from the default tree *)
Example mount_read_own_ex :
  (mount_delegate (mounts_of ex_mount) (p "own"), mount_run (OReadbytes (p "own")) ex_mount)
  = (Ok None, (ex_mount, Ok (VBytes (p "own")))).
Proof. vm_compute. reflexivity. Qed.

(* the same three through the theorems *)
Example mount_delegation_ex :
  mount_run (OReadbytes (p "/a/x")) ex_mount = on_mount 0 (mem_run (OReadbytes (p "x"))) ex_mount.
Proof. apply (mount_delegation (OReadbytes (p "/a/x")) (p "/a/x") ex_mount 0 (p "x")); vm_compute; reflexivity. Qed.

Example mount_default_ex :
  mount_run (OReadbytes (p "own")) ex_mount = on_default (mem_run (OReadbytes (p "own"))) ex_mount.
Proof. apply (mount_default (OReadbytes (p "own")) (p "own") ex_mount); vm_compute; reflexivity. Qed.

Example mount_bad_path_ex :
  mount_run (OReadbytes (p "/a/../..")) ex_mount = (ex_mount, Err IllegalBackReference).
Proof. vm_compute. reflexivity. Qed.

(* writebytes under "/c/d" changes mount 2 only *)
Example mount_write_cd_ex :
  let r := mount_run (OWritebytes (p "/c/d/n") (p "new")) ex_mount in
  (snd r, t_default (fst r), mount_tree (fst r) 0, mount_tree (fst r) 1, mount_tree (fst r) 2)
  = (Ok VUnit, t_default ex_mount, mount_tree ex_mount 0, mount_tree ex_mount 1, xd [("n", xf "new")]).
Proof. vm_compute. reflexivity. Qed.

(* getinfo of a mount point is the member's root named as the parent's listing names it *)
Example mount_getinfo_point_ex :
  mount_run (OGetinfo (p "/a")) ex_mount
  = (ex_mount, Ok (VInfo {| i_name := p "a"; i_isdir := true; i_size := 0; i_mt := None |})).
Proof. vm_compute. reflexivity. Qed.

Example mount_getinfo_point_cd_ex :
  (mount_delegate (mounts_of ex_mount) (p "/c/d"), mount_run (OGetinfo (p "/c/d")) ex_mount)
  = (Ok (Some (2, [])), (ex_mount, Ok (VInfo {| i_name := p "d"; i_isdir := true; i_size := 0; i_mt := None |}))).
Proof. vm_compute. reflexivity. Qed.

(* a filesystem mounted on "/": its root keeps the empty name *)
Definition ex_mount_root : tstate :=
  {| t_default := xd []; t_mounts := [(p "/", xd [("x", xf "in-root")])] |}.

Example mount_getinfo_root_ex :
  (mount_delegate (mounts_of ex_mount_root) (p "/"), mount_run (OGetinfo (p "/")) ex_mount_root,
   snd (mount_run (OGetinfo (p "/x")) ex_mount_root))
  = (Ok (Some (0, [])), (ex_mount_root, Ok (VInfo {| i_name := []; i_isdir := true; i_size := 0; i_mt := None |})),
     Ok (VInfo {| i_name := p "x"; i_isdir := false; i_size := 7; i_mt := None |})).
Proof. vm_compute. reflexivity. Qed.

(* the same through the theorems *)
Example mount_getinfo_member_ex :
  mount_run (OGetinfo (p "/a")) ex_mount
  = on_mount 0 (vmap (fun x => VInfo (mount_point_name (p "/a") [] x)) (mem_getinfo [])) ex_mount.
Proof. apply mount_getinfo_member. vm_compute. reflexivity. Qed.

Example mount_getinfo_member_below_ex :
  mount_run (OGetinfo (p "/a/s/t")) ex_mount
  = on_mount 0 (vmap (fun x => VInfo (mount_point_name (p "/a/s/t") (p "s/t") x)) (mem_getinfo (p "s/t"))) ex_mount
  /\ snd (mount_run (OGetinfo (p "/a/s/t")) ex_mount)
     = Ok (VInfo {| i_name := p "t"; i_isdir := false; i_size := 1; i_mt := None |}).
Proof. split; [apply mount_getinfo_member|]; vm_compute; reflexivity. Qed.

Example mount_getinfo_default_ex :
  mount_run (OGetinfo (p "own")) ex_mount = on_default (mem_run (OGetinfo (p "own"))) ex_mount
  /\ snd (mount_run (OGetinfo (p "own")) ex_mount)
     = Ok (VInfo {| i_name := p "own"; i_isdir := false; i_size := 3; i_mt := None |}).
Proof. split; [apply mount_getinfo_default|]; vm_compute; reflexivity. Qed.

Example mount_getinfo_bad_path_ex :
  mount_run (OGetinfo (p "/a/../..")) ex_mount = (ex_mount, Err IllegalBackReference).
Proof. apply mount_getinfo_bad_path. vm_compute. reflexivity. Qed.

Example mount_point_name_spec_ex :
  forall x, mount_point_name (p "/c/./d/") [] x = rename_info x (p "d").
Proof.
  intro x. apply (mount_point_name_spec (p "/c/./d/") [p "c"; p "d"] [] x); [vm_compute; reflexivity|discriminate|reflexivity].
Qed.

Example mount_point_name_below_ex :
  forall x, mount_point_name (p "/a/s") (p "s") x = x.
Proof. intro x. apply mount_point_name_below. vm_compute. reflexivity. Qed.

(* the component-level rule on ex_mount *)
Example mount_route_member_ex :
  route_spec (List.combine [[p "a"]; [p "ab"]; [p "c"; p "d"]] (seq 0 3)) [p "ab"; p "x"] = Some (1, [p "x"])
  /\ map fst (t_mounts ex_mount) = map key_of [[p "a"]; [p "ab"]; [p "c"; p "d"]].
Proof. split; vm_compute; reflexivity. Qed.

(* derived calls: exists / create under a mount point and in the default tree *)
Example mount_derived_ex :
  (snd (mount_run (OExists (p "/a/s/t")) ex_mount), snd (mount_run (OExists (p "/a/q")) ex_mount),
   mount_tree (fst (mount_run (OCreate (p "/ab/new") false) ex_mount)) 1,
   snd (mount_run (OIsempty (p "/c/d")) ex_mount))
  = (Ok (VBool true), Ok (VBool false), xd [("x", xf "in-ab"); ("new", xf "")], Ok (VBool true)).
Proof. vm_compute. reflexivity. Qed.

(* removedir of the root and of a mount point's directory *)
Example mount_removedir_ex :
  (mount_run (ORemovedir (p "/")) ex_mount, snd (mount_run (ORemovedir (p "/a/s")) ex_mount),
   snd (mount_run (ORemovedir (p "/c/d")) ex_mount))
  = ((ex_mount, Err RemoveRootError), Err DirectoryNotEmpty, Err RemoveRootError).
Proof. vm_compute. reflexivity. Qed.

(* mount(): inside an existing mount it is refused; elsewhere the point becomes a directory of the default tree *)
Example mount_refused_ex : mount_mount (p "/a/s") empty_dir ex_mount = (ex_mount, Crash OtherException).
Proof. vm_compute. reflexivity. Qed.

Example mount_accepted_ex :
  let r := mount_mount (p "/z/y") empty_dir ex_mount in
  (snd r, map fst (t_mounts (fst r)), snd (mem_isdir (p "/z/y") (t_default (fst r))),
   snd (mem_isdir (p "/z/y") (t_default ex_mount)))
  = (Ok tt, [p "/a/"; p "/ab/"; p "/c/d/"; p "/z/y/"], Ok true, Ok false).
Proof. vm_compute. reflexivity. Qed.

(* FINDING (confirmed on the real class): removetree of a mount point empties the member and then fails *)
Example mount_removetree_ce :
  let r := mount_run (ORemovetree (p "/a")) ex_mount in
  snd r = Err RemoveRootError /\ mount_tree (fst r) 0 = Dir [] None.
Proof. vm_compute. split; reflexivity. Qed.

(* the path of removetree is validated first: "x\0/.." routes to the default tree, whose validatepath sees the NUL *)
Example mount_removetree_nul_ex :
  mount_run (ORemovetree [120%N; 0%N; 47%N; 46%N; 46%N]) ex_mount = (ex_mount, Err InvalidCharsInPath).
Proof. vm_compute. reflexivity. Qed.

(* copy across two members: mount 1 gains "y" = "in-a"; mount 0 and the default tree are unchanged *)
Example mount_copy_across :
  let r := mount_run (OCopy (p "/a/x") (p "/ab/y") false false) ex_mount in
  (snd r, t_default (fst r), mount_tree (fst r) 0, mount_tree (fst r) 1, mount_tree (fst r) 2)
  = (Ok VUnit, t_default ex_mount, mount_tree ex_mount 0, xd [("x", xf "in-ab"); ("y", xf "in-a")], mount_tree ex_mount 2).
Proof. vm_compute. reflexivity. Qed.

(* copy inside member 0: ex_mount's mount points are mount keys, and the member's own copy does the work *)
Example mount_copy_within_ex :
  (mount_keys_ok ex_mount,
   mount_tree (fst (mount_run (OCopy (p "/a/x") (p "/a/s/c") false false) ex_mount)) 0)
  = (true, xd [("x", xf "in-a"); ("s", xd [("t", xf "t"); ("c", xf "in-a")])]).
Proof. vm_compute. reflexivity. Qed.

Example mount_copy_within_thm_ex :
  mount_run (OCopy (p "/a/x") (p "/a/s/c") false false) ex_mount
  = on_mount 0 (mem_run (OCopy (p "x") (p "s/c") false false)) ex_mount.
Proof. apply mount_copy_within; vm_compute; try reflexivity. lia. Qed.

(* ------------------------------------------------------------------ *)
(* scandir: mount points are reported as getinfo reports them          *)
(* ------------------------------------------------------------------ *)
Definition xinfo (n : string) (d : bool) (sz : nat) (mt : option Z) : info :=
  {| i_name := p n; i_isdir := d; i_size := sz; i_mt := mt |}.

(* "/" of ex_mount: "a" and "ab" are the mounted roots under the mount points' names, "c" and "own" the default tree's own *)
Example mount_scandir_root_ex :
  mount_run (OScandir (p "/")) ex_mount
  = (ex_mount, Ok (VInfos [xinfo "a" true 0 None; xinfo "ab" true 0 None; xinfo "c" true 0 None; xinfo "own" false 3 None])).
Proof. vm_compute. reflexivity. Qed.

Example mount_scandir_root_getinfo_ex :
  (snd (mount_run (OGetinfo (p "/a")) ex_mount), snd (mount_run (OGetinfo (p "/ab")) ex_mount),
   point_info ex_mount (p "/") (xinfo "a" true 0 None), point_info ex_mount (p "/") (xinfo "ab" true 0 None))
  = (Ok (VInfo (xinfo "a" true 0 None)), Ok (VInfo (xinfo "ab" true 0 None)),
     Ok (xinfo "a" true 0 None), Ok (xinfo "ab" true 0 None)).
Proof. vm_compute. reflexivity. Qed.

(* the same through the theorems *)
Example mount_scandir_default_ex :
  mount_run (OScandir (p "/")) ex_mount = (ex_mount, omap VInfos (default_listing ex_mount (p "/") (p "/")))
  /\ default_listing ex_mount (p "/") (p "/")
     = Ok [xinfo "a" true 0 None; xinfo "ab" true 0 None; xinfo "c" true 0 None; xinfo "own" false 3 None].
Proof. split; [apply mount_scandir_default|]; vm_compute; reflexivity. Qed.

(* "c" is a directory but "/c/" is no mount key, "own" is a file: both are the default tree's own entries *)
Example mount_scandir_plain_entry_ex :
  point_info ex_mount (p "/") (xinfo "c" true 0 None) = Ok (xinfo "c" true 0 None)
  /\ point_info ex_mount (p "/") (xinfo "own" false 3 None) = Ok (xinfo "own" false 3 None).
Proof. split; apply mount_scandir_plain_entry; vm_compute; reflexivity. Qed.

Example mount_scandir_point_entry_ex :
  omap VInfo (point_info ex_mount (p "/") (xinfo "a" true 0 None)) = snd (mount_run (OGetinfo (p "/a")) ex_mount).
Proof. apply (mount_scandir_point_entry ex_mount (p "/") (xinfo "a" true 0 None)). vm_compute. reflexivity. Qed.

(* "/c" lists the mount point "d" as getinfo("/c/d") reports it *)
Example mount_scandir_c_ex :
  (mount_delegate (mounts_of ex_mount) (p "/c"), mount_key (p "/c"),
   mount_run (OScandir (p "/c")) ex_mount, snd (mount_run (OGetinfo (p "/c/d")) ex_mount))
  = (Ok None, Ok (p "/c/"), (ex_mount, Ok (VInfos [xinfo "d" true 0 None])), Ok (VInfo (xinfo "d" true 0 None))).
Proof. vm_compute. reflexivity. Qed.

(* the replacement made visible: the root mounted on "/a" carries a modification time, the placeholder directory "a"
   of the default tree has none: the listing of "/" reports the mounted root's time, as getinfo("/a") does *)
Definition ex_mount_mt : tstate :=
  {| t_default := t_default ex_mount;
     t_mounts := [(p "/a/", Dir [(p "x", xf "in-a")] (Some 9%Z)); (p "/ab/", xd [("x", xf "in-ab")]); (p "/c/d/", xd [])] |}.

Example mount_scandir_visible_ex :
  (snd (mem_run (OScandir (p "/")) (t_default ex_mount_mt)),
   mount_run (OScandir (p "/")) ex_mount_mt,
   snd (mount_run (OGetinfo (p "/a")) ex_mount_mt))
  = (Ok (VInfos [xinfo "a" true 0 None; xinfo "ab" true 0 None; xinfo "c" true 0 None; xinfo "own" false 3 None]),
     (ex_mount_mt, Ok (VInfos [xinfo "a" true 0 (Some 9%Z); xinfo "ab" true 0 None; xinfo "c" true 0 None; xinfo "own" false 3 None])),
     Ok (VInfo (xinfo "a" true 0 (Some 9%Z)))).
Proof. vm_compute. reflexivity. Qed.

(* under a mount point the listing is the member's own *)
Example mount_scandir_member_ex :
  mount_run (OScandir (p "/a")) ex_mount = on_mount 0 (mem_run (OScandir [])) ex_mount
  /\ snd (mount_run (OScandir (p "/a")) ex_mount) = Ok (VInfos [xinfo "x" false 4 None; xinfo "s" true 0 None]).
Proof. split; [apply mount_scandir_member|]; vm_compute; reflexivity. Qed.

Example mount_scandir_bad_path_ex :
  mount_run (OScandir (p "/a/../..")) ex_mount = (ex_mount, Err IllegalBackReference).
Proof. apply mount_scandir_bad_path. vm_compute. reflexivity. Qed.

(* isempty on the default tree: through the replaced listing *)
Example mount_isempty_default_ex :
  mount_run (OIsempty (p "/c")) ex_mount
  = (ex_mount, omap (fun l => VBool (match l with [] => true | _ => false end)) (default_listing ex_mount (p "/c") (p "/c/")))
  /\ snd (mount_run (OIsempty (p "/c")) ex_mount) = Ok (VBool false)
  /\ snd (mount_run (OIsempty (p "own")) ex_mount) = Err DirectoryExpected.
Proof. split; [apply mount_isempty_default|split]; vm_compute; reflexivity. Qed.

(* the four derived calls that do not list, on the default tree *)
Example mount_default_derived_ex :
  mount_run (OExists (p "own")) ex_mount = on_default (mem_run (OExists (p "own"))) ex_mount
  /\ mount_run (OTouch (p "/c/new")) ex_mount = on_default (mem_run (OTouch (p "/c/new"))) ex_mount.
Proof. split; [apply (mount_default_derived _ (p "own"))|apply (mount_default_derived _ (p "/c/new"))]; vm_compute; reflexivity. Qed.
