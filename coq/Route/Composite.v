(* fs/multifs.py MultiFS and fs/mountfs.py MountFS as executable STATE models over the proved
   MemoryFS model (FS/Mem.v): every member is a MemoryFS tree; each method of the composite
   is written as the code writes it (which member it asks, with which path, which error it
   raises itself), the methods the classes do not override go through the derived methods of
   fs/base.py (FS/Base.v, and the walker-based ones below, which call the composite's own
   makedirs). check() (the closed flag) is C18's. *)
From Coq Require Import List NArith ZArith Bool Arith.
From PyFS Require Import Base.PyStr Base.Outcome Path.PathModel FS.Tree FS.Monad FS.Mode FS.Base
     FS.Mem FS.Ops Route.Route.
Import ListNotations.
Local Open Scope monad_scope.

(* ------------------------------------------------------------------ *)
(* base-class methods that call overridable derived methods            *)
(* ------------------------------------------------------------------ *)
Section Derived2.
  Context {S : Type}.
  Variable L : low S.
  (* self.makedirs: FS.makedirs (b_makedirs L) unless the class overrides it *)
  Variable makedirs : str -> bool -> M S unit.

  (* copy.copy_structure(fs, fs, Walker(), src_root, dst_root): every directory is made with
     makedirs(recreate=True) (/repo 0b927fa) *)
  Definition copy_structure2 (src_root dst_root : str) : M S unit :=
    _src <- l_validatepath L src_root ;;
    _dst <- l_validatepath L dst_root ;;
    if isbase _src _dst then raise IllegalDestination
    else
      _ <- makedirs _dst true ;;
      fuel <- walk_fuel L ;;
      bfs_walk L fuel [_src] (fun dir_path i =>
        if i_isdir i then
          rel <- lift (frombase _src (combine dir_path (i_name i))) ;;
          makedirs (combine _dst rel) true
        else ret tt).

  (* copy.copy_dir(fs, src, fs, dst, preserve_time), default walker, no workers *)
  Definition copy_dir2 (copy : str -> str -> bool -> bool -> M S unit)
             (src dst : str) (preserve_time : bool) : M S unit :=
    ns <- lift (normpath src) ;;
    nd <- lift (normpath dst) ;;
    let _src := abspath ns in
    let _dst := abspath nd in
    _ <- copy_structure2 src dst ;;
    fuel <- walk_fuel L ;;
    bfs_walk L fuel [_src] (fun dir_path i =>
      if i_isdir i then ret tt
      else
        let fp := combine dir_path (i_name i) in
        rel <- lift (frombase _src fp) ;;
        copy_file_internal L copy fp (combine _dst rel) preserve_time).

  (* FS.copydir *)
  Definition b_copydir2 (copy : str -> str -> bool -> bool -> M S unit)
             (src dst : str) (create preserve_time : bool) : M S unit :=
    _src <- l_validatepath L src ;;
    _dst <- l_validatepath L dst ;;
    if isbase _src _dst then raise IllegalDestination
    else
      e <- (if create then ret true else b_exists L _dst) ;;
      if negb e then raise ResourceNotFound
      else
        i <- l_getinfo L _src ;;
        if negb (i_isdir i) then raise DirectoryExpected
        else copy_dir2 copy _src _dst preserve_time.

  (* move.move_dir(fs, src, fs, dst) *)
  Definition move_dir2 (copy : str -> str -> bool -> bool -> M S unit)
             (src dst : str) (preserve_time : bool) : M S unit :=
    _ <- l_makedir L dst true ;;
    _ <- copy_dir2 copy src dst preserve_time ;;
    l_removetree L src.

  (* FS.movedir *)
  Definition b_movedir2 (copy : str -> str -> bool -> bool -> M S unit)
             (src dst : str) (create preserve_time : bool) : M S unit :=
    _src <- l_validatepath L src ;;
    _dst <- l_validatepath L dst ;;
    if str_eqb _src _dst then ret tt
    else if isbase _src _dst then raise IllegalDestination
    else
      e <- (if create then ret true else b_exists L dst) ;;
      if negb e then raise ResourceNotFound
      else
        i <- l_getinfo L _src ;;
        if negb (i_isdir i) then raise DirectoryExpected
        else move_dir2 copy src dst preserve_time.
End Derived2.

(* FS.removetree (not overridden by MultiFS / MountFS): the path is validated by the filesystem's own
   validatepath (/repo b9cf049), then a depth-first walk: every file removed with remove(), every
   directory with removedir() after its contents, finally the directory itself unless it is the
   root.  [fuel] bounds the nesting depth. *)
Section Removetree.
  Context {S : Type}.
  Variable validatepath : str -> M S str.
  Variable scandir : str -> M S (list info).
  Variable remove removedir : str -> M S unit.
  Variable fuel_of : S -> nat.

  Fixpoint dfs_remove (fuel : nat) (d : str) : M S unit :=
    match fuel with
    | O => crash NonTermination
    | Datatypes.S f =>
      infos <- scandir d ;;
      mfor infos (fun i =>
        let q := combine d (i_name i) in
        if i_isdir i then (_ <- dfs_remove f q ;; removedir q) else remove q)
    end.

  Definition b_removetree (p : str) : M S unit :=
    _dir <- validatepath p ;;
    s <- get ;;
    _ <- dfs_remove (Datatypes.S (fuel_of s)) _dir ;;
    if str_eqb _dir s_slash then ret tt else removedir p.
End Removetree.

(* ------------------------------------------------------------------ *)
(* running a member's method inside a list of members                  *)
(* ------------------------------------------------------------------ *)
Fixpoint set_nth {A} (i : nat) (x : A) (l : list A) : list A :=
  match l, i with
  | [], _ => []
  | _ :: r, O => x :: r
  | y :: r, Datatypes.S j => y :: set_nth j x r
  end.

Definition on_nth {C A} (i : nat) (m : MM A) : M (list (C * node)) A :=
  fun st =>
    match nth_error st i with
    | Some (c, t) => let '(t', o) := m t in (set_nth i (c, t') st, o)
    | None => (st, Crash Unreachable)
    end.

(* a member's answer to a query (the member is not changed by it) *)
Definition ask {C A} (st : list (C * node)) (i : nat) (m : MM A) : outcome A :=
  match nth_error st i with
  | Some (_, t) => snd (m t)
  | None => Crash Unreachable
  end.

Definition trees_size {C} (st : list (C * node)) : nat :=
  fold_right (fun ct acc => tree_size (snd ct) + acc) 0 st.

(* ================================================================== *)
(* MultiFS                                                             *)
(* ================================================================== *)
(* add_fs(name, fs, write, priority): the Route.v member (priority, insertion index, id =
   position in the state) with its name and write flag *)
Record cmember := { cm : member; cm_name : str; cm_write : bool }.

Definition mstate := list (cmember * node).

Definition members_of (st : mstate) : list member := map (fun ct => cm (fst ct)) st.

(* iterate_fs(): positions of the members in (priority, index)-descending order *)
Definition order (st : mstate) : list nat := map m_id (iterate_fs (members_of st)).

(* self.write_fs: the member of the LAST add_fs(write=True) *)
Fixpoint write_index_from (st : mstate) (i : nat) (acc : option nat) : option nat :=
  match st with
  | [] => acc
  | (c, _) :: r => write_index_from r (Datatypes.S i) (if cm_write c then Some i else acc)
  end.
Definition write_index (st : mstate) : option nat := write_index_from st 0 None.

(* well-formed: ids are positions, insertion indices are distinct *)
Fixpoint ids_from (st : mstate) (i : nat) : bool :=
  match st with
  | [] => true
  | (c, _) :: r => Nat.eqb (m_id (cm c)) i && ids_from r (Datatypes.S i)
  end.
Fixpoint nat_nodup (l : list nat) : bool :=
  match l with
  | [] => true
  | x :: r => negb (existsb (Nat.eqb x) r) && nat_nodup r
  end.
Definition mwf (st : mstate) : bool :=
  ids_from st 0 && nat_nodup (map m_index (members_of st)).

(* MultiFS._delegate: first member, in iterate_fs order, whose exists(path) is true; an
   exception of a member's exists() propagates *)
Fixpoint delegate_in (ids : list nat) (p : str) (st : mstate) : outcome (option nat) :=
  match ids with
  | [] => Ok None
  | i :: r =>
    match ask st i (mem_exists p) with
    | Ok true => Ok (Some i)
    | Ok false => delegate_in r p st
    | Err e => Err e
    | Crash k => Crash k
    end
  end.

Definition m_delegate (p : str) : M mstate (option nat) :=
  fun st => (st, delegate_in (order st) p st).

Definition m_delegate_required (p : str) : M mstate nat :=
  o <- m_delegate p ;;
  match o with Some i => ret i | None => raise ResourceNotFound end.

Definition m_writable_required : M mstate nat :=
  fun st => match write_index st with
            | Some i => (st, Ok i)
            | None => (st, Err ResourceReadOnly)
            end.

Definition multi_getinfo (p : str) : M mstate info :=
  o <- m_delegate p ;;
  match o with
  | None => raise ResourceNotFound
  | Some i => n <- lift (normpath p) ;; on_nth i (mem_getinfo (abspath n))
  end.

(* listdir: ResourceNotFound of a member is skipped; DirectoryExpected is skipped once some
   member had the directory (a file of a lower member shadowed by the directory), raised
   otherwise; list(OrderedDict.fromkeys(directory)) *)
Fixpoint listdir_loop (ids : list nat) (p : str) (st : mstate) (acc : list str) (ex : bool)
  : outcome (list str) :=
  match ids with
  | [] => if ex then Ok (dedup_add [] acc) else Err ResourceNotFound
  | i :: r =>
    match ask st i (mem_listdir p) with
    | Ok ns => listdir_loop r p st (acc ++ ns) true
    | Err ResourceNotFound => listdir_loop r p st acc ex
    | Err DirectoryExpected => if ex then listdir_loop r p st acc ex else Err DirectoryExpected
    | Err e => Err e
    | Crash k => Crash k
    end
  end.

Definition multi_listdir (p : str) : M mstate (list str) :=
  fun st => (st, listdir_loop (order st) p st [] false).

(* scandir: the first member's info for every name; the page is a slice of the merged listing *)
Fixpoint dedup_infos (seen : list str) (l : list info) : list info :=
  match l with
  | [] => []
  | i :: r => if existsb (str_eqb (i_name i)) seen then dedup_infos seen r
              else i :: dedup_infos (seen ++ [i_name i]) r
  end.

Fixpoint scandir_loop (ids : list nat) (p : str) (st : mstate) (acc : list info) (ex : bool)
  : outcome (list info) :=
  match ids with
  | [] => if ex then Ok (dedup_infos [] acc) else Err ResourceNotFound
  | i :: r =>
    match ask st i (mem_scandir p) with
    | Ok ns => scandir_loop r p st (acc ++ ns) true
    | Err ResourceNotFound => scandir_loop r p st acc ex
    | Err DirectoryExpected => if ex then scandir_loop r p st acc ex else Err DirectoryExpected
    | Err e => Err e
    | Crash k => Crash k
    end
  end.

(* page = (start, end): index >= start and index < end over the merged, de-duplicated listing *)
Definition page_slice {A} (page : option (nat * nat)) (l : list A) : list A :=
  match page with
  | None => l
  | Some (s, e) => firstn (e - s) (skipn s l)
  end.

Definition multi_scandir_page (p : str) (page : option (nat * nat)) : M mstate (list info) :=
  fun st => (st, omap (page_slice page) (scandir_loop (order st) p st [] false)).

Definition multi_scandir (p : str) : M mstate (list info) := multi_scandir_page p None.

Definition multi_makedir (p : str) (recreate : bool) : M mstate unit :=
  i <- m_writable_required ;; on_nth i (mem_makedir p recreate).

Definition multi_makedirs (p : str) (recreate : bool) : M mstate unit :=
  i <- m_writable_required ;; on_nth i (mem_makedirs p recreate).

(* openbin / open: check_writable(mode) builds Mode(mode), which validates the string *)
Definition multi_pick (p mode : str) : M mstate nat :=
  if negb (mode_valid mode) then crash ValueError
  else if m_writing mode then m_writable_required else m_delegate_required p.

Definition multi_openwrite (p mode : str) (d : option bytes) : M mstate unit :=
  i <- multi_pick p mode ;; on_nth i (mem_openwrite p mode d).

Definition multi_openread (p : str) : M mstate bytes :=
  i <- m_delegate_required p ;; on_nth i (mem_openread p).

Definition multi_remove (p : str) : M mstate unit :=
  i <- m_delegate_required p ;; on_nth i (mem_remove p).

Definition multi_removedir (p : str) : M mstate unit :=
  i <- m_delegate_required p ;; on_nth i (mem_removedir p).

Definition multi_setinfo (p : str) (mt : option Z) : M mstate unit :=
  i <- m_writable_required ;; on_nth i (mem_setinfo p mt).

(* validatepath: the write filesystem's, else FS.validatepath with MultiFS's own meta (which
   names no invalid characters) *)
Definition multi_validatepath (p : str) : M mstate str :=
  fun st =>
    match write_index st with
    | Some i => (_ <- on_nth i (mem_validatepath p) ;; n <- lift (normpath p) ;; ret (abspath n)) st
    | None => (n <- lift (normpath p) ;; ret (abspath n)) st
    end.

Definition multi_removetree : str -> M mstate unit :=
  b_removetree multi_validatepath multi_scandir multi_remove multi_removedir trees_size.

Definition multi_low : low mstate :=
  {| l_validatepath := multi_validatepath; l_getinfo := multi_getinfo; l_listdir := multi_listdir;
     l_scandir := multi_scandir; l_makedir := multi_makedir; l_openread := multi_openread;
     l_openwrite := multi_openwrite; l_remove := multi_remove; l_removedir := multi_removedir;
     l_removetree := multi_removetree; l_setinfo := multi_setinfo; l_fuel := trees_size |}.

(* MultiFS's own overrides of derived methods *)
Definition multi_query {A} (p : str) (none : M mstate A) (f : MM A) : M mstate A :=
  o <- m_delegate p ;;
  match o with None => none | Some i => on_nth i f end.

Definition multi_isdir (p : str) : M mstate bool := multi_query p (ret false) (mem_isdir p).
Definition multi_isfile (p : str) : M mstate bool := multi_query p (ret false) (mem_isfile p).
Definition multi_readbytes (p : str) : M mstate bytes :=
  multi_query p (raise ResourceNotFound) (mem_readbytes p).
Definition multi_getsize (p : str) : M mstate nat :=
  multi_query p (raise ResourceNotFound) (mem_getsize p).
Definition multi_gettype (p : str) : M mstate nat :=
  multi_query p (raise ResourceNotFound) (mem_gettype p).
Definition multi_writebytes (p : str) (d : bytes) : M mstate unit :=
  i <- m_writable_required ;; on_nth i (mem_writebytes p d).

Definition multi_copy := b_copy multi_low.

Definition multi_run (o : op) : M mstate value :=
  match o with
  | OGetinfo p => vmap VInfo (multi_getinfo p)
  | OListdir p => vmap VNames (multi_listdir p)
  | OScandir p => vmap VInfos (multi_scandir p)
  | OMakedir p r => vmap (fun _ => VUnit) (multi_makedir p r)
  | OMakedirs p r => vmap (fun _ => VUnit) (multi_makedirs p r)
  | OWritebytes p d => vmap (fun _ => VUnit) (multi_writebytes p d)
  | OAppendbytes p d => vmap (fun _ => VUnit) (b_appendbytes multi_low p d)
  | OReadbytes p => vmap VBytes (multi_readbytes p)
  | OCreate p w => vmap VBool (b_create multi_low p w)
  | OTouch p => vmap (fun _ => VUnit) (b_touch multi_low p)
  | OOpenwrite p m d =>
    vmap (fun _ => VUnit) (multi_openwrite p m (if m_writing m then Some d else None))
  | OOpenread p m => i <- multi_pick p m ;; on_nth i (mem_run (OOpenread p m))
  | ORemove p => vmap (fun _ => VUnit) (multi_remove p)
  | ORemovedir p => vmap (fun _ => VUnit) (multi_removedir p)
  | ORemovetree p => vmap (fun _ => VUnit) (multi_removetree p)
  | OMove s d o' t => vmap (fun _ => VUnit) (b_move multi_low s d o' t)
  | OCopy s d o' t => vmap (fun _ => VUnit) (multi_copy s d o' t)
  | OMovedir s d c t => vmap (fun _ => VUnit) (b_movedir2 multi_low multi_makedirs multi_copy s d c t)
  | OCopydir s d c t => vmap (fun _ => VUnit) (b_copydir2 multi_low multi_makedirs multi_copy s d c t)
  | OSetinfo p mt => vmap (fun _ => VUnit) (multi_setinfo p mt)
  | OExists p => vmap VBool (b_exists multi_low p)
  | OIsdir p => vmap VBool (multi_isdir p)
  | OIsfile p => vmap VBool (multi_isfile p)
  | OIsempty p => vmap VBool (b_isempty multi_low p)
  | OGetsize p => vmap VNat (multi_getsize p)
  | OGettype p => vmap VNat (multi_gettype p)
  end.

(* add_fs on the state: the insertion index is the running counter = number of members *)
Definition multi_add (st : mstate) (name : str) (prio : Z) (write : bool) (t : node) : mstate :=
  st ++ [({| cm := {| m_prio := prio; m_index := length st; m_id := length st |};
             cm_name := name; cm_write := write |}, t)].

(* ================================================================== *)
(* MountFS                                                             *)
(* ================================================================== *)
(* self.default_fs (a MemoryFS) and self.mounts: (mount key, member) in mount order *)
Record tstate := { t_default : node; t_mounts : list (str * node) }.

Fixpoint number_from {A} (l : list (str * A)) (i : nat) : mounts :=
  match l with
  | [] => []
  | (k, _) :: r => (k, i) :: number_from r (Datatypes.S i)
  end.
Definition mounts_of (st : tstate) : mounts := number_from (t_mounts st) 0.

Definition on_default {A} (m : MM A) : M tstate A :=
  fun st => let '(t', o) := m (t_default st) in
            ({| t_default := t'; t_mounts := t_mounts st |}, o).

Definition on_mount {A} (i : nat) (m : MM A) : M tstate A :=
  fun st => let '(ms', o) := on_nth i m (t_mounts st) in
            ({| t_default := t_default st; t_mounts := ms' |}, o).

(* MountFS._delegate + the call on the filesystem it names: a mounted filesystem gets the path
   relative to its mount point, the default filesystem the path as given *)
Definition route {A} (p : str) (f : str -> MM A) : M tstate A :=
  fun st =>
    match mount_delegate (mounts_of st) p with
    | Ok (Some (i, rel)) => on_mount i (f rel) st
    | Ok None => on_default (f p) st
    | Err e => (st, Err e)
    | Crash k => (st, Crash k)
    end.

(* MountFS.getinfo (/repo c991532): the info of a MOUNT POINT (the delegated path is the root of a mounted
   filesystem, not of the default one) is named as the directory that lists it,
   basename(abspath(normpath(path))), unless that is empty (a filesystem mounted on "/") *)
Definition rename_info (i : info) (n : str) : info :=
  {| i_name := n; i_isdir := i_isdir i; i_size := i_size i; i_mt := i_mt i |}.

Definition mount_point_name (p rel : str) (i : info) : info :=
  if is_empty rel || str_eqb rel s_slash then
    match normpath p with
    | Ok n => let nm := basename (abspath n) in if is_empty nm then i else rename_info i nm
    | _ => i
    end
  else i.

Definition mount_getinfo (p : str) : M tstate info :=
  fun st =>
    match mount_delegate (mounts_of st) p with
    | Ok (Some (i, rel)) => on_mount i (x <- mem_getinfo rel ;; ret (mount_point_name p rel x)) st
    | Ok None => on_default (mem_getinfo p) st
    | Err e => (st, Err e)
    | Crash k => (st, Crash k)
    end.

Definition mount_validatepath (p : str) : M tstate str :=
  _ <- route p mem_validatepath ;; n <- lift (normpath p) ;; ret (abspath n).

Definition mount_removedir (p : str) : M tstate unit :=
  n <- lift (normpath p) ;;
  if is_empty n || str_eqb n s_slash then raise RemoveRootError
  else route n mem_removedir.

(* openbin: validate_openbin_mode(mode) before anything else *)
Definition mount_openwrite (p mode : str) (d : option bytes) : M tstate unit :=
  if negb (mode_valid_bin mode) then crash ValueError
  else route p (fun q => mem_openwrite q mode d).

(* MountFS.scandir (/repo 75d0617): delegated like every call; when the DEFAULT filesystem answers and something is
   mounted, every directory entry whose path forcedir(<dir key> + name) is a mount key is replaced by
   self.getinfo(<dir key> + name) - the mounted root's info under the mount point's name (_scan_mount_points) *)
Definition is_mount_key (st : tstate) (k : str) : bool :=
  existsb (fun m => str_eqb (fst m) k) (t_mounts st).

Fixpoint scan_mount_points (getinfo : str -> M tstate info) (d : str) (l : list info) : M tstate (list info) :=
  match l with
  | [] => ret []
  | i :: r =>
    x <- (fun st => if i_isdir i && is_mount_key st (forcedir (d ++ i_name i))
                    then getinfo (d ++ i_name i) st else (st, Ok i)) ;;
    xs <- scan_mount_points getinfo d r ;;
    ret (x :: xs)
  end.

Definition mount_scandir (p : str) : M tstate (list info) :=
  fun st =>
    match mount_delegate (mounts_of st) p with
    | Ok (Some (i, rel)) => on_mount i (mem_scandir rel) st
    | Ok None =>
      match t_mounts st with
      | [] => on_default (mem_scandir p) st
      | _ => (d <- lift (mount_key p) ;;
              infos <- on_default (mem_scandir p) ;;
              scan_mount_points mount_getinfo d infos) st
      end
    | Err e => (st, Err e)
    | Crash k => (st, Crash k)
    end.
Definition mount_remove (p : str) : M tstate unit := route p mem_remove.

Definition mount_fuel (st : tstate) : nat := tree_size (t_default st) + trees_size (t_mounts st).

Definition mount_removetree : str -> M tstate unit :=
  b_removetree mount_validatepath mount_scandir mount_remove mount_removedir mount_fuel.

Definition mount_low : low tstate :=
  {| l_validatepath := mount_validatepath;
     l_getinfo := mount_getinfo;
     l_listdir := fun p => route p mem_listdir;
     l_scandir := mount_scandir;
     l_makedir := fun p r => route p (fun q => mem_makedir q r);
     l_openread := fun p => route p mem_openread;
     l_openwrite := mount_openwrite;
     l_remove := mount_remove;
     l_removedir := mount_removedir;
     l_removetree := mount_removetree;
     l_setinfo := fun p mt => route p (fun q => mem_setinfo q mt);
     l_fuel := mount_fuel |}.

Definition mount_makedirs := b_makedirs mount_low.
Definition mount_copy := b_copy mount_low.

Definition mount_run (o : op) : M tstate value :=
  match o with
  | OGetinfo p => vmap VInfo (mount_getinfo p)
  | OListdir p => vmap VNames (route p mem_listdir)
  | OScandir p => vmap VInfos (mount_scandir p)
  | OMakedir p r => vmap (fun _ => VUnit) (route p (fun q => mem_makedir q r))
  | OMakedirs p r => vmap (fun _ => VUnit) (mount_makedirs p r)
  | OWritebytes p d => vmap (fun _ => VUnit) (route p (fun q => mem_writebytes q d))
  | OAppendbytes p d => vmap (fun _ => VUnit) (b_appendbytes mount_low p d)
  | OReadbytes p => vmap VBytes (route p mem_readbytes)
  | OCreate p w => vmap VBool (b_create mount_low p w)
  | OTouch p => vmap (fun _ => VUnit) (b_touch mount_low p)
  | OOpenwrite p m d =>
    vmap (fun _ => VUnit) (mount_openwrite p m (if m_writing m then Some d else None))
  | OOpenread p m =>
    if negb (mode_valid_bin m) then crash ValueError
    else route p (fun q => mem_run (OOpenread q m))
  | ORemove p => vmap (fun _ => VUnit) (mount_remove p)
  | ORemovedir p => vmap (fun _ => VUnit) (mount_removedir p)
  | ORemovetree p => vmap (fun _ => VUnit) (mount_removetree p)
  | OMove s d o' t => vmap (fun _ => VUnit) (b_move mount_low s d o' t)
  | OCopy s d o' t => vmap (fun _ => VUnit) (mount_copy s d o' t)
  | OMovedir s d c t => vmap (fun _ => VUnit) (b_movedir2 mount_low mount_makedirs mount_copy s d c t)
  | OCopydir s d c t => vmap (fun _ => VUnit) (b_copydir2 mount_low mount_makedirs mount_copy s d c t)
  | OSetinfo p mt => vmap (fun _ => VUnit) (route p (fun q => mem_setinfo q mt))
  | OExists p => vmap VBool (b_exists mount_low p)
  | OIsdir p => vmap VBool (route p mem_isdir)
  | OIsfile p => vmap VBool (route p mem_isfile)
  | OIsempty p => vmap VBool (b_isempty mount_low p)
  | OGetsize p => vmap VNat (route p mem_getsize)
  | OGettype p => vmap VNat (route p mem_gettype)
  end.

(* MountFS.mount(path, fs): MountError (a foreign exception) inside an existing mount; the
   mount is registered BEFORE default_fs.makedirs(key, recreate=True), whose failure (a file in
   the way) therefore leaves a mount whose point is no directory of the default tree *)
Definition mount_mount (path : str) (t : node) : M tstate unit :=
  fun st =>
    match mount_key path with
    | Ok k =>
      if mount_overlaps (mounts_of st) k then (st, Crash OtherException)
      else
        let st1 := {| t_default := t_default st; t_mounts := t_mounts st ++ [(k, t)] |} in
        on_default (mem_makedirs k true) st1
    | Err e => (st, Err e)
    | Crash c => (st, Crash c)
    end.

Definition mount_empty : tstate := {| t_default := empty_dir; t_mounts := [] |}.
