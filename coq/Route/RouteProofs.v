(* MountFS routes by whole components; MultiFS orders by (priority, insertion index). *)
From Coq Require Import List NArith ZArith Bool Arith Lia Sorting Permutation.
From PyFS Require Import Base.PyStr Base.Outcome Path.PathModel Path.PathSpec Path.PathProofs Route.Route.
Import ListNotations.

(* ------------------------------------------------------------------ *)
(* MountFS                                                             *)
(* ------------------------------------------------------------------ *)

Lemma key_of_cat cs : Forall good cs -> key_of cs = slash :: cat cs.
Proof. intro Hg. unfold key_of. apply forcedir_abs. exact Hg. Qed.

(* the string prefix test on forcedir'ed keys is the component-prefix test *)
Theorem key_prefix_components : forall mc cs, Forall good mc -> Forall good cs ->
  starts_with (key_of mc) (key_of cs) = cprefix mc cs.
Proof.
  intros mc cs H1 H2. rewrite !key_of_cat by assumption.
  cbn [starts_with]. rewrite ceqb_refl. cbn [andb].
  apply starts_with_cat; apply Forall_good_noslash; assumption.
Qed.

(* the key computed for any spelling of a path *)
Theorem mount_key_spec : forall p cs, resolve (comps p) = Some cs -> mount_key p = Ok (key_of cs).
Proof.
  intros p cs H. unfold mount_key. rewrite normpath_spec. unfold spec_normpath. rewrite H.
  rewrite abspath_nf_gen by (apply (resolve_comps_good p); exact H). reflexivity.
Qed.

Theorem mount_key_climbs : forall p, resolve (comps p) = None -> mount_key p = Err IllegalBackReference.
Proof.
  intros p H. unfold mount_key. rewrite normpath_spec. unfold spec_normpath. rewrite H. reflexivity.
Qed.

Lemma rstrip_cat rest : Forall good rest -> rstrip_c slash (cat rest) = to_path false rest.
Proof.
  intro Hg. destruct rest as [|c r]; [reflexivity|].
  rewrite <- join_cat by discriminate. rewrite rstrip_c_app_slash.
  rewrite rstrip_join_good by exact Hg. reflexivity.
Qed.

(* the remainder of the key after a mount point, made relative *)
Lemma key_remainder mc cs : Forall good mc -> Forall good cs -> cprefix mc cs = true ->
  rstrip_c slash (skipn (length (key_of mc)) (key_of cs)) = to_path false (skipn (length mc) cs).
Proof.
  intros Hm Hc Hp. apply cprefix_app in Hp as [rest ->].
  apply Forall_app in Hc as [_ Hr].
  rewrite skipn_len_app.
  rewrite !key_of_cat by (try apply Forall_app; auto).
  rewrite cat_app. cbn [length skipn]. rewrite skipn_len_app.
  apply rstrip_cat. exact Hr.
Qed.

Definition keyed (ms : list (list str * nat)) : mounts :=
  map (fun m => (key_of (fst m), snd m)) ms.

Lemma delegate_scan_spec (ms : list (list str * nat)) cs :
  Forall (fun m => Forall good (fst m)) ms -> Forall good cs ->
  delegate_scan (keyed ms) (key_of cs)
  = match route_spec ms cs with
    | Some (i, rest) => Some (i, to_path false rest)
    | None => None
    end.
Proof.
  intros Hms Hc. induction ms as [|[mc i] r IH]; [reflexivity|].
  inversion Hms as [|? ? Hm Hr]; subst. cbn [fst] in Hm.
  cbn [keyed map fst snd delegate_scan route_spec].
  rewrite key_prefix_components by assumption.
  destruct (cprefix mc cs) eqn:E.
  - rewrite key_remainder by assumption. reflexivity.
  - apply IH. exact Hr.
Qed.

(* _delegate = first mount whose point is a whole-component prefix; remainder made relative *)
Theorem mount_route : forall (ms : list (list str * nat)) p cs,
  Forall (fun m => Forall good (fst m)) ms -> resolve (comps p) = Some cs ->
  mount_delegate (map (fun m => (key_of (fst m), snd m)) ms) p
  = Ok (match route_spec ms cs with
        | Some (i, rest) => Some (i, to_path false rest)
        | None => None
        end).
Proof.
  intros ms p cs Hms H. unfold mount_delegate. rewrite (mount_key_spec p cs H).
  f_equal. apply (delegate_scan_spec ms cs Hms). apply (resolve_comps_good p). exact H.
Qed.

Lemma app_self_nil {A} (a b : list A) : a = a ++ b -> b = [].
Proof.
  intro H. rewrite <- (app_nil_r a) in H at 1. apply app_inv_head in H. congruence.
Qed.

(* '/ab' is never routed to a filesystem mounted at '/a' *)
Theorem mount_no_string_prefix : forall a b i,
  good a -> good (a ++ b) -> b <> [] ->
  route_spec [([a], i)] [a ++ b] = None.
Proof.
  intros a b i _ _ Hb. cbn [route_spec cprefix].
  assert (E : str_eqb a (a ++ b) = false).
  { apply str_eqb_neq. intro H. apply Hb. apply (app_self_nil a b H). }
  rewrite E. reflexivity.
Qed.

Lemma mount_overlaps_spec (ms : list (list str * nat)) cs :
  Forall (fun m => Forall good (fst m)) ms -> Forall good cs ->
  mount_overlaps (keyed ms) (key_of cs) = existsb (fun m => cprefix (fst m) cs) ms.
Proof.
  intros Hms Hc. unfold mount_overlaps. induction ms as [|[mc i] r IH]; [reflexivity|].
  inversion Hms as [|? ? Hm Hr]; subst. cbn [fst] in Hm.
  cbn [keyed map existsb fst snd].
  rewrite key_prefix_components by assumption. f_equal. apply IH. exact Hr.
Qed.

(* a mount point inside an existing mount is refused, anything else accepted *)
Theorem mount_refuses_inside : forall (ms : list (list str * nat)) p cs i,
  Forall (fun m => Forall good (fst m)) ms -> resolve (comps p) = Some cs ->
  mount_add (map (fun m => (key_of (fst m), snd m)) ms) p i
  = Ok (if existsb (fun m => cprefix (fst m) cs) ms then None
        else Some (map (fun m => (key_of (fst m), snd m)) ms ++ [(key_of cs, i)])).
Proof.
  intros ms p cs i Hms H. unfold mount_add. rewrite (mount_key_spec p cs H).
  pose proof (mount_overlaps_spec ms cs Hms (resolve_comps_good p cs H)) as E.
  unfold keyed in E. rewrite E. reflexivity.
Qed.

(* ------------------------------------------------------------------ *)
(* MultiFS                                                             *)
(* ------------------------------------------------------------------ *)

Lemma key_gt_iff a b : key_gt a b = true <->
  (m_prio b < m_prio a)%Z \/ (m_prio a = m_prio b /\ m_index b < m_index a).
Proof.
  unfold key_gt. rewrite orb_true_iff, andb_true_iff, Z.ltb_lt, Z.eqb_eq, Nat.ltb_lt. tauto.
Qed.

Lemma key_gt_trans a b c : key_gt a b = true -> key_gt b c = true -> key_gt a c = true.
Proof. rewrite !key_gt_iff. lia. Qed.

Lemma key_gt_total a b : m_index a <> m_index b -> key_gt a b = false -> key_gt b a = true.
Proof.
  intros Hi H. destruct (key_gt b a) eqn:E; [reflexivity|]. exfalso.
  assert (Ha : ~ ((m_prio b < m_prio a)%Z \/ (m_prio a = m_prio b /\ m_index b < m_index a))).
  { intro X. apply key_gt_iff in X. congruence. }
  assert (Hb : ~ ((m_prio a < m_prio b)%Z \/ (m_prio b = m_prio a /\ m_index a < m_index b))).
  { intro X. apply key_gt_iff in X. congruence. }
  lia.
Qed.

Lemma key_gt_irrefl a : key_gt a a = false.
Proof.
  destruct (key_gt a a) eqn:E; [|reflexivity]. apply key_gt_iff in E. lia.
Qed.

Lemma insert_desc_perm x l : Permutation (insert_desc x l) (x :: l).
Proof.
  induction l as [|y r IH]; [apply Permutation_refl|].
  cbn [insert_desc]. destruct (key_gt x y).
  - apply Permutation_refl.
  - eapply perm_trans; [apply perm_skip; exact IH|apply perm_swap].
Qed.

(* MultiFS: iterate_fs is the members sorted by (priority, index) descending *)
Theorem iterate_fs_perm : forall l, Permutation (iterate_fs l) l.
Proof.
  induction l as [|x l IH]; [apply perm_nil|].
  change (iterate_fs (x :: l)) with (insert_desc x (iterate_fs l)).
  eapply perm_trans; [apply insert_desc_perm|]. apply perm_skip. exact IH.
Qed.

Definition kgt (a b : member) : Prop := key_gt a b = true.

Lemma insert_desc_sorted x l :
  (forall y, In y l -> m_index y <> m_index x) ->
  StronglySorted kgt l -> StronglySorted kgt (insert_desc x l).
Proof.
  intros Hd Hs. induction Hs as [|y r Hs IH Hall].
  - cbn. constructor; constructor.
  - cbn [insert_desc]. destruct (key_gt x y) eqn:E.
    + constructor; [constructor; assumption|].
      constructor; [exact E|].
      eapply Forall_impl; [|exact Hall]. intros z Hz. unfold kgt in *.
      eapply key_gt_trans; eassumption.
    + constructor.
      * apply IH. intros z Hz. apply Hd. right. exact Hz.
      * assert (Hyx : kgt y x).
        { unfold kgt. apply key_gt_total; [|exact E].
          intro X. apply (Hd y (or_introl eq_refl)). symmetry. exact X. }
        eapply Permutation_Forall; [apply Permutation_sym; apply insert_desc_perm|].
        constructor; assumption.
Qed.

Theorem iterate_fs_sorted : forall l,
  NoDup (map m_index l) -> StronglySorted (fun a b => key_gt a b = true) (iterate_fs l).
Proof.
  intros l. change (fun a b => key_gt a b = true) with kgt.
  induction l as [|x l IH]; intro Hnd; [constructor|].
  change (iterate_fs (x :: l)) with (insert_desc x (iterate_fs l)).
  cbn [map] in Hnd. apply NoDup_cons_iff in Hnd as [Hx Hnd].
  apply insert_desc_sorted; [|apply IH; exact Hnd].
  intros y Hy E. apply Hx. rewrite <- E. apply in_map.
  eapply Permutation_in; [apply iterate_fs_perm|exact Hy].
Qed.

(* the highest priority wins; among equal priorities the latest added *)
Theorem iterate_fs_head : forall l m rest,
  NoDup (map m_index l) -> iterate_fs l = m :: rest ->
  forall x, In x l -> x = m \/ (m_prio x < m_prio m)%Z \/ (m_prio x = m_prio m /\ m_index x < m_index m).
Proof.
  intros l m rest Hnd E x Hx.
  pose proof (iterate_fs_sorted l Hnd) as Hs. rewrite E in Hs.
  assert (Hin : In x (m :: rest)).
  { rewrite <- E. eapply Permutation_in; [apply Permutation_sym; apply iterate_fs_perm|exact Hx]. }
  destruct Hin as [->|Hin]; [left; reflexivity|right].
  apply StronglySorted_inv in Hs as [_ Hall].
  rewrite Forall_forall in Hall. specialize (Hall x Hin). cbv beta in Hall.
  apply key_gt_iff in Hall. destruct Hall as [H|[H1 H2]]; [left; exact H|right; split; [symmetry|]; assumption].
Qed.

Lemma find_split {A} (f : A -> bool) l m : find f l = Some m ->
  exists pre post, l = pre ++ m :: post /\ f m = true /\ Forall (fun x => f x = false) pre.
Proof.
  induction l as [|y r IH]; [discriminate|]. cbn [find]. destruct (f y) eqn:E.
  - intro H. inversion H; subst. exists [], r. repeat split; [exact E|constructor].
  - intro H. destruct (IH H) as [pre [post [E1 [E2 E3]]]].
    exists (y :: pre), post. subst r. repeat split; [exact E2|constructor; assumption].
Qed.

(* reads are answered by the first member, in that order, that has the path *)
Theorem multi_delegate_first : forall l has i,
  multi_delegate l has = Some i ->
  exists pre m post, iterate_fs l = pre ++ m :: post /\ m_id m = i /\ has i = true
                     /\ Forall (fun x => has (m_id x) = false) pre.
Proof.
  intros l has i. unfold multi_delegate.
  destruct (find (fun m => has (m_id m)) (iterate_fs l)) as [m|] eqn:E; [|discriminate].
  intro H. inversion H; subst.
  destruct (find_split _ _ _ E) as [pre [post [E1 [E2 E3]]]].
  exists pre, m, post. repeat split; assumption.
Qed.

Lemma find_none_iff {A} (f : A -> bool) l : find f l = None <-> Forall (fun x => f x = false) l.
Proof.
  induction l as [|y r IH]; cbn [find].
  - split; [constructor|reflexivity].
  - destruct (f y) eqn:E.
    + split; [discriminate|]. intro H. inversion H; congruence.
    + rewrite IH. split; [constructor; assumption|]. intro H. inversion H; assumption.
Qed.

Theorem multi_delegate_none : forall l has,
  multi_delegate l has = None <-> Forall (fun x => has (m_id x) = false) l.
Proof.
  intros l has. unfold multi_delegate.
  pose proof (find_none_iff (fun m => has (m_id m)) (iterate_fs l)) as F.
  destruct (find (fun m => has (m_id m)) (iterate_fs l)) as [m|].
  - split; [discriminate|]. intro H.
    assert (X : Some m = None); [|discriminate]. apply F.
    eapply Permutation_Forall; [apply Permutation_sym; apply iterate_fs_perm|exact H].
  - split; [|reflexivity]. intros _.
    eapply Permutation_Forall; [apply iterate_fs_perm|]. apply F. reflexivity.
Qed.

Lemma existsb_str_in n seen : existsb (str_eqb n) seen = true <-> In n seen.
Proof.
  rewrite existsb_exists. split.
  - intros [x [Hx E]]. apply str_eqb_eq in E. subst. exact Hx.
  - intro H. exists n. split; [exact H|apply str_eqb_refl].
Qed.

Lemma NoDup_snoc {A} (l : list A) x : NoDup l -> ~ In x l -> NoDup (l ++ [x]).
Proof.
  intros Hnd Hx. induction Hnd as [|y r Hy Hnd IH]; [constructor; [intros []|constructor]|].
  cbn [app]. constructor.
  - rewrite in_app_iff. intros [H|[H|[]]]; [contradiction|]. apply Hx. left. symmetry. exact H.
  - apply IH. intro H. apply Hx. right. exact H.
Qed.

(* listings are de-duplicated unions *)
Theorem dedup_add_nodup : forall seen names, NoDup seen -> NoDup (dedup_add seen names).
Proof.
  intros seen names. revert seen. induction names as [|n r IH]; intros seen Hnd; [exact Hnd|].
  cbn [dedup_add]. destruct (existsb (str_eqb n) seen) eqn:E.
  - apply IH. exact Hnd.
  - apply IH. apply NoDup_snoc; [exact Hnd|].
    intro Hx. apply existsb_str_in in Hx. congruence.
Qed.

Theorem dedup_add_in : forall seen names n, In n (dedup_add seen names) <-> In n seen \/ In n names.
Proof.
  intros seen names. revert seen. induction names as [|m r IH]; intros seen n.
  - cbn. tauto.
  - cbn [dedup_add]. destruct (existsb (str_eqb m) seen) eqn:E.
    + rewrite IH. apply existsb_str_in in E. cbn [In]. split; [tauto|].
      intros [H|[<-|H]]; tauto.
    + rewrite IH, in_app_iff. cbn [In]. tauto.
Qed.
