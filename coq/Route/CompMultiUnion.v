(* MultiFS (Route/Composite.v): THE READ RULE AGAINST THE UNION TREE, for any number of members. *)
From Coq Require Import List NArith ZArith Bool Arith Lia Permutation Sorting.
From PyFS Require Import Base.PyStr Base.Outcome Path.PathModel Path.PathSpec FS.Tree FS.Monad FS.Mode FS.Base FS.Mem FS.Ops FS.Ref
     FS.Agree FS.Wf FS.TreeLemmas FS.RefineLemmas Route.Route Route.RouteProofs Route.Composite Route.CompositeLemmas Route.CompositeEx.
From PyFS Require Import Path.PathProofs FS.RefineProofs FS.PropsProofs Route.CompMultiRead.
Import ListNotations.

(* ------------------------------------------------------------------ *)
(* compat and union2                                                   *)
(* ------------------------------------------------------------------ *)
Lemma compat_union2_r : forall a b c,
  compat a b = true -> compat a c = true -> compat b c = true -> compat a (union2 b c) = true.
Proof.
  induction a as [d m|ea ma IH] using node_ind'; intros b c Cab Cac Cbc.
  - destruct b as [db mb|eb mb]; [|discriminate Cab]. reflexivity.
  - destruct b as [db mb|eb mb]; [discriminate Cab|]. destruct c as [dc mc|ec mc]; [discriminate Cac|].
    rewrite union2_dir. rewrite compat_dir in Cab, Cac, Cbc |- *.
    revert Cab Cac. induction IH as [|[k n] r Hn Hr IHr]; intros Cab Cac; [reflexivity|].
    rewrite cgo_cons in Cab, Cac |- *.
    apply andb_true_iff in Cab as [Cab1 Cab2]. apply andb_true_iff in Cac as [Cac1 Cac2].
    apply andb_true_iff. split; [|apply IHr; assumption].
    rewrite assoc_app, assoc_ugo. cbn [snd] in Hn.
    destruct (assoc k eb) as [nb|] eqn:Ab.
    + destruct (assoc k ec) as [nc|] eqn:Ac.
      * apply Hn; try assumption. exact (cgo_assoc _ _ _ _ _ Cbc Ab Ac).
      * exact Cab1.
    + rewrite (assoc_filter_only_lo _ _ _ Ab). destruct (assoc k ec); [exact Cac1|reflexivity].
Qed.

Lemma union_list_cons2 t t' r : union_list (t :: t' :: r) = union2 t (union_list (t' :: r)).
Proof. reflexivity. Qed.

Lemma compat_union_list : forall r t, r <> [] ->
  forallb (compat t) r = true -> pairwise compat r = true -> compat t (union_list r) = true.
Proof.
  induction r as [|b r' IH]; intros t N F P; [congruence|].
  cbn [forallb] in F. cbn [pairwise] in P.
  apply andb_true_iff in F as [F1 F2]. apply andb_true_iff in P as [P1 P2].
  destruct r' as [|b' r'']; [exact F1|].
  rewrite union_list_cons2.
  apply compat_union2_r; [exact F1| |]; apply IH; try discriminate; assumption.
Qed.

(* compat descends along a path *)
Lemma compat_lookup : forall cs a b h l, compat a b = true ->
  lookup a cs = Some h -> lookup b cs = Some l -> compat h l = true.
Proof.
  induction cs as [|c rest IH]; intros a b h l C La Lb.
  - cbn [lookup] in La, Lb. inversion La; inversion Lb; subst. exact C.
  - destruct a as [d1 m1|e1 m1]; [discriminate La|]. destruct b as [d2 m2|e2 m2]; [discriminate Lb|].
    cbn [lookup] in La, Lb. rewrite compat_dir in C.
    destruct (assoc c e1) as [n1|] eqn:A1; [|discriminate La].
    destruct (assoc c e2) as [n2|] eqn:A2; [|discriminate Lb].
    eapply IH; [|exact La|exact Lb]. eapply cgo_assoc; eassumption.
Qed.

(* ------------------------------------------------------------------ *)
(* E1                                                                  *)
(* ------------------------------------------------------------------ *)
(* the given statement fails for the empty list and the root path: the union of no trees is the empty
   directory, which has the root, while no tree "has" it *)
Example lookup_union_list_first_ce :
  pairwise compat (@nil node) = true
  /\ find (fun t => match lookup t (@nil str) with Some _ => true | None => false end) (@nil node) = None
  /\ lookup (union_list []) [] = Some empty_dir.
Proof. vm_compute. repeat split; reflexivity. Qed.

(* STATEMENT CHANGED: for ts = [] and cs = [] no tree has the root path but the union of no trees (the empty
   directory) does (lookup_union_list_first_ce); extra hypothesis ts <> [] \/ cs <> [] *)
Theorem lookup_union_list_first : forall ts cs, pairwise compat ts = true -> Forall (fun t => is_dir t = true) ts ->
  ts <> [] \/ cs <> [] ->
  match find (fun t => match lookup t cs with Some _ => true | None => false end) ts with
  | None => lookup (union_list ts) cs = None
  | Some t => match lookup t cs with
              | Some (File d m) => lookup (union_list ts) cs = Some (File d m)
              | Some (Dir _ m) => exists ents, lookup (union_list ts) cs = Some (Dir ents m)
              | None => False
              end
  end.
Proof.
  induction ts as [|t r IH]; intros cs P F N.
  - destruct N as [N|N]; [congruence|]. destruct cs as [|c cs']; [congruence|]. reflexivity.
  - cbn [pairwise] in P. apply andb_true_iff in P as [P1 P2].
    assert (F' : Forall (fun t => is_dir t = true) r) by (inversion F; assumption).
    destruct r as [|t' r'].
    + cbn [find union_list]. destruct (lookup t cs) as [[d m|e m]|] eqn:L; rewrite ?L; try reflexivity.
      exists e. reflexivity.
    + assert (Nr : t' :: r' <> [] \/ cs <> []) by (left; discriminate).
      specialize (IH cs P2 F' Nr).
      rewrite union_list_cons2.
      rewrite (lookup_union2_nowf cs t (union_list (t' :: r')))
        by (apply compat_union_list; [discriminate|exact P1|exact P2]).
      remember (t' :: r') as rr eqn:Err. cbn [find].
      destruct (lookup t cs) as [h|] eqn:L.
      * rewrite L. destruct h as [d m|e m].
        -- destruct (lookup (union_list rr) cs); reflexivity.
        -- destruct (lookup (union_list rr) cs) as [[d2 m2|e2 m2]|]; eexists; reflexivity.
      * exact IH.
Qed.
Print Assumptions lookup_union_list_first.

(* what point queries see *)
Lemma view_union_list ts cs : ts <> [] -> pairwise compat ts = true ->
  Forall (fun t => is_dir t = true) ts ->
  option_map view (lookup (union_list ts) cs) =
  match find (fun t => match lookup t cs with Some _ => true | None => false end) ts with
  | Some t => option_map view (lookup t cs)
  | None => None
  end.
Proof.
  intros N P F. pose proof (lookup_union_list_first ts cs P F (or_introl N)) as H.
  destruct (find (fun t => match lookup t cs with Some _ => true | None => false end) ts) as [t|].
  - destruct (lookup t cs) as [[d m|e m]|].
    + rewrite H. reflexivity.
    + destruct H as [ents H]. rewrite H. reflexivity.
    + contradiction.
  - rewrite H. reflexivity.
Qed.

Lemma find_ext_in {A} (f g : A -> bool) l : (forall x, In x l -> f x = g x) -> find f l = find g l.
Proof.
  induction l as [|x r IH]; intro H; [reflexivity|]. cbn [find].
  rewrite (H x (or_introl eq_refl)). destruct (g x); [reflexivity|]. apply IH. intros y I. apply H. right. exact I.
Qed.

Lemma has_tree_at (st : mstate) i cs : i < length st ->
  has st i cs = match lookup (tree_at st i) cs with Some _ => true | None => false end.
Proof.
  intro L. destruct (nth_some_of_lt st i L) as (c & t & E & T). unfold has. rewrite E, T. reflexivity.
Qed.

Lemma holder_find_trees st cs : mwf st = true ->
  find (fun t => match lookup t cs with Some _ => true | None => false end) (map (tree_at st) (order st))
  = match holder st cs with Some i => Some (tree_at st i) | None => None end.
Proof.
  intro W. rewrite find_map. unfold holder.
  rewrite (find_ext_in (fun i => has st i cs)
                       (fun x => match lookup (tree_at st x) cs with Some _ => true | None => false end)).
  - reflexivity.
  - intros x I. apply has_tree_at. apply order_valid; assumption.
Qed.

Lemma order_map_nonempty st : mwf st = true -> st <> [] -> map (tree_at st) (order st) <> [].
Proof.
  intros W N. destruct (order_nonempty st W N) as (i & r & E & _). rewrite E. discriminate.
Qed.

Lemma holder_root st : mwf st = true -> st <> [] -> holder st [] <> None.
Proof.
  intros W N. destruct (order_nonempty st W N) as (i & r & E & L). unfold holder. rewrite E. cbn [find].
  rewrite (has_tree_at st i [] L). cbn [lookup]. discriminate.
Qed.

(* ------------------------------------------------------------------ *)
(* E2                                                                  *)
(* ------------------------------------------------------------------ *)
Theorem multi_read_is_union_all : forall o p cs st, mwf st = true -> st <> [] ->
  pairwise compat (map (tree_at st) (order st)) = true -> Forall (fun t => is_dir t = true) (map (tree_at st) (order st)) ->
  query_path o = Some p -> rpath p = inl cs ->
  multi_run o st = (st, snd (mem_run o (union st))).
Proof.
  intros o p0 cs st W N P F Q R.
  rewrite (multi_read_rule _ _ _ _ W Q R). f_equal.
  rewrite (run_ans o p0 cs (union st) Q R). unfold union.
  rewrite (view_union_list _ cs (order_map_nonempty st W N) P F).
  rewrite (holder_find_trees st cs W).
  destruct (holder st cs) as [i|] eqn:H.
  - apply (run_ans o p0 cs _ Q R).
  - symmetry. apply (ans_none o p0 cs Q). intro E. subst cs. exact (holder_root st W N H).
Qed.
Print Assumptions multi_read_is_union_all.

(* ------------------------------------------------------------------ *)
(* E3                                                                  *)
(* ------------------------------------------------------------------ *)
Lemma query_covered o p : query_path o = Some p -> covered o = true.
Proof. destruct o; intro Q; try discriminate Q; reflexivity. Qed.

Theorem multi_read_refines_union : forall o p cs st, mwf st = true -> st <> [] ->
  pairwise compat (map (tree_at st) (order st)) = true -> Forall (fun t => is_dir t = true) (map (tree_at st) (order st)) ->
  query_path o = Some p -> rpath p = inl cs -> wf (union st) ->
  res_agree (snd (multi_run o st)) (rs_res (ref_run o (union st))) = true.
Proof.
  intros o p0 cs st W N P F Q R Wu.
  rewrite (multi_read_is_union_all o p0 cs st W N P F Q R). cbn [snd].
  pose proof (mem_refines_ref o (union st) Wu (query_covered o p0 Q)) as A.
  unfold agree in A. apply andb_true_iff in A as [A _]. exact A.
Qed.
Print Assumptions multi_read_refines_union.

(* ------------------------------------------------------------------ *)
(* E4: listings                                                        *)
(* ------------------------------------------------------------------ *)
Definition inb (s : list str) (n : str) : bool := existsb (str_eqb n) s.

(* what dedup_add appends to [seen] *)
Fixpoint dd (seen : list str) (l : list str) : list str :=
  match l with
  | [] => []
  | n :: r => if inb seen n then dd seen r else n :: dd (seen ++ [n]) r
  end.

Lemma dedup_add_dd l : forall seen, dedup_add seen l = seen ++ dd seen l.
Proof.
  induction l as [|n r IH]; intro seen; cbn [dedup_add dd]; [rewrite app_nil_r; reflexivity|].
  unfold inb. destruct (existsb (str_eqb n) seen); [apply IH|]. rewrite IH, <- app_assoc. reflexivity.
Qed.

Lemma inb_app s s' n : inb (s ++ s') n = inb s n || inb s' n.
Proof. apply existsb_app. Qed.

Lemma dd_ext l : forall s1 s2, (forall n, inb s1 n = inb s2 n) -> dd s1 l = dd s2 l.
Proof.
  induction l as [|n r IH]; intros s1 s2 H; [reflexivity|]. cbn [dd]. rewrite (H n).
  destruct (inb s2 n); [apply IH; exact H|]. f_equal. apply IH. intro x. rewrite !inb_app, H. reflexivity.
Qed.

Lemma dd_filter l : forall s s', dd (s ++ s') l = filter (fun n => negb (inb s n)) (dd s' l).
Proof.
  induction l as [|n r IH]; intros s s'; [reflexivity|]. cbn [dd]. rewrite inb_app.
  destruct (inb s n) eqn:A; cbn [orb].
  - destruct (inb s' n) eqn:B; [apply IH|].
    cbn [filter]. rewrite A. cbn [negb]. rewrite <- IH. apply dd_ext. intro x. rewrite !inb_app.
    change (inb [n] x) with (str_eqb x n || false). destruct (str_eqb x n) eqn:E.
    + apply str_eqb_eq in E. subst x. rewrite A. reflexivity.
    + rewrite !orb_false_r. reflexivity.
  - destruct (inb s' n) eqn:B; [apply IH|].
    cbn [filter]. rewrite A. cbn [negb]. f_equal. rewrite <- app_assoc. apply IH.
Qed.

Lemma dd_prefix k1 : forall s X, NoDup (s ++ k1) -> dd s (k1 ++ X) = k1 ++ dd (s ++ k1) X.
Proof.
  induction k1 as [|a k IH]; intros s X H; [cbn [app]; rewrite app_nil_r; reflexivity|].
  cbn [app dd].
  assert (Ha : inb s a = false).
  { destruct (inb s a) eqn:E; [|reflexivity]. exfalso. unfold inb in E.
    apply existsb_exists in E as [y [Iy Ey]]. apply str_eqb_eq in Ey. subst y.
    apply NoDup_remove_2 in H. apply H. apply in_or_app. left. exact Iy. }
  rewrite Ha. f_equal. rewrite IH; rewrite <- app_assoc; [reflexivity|exact H].
Qed.

Lemma keys_ugo e2 e1 : map fst (ugo e2 e1) = map fst e1.
Proof.
  induction e1 as [|[k n] r IH]; [reflexivity|]. rewrite ugo_cons. cbn [map fst]. f_equal. exact IH.
Qed.

Lemma assoc_inb {A} k (e : list (str * A)) :
  inb (map fst e) k = match assoc k e with Some _ => true | None => false end.
Proof.
  induction e as [|[k' v] r IH]; [reflexivity|]. unfold inb in *. cbn [map fst existsb assoc].
  destruct (str_eqb k k'); [reflexivity|]. exact IH.
Qed.

Lemma keys_only_lo e1 e2 :
  map fst (filter (only_lo e1) e2) = filter (fun n => negb (inb (map fst e1) n)) (map fst e2).
Proof.
  induction e2 as [|[k n] r IH]; [reflexivity|]. cbn [filter map fst]. unfold only_lo at 1. cbn [fst].
  rewrite assoc_inb. destruct (assoc k e1); cbn [negb map fst]; [exact IH|]. f_equal. exact IH.
Qed.

(* the names of the directory a tree has at cs *)
Definition kat (cs : list str) (t : node) : list str :=
  match lookup t cs with Some (Dir e _) => map fst e | _ => [] end.

Lemma concat_kat_nil cs rr : (forall t, In t rr -> lookup t cs = None) -> concat (map (kat cs) rr) = [].
Proof.
  induction rr as [|t r IH]; intro H; [reflexivity|]. cbn [map concat]. unfold kat at 1.
  rewrite (H t (or_introl eq_refl)). cbn [app]. apply IH. intros x I. apply H. right. exact I.
Qed.

Lemma union_none_all ts cs : ts <> [] -> pairwise compat ts = true -> Forall (fun t => is_dir t = true) ts ->
  lookup (union_list ts) cs = None -> forall t, In t ts -> lookup t cs = None.
Proof.
  intros N P F L. pose proof (lookup_union_list_first ts cs P F (or_introl N)) as H.
  destruct (find (fun t => match lookup t cs with Some _ => true | None => false end) ts) as [t0|] eqn:Fd.
  - exfalso. destruct (lookup t0 cs) as [[d m|e m]|]; [congruence| |exact H].
    destruct H as [ents H]. congruence.
  - intros t I. pose proof (find_none _ _ Fd t I) as X. cbv beta in X.
    destruct (lookup t cs); [discriminate X|reflexivity].
Qed.

Lemma keys_union_list : forall ts cs, ts <> [] -> pairwise compat ts = true ->
  Forall (fun t => is_dir t = true) ts -> Forall wf_node ts ->
  match lookup (union_list ts) cs with
  | Some (Dir ents _) => map fst ents = dd [] (concat (map (kat cs) ts))
  | _ => True
  end.
Proof.
  induction ts as [|t r IH]; intros cs N P F Wf; [congruence|].
  cbn [pairwise] in P. apply andb_true_iff in P as [P1 P2].
  assert (F' : Forall (fun t => is_dir t = true) r) by (inversion F; assumption).
  assert (Wt : wf_node t) by (inversion Wf; assumption).
  assert (Wr : Forall wf_node r) by (inversion Wf; assumption).
  assert (ND : forall e m, lookup t cs = Some (Dir e m) -> NoDup ([] ++ map fst e)).
  { intros e m L. pose proof (wf_lookup _ _ _ Wt L) as X. cbn in X. exact (proj1 X). }
  destruct r as [|t' r'].
  - cbn [union_list map concat]. unfold kat.
    destruct (lookup t cs) as [[d m|e m]|] eqn:L; try exact I.
    rewrite (dd_prefix (map fst e) [] [] (ND e m eq_refl)). cbn [dd]. rewrite !app_nil_r. reflexivity.
  - assert (Nr : t' :: r' <> []) by discriminate.
    assert (Ct : compat t (union_list (t' :: r')) = true) by (apply compat_union_list; assumption).
    specialize (IH cs Nr P2 F' Wr).
    pose proof (union_none_all (t' :: r') cs Nr P2 F') as UN.
    rewrite union_list_cons2. rewrite (lookup_union2_nowf cs t (union_list (t' :: r')) Ct).
    remember (t' :: r') as rr eqn:Err. cbn [map concat]. unfold kat at 1.
    destruct (lookup t cs) as [h|] eqn:L.
    + destruct (lookup (union_list rr) cs) as [l|] eqn:LU.
      * pose proof (compat_lookup cs _ _ _ _ Ct L LU) as Chl.
        destruct h as [d1 m1|e1 m1]; [exact I|]. destruct l as [d2 m2|e2 m2]; [discriminate Chl|].
        rewrite union2_dir. rewrite map_app, keys_ugo, keys_only_lo.
        rewrite (dd_prefix (map fst e1) [] _ (ND e1 m1 eq_refl)). cbn [app]. f_equal.
        rewrite IH. rewrite <- (dd_filter _ (map fst e1) []). rewrite app_nil_r. reflexivity.
      * destruct h as [d1 m1|e1 m1]; [exact I|].
        rewrite (concat_kat_nil cs rr (UN eq_refl)).
        rewrite (dd_prefix (map fst e1) [] [] (ND e1 m1 eq_refl)). cbn [dd]. rewrite !app_nil_r. reflexivity.
    + cbn [app]. exact IH.
Qed.

Theorem multi_listdir_is_union : forall p cs st, mwf st = true -> st <> [] ->
  pairwise compat (map (tree_at st) (order st)) = true -> Forall (fun t => is_dir t = true) (map (tree_at st) (order st)) ->
  rpath p = inl cs -> Forall wf_node (map (tree_at st) (order st)) ->
  multi_run (OListdir p) st = (st, snd (mem_run (OListdir p) (union st))).
Proof.
  intros p0 cs st W N P F R Wf.
  rewrite (multi_listdir_spec p0 cs st W R). f_equal.
  cbn [mem_run]. unfold vmap, mbind, ret. rewrite (mem_listdir_spec _ _ (union st) R). cbn [snd].
  pose proof (order_map_nonempty st W N) as Nn.
  pose proof (lookup_union_list_first _ cs P F (or_introl Nn)) as H.
  pose proof (keys_union_list _ cs Nn P F Wf) as K.
  rewrite (holder_find_trees st cs W) in H. unfold listing_of. unfold union.
  destruct (holder st cs) as [i|].
  - destruct (lookup (tree_at st i) cs) as [[d m|e m]|].
    + rewrite H. reflexivity.
    + destruct H as [ents H]. rewrite H in K |- *. unfold keys. rewrite K.
      rewrite dedup_add_dd. cbn [app]. rewrite map_map. reflexivity.
    + contradiction.
  - rewrite H. reflexivity.
Qed.
Print Assumptions multi_listdir_is_union.

(* isempty against the union tree *)
Definition isnil {A} (l : list A) : bool := match l with [] => true | _ => false end.
Lemma isnil_app {A} (a b : list A) : isnil (a ++ b) = isnil a && isnil b.
Proof. destruct a; reflexivity. Qed.
Lemma isnil_map {A B} (f : A -> B) l : isnil (map f l) = isnil l.
Proof. destruct l; reflexivity. Qed.
Lemma isnil_dd l : isnil (dd [] l) = isnil l.
Proof. destruct l; reflexivity. Qed.
Lemma isnil_infos_keys st cs ids :
  isnil (concat (map (dir_infos st cs) ids)) = isnil (concat (map (kat cs) (map (tree_at st) ids))).
Proof.
  induction ids as [|j r IH]; [reflexivity|]. cbn [map concat]. rewrite !isnil_app, IH. f_equal.
  unfold dir_infos, kat. destruct (lookup (tree_at st j) cs) as [[d m|e m]|]; try reflexivity.
  rewrite !isnil_map. reflexivity.
Qed.

Theorem multi_isempty_is_union : forall p cs st, mwf st = true -> st <> [] ->
  pairwise compat (map (tree_at st) (order st)) = true -> Forall (fun t => is_dir t = true) (map (tree_at st) (order st)) ->
  rpath p = inl cs -> Forall wf_node (map (tree_at st) (order st)) ->
  multi_run (OIsempty p) st = (st, snd (mem_run (OIsempty p) (union st))).
Proof.
  intros p0 cs st W N P F R Wf.
  rewrite (multi_isempty_spec p0 cs st W R). f_equal.
  cbn [mem_run]. unfold vmap, mbind, ret. rewrite (mem_isempty_spec _ _ (union st) R). cbn [snd].
  pose proof (order_map_nonempty st W N) as Nn.
  pose proof (lookup_union_list_first _ cs P F (or_introl Nn)) as H.
  pose proof (keys_union_list _ cs Nn P F Wf) as K.
  rewrite (holder_find_trees st cs W) in H. unfold listing_of. unfold union.
  destruct (holder st cs) as [i|].
  - destruct (lookup (tree_at st i) cs) as [[d m|e m]|].
    + rewrite H. reflexivity.
    + destruct H as [ents H]. rewrite H in K |- *.
      assert (E : isnil (concat (map (dir_infos st cs) (order st))) = isnil ents)
        by (rewrite isnil_infos_keys, <- (isnil_map fst ents), K, isnil_dd; reflexivity).
      revert E. destruct (concat (map (dir_infos st cs) (order st))); destruct ents; cbn [isnil]; intro E;
        try discriminate E; reflexivity.
    + contradiction.
  - rewrite H. reflexivity.
Qed.
Print Assumptions multi_isempty_is_union.

(* ------------------------------------------------------------------ *)
(* Examples                                                            *)
(* ------------------------------------------------------------------ *)
From Coq Require Import String.
From PyFS Require Import Base.Render.
Local Open Scope string_scope. Local Open Scope list_scope.

(* three members: priorities 0 (write member), 5, 2: iterate_fs order is 1, 2, 0 *)
Definition ex_mid : node := xd [("a", xd [("q", xf "mid-q"); ("y", xf "mid-y")]); ("m", xf "m"); ("e", xd [("deep", xf "d")])].
Definition ex_three : mstate := [(mk 0 0%Z true, ex_lo); (mk 1 5%Z false, ex_hi); (mk 2 2%Z false, ex_mid)].

(* E1 *)
Example union_list_first_ex :
  lookup (union_list [ex_hi; ex_mid; ex_lo]) [lit "a"; lit "y"] = Some (xf "mid-y")
  /\ lookup (union_list [ex_hi; ex_mid; ex_lo]) [lit "a"; lit "x"] = Some (xf "hi-x")
  /\ lookup (union_list [ex_hi; ex_mid; ex_lo]) [lit "nope"] = None
  /\ pairwise compat [ex_hi; ex_mid; ex_lo] = true.
Proof. vm_compute. repeat split; reflexivity. Qed.

(* E2 / E4 on ex_multi *)
Example union_read_ex :
  mwf ex_multi = true /\ pairwise compat (map (tree_at ex_multi) (order ex_multi)) = true
  /\ multi_run (OListdir (p "a")) ex_multi = (ex_multi, snd (mem_run (OListdir (p "a")) (union ex_multi)))
  /\ snd (mem_run (OListdir (p "a")) (union ex_multi)) = Ok (VNames [lit "x"; lit "z"; lit "y"])
  /\ multi_run (OReadbytes (p "a/x")) ex_multi = (ex_multi, snd (mem_run (OReadbytes (p "a/x")) (union ex_multi)))
  /\ snd (mem_run (OReadbytes (p "a/x")) (union ex_multi)) = Ok (VBytes (lit "hi-x"))
  /\ multi_run (OGetinfo (p "e")) ex_multi = (ex_multi, snd (mem_run (OGetinfo (p "e")) (union ex_multi)))
  /\ snd (mem_run (OGetinfo (p "e")) (union ex_multi))
     = Ok (VInfo {| i_name := lit "e"; i_isdir := true; i_size := 0; i_mt := None |}).
Proof. vm_compute. repeat split; reflexivity. Qed.

(* E3 on ex_multi *)
Example union_refines_ex :
  res_agree (snd (multi_run (OReadbytes (p "a/x")) ex_multi)) (rs_res (ref_run (OReadbytes (p "a/x")) (union ex_multi))) = true
  /\ res_agree (snd (multi_run (OGetinfo (p "nope")) ex_multi)) (rs_res (ref_run (OGetinfo (p "nope")) (union ex_multi))) = true.
Proof. vm_compute. repeat split; reflexivity. Qed.

(* three members *)
Example union_three_ex :
  order ex_three = [1; 2; 0] /\ mwf ex_three = true
  /\ pairwise compat (map (tree_at ex_three) (order ex_three)) = true
  /\ multi_run (OListdir (p "a")) ex_three = (ex_three, snd (mem_run (OListdir (p "a")) (union ex_three)))
  /\ snd (mem_run (OListdir (p "a")) (union ex_three)) = Ok (VNames [lit "x"; lit "z"; lit "q"; lit "y"])
  /\ multi_run (OReadbytes (p "a/y")) ex_three = (ex_three, snd (mem_run (OReadbytes (p "a/y")) (union ex_three)))
  /\ snd (mem_run (OReadbytes (p "a/y")) (union ex_three)) = Ok (VBytes (lit "mid-y"))
  /\ multi_run (OGetinfo (p "e")) ex_three = (ex_three, snd (mem_run (OGetinfo (p "e")) (union ex_three)))
  /\ snd (mem_run (OListdir (p "e")) (union ex_three)) = Ok (VNames [lit "deep"])
  /\ multi_run (OListdir (p "")) ex_three = (ex_three, snd (mem_run (OListdir (p "")) (union ex_three)))
  /\ snd (mem_run (OListdir (p "")) (union ex_three)) = Ok (VNames [lit "a"; lit "h"; lit "e"; lit "m"; lit "w"]).
Proof. vm_compute. repeat split; reflexivity. Qed.

(* without compat the rule fails (two members are enough): see ghost_path_ce in Route/CompMultiRead.v *)
Example union_all_needs_compat_ce :
  pairwise compat (map (tree_at ex_clash) (order ex_clash)) = false
  /\ snd (multi_run (OExists (p "a/x")) ex_clash) = Ok (VBool true)
  /\ snd (mem_run (OExists (p "a/x")) (union ex_clash)) = Ok (VBool false).
Proof. vm_compute. repeat split; reflexivity. Qed.

Example union_isempty_ex :
  multi_run (OIsempty (p "e")) ex_multi = (ex_multi, snd (mem_run (OIsempty (p "e")) (union ex_multi)))
  /\ snd (mem_run (OIsempty (p "e")) (union ex_multi)) = Ok (VBool true)
  /\ multi_run (OIsempty (p "e")) ex_three = (ex_three, snd (mem_run (OIsempty (p "e")) (union ex_three)))
  /\ snd (mem_run (OIsempty (p "e")) (union ex_three)) = Ok (VBool false).
Proof. vm_compute. repeat split; reflexivity. Qed.
