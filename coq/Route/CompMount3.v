(* MountFS: what NO call can change (number, order and keys of the mounts), and queries change
   nothing at all (MountFS and MultiFS). *)
From Coq Require Import String.
From Coq Require Import List NArith ZArith Bool Arith Lia Permutation Sorting.
From PyFS Require Import Base.PyStr Base.Outcome Path.PathModel Path.PathSpec FS.Tree FS.Monad FS.Mode FS.Base FS.Mem FS.Ops FS.Ref
     FS.Agree FS.Wf FS.TreeLemmas FS.RefineLemmas FS.RefineProofs FS.PropsProofs FS.ReadOnly FS.ReadOnlyProofs
     Route.Route Route.RouteProofs Route.Composite Route.CompositeLemmas Route.CompositeEx Route.CompMount.
Import ListNotations.

(* ------------------------------------------------------------------ *)
(* a preservation framework over any state and any preorder            *)
(* ------------------------------------------------------------------ *)
Section Inv.
  Context {S : Type}.
  Variable R : S -> S -> Prop.
  Hypothesis Rrefl : forall a, R a a.
  Hypothesis Rtrans : forall a b c, R a b -> R b c -> R a c.

  Definition inv {A} (m : M S A) : Prop := forall s, R s (fst (m s)).

  Lemma inv_state {A} (g : S -> outcome A) : inv (fun st => (st, g st)).
  Proof. intro s. apply Rrefl. Qed.
  Lemma inv_ret {A} (a : A) : inv (ret a).
  Proof. intro s. apply Rrefl. Qed.
  Lemma inv_raise {A} e : inv (@raise S A e).
  Proof. intro s. apply Rrefl. Qed.
  Lemma inv_crash {A} k : inv (@Monad.crash S A k).
  Proof. intro s. apply Rrefl. Qed.
  Lemma inv_lift {A} (o : outcome A) : inv (@lift S A o).
  Proof. intro s. apply Rrefl. Qed.
  Lemma inv_get : inv (@get S).
  Proof. intro s. apply Rrefl. Qed.

  Lemma inv_bind {A B} (m : M S A) (f : A -> M S B) : inv m -> (forall a, inv (f a)) -> inv (mbind m f).
  Proof.
    intros Hm Hf s. unfold mbind. pose proof (Hm s) as F.
    destruct (m s) as [s' [a|e|k]]; cbn [fst] in *; try exact F.
    eapply Rtrans; [exact F|]. apply Hf.
  Qed.

  Lemma inv_catch {A} (m h : M S A) e : inv m -> inv h -> inv (catch m e h).
  Proof.
    intros Hm Hh s. unfold catch. pose proof (Hm s) as F.
    destruct (m s) as [s' [a|e'|k]]; cbn [fst] in *; try exact F.
    destruct (ecls_eqb e e'); [|exact F].
    eapply Rtrans; [exact F|]. apply Hh.
  Qed.

  Lemma inv_mfor {A} (f : A -> M S unit) l : (forall a, inv (f a)) -> inv (mfor l f).
  Proof.
    intro H. induction l as [|x r IH]; cbn [mfor]; [apply inv_ret|].
    apply inv_bind; [apply H|intros _; exact IH].
  Qed.

  Lemma inv_vmap {A} (g : A -> value) (m : M S A) : inv m -> inv (vmap g m).
  Proof. intro H. unfold vmap. apply inv_bind; [exact H|intro; apply inv_ret]. Qed.

  Ltac inv_step :=
    first [ apply inv_ret | apply inv_raise | apply inv_lift | apply inv_crash | apply inv_get
          | assumption
          | match goal with
            | |- forall _, _ => intro
            | |- inv (if ?b then _ else _) => destruct b
            | |- inv (mbind _ _) => apply inv_bind
            | |- inv (catch _ _ _) => apply inv_catch
            | |- inv (mfor _ _) => apply inv_mfor
            end
          | progress cbv zeta ].

  (* the derived methods over any record whose fields keep the relation *)
  Variable L : low S.
  Hypothesis Hv : forall q, inv (l_validatepath L q).
  Hypothesis Hg : forall q, inv (l_getinfo L q).
  Hypothesis Hs : forall q, inv (l_scandir L q).
  Hypothesis Hmk : forall q r, inv (l_makedir L q r).
  Hypothesis Hor : forall q, inv (l_openread L q).
  Hypothesis How : forall q m d, inv (l_openwrite L q m d).
  Hypothesis Hsi : forall q mt, inv (l_setinfo L q mt).
  Hypothesis Hrm : forall q, inv (l_remove L q).
  Hypothesis Hrt : forall q, inv (l_removetree L q).

  Ltac inv_auto :=
    repeat first [ apply Hv | apply Hg | apply Hs | apply Hmk | apply Hor | apply How | apply Hsi
                 | apply Hrm | apply Hrt | inv_step ].

  Lemma inv_b_exists q : inv (b_exists L q).
  Proof using Rrefl Rtrans Hg. unfold b_exists. inv_auto. Qed.

  Lemma inv_b_isempty q : inv (b_isempty L q).
  Proof using Rrefl Rtrans Hs. unfold b_isempty. inv_auto. Qed.

  Lemma inv_b_create q wipe : inv (b_create L q wipe).
  Proof using Rrefl Rtrans Hg How. unfold b_create. inv_auto; apply inv_b_exists. Qed.

  Lemma inv_b_touch q : inv (b_touch L q).
  Proof using Rrefl Rtrans Hg How Hsi. unfold b_touch. apply inv_bind; [apply inv_b_create|]. inv_auto. Qed.

  Lemma inv_b_appendbytes q d : inv (b_appendbytes L q d).
  Proof using How. unfold b_appendbytes. apply How. Qed.

  Lemma inv_b_upload q d : inv (b_upload L q d).
  Proof using How. unfold b_upload. apply How. Qed.

  Lemma inv_b_copy_modified_time a b : inv (b_copy_modified_time L a b).
  Proof using Rrefl Rtrans Hg Hsi. unfold b_copy_modified_time. inv_auto. Qed.

  Lemma inv_b_copy a b o t : inv (b_copy L a b o t).
  Proof using Rrefl Rtrans Hv Hg Hor How Hsi.
    unfold b_copy. apply inv_bind; [apply Hv|]. intro _src. apply inv_bind; [apply Hv|]. intro _dst.
    apply inv_bind; [destruct o; [apply inv_ret|apply inv_b_exists]|]. intro e.
    destruct e; [apply inv_raise|]. destruct (str_eqb _src _dst); [apply inv_raise|].
    apply inv_bind; [apply Hor|]. intro d. apply inv_bind; [apply inv_b_upload|]. intros _.
    destruct t; [apply inv_b_copy_modified_time|apply inv_ret].
  Qed.

  Lemma inv_b_move a b o t : inv (b_move L a b o t).
  Proof using Rrefl Rtrans Hv Hg Hor How Hsi Hrm.
    unfold b_move. apply inv_bind; [apply Hv|]. intro _src. apply inv_bind; [apply Hv|]. intro _dst.
    apply inv_bind; [destruct o; [apply inv_ret|apply inv_b_exists]|]. intro e.
    destruct e; [apply inv_raise|].
    apply inv_bind; [apply Hg|]. intro i. destruct (i_isdir i); [apply inv_raise|].
    destruct (str_eqb _src _dst); [apply inv_ret|].
    apply inv_bind; [apply Hor|]. intro d. apply inv_bind; [apply inv_b_upload|]. intros _.
    apply inv_bind; [destruct t; [apply inv_b_copy_modified_time|apply inv_ret]|]. intros _. apply Hrm.
  Qed.

  Lemma inv_walk_fuel : inv (walk_fuel L).
  Proof using Rrefl Rtrans. unfold walk_fuel. inv_auto. Qed.

  Lemma inv_bfs_walk visit : (forall d i, inv (visit d i)) ->
    forall fuel queue, inv (bfs_walk L fuel queue visit).
  Proof using Rrefl Rtrans Hs.
    intro Hvis. induction fuel as [|f IH]; intro queue; cbn [bfs_walk]; [apply inv_crash|].
    destruct queue as [|d q]; [apply inv_ret|].
    apply inv_bind; [apply Hs|]. intro infos.
    apply inv_bind; [|intro nd; apply IH].
    match goal with
    | |- inv (?g infos []) => assert (G : forall l acc, inv (g l acc)); [|apply G]
    end.
    induction l as [|i r IHr]; intro acc; [apply inv_ret|].
    apply inv_bind; [apply Hvis|]. intros _. apply IHr.
  Qed.

  Lemma inv_get_intermediate_dirs q : inv (get_intermediate_dirs L q).
  Proof using Rrefl Rtrans Hg.
    unfold get_intermediate_dirs. apply inv_bind; [apply inv_lift|]. intro paths.
    apply inv_bind; [|intro; apply inv_ret].
    match goal with
    | |- inv (?g paths []) => assert (G : forall l acc, inv (g l acc)); [|apply G]
    end.
    induction l as [|x r IHr]; intro acc; [apply inv_ret|].
    intro s. pose proof (Hg x s) as F.
    destruct (l_getinfo L x s) as [s' [i|e|k]]; cbn [fst] in F.
    - destruct (i_isdir i); exact F.
    - destruct e; try exact F. eapply Rtrans; [exact F|]. apply IHr.
    - exact F.
  Qed.

  Lemma inv_makedir_tolerant q r : inv (makedir_tolerant L q r).
  Proof using Rrefl Rtrans Hmk. unfold makedir_tolerant. inv_auto. Qed.

  Lemma inv_b_opendir q : inv (b_opendir L q).
  Proof using Rrefl Rtrans Hg. unfold b_opendir. inv_auto. Qed.

  Lemma inv_b_makedirs q r : inv (b_makedirs L q r).
  Proof using Rrefl Rtrans Hg Hmk.
    unfold b_makedirs. apply inv_bind; [apply inv_get_intermediate_dirs|]. intro dirs.
    apply inv_bind; [apply inv_mfor; intro; apply inv_makedir_tolerant|]. intros _.
    apply inv_bind; [apply inv_makedir_tolerant|]. intros _. apply inv_b_opendir.
  Qed.

  Variable makedirs : str -> bool -> M S unit.
  Hypothesis Hmds : forall q r, inv (makedirs q r).
  Variable copy : str -> str -> bool -> bool -> M S unit.
  Hypothesis Hcopy : forall a b o t, inv (copy a b o t).

  Lemma inv_copy_structure2 a b : inv (copy_structure2 L makedirs a b).
  Proof using Rrefl Rtrans Hv Hs Hmds.
    unfold copy_structure2. apply inv_bind; [apply Hv|]. intro _src. apply inv_bind; [apply Hv|]. intro _dst.
    destruct (isbase _src _dst); [apply inv_raise|].
    apply inv_bind; [apply Hmds|]. intros _. apply inv_bind; [apply inv_walk_fuel|]. intro fuel.
    apply inv_bfs_walk. intros d i. destruct (i_isdir i); [|apply inv_ret].
    apply inv_bind; [apply inv_lift|]. intro rel. apply Hmds.
  Qed.

  Lemma inv_copy_file_internal a b t : inv (copy_file_internal L copy a b t).
  Proof using Rrefl Rtrans Hv Hcopy.
    unfold copy_file_internal. apply inv_bind; [apply Hv|]. intro _src. apply inv_bind; [apply Hv|]. intro _dst.
    destruct (str_eqb _src _dst); [apply inv_raise|apply Hcopy].
  Qed.

  Lemma inv_copy_dir2 a b t : inv (copy_dir2 L makedirs copy a b t).
  Proof using Rrefl Rtrans Hv Hs Hmds Hcopy.
    unfold copy_dir2. apply inv_bind; [apply inv_lift|]. intro ns. apply inv_bind; [apply inv_lift|]. intro nd.
    cbv zeta. apply inv_bind; [apply inv_copy_structure2|]. intros _.
    apply inv_bind; [apply inv_walk_fuel|]. intro fuel.
    apply inv_bfs_walk. intros d i. destruct (i_isdir i); [apply inv_ret|].
    cbv zeta. apply inv_bind; [apply inv_lift|]. intro rel. apply inv_copy_file_internal.
  Qed.

  Lemma inv_b_copydir2 a b c t : inv (b_copydir2 L makedirs copy a b c t).
  Proof using Rrefl Rtrans Hv Hg Hs Hmds Hcopy.
    unfold b_copydir2. apply inv_bind; [apply Hv|]. intro _src. apply inv_bind; [apply Hv|]. intro _dst.
    destruct (isbase _src _dst); [apply inv_raise|].
    apply inv_bind; [destruct c; [apply inv_ret|apply inv_b_exists]|]. intro e.
    destruct (negb e); [apply inv_raise|].
    apply inv_bind; [apply Hg|]. intro i. destruct (negb (i_isdir i)); [apply inv_raise|].
    apply inv_copy_dir2.
  Qed.

  Lemma inv_move_dir2 a b t : inv (move_dir2 L makedirs copy a b t).
  Proof using Rrefl Rtrans Hv Hs Hmk Hrt Hmds Hcopy.
    unfold move_dir2. apply inv_bind; [apply Hmk|]. intros _.
    apply inv_bind; [apply inv_copy_dir2|]. intros _. apply Hrt.
  Qed.

  Lemma inv_b_movedir2 a b c t : inv (b_movedir2 L makedirs copy a b c t).
  Proof using Rrefl Rtrans Hv Hg Hs Hmk Hrt Hmds Hcopy.
    unfold b_movedir2. apply inv_bind; [apply Hv|]. intro _src. apply inv_bind; [apply Hv|]. intro _dst.
    destruct (str_eqb _src _dst); [apply inv_ret|].
    destruct (isbase _src _dst); [apply inv_raise|].
    apply inv_bind; [destruct c; [apply inv_ret|apply inv_b_exists]|]. intro e.
    destruct (negb e); [apply inv_raise|].
    apply inv_bind; [apply Hg|]. intro i. destruct (negb (i_isdir i)); [apply inv_raise|].
    apply inv_move_dir2.
  Qed.

  (* FS.removetree over any validatepath / scandir / remove / removedir that keep the relation *)
  Variable validatepath : str -> M S str.
  Hypothesis Hvp : forall q, inv (validatepath q).
  Variable scandir : str -> M S (list info).
  Variable remove removedir : str -> M S unit.
  Variable fuel_of : S -> nat.
  Hypothesis Hsc : forall q, inv (scandir q).
  Hypothesis Hre : forall q, inv (remove q).
  Hypothesis Hrd : forall q, inv (removedir q).

  Lemma inv_dfs_remove fuel : forall q, inv (dfs_remove scandir remove removedir fuel q).
  Proof using Rrefl Rtrans Hsc Hre Hrd.
    induction fuel as [|f IH]; intro q; cbn [dfs_remove]; [apply inv_crash|].
    apply inv_bind; [apply Hsc|]. intro infos. apply inv_mfor. intro i. cbv zeta.
    destruct (i_isdir i); [|apply Hre].
    apply inv_bind; [apply IH|]. intros _. apply Hrd.
  Qed.

  Lemma inv_b_removetree q : inv (b_removetree validatepath scandir remove removedir fuel_of q).
  Proof using Rrefl Rtrans Hvp Hsc Hre Hrd.
    unfold b_removetree. apply inv_bind; [apply Hvp|]. intro _dir.
    apply inv_bind; [apply inv_get|]. intro s. apply inv_bind; [apply inv_dfs_remove|]. intros _.
    destruct (str_eqb _dir s_slash); [apply inv_ret|apply Hrd].
  Qed.
End Inv.

(* ------------------------------------------------------------------ *)
(* member-level facts                                                  *)
(* ------------------------------------------------------------------ *)
Definition ro {A} (m : MM A) : Prop := forall t, fst (m t) = t.

Lemma ro_q p0 :
  ro (mem_getinfo p0) /\ ro (mem_listdir p0) /\ ro (mem_scandir p0) /\ ro (mem_exists p0) /\
  ro (mem_isdir p0) /\ ro (mem_isfile p0) /\ ro (mem_isempty p0) /\ ro (mem_getsize p0) /\
  ro (mem_gettype p0) /\ ro (mem_readbytes p0) /\ ro (mem_validatepath p0).
Proof.
  repeat split; intro t;
    destruct (mem_query_pure p0 t) as (Q1 & Q2 & Q3 & Q4 & Q5 & Q6 & Q7 & Q8 & Q9 & Q10 & Q11);
    assumption.
Qed.

Lemma ro_run_openread p0 mode : (negb (mode_valid_bin mode) || negb (m_writing mode)) = true ->
  ro (mem_run (OOpenread p0 mode)).
Proof.
  intros H t. destruct (mode_valid_bin mode) eqn:V; cbn [negb orb] in H.
  - apply mem_nonmutating_pure. cbn [mutating]. destruct (m_writing mode); [discriminate H|reflexivity].
  - cbn [mem_run]. mstep. rewrite (mem_open_invalid p0 mode t V). reflexivity.
Qed.

(* ------------------------------------------------------------------ *)
(* H2: MountFS queries change nothing at all                           *)
(* ------------------------------------------------------------------ *)
Definition mount_query (o : op) : bool :=
  match o with
  | OGetinfo _ | OListdir _ | OScandir _ | OReadbytes _ | OExists _ | OIsdir _ | OIsfile _ | OIsempty _ | OGetsize _ | OGettype _ => true
  | OOpenread _ m => negb (mode_valid_bin m) || negb (m_writing m)
  | _ => false
  end.

Notation pure m := (inv eq m).

Lemma on_nth_pure {C A} i (m : MM A) : ro m -> pure (@on_nth C A i m).
Proof.
  intros H s. unfold on_nth. destruct (nth_error s i) as [[c t]|] eqn:E; [|reflexivity].
  specialize (H t). destruct (m t) as [t' o]. cbn [fst] in *. subst t'.
  rewrite (set_nth_same _ _ _ E). reflexivity.
Qed.

Lemma on_mount_pure {A} i (m : MM A) : ro m -> pure (on_mount i m).
Proof.
  intros H s. unfold on_mount. pose proof (on_nth_pure (C:=str) i m H (t_mounts s)) as P.
  destruct (on_nth i m (t_mounts s)) as [ms' o]. cbn [fst] in *. subst ms'. symmetry. apply tstate_eta.
Qed.

Lemma on_default_pure {A} (m : MM A) : ro m -> pure (on_default m).
Proof.
  intros H s. unfold on_default. specialize (H (t_default s)).
  destruct (m (t_default s)) as [t' o]. cbn [fst] in *. subst t'. symmetry. apply tstate_eta.
Qed.

Lemma route_pure {A} p0 (f : str -> MM A) : (forall q, ro (f q)) -> pure (route p0 f).
Proof.
  intros H s. unfold route. destruct (mount_delegate (mounts_of s) p0) as [[[i rel]|]|e|k]; try reflexivity.
  - apply on_mount_pure. apply H.
  - apply on_default_pure. apply H.
Qed.

Lemma ro_getinfo_named p0 rel : ro (mbind (mem_getinfo rel) (fun x => ret (mount_point_name p0 rel x))).
Proof.
  intro t. unfold mbind, ret. pose proof (proj1 (ro_q rel) t) as H.
  destruct (mem_getinfo rel t) as [t' [a|e|k]]; exact H.
Qed.

Lemma mount_getinfo_pure p0 : pure (mount_getinfo p0).
Proof.
  intro s. unfold mount_getinfo. destruct (mount_delegate (mounts_of s) p0) as [[[i rel]|]|e|k]; try reflexivity.
  - apply on_mount_pure. apply ro_getinfo_named.
  - apply on_default_pure. apply ro_q.
Qed.

(* scandir (/repo 75d0617): _scan_mount_points keeps whatever getinfo keeps *)
Lemma scan_mount_points_inv (R : tstate -> tstate -> Prop) (Rf : forall a, R a a)
      (Tr : forall a b c, R a b -> R b c -> R a c) :
  (forall q, inv R (mount_getinfo q)) -> forall d l, inv R (scan_mount_points mount_getinfo d l).
Proof.
  intros Hg d l. induction l as [|i r IH]; cbn [scan_mount_points]; [apply inv_ret; exact Rf|].
  apply (inv_bind R Tr).
  - intro s. cbv beta. destruct (i_isdir i && is_mount_key s (forcedir (d ++ i_name i))); [apply Hg|apply Rf].
  - intro x. apply (inv_bind R Tr); [exact IH|]. intro xs. apply inv_ret. exact Rf.
Qed.

Lemma mount_scandir_inv (R : tstate -> tstate -> Prop) (Rf : forall a, R a a)
      (Tr : forall a b c, R a b -> R b c -> R a c) :
  (forall i rel, inv R (on_mount i (mem_scandir rel))) -> (forall q, inv R (on_default (mem_scandir q))) ->
  (forall q, inv R (mount_getinfo q)) -> forall p0, inv R (mount_scandir p0).
Proof.
  intros Hm Hd Hg p0 s. unfold mount_scandir.
  destruct (mount_delegate (mounts_of s) p0) as [[[i rel]|]|e|k]; try apply Rf.
  - apply Hm.
  - destruct (t_mounts s) as [|m ms]; [apply Hd|].
    assert (P : inv R (mbind (lift (mount_key p0)) (fun d => mbind (on_default (mem_scandir p0))
                         (fun infos => scan_mount_points mount_getinfo d infos)))); [|apply P].
    apply (inv_bind R Tr); [apply inv_lift; exact Rf|]. intro d.
    apply (inv_bind R Tr); [apply Hd|]. intro infos. apply (scan_mount_points_inv R Rf Tr Hg).
Qed.

Lemma mount_scandir_pure p0 : pure (mount_scandir p0).
Proof.
  apply (mount_scandir_inv eq); [reflexivity|intros; congruence|..].
  - intros i rel. apply on_mount_pure. apply ro_q.
  - intro q. apply on_default_pure. apply ro_q.
  - apply mount_getinfo_pure.
Qed.

Theorem mount_query_pure : forall o st, mount_query o = true -> fst (mount_run o st) = st.
Proof.
  intros o st Q. symmetry. revert st.
  change (pure (mount_run o)).
  assert (Tr : forall a b c : tstate, a = b -> b = c -> a = c) by (intros; congruence).
  assert (Rf : forall a : tstate, a = a) by reflexivity.
  destruct o; try discriminate Q; cbn [mount_run]; try apply (inv_vmap eq Rf Tr);
    try (apply route_pure; intro q; apply ro_q).
  - (* OGetinfo *)
    apply mount_getinfo_pure.
  - (* OScandir *)
    apply mount_scandir_pure.
  - (* OOpenread *)
    cbn [mount_query] in Q. destruct (mode_valid_bin mode) eqn:V; cbn [negb].
    + apply route_pure. intro q. apply ro_run_openread. rewrite V. exact Q.
    + apply inv_crash. exact Rf.
  - (* OExists *)
    apply (inv_b_exists eq Rf Tr). intro q. cbn [mount_low l_getinfo]. apply mount_getinfo_pure.
  - (* OIsempty *)
    apply (inv_b_isempty eq Rf Tr). intro q. cbn [mount_low l_scandir]. apply mount_scandir_pure.
Qed.
Print Assumptions mount_query_pure.

Example mount_query_pure_ex :
  fst (mount_run (OListdir (p "a/s"%string)) ex_mount) = ex_mount /\
  fst (mount_run (OExists (p "c/d/nothing"%string)) ex_mount) = ex_mount /\
  fst (mount_run (OOpenread (p "ab/x"%string) (p "r"%string)) ex_mount) = ex_mount /\
  fst (mount_run (OIsempty (p "own"%string)) ex_mount) = ex_mount.
Proof. vm_compute. repeat split; reflexivity. Qed.

(* scandir / isempty of a default-tree directory with mount points (the listing asks getinfo for each) change nothing *)
Example mount_query_pure_scandir_ex :
  fst (mount_run (OScandir (p "/"%string)) ex_mount) = ex_mount /\
  fst (mount_run (OIsempty (p "/c"%string)) ex_mount) = ex_mount /\
  fst (mount_run (OScandir (p "/a/s"%string)) ex_mount) = ex_mount.
Proof. repeat split; apply mount_query_pure; reflexivity. Qed.

(* getinfo of a mount point (renamed info) is a query like the others *)
Example mount_query_pure_getinfo_ex :
  fst (mount_run (OGetinfo (p "/a"%string)) ex_mount) = ex_mount /\
  fst (mount_run (OGetinfo (p "/a/s/t"%string)) ex_mount) = ex_mount /\
  fst (mount_run (OGetinfo (p "own"%string)) ex_mount) = ex_mount.
Proof. repeat split; apply mount_query_pure; reflexivity. Qed.

(* ------------------------------------------------------------------ *)
(* H3: MultiFS queries change nothing at all                           *)
(* ------------------------------------------------------------------ *)
Lemma eq_tr {T} : forall a b c : T, a = b -> b = c -> a = c.
Proof. intros; congruence. Qed.

Lemma pure_bind {S A B} (m : M S A) (f : A -> M S B) : pure m -> (forall a, pure (f a)) -> pure (mbind m f).
Proof. apply inv_bind. apply eq_tr. Qed.

Lemma multi_delegate_pure p0 : pure (m_delegate p0).
Proof. intro s. reflexivity. Qed.

Lemma multi_delegate_required_pure p0 : pure (m_delegate_required p0).
Proof.
  unfold m_delegate_required. apply pure_bind; [apply multi_delegate_pure|].
  intros [i|]; intro s; reflexivity.
Qed.

Lemma multi_getinfo_pure p0 : pure (multi_getinfo p0).
Proof.
  unfold multi_getinfo. apply pure_bind; [apply multi_delegate_pure|].
  intros [i|]; [|intro s; reflexivity].
  apply pure_bind; [intro s; reflexivity|]. intro n.
  apply on_nth_pure. apply ro_q.
Qed.

Lemma multi_query_fn_pure {A} p0 (none : M mstate A) (f : MM A) : pure none -> ro f ->
  pure (multi_query p0 none f).
Proof.
  intros Hn Hf. unfold multi_query. apply pure_bind; [apply multi_delegate_pure|].
  intros [i|]; [apply on_nth_pure; exact Hf|exact Hn].
Qed.

Lemma writable_required_pure : pure m_writable_required.
Proof. intro s. unfold m_writable_required. destruct (write_index s); reflexivity. Qed.

Theorem multi_query_pure : forall o st, mount_query o = true -> fst (multi_run o st) = st.
Proof.
  intros o st Q. symmetry. revert st.
  change (pure (multi_run o)).
  pose proof (@eq_tr mstate) as Tr.
  assert (Rf : forall a : mstate, a = a) by reflexivity.
  destruct o; try discriminate Q; cbn [multi_run]; try apply (inv_vmap eq Rf Tr).
  - apply multi_getinfo_pure.
  - intro s. reflexivity.
  - intro s. reflexivity.
  - apply multi_query_fn_pure; [intro s; reflexivity|apply ro_q].
  - (* OOpenread *)
    cbn [mount_query] in Q. apply pure_bind.
    + unfold multi_pick. destruct (mode_valid mode); cbn [negb]; [|intro s; reflexivity].
      destruct (m_writing mode); [apply writable_required_pure|apply multi_delegate_required_pure].
    + intro i. apply on_nth_pure. apply ro_run_openread. exact Q.
  - apply (inv_b_exists eq Rf Tr). intro q. apply multi_getinfo_pure.
  - apply multi_query_fn_pure; [intro s; reflexivity|apply ro_q].
  - apply multi_query_fn_pure; [intro s; reflexivity|apply ro_q].
  - apply (inv_b_isempty eq Rf Tr). intro q. intro s. reflexivity.
  - apply multi_query_fn_pure; [intro s; reflexivity|apply ro_q].
  - apply multi_query_fn_pure; [intro s; reflexivity|apply ro_q].
Qed.
Print Assumptions multi_query_pure.

Example multi_query_pure_ex :
  fst (multi_run (OListdir (p "a"%string)) ex_multi) = ex_multi /\
  fst (multi_run (OScandir (p "/"%string)) ex_multi) = ex_multi /\
  fst (multi_run (OExists (p "a/nothing"%string)) ex_multi) = ex_multi /\
  fst (multi_run (OOpenread (p "a/x"%string) (p "r"%string)) ex_multi) = ex_multi /\
  fst (multi_run (OOpenread (p "a/x"%string) (p "wt"%string)) ex_multi) = ex_multi.
Proof. vm_compute. repeat split; reflexivity. Qed.

(* ------------------------------------------------------------------ *)
(* H1: no call changes the number, order or keys of the mounts         *)
(* ------------------------------------------------------------------ *)
Definition same_keys (a b : tstate) : Prop := map fst (t_mounts a) = map fst (t_mounts b).

Lemma sk_refl a : same_keys a a.
Proof. reflexivity. Qed.
Lemma sk_trans a b c : same_keys a b -> same_keys b c -> same_keys a c.
Proof. unfold same_keys. congruence. Qed.

Notation keeps m := (inv same_keys m).

Lemma on_mount_keeps {A} i (m : MM A) : keeps (on_mount i m).
Proof.
  intro s. unfold on_mount, on_nth, same_keys.
  destruct (nth_error (t_mounts s) i) as [[c t]|] eqn:E; [|reflexivity].
  destruct (m t) as [t' o]. cbn [fst t_mounts]. symmetry. apply (set_nth_map_fst _ _ _ _ _ E).
Qed.

Lemma on_default_keeps {A} (m : MM A) : keeps (on_default m).
Proof. intro s. unfold on_default, same_keys. destruct (m (t_default s)) as [t' o]. reflexivity. Qed.

Lemma route_keeps {A} p0 (f : str -> MM A) : keeps (route p0 f).
Proof.
  intro s. unfold route. destruct (mount_delegate (mounts_of s) p0) as [[[i rel]|]|e|k]; try apply sk_refl.
  - apply on_mount_keeps.
  - apply on_default_keeps.
Qed.

Lemma mount_getinfo_keeps p0 : keeps (mount_getinfo p0).
Proof.
  intro s. unfold mount_getinfo. destruct (mount_delegate (mounts_of s) p0) as [[[i rel]|]|e|k]; try apply sk_refl.
  - apply on_mount_keeps.
  - apply on_default_keeps.
Qed.

Lemma mount_scandir_keeps p0 : keeps (mount_scandir p0).
Proof.
  apply (mount_scandir_inv same_keys sk_refl sk_trans).
  - intros i rel. apply on_mount_keeps.
  - intro q. apply on_default_keeps.
  - apply mount_getinfo_keeps.
Qed.

Lemma keeps_bind {A B} (m : M tstate A) (f : A -> M tstate B) : keeps m -> (forall a, keeps (f a)) -> keeps (mbind m f).
Proof. apply inv_bind. exact sk_trans. Qed.

Lemma mount_validatepath_keeps q : keeps (mount_validatepath q).
Proof.
  unfold mount_validatepath. apply keeps_bind; [apply route_keeps|]. intros _.
  apply keeps_bind; intros; intro s; apply sk_refl.
Qed.

Lemma mount_removedir_keeps q : keeps (mount_removedir q).
Proof.
  unfold mount_removedir. apply keeps_bind; [intro s; apply sk_refl|]. intro n.
  destruct (is_empty n || str_eqb n s_slash); [intro s; apply sk_refl|apply route_keeps].
Qed.

Lemma mount_openwrite_keeps q m d : keeps (mount_openwrite q m d).
Proof.
  unfold mount_openwrite. destruct (negb (mode_valid_bin m)); [intro s; apply sk_refl|apply route_keeps].
Qed.

Lemma mount_removetree_keeps q : keeps (mount_removetree q).
Proof.
  unfold mount_removetree. apply (inv_b_removetree same_keys sk_refl sk_trans).
  - apply mount_validatepath_keeps.
  - apply mount_scandir_keeps.
  - intro r. apply route_keeps.
  - apply mount_removedir_keeps.
Qed.

Lemma mount_makedirs_keeps q r : keeps (mount_makedirs q r).
Proof.
  unfold mount_makedirs. apply (inv_b_makedirs same_keys sk_refl sk_trans); intros; first [apply mount_getinfo_keeps | apply route_keeps].
Qed.

Lemma mount_copy_keeps a b o t : keeps (mount_copy a b o t).
Proof.
  unfold mount_copy. apply (inv_b_copy same_keys sk_refl sk_trans); intros;
    first [apply mount_validatepath_keeps | apply mount_openwrite_keeps | apply mount_getinfo_keeps | apply route_keeps].
Qed.

Theorem mount_same_keys : forall o st, map fst (t_mounts (fst (mount_run o st))) = map fst (t_mounts st).
Proof.
  intros o st. symmetry. revert st. change (keeps (mount_run o)).
  destruct o; cbn [mount_run]; try apply (inv_vmap same_keys sk_refl sk_trans);
    try apply route_keeps.
  - apply mount_getinfo_keeps.
  - apply mount_scandir_keeps.
  - apply mount_makedirs_keeps.
  (* OAppendbytes: mode "ab" is valid, the call converts to a route and is closed above *)
  - apply (inv_b_create same_keys sk_refl sk_trans); intros;
      first [apply mount_openwrite_keeps | apply mount_getinfo_keeps | apply mount_scandir_keeps | apply route_keeps].
  - apply (inv_b_touch same_keys sk_refl sk_trans); intros;
      first [apply mount_openwrite_keeps | apply mount_getinfo_keeps | apply mount_scandir_keeps | apply route_keeps].
  - apply mount_openwrite_keeps.
  - destruct (negb (mode_valid_bin mode)); [intro s; apply sk_refl|apply route_keeps].
  - apply mount_removedir_keeps.
  - apply mount_removetree_keeps.
  - apply (inv_b_move same_keys sk_refl sk_trans); intros;
      first [apply mount_validatepath_keeps | apply mount_openwrite_keeps | apply mount_getinfo_keeps | apply mount_scandir_keeps | apply route_keeps].
  - apply mount_copy_keeps.
  - apply (inv_b_movedir2 same_keys sk_refl sk_trans); intros;
      first [apply mount_validatepath_keeps | apply mount_removetree_keeps | apply mount_makedirs_keeps
            | apply mount_copy_keeps | apply mount_getinfo_keeps | apply mount_scandir_keeps | apply route_keeps].
  - apply (inv_b_copydir2 same_keys sk_refl sk_trans); intros;
      first [apply mount_validatepath_keeps | apply mount_makedirs_keeps
            | apply mount_copy_keeps | apply mount_getinfo_keeps | apply mount_scandir_keeps | apply route_keeps].
  - apply (inv_b_exists same_keys sk_refl sk_trans); intros; first [apply mount_getinfo_keeps | apply mount_scandir_keeps | apply route_keeps].
  - apply (inv_b_isempty same_keys sk_refl sk_trans); intros; first [apply mount_getinfo_keeps | apply mount_scandir_keeps | apply route_keeps].
Qed.
Print Assumptions mount_same_keys.

Example mount_same_keys_ex :
  map fst (t_mounts (fst (mount_run (ORemovetree (p "/"%string)) ex_mount))) = map fst (t_mounts ex_mount) /\
  map fst (t_mounts (fst (mount_run (OMovedir (p "a"%string) (p "c/d/k"%string) true false) ex_mount))) = map fst (t_mounts ex_mount) /\
  map fst (t_mounts (fst (mount_run (ORemovedir (p "ab"%string)) ex_mount))) = map fst (t_mounts ex_mount) /\
  map fst (t_mounts (fst (mount_run (OCopy (p "a/x"%string) (p "ab/y"%string) true true) ex_mount))) = map fst (t_mounts ex_mount).
Proof. vm_compute. repeat split; reflexivity. Qed.
