(* MultiFS (Route/Composite.v): THE READ RULE.  Every point query is answered by the member with the
   greatest (priority, insertion index) among those that have the path; listings are the
   de-duplicated union, in iterate_fs order, of the members' listings. *)
From Coq Require Import List NArith ZArith Bool Arith Lia Permutation Sorting.
From PyFS Require Import Base.PyStr Base.Outcome Path.PathModel Path.PathSpec FS.Tree FS.Monad FS.Mode FS.Base FS.Mem FS.Ops FS.Ref
     FS.Agree FS.Wf FS.TreeLemmas FS.RefineLemmas Route.Route Route.RouteProofs Route.Composite Route.CompositeLemmas Route.CompositeEx.
From PyFS Require Import Path.PathProofs FS.RefineProofs FS.PropsProofs FS.ReadOnly FS.ReadOnlyProofs.
Import ListNotations.

(* ------------------------------------------------------------------ *)
(* helpers                                                             *)
(* ------------------------------------------------------------------ *)
Lemma nth_some_of_lt (st : mstate) i : i < length st ->
  exists c t, nth_error st i = Some (c, t) /\ tree_at st i = t.
Proof.
  intro H. destruct (nth_error st i) as [[c t]|] eqn:E.
  - exists c, t. split; [reflexivity|]. unfold tree_at. rewrite E. reflexivity.
  - apply nth_error_None in E. lia.
Qed.

Lemma ask_exists (st : mstate) i p cs c t : nth_error st i = Some (c, t) -> rpath p = inl cs ->
  ask st i (mem_exists p) = Ok (has st i cs).
Proof.
  intros H R. unfold ask, has. rewrite H. unfold mem_exists. rewrite (mem_exists_spec _ _ t R). reflexivity.
Qed.

Lemma ask_exists_bad (st : mstate) i p adm c t : nth_error st i = Some (c, t) -> rpath p = inr adm ->
  ask st i (mem_exists p) = Err (bad_err p).
Proof.
  intros H R. unfold ask. rewrite H. unfold mem_exists. rewrite (mem_exists_bad _ _ t R). reflexivity.
Qed.

Lemma delegate_in_find (st : mstate) p cs : rpath p = inl cs -> forall ids,
  (forall i, In i ids -> i < length st) ->
  delegate_in ids p st = Ok (find (fun i => has st i cs) ids).
Proof.
  intros R ids. induction ids as [|a r IH]; intro V; [reflexivity|].
  cbn [delegate_in find].
  destruct (nth_some_of_lt st a (V a (or_introl eq_refl))) as (c & t & E & _).
  rewrite (ask_exists _ _ _ _ _ _ E R).
  destruct (has st a cs); [reflexivity|]. apply IH. intros i I. apply V. right. exact I.
Qed.

(* A1 *)
Theorem delegate_first_holder : forall st p cs, mwf st = true -> rpath p = inl cs ->
  delegate_in (order st) p st = Ok (holder st cs).
Proof.
  intros st p cs W R. unfold holder. apply delegate_in_find; [exact R|].
  intros i I. apply order_valid; assumption.
Qed.
Print Assumptions delegate_first_holder.

Lemma order_nonempty st : mwf st = true -> st <> [] -> exists i r, order st = i :: r /\ i < length st.
Proof.
  intros W N. destruct (order st) as [|i r] eqn:E.
  - exfalso. pose proof (order_perm st W) as P. rewrite E in P.
    destruct st as [|x st']; [congruence|]. cbn [length seq] in P.
    apply Permutation_nil in P. discriminate.
  - exists i, r. split; [reflexivity|]. apply order_valid; [exact W|]. rewrite E. left. reflexivity.
Qed.

(* A2 *)
Theorem delegate_bad_path : forall st p adm, mwf st = true -> st <> [] -> rpath p = inr adm ->
  delegate_in (order st) p st = Err (bad_err p).
Proof.
  intros st p adm W N R. destruct (order_nonempty st W N) as (i & r & E & L). rewrite E.
  cbn [delegate_in]. destruct (nth_some_of_lt st i L) as (c & t & En & _).
  rewrite (ask_exists_bad _ _ _ _ _ _ En R). reflexivity.
Qed.
Print Assumptions delegate_bad_path.

Lemma find_map {A B} (f : B -> bool) (g : A -> B) l :
  find f (map g l) = match find (fun x => f (g x)) l with Some x => Some (g x) | None => None end.
Proof.
  induction l as [|x r IH]; [reflexivity|]. cbn [map find]. destruct (f (g x)); [reflexivity|exact IH].
Qed.

(* A3: the state model's choice IS Route.v's multi_delegate *)
Theorem holder_is_multi_delegate : forall st cs,
  holder st cs = multi_delegate (members_of st) (fun i => has st i cs).
Proof.
  intros st cs. unfold holder, order, multi_delegate. apply find_map.
Qed.
Print Assumptions holder_is_multi_delegate.

Lemma ids_nth st : forall k, ids_from st k = true -> forall i c t, nth_error st i = Some (c, t) -> m_id (cm c) = k + i.
Proof.
  induction st as [|[c0 t0] r IH]; intros k H i c t E.
  - destruct i; discriminate.
  - cbn [ids_from] in H. apply andb_true_iff in H as [H1 H2]. apply Nat.eqb_eq in H1.
    destruct i as [|i]; cbn [nth_error] in E.
    + inversion E; subst. lia.
    + rewrite (IH _ H2 _ _ _ E). lia.
Qed.

Lemma mwf_id st i c t : mwf st = true -> nth_error st i = Some (c, t) -> m_id (cm c) = i.
Proof.
  intros W E. unfold mwf in W. apply andb_true_iff in W as [W1 _]. apply (ids_nth st 0 W1 i c t E).
Qed.

Lemma mwf_nodup st : mwf st = true -> NoDup (map m_index (members_of st)).
Proof. intro W. unfold mwf in W. apply andb_true_iff in W as [_ W2]. apply nat_nodup_spec. exact W2. Qed.

Lemma member_nth st m : In m (members_of st) -> exists i c t, nth_error st i = Some (c, t) /\ m = cm c.
Proof.
  intro I. unfold members_of in I. apply in_map_iff in I as [[c t] [E I]].
  apply In_nth_error in I as [i Hi]. exists i, c, t. split; [exact Hi|]. symmetry. exact E.
Qed.

Lemma nth_member st i c t : nth_error st i = Some (c, t) -> In (cm c) (members_of st).
Proof.
  intro E. unfold members_of. apply in_map_iff. exists (c, t). split; [reflexivity|].
  eapply nth_error_In. exact E.
Qed.

Lemma sorted_mid {A} (R : A -> A -> Prop) pre m post :
  StronglySorted R (pre ++ m :: post) -> Forall (R m) post.
Proof.
  induction pre as [|x pre IH]; cbn [app]; intro H.
  - apply StronglySorted_inv in H as [_ H]. exact H.
  - apply StronglySorted_inv in H as [H _]. apply IH. exact H.
Qed.

(* A4: the holder is the member with the greatest (priority, insertion index) among those that have the path *)
Theorem holder_highest : forall st cs i ci ti, mwf st = true -> holder st cs = Some i -> nth_error st i = Some (ci, ti) ->
  has st i cs = true /\
  forall j cj tj, nth_error st j = Some (cj, tj) -> has st j cs = true -> j = i \/ key_gt (cm ci) (cm cj) = true.
Proof.
  intros st cs i ci ti W H E. rewrite holder_is_multi_delegate in H.
  apply multi_delegate_first in H as (pre & m & post & Eo & Em & Hh & Hp).
  split; [exact Hh|]. intros j cj tj Ej Hj.
  assert (Im : In m (members_of st)).
  { eapply Permutation_in; [apply iterate_fs_perm|]. rewrite Eo. apply in_or_app. right. left. reflexivity. }
  apply member_nth in Im as (k & c & t & Ek & ->).
  pose proof (mwf_id _ _ _ _ W Ek) as Ik. rewrite Em in Ik. subst k.
  rewrite E in Ek. inversion Ek; subst c t. clear Ek.
  assert (Ij : In (cm cj) (pre ++ cm ci :: post)).
  { rewrite <- Eo. eapply Permutation_in; [apply Permutation_sym; apply iterate_fs_perm|].
    eapply nth_member. exact Ej. }
  pose proof (mwf_id _ _ _ _ W Ej) as Idj.
  apply in_app_or in Ij as [Ij|[Ij|Ij]].
  - exfalso. rewrite Forall_forall in Hp. specialize (Hp _ Ij). cbv beta in Hp. rewrite Idj in Hp. congruence.
  - left. rewrite <- Idj, <- Ij. exact Em.
  - right. pose proof (iterate_fs_sorted _ (mwf_nodup st W)) as S. rewrite Eo in S.
    apply sorted_mid in S. rewrite Forall_forall in S. apply S. exact Ij.
Qed.
Print Assumptions holder_highest.

Theorem holder_none : forall st cs, mwf st = true -> (holder st cs = None <-> forall j, j < length st -> has st j cs = false).
Proof.
  intros st cs W. unfold holder. rewrite find_none_iff, Forall_forall. split.
  - intros H j L. apply H. apply order_complete; assumption.
  - intros H j I. apply H. apply order_valid; assumption.
Qed.
Print Assumptions holder_none.

(* ------------------------------------------------------------------ *)
(* A5: the read rule                                                   *)
(* ------------------------------------------------------------------ *)
Lemma m_delegate_spec st p cs : mwf st = true -> rpath p = inl cs ->
  m_delegate p st = (st, Ok (holder st cs)).
Proof. intros W R. unfold m_delegate. rewrite (delegate_first_holder _ _ _ W R). reflexivity. Qed.

Lemma m_delegate_bad st p adm : mwf st = true -> st <> [] -> rpath p = inr adm ->
  m_delegate p st = (st, Err (bad_err p)).
Proof. intros W N R. unfold m_delegate. rewrite (delegate_bad_path _ _ _ W N R). reflexivity. Qed.

Lemma holder_nth st cs i : mwf st = true -> holder st cs = Some i ->
  exists c t, nth_error st i = Some (c, t) /\ tree_at st i = t.
Proof.
  intros W H. apply nth_some_of_lt. apply order_valid; [exact W|].
  unfold holder in H. apply find_some in H as [H _]. exact H.
Qed.

Lemma query_pure o p t : query_path o = Some p -> fst (mem_run o t) = t.
Proof.
  intro H. apply mem_nonmutating_pure. destruct o; try discriminate H; try reflexivity.
  cbn [query_path] in H. cbn [mutating].
  destruct (mode_valid_bin mode && negb (m_writing mode)) eqn:E; [|discriminate].
  apply andb_true_iff in E as [_ E]. apply negb_true_iff in E. exact E.
Qed.

Lemma vmap_query {A} (g : A -> value) p cs (none : M mstate A) (f : MM A) st :
  mwf st = true -> rpath p = inl cs -> (forall t, fst (f t) = t) ->
  vmap g (multi_query p none f) st =
  match holder st cs with
  | Some i => (st, snd (vmap g f (tree_at st i)))
  | None => vmap g none st
  end.
Proof.
  intros W R P. unfold multi_query, vmap, mbind. rewrite (m_delegate_spec _ _ _ W R).
  destruct (holder st cs) as [i|] eqn:H; [|reflexivity].
  destruct (holder_nth _ _ _ W H) as (c & t & E & T). rewrite T.
  rewrite (on_nth_query _ _ _ _ _ E (P t)). specialize (P t).
  destruct (f t) as [t' [a|e|k]]; reflexivity.
Qed.

Lemma normpath_inl p cs : rpath p = inl cs -> exists n, normpath p = Ok n /\ abspath n = to_path true cs.
Proof.
  intro R. pose proof (validate_inl _ _ empty_dir R) as V. apply rpath_inl in R as [R1 _].
  unfold mem_validatepath in V. rewrite R1 in V. unfold mbind, lift, ret in V.
  destruct (normpath p) as [n|e|k]; try discriminate V.
  exists n. split; [reflexivity|]. inversion V. reflexivity.
Qed.

Lemma multi_getinfo_spec st p cs : mwf st = true -> rpath p = inl cs ->
  multi_getinfo p st = (st, match holder st cs with
                            | Some i => snd (mem_getinfo p (tree_at st i))
                            | None => Err ResourceNotFound
                            end).
Proof.
  intros W R. unfold multi_getinfo, mbind. rewrite (m_delegate_spec _ _ _ W R).
  destruct (holder st cs) as [i|] eqn:H; [|reflexivity].
  destruct (holder_nth _ _ _ W H) as (c & t & E & T). rewrite T.
  destruct (normpath_inl _ _ R) as (n & En & Ea). unfold lift. rewrite En, Ea.
  pose proof (rpath_nf _ (rpath_vp _ _ R)) as R'.
  rewrite (on_nth_query _ _ _ _ _ E).
  - rewrite (mem_getinfo_spec _ _ t R'), (mem_getinfo_spec _ _ t R). reflexivity.
  - rewrite (mem_getinfo_spec _ _ t R'). reflexivity.
Qed.

Lemma mode_valid_of_bin m : mode_valid_bin m = true -> mode_valid m = true.
Proof. unfold mode_valid_bin. intro H. apply andb_true_iff in H as [H _]. exact H. Qed.

Lemma m_delegate_required_spec st p cs : mwf st = true -> rpath p = inl cs ->
  m_delegate_required p st = (st, match holder st cs with Some i => Ok i | None => Err ResourceNotFound end).
Proof.
  intros W R. unfold m_delegate_required, mbind. rewrite (m_delegate_spec _ _ _ W R).
  destruct (holder st cs); reflexivity.
Qed.

(* A5: THE READ RULE. every point query is answered by the highest-priority member that has the path, nothing changes *)
Theorem multi_read_rule : forall o p cs st, mwf st = true -> query_path o = Some p -> rpath p = inl cs ->
  multi_run o st = (st, match holder st cs with
                        | Some i => snd (mem_run o (tree_at st i))
                        | None => notfound o
                        end).
Proof.
  intros o p cs st W Q R.
  destruct o; try discriminate Q; cbn [query_path] in Q.
  - (* getinfo *) inversion Q; subst p0. cbn [multi_run mem_run notfound].
    unfold vmap at 1. unfold mbind. rewrite (multi_getinfo_spec _ _ _ W R).
    destruct (holder st cs) as [i|]; [|reflexivity].
    unfold vmap, mbind, ret. rewrite (mem_getinfo_spec _ _ (tree_at st i) R).
    destruct (lookup (tree_at st i) cs); reflexivity.
  - (* readbytes *) inversion Q; subst p0. cbn [multi_run mem_run notfound]. unfold multi_readbytes.
    rewrite (vmap_query _ _ _ _ _ _ W R); [destruct (holder st cs); reflexivity|].
    intro t. apply (mem_query_pure p t).
  - (* openread *)
    destruct (mode_valid_bin mode && negb (m_writing mode)) eqn:E; [|discriminate].
    inversion Q; subst p0. apply andb_true_iff in E as [E1 E2]. apply negb_true_iff in E2.
    cbn [multi_run notfound]. unfold multi_pick. rewrite (mode_valid_of_bin _ E1), E2. cbn [negb].
    unfold mbind. rewrite (m_delegate_required_spec _ _ _ W R).
    destruct (holder st cs) as [i|] eqn:H; [|reflexivity].
    destruct (holder_nth _ _ _ W H) as (c & t & En & T). rewrite T.
    apply (on_nth_query _ _ _ _ _ En). apply (query_pure _ p). cbn [query_path]. rewrite E1, E2. reflexivity.
  - (* exists *) inversion Q; subst p0. cbn [multi_run mem_run notfound].
    unfold b_exists at 1. cbn [l_getinfo multi_low]. unfold vmap at 1. unfold catch, mbind.
    rewrite (multi_getinfo_spec _ _ _ W R).
    destruct (holder st cs) as [i|]; [|reflexivity].
    unfold vmap, mbind, ret, mem_exists. rewrite (mem_exists_spec _ _ (tree_at st i) R).
    rewrite (mem_getinfo_spec _ _ (tree_at st i) R).
    destruct (lookup (tree_at st i) cs); reflexivity.
  - (* isdir *) inversion Q; subst p0. cbn [multi_run mem_run notfound]. unfold multi_isdir.
    rewrite (vmap_query _ _ _ _ _ _ W R); [destruct (holder st cs); reflexivity|].
    intro t. apply (mem_query_pure p t).
  - (* isfile *) inversion Q; subst p0. cbn [multi_run mem_run notfound]. unfold multi_isfile.
    rewrite (vmap_query _ _ _ _ _ _ W R); [destruct (holder st cs); reflexivity|].
    intro t. apply (mem_query_pure p t).
  - (* getsize *) inversion Q; subst p0. cbn [multi_run mem_run notfound]. unfold multi_getsize.
    rewrite (vmap_query _ _ _ _ _ _ W R); [destruct (holder st cs); reflexivity|].
    intro t. apply (mem_query_pure p t).
  - (* gettype *) inversion Q; subst p0. cbn [multi_run mem_run notfound]. unfold multi_gettype.
    rewrite (vmap_query _ _ _ _ _ _ W R); [destruct (holder st cs); reflexivity|].
    intro t. apply (mem_query_pure p t).
Qed.
Print Assumptions multi_read_rule.

(* A6 *)
Theorem multi_read_bad_path : forall o p adm st, mwf st = true -> st <> [] -> query_path o = Some p -> rpath p = inr adm ->
  multi_run o st = (st, Err (bad_err p)).
Proof.
  intros o p adm st W N Q R.
  assert (MQ : forall A (g : A -> value) (none : M mstate A) (f : MM A),
             vmap g (multi_query p none f) st = (st, Err (bad_err p))).
  { intros A g none f. unfold multi_query, vmap, mbind. rewrite (m_delegate_bad _ _ _ W N R). reflexivity. }
  assert (GI : multi_getinfo p st = (st, Err (bad_err p))).
  { unfold multi_getinfo, mbind. rewrite (m_delegate_bad _ _ _ W N R). reflexivity. }
  destruct o; try discriminate Q; cbn [query_path] in Q.
  - inversion Q; subst p0. cbn [multi_run]. unfold vmap, mbind. rewrite GI. reflexivity.
  - inversion Q; subst p0. cbn [multi_run]. apply MQ.
  - destruct (mode_valid_bin mode && negb (m_writing mode)) eqn:E; [|discriminate].
    inversion Q; subst p0. apply andb_true_iff in E as [E1 E2]. apply negb_true_iff in E2.
    cbn [multi_run]. unfold multi_pick. rewrite (mode_valid_of_bin _ E1), E2. cbn [negb].
    unfold m_delegate_required, mbind. rewrite (m_delegate_bad _ _ _ W N R). reflexivity.
  - inversion Q; subst p0. cbn [multi_run]. unfold b_exists. cbn [l_getinfo multi_low].
    unfold vmap, catch, mbind. rewrite GI. rewrite bad_err_not_rnf. reflexivity.
  - inversion Q; subst p0. cbn [multi_run]. apply MQ.
  - inversion Q; subst p0. cbn [multi_run]. apply MQ.
  - inversion Q; subst p0. cbn [multi_run]. apply MQ.
  - inversion Q; subst p0. cbn [multi_run]. apply MQ.
Qed.
Print Assumptions multi_read_bad_path.

(* ------------------------------------------------------------------ *)
(* A7: listings                                                        *)
(* ------------------------------------------------------------------ *)
Definition dir_keys (st : mstate) (cs : list str) (j : nat) : list str :=
  match lookup (tree_at st j) cs with Some (Dir ents _) => keys ents | _ => [] end.
Definition dir_infos (st : mstate) (cs : list str) (j : nat) : list info :=
  match lookup (tree_at st j) cs with Some (Dir ents _) => map (fun kn => to_info (fst kn) (snd kn)) ents | _ => [] end.
Definition listing_of {A} (st : mstate) (cs : list str) (k : list nat -> A) : outcome A :=
  match holder st cs with
  | None => Err ResourceNotFound
  | Some i => match lookup (tree_at st i) cs with
              | Some (File _ _) => Err DirectoryExpected
              | _ => Ok (k (order st))
              end
  end.

(* the generic loop: [one] is a member's listing of the resolved path, [fin] the final de-duplication *)
Definition loop_result {B} (st : mstate) (cs : list str) (one : nat -> list B) (fin : list B -> list B)
           (ids : list nat) (acc : list B) (ex : bool) : outcome (list B) :=
  if ex then Ok (fin (acc ++ concat (map one ids)))
  else match find (fun i => has st i cs) ids with
       | None => Err ResourceNotFound
       | Some i => match lookup (tree_at st i) cs with
                   | Some (File _ _) => Err DirectoryExpected
                   | _ => Ok (fin (acc ++ concat (map one ids)))
                   end
       end.

Lemma listdir_loop_spec st p cs : rpath p = inl cs -> forall ids acc ex,
  (forall i, In i ids -> i < length st) ->
  listdir_loop ids p st acc ex = loop_result st cs (dir_keys st cs) (dedup_add []) ids acc ex.
Proof.
  intros R ids. induction ids as [|a r IH]; intros acc ex V.
  - unfold loop_result. cbn [listdir_loop map concat find]. rewrite app_nil_r. destruct ex; reflexivity.
  - cbn [listdir_loop].
    destruct (nth_some_of_lt st a (V a (or_introl eq_refl))) as (c & t & E & T).
    assert (V' : forall i, In i r -> i < length st) by (intros i I; apply V; right; exact I).
    unfold ask. rewrite E. rewrite (mem_listdir_spec _ _ t R). cbn [snd].
    assert (Hh : has st a cs = match lookup t cs with Some _ => true | None => false end)
      by (unfold has; rewrite E; reflexivity).
    assert (Hk : dir_keys st cs a = match lookup t cs with Some (Dir ents _) => keys ents | _ => [] end)
      by (unfold dir_keys; rewrite T; reflexivity).
    unfold loop_result. cbn [map concat find]. rewrite Hh, Hk.
    destruct (lookup t cs) as [[d m|ents m]|] eqn:L.
    + (* a file *) destruct ex.
      * rewrite (IH acc true V'). unfold loop_result. reflexivity.
      * rewrite T, L. reflexivity.
    + (* a directory *) rewrite (IH (acc ++ keys ents) true V'). unfold loop_result.
      rewrite <- app_assoc. destruct ex; [reflexivity|]. rewrite T, L. reflexivity.
    + (* missing *) rewrite (IH acc ex V'). unfold loop_result. reflexivity.
Qed.

Lemma scandir_loop_spec st p cs : rpath p = inl cs -> forall ids acc ex,
  (forall i, In i ids -> i < length st) ->
  scandir_loop ids p st acc ex = loop_result st cs (dir_infos st cs) (dedup_infos []) ids acc ex.
Proof.
  intros R ids. induction ids as [|a r IH]; intros acc ex V.
  - unfold loop_result. cbn [scandir_loop map concat find]. rewrite app_nil_r. destruct ex; reflexivity.
  - cbn [scandir_loop].
    destruct (nth_some_of_lt st a (V a (or_introl eq_refl))) as (c & t & E & T).
    assert (V' : forall i, In i r -> i < length st) by (intros i I; apply V; right; exact I).
    unfold ask. rewrite E. rewrite (mem_scandir_spec _ _ t R). cbn [snd].
    assert (Hh : has st a cs = match lookup t cs with Some _ => true | None => false end)
      by (unfold has; rewrite E; reflexivity).
    assert (Hk : dir_infos st cs a = match lookup t cs with
                                     | Some (Dir ents _) => map (fun kn => to_info (fst kn) (snd kn)) ents
                                     | _ => [] end)
      by (unfold dir_infos; rewrite T; reflexivity).
    unfold loop_result. cbn [map concat find]. rewrite Hh, Hk.
    destruct (lookup t cs) as [[d m|ents m]|] eqn:L.
    + destruct ex.
      * rewrite (IH acc true V'). unfold loop_result. reflexivity.
      * rewrite T, L. reflexivity.
    + rewrite (IH (acc ++ map (fun kn => to_info (fst kn) (snd kn)) ents) true V'). unfold loop_result.
      rewrite <- app_assoc. destruct ex; [reflexivity|]. rewrite T, L. reflexivity.
    + rewrite (IH acc ex V'). unfold loop_result. reflexivity.
Qed.

Lemma loop_result_top {A B} st cs (one : nat -> list B) fin (k : list B -> A) :
  omap k (loop_result st cs one fin (order st) [] false)
  = listing_of st cs (fun ids => k (fin (concat (map one ids)))).
Proof.
  unfold loop_result, listing_of, holder. cbn [app].
  destruct (find (fun i => has st i cs) (order st)) as [i|]; [|reflexivity].
  destruct (lookup (tree_at st i) cs) as [[|]|]; reflexivity.
Qed.

Lemma omap_id {A} (o : outcome A) : omap (fun l => l) o = o.
Proof. destruct o; reflexivity. Qed.

Theorem multi_listdir_spec : forall p cs st, mwf st = true -> rpath p = inl cs ->
  multi_run (OListdir p) st = (st, listing_of st cs (fun ids => VNames (dedup_add [] (concat (map (dir_keys st cs) ids))))).
Proof.
  intros p cs st W R. cbn [multi_run]. unfold multi_listdir, vmap, mbind, ret.
  rewrite (listdir_loop_spec _ _ _ R) by (intros i I; apply order_valid; assumption).
  rewrite <- loop_result_top.
  destruct (loop_result st cs (dir_keys st cs) (dedup_add []) (order st) [] false); reflexivity.
Qed.
Print Assumptions multi_listdir_spec.

Lemma multi_scandir_snd p cs st : mwf st = true -> rpath p = inl cs ->
  multi_scandir p st = (st, loop_result st cs (dir_infos st cs) (dedup_infos []) (order st) [] false).
Proof.
  intros W R. unfold multi_scandir, multi_scandir_page. unfold page_slice. rewrite omap_id.
  rewrite (scandir_loop_spec _ _ _ R) by (intros i I; apply order_valid; assumption). reflexivity.
Qed.

Theorem multi_scandir_spec : forall p cs st, mwf st = true -> rpath p = inl cs ->
  multi_run (OScandir p) st = (st, listing_of st cs (fun ids => VInfos (dedup_infos [] (concat (map (dir_infos st cs) ids))))).
Proof.
  intros p cs st W R. cbn [multi_run]. unfold vmap, mbind. rewrite (multi_scandir_snd _ _ _ W R).
  rewrite <- loop_result_top.
  destruct (loop_result st cs (dir_infos st cs) (dedup_infos []) (order st) [] false); reflexivity.
Qed.
Print Assumptions multi_scandir_spec.

Lemma dedup_infos_nil_iff l : match dedup_infos [] l with [] => true | _ => false end = match l with [] => true | _ => false end.
Proof. destruct l as [|i r]; reflexivity. Qed.

Theorem multi_isempty_spec : forall p cs st, mwf st = true -> rpath p = inl cs ->
  multi_run (OIsempty p) st = (st, listing_of st cs (fun ids => VBool (match concat (map (dir_infos st cs) ids) with [] => true | _ => false end))).
Proof.
  intros p cs st W R. cbn [multi_run]. unfold b_isempty. cbn [l_scandir multi_low].
  unfold vmap, mbind. rewrite (multi_scandir_snd _ _ _ W R).
  transitivity (st, omap (fun l : list info => VBool (match l with [] => true | _ => false end))
                         (loop_result st cs (dir_infos st cs) (dedup_infos []) (order st) [] false)).
  { destruct (loop_result st cs (dir_infos st cs) (dedup_infos []) (order st) [] false); reflexivity. }
  rewrite loop_result_top. unfold listing_of.
  destruct (holder st cs) as [i|]; [|reflexivity].
  destruct (lookup (tree_at st i) cs) as [[|]|]; try reflexivity; rewrite dedup_infos_nil_iff; reflexivity.
Qed.
Print Assumptions multi_isempty_spec.

(* ------------------------------------------------------------------ *)
(* A8: de-duplication, completeness, paging                            *)
(* ------------------------------------------------------------------ *)
Theorem multi_listdir_nodup_complete : forall p cs st l, mwf st = true -> rpath p = inl cs ->
  snd (multi_run (OListdir p) st) = Ok (VNames l) ->
  NoDup l /\ forall n, In n l <-> exists j, In j (order st) /\ In n (dir_keys st cs j).
Proof.
  intros p cs st l W R H. rewrite (multi_listdir_spec _ _ _ W R) in H. cbn [snd] in H.
  unfold listing_of in H. destruct (holder st cs) as [i|]; [|discriminate].
  assert (E : l = dedup_add [] (concat (map (dir_keys st cs) (order st)))).
  { destruct (lookup (tree_at st i) cs) as [[|]|]; try discriminate; inversion H; reflexivity. }
  subst l. split.
  - apply dedup_add_nodup. constructor.
  - intro n. rewrite dedup_add_in, in_concat. split.
    + intros [[]|(x & Hx & Hn)]. apply in_map_iff in Hx as (j & <- & Hj). exists j. split; assumption.
    + intros (j & Hj & Hn). right. exists (dir_keys st cs j). split; [|exact Hn]. apply in_map. exact Hj.
Qed.
Print Assumptions multi_listdir_nodup_complete.

Theorem multi_scandir_page_slice : forall p s e st,
  multi_scandir_page p (Some (s, e)) st = (st, omap (fun l => firstn (e - s) (skipn s l)) (snd (multi_scandir p st))).
Proof.
  intros p s e st. unfold multi_scandir, multi_scandir_page. cbn [snd]. unfold page_slice.
  destruct (scandir_loop (order st) p st [] false); reflexivity.
Qed.
Print Assumptions multi_scandir_page_slice.

(* ------------------------------------------------------------------ *)
(* A9: the union tree                                                  *)
(* ------------------------------------------------------------------ *)
Definition ugo (e2 : list (str * node)) : list (str * node) -> list (str * node) :=
  fix go (l : list (str * node)) : list (str * node) :=
    match l with
    | [] => []
    | (k, n) :: r => (k, match assoc k e2 with Some n2 => union2 n n2 | None => n end) :: go r
    end.

Definition cgo (e2 : list (str * node)) : list (str * node) -> bool :=
  fix go (l : list (str * node)) : bool :=
    match l with
    | [] => true
    | (k, n) :: r => match assoc k e2 with Some n2 => compat n n2 | None => true end && go r
    end.

Definition only_lo (e1 : list (str * node)) (kn : str * node) : bool :=
  match assoc (fst kn) e1 with Some _ => false | None => true end.

Lemma union2_dir e1 m1 e2 m2 :
  union2 (Dir e1 m1) (Dir e2 m2) = Dir (ugo e2 e1 ++ filter (only_lo e1) e2) m1.
Proof. reflexivity. Qed.

Lemma compat_dir e1 m1 e2 m2 : compat (Dir e1 m1) (Dir e2 m2) = cgo e2 e1.
Proof. reflexivity. Qed.

Lemma ugo_cons e2 k n r :
  ugo e2 ((k, n) :: r) = (k, match assoc k e2 with Some n2 => union2 n n2 | None => n end) :: ugo e2 r.
Proof. reflexivity. Qed.

Lemma cgo_cons e2 k n r :
  cgo e2 ((k, n) :: r) = match assoc k e2 with Some n2 => compat n n2 | None => true end && cgo e2 r.
Proof. reflexivity. Qed.

Lemma assoc_ugo e2 e1 c :
  assoc c (ugo e2 e1) =
  match assoc c e1 with
  | Some n => Some (match assoc c e2 with Some n2 => union2 n n2 | None => n end)
  | None => None
  end.
Proof.
  induction e1 as [|[k n] r IH]; [reflexivity|]. rewrite ugo_cons. cbn [assoc].
  destruct (str_eqb c k) eqn:E; [|exact IH]. apply str_eqb_eq in E. subst k. reflexivity.
Qed.

Lemma cgo_assoc e2 e1 c n n2 :
  cgo e2 e1 = true -> assoc c e1 = Some n -> assoc c e2 = Some n2 -> compat n n2 = true.
Proof.
  induction e1 as [|[k x] r IH]; intros C A1 A2; [discriminate|].
  rewrite cgo_cons in C. apply andb_true_iff in C as [C1 C2]. cbn [assoc] in A1.
  destruct (str_eqb c k) eqn:E.
  - apply str_eqb_eq in E. subst k. inversion A1; subst x. rewrite A2 in C1. exact C1.
  - apply IH; assumption.
Qed.

Lemma assoc_app {A} c (a b : list (str * A)) :
  assoc c (a ++ b) = match assoc c a with Some v => Some v | None => assoc c b end.
Proof.
  induction a as [|[k v] r IH]; [reflexivity|]. cbn [app assoc]. destruct (str_eqb c k); [reflexivity|exact IH].
Qed.

Lemma assoc_filter_only_lo e1 e2 c : assoc c e1 = None -> assoc c (filter (only_lo e1) e2) = assoc c e2.
Proof.
  intro N. induction e2 as [|[k n] r IH]; [reflexivity|]. cbn [filter]. unfold only_lo at 1. cbn [fst].
  destruct (str_eqb c k) eqn:E.
  - pose proof E as E'. apply str_eqb_eq in E'. subst k. rewrite N. cbn [assoc]. rewrite E. reflexivity.
  - destruct (assoc k e1); cbn [assoc]; rewrite ?E; exact IH.
Qed.

(* the hypotheses wf_node are not needed *)
Lemma lookup_union2_nowf : forall cs hi lo, compat hi lo = true ->
  lookup (union2 hi lo) cs =
  match lookup hi cs, lookup lo cs with
  | Some h, Some l => Some (union2 h l)
  | Some h, None => Some h
  | None, o => o
  end.
Proof.
  induction cs as [|c rest IH]; intros hi lo C; [reflexivity|].
  destruct hi as [d1 m1|e1 m1], lo as [d2 m2|e2 m2]; try discriminate C; [reflexivity|].
  rewrite union2_dir. rewrite compat_dir in C. cbn [lookup]. rewrite assoc_app, assoc_ugo.
  destruct (assoc c e1) as [n|] eqn:A1.
  - destruct (assoc c e2) as [n2|] eqn:A2.
    + apply IH. eapply cgo_assoc; eassumption.
    + destruct (lookup n rest); reflexivity.
  - rewrite (assoc_filter_only_lo _ _ _ A1). destruct (assoc c e2); reflexivity.
Qed.

Theorem lookup_union2 : forall hi lo cs, wf_node hi -> wf_node lo -> compat hi lo = true ->
  lookup (union2 hi lo) cs =
  match lookup hi cs, lookup lo cs with
  | Some h, Some l => Some (union2 h l)
  | Some h, None => Some h
  | None, o => o
  end.
Proof. intros hi lo cs _ _ C. apply lookup_union2_nowf. exact C. Qed.
Print Assumptions lookup_union2.

(* what a point query looks at in the node it finds *)
Definition view (n : node) : bool * nat * option Z * option bytes :=
  (is_dir n, node_size n, node_mt n, match n with File d _ => Some d | Dir _ _ => None end).

Lemma view_union2 h l : view (union2 h l) = view h.
Proof.
  destruct h as [d m|e1 m1]; [reflexivity|]. destruct l as [d2 m2|e2 m2]; [reflexivity|].
  rewrite union2_dir. reflexivity.
Qed.

Definition rd_ans (r : bool) (cs : list str) (v : option (bool * nat * option Z * option bytes)) : outcome value :=
  match cs with
  | [] => Err FileExpected
  | _ => match v with
         | Some (_, _, _, Some data) => Ok (if r then VBytes data else VUnit)
         | Some (_, _, _, None) => Err FileExpected
         | None => Err ResourceNotFound
         end
  end.

(* the answer of a MemoryFS point query as a function of the view of the node at the path *)
Definition ans (o : op) (cs : list str) (v : option (bool * nat * option Z * option bytes)) : outcome value :=
  match o with
  | OGetinfo _ =>
    match v with
    | Some (d, sz, mt, _) => Ok (VInfo {| i_name := last cs []; i_isdir := d; i_size := sz; i_mt := mt |})
    | None => Err ResourceNotFound
    end
  | OExists _ => Ok (VBool (match v with Some _ => true | None => false end))
  | OIsdir _ => Ok (VBool (match v with Some (d, _, _, _) => d | None => false end))
  | OIsfile _ => Ok (VBool (match v with Some (d, _, _, _) => negb d | None => false end))
  | OGetsize _ => match v with Some (_, sz, _, _) => Ok (VNat sz) | None => Err ResourceNotFound end
  | OGettype _ => match v with Some (d, _, _, _) => Ok (VNat (if d then 1 else 2)) | None => Err ResourceNotFound end
  | OReadbytes _ => rd_ans true cs v
  | OOpenread _ m => rd_ans (m_reading m) cs v
  | _ => Err ResourceNotFound
  end.

Lemma openread_ans p cs m t : rpath p = inl cs -> mode_valid_bin m = true -> m_writing m = false ->
  snd (mem_run (OOpenread p m) t) = rd_ans (m_reading m) cs (option_map view (lookup t cs)).
Proof.
  intros R V Wr. destruct (not_writing_parts m Wr) as (Hc & Ht & Ha). cbn [mem_run]. unfold mbind.
  destruct (list_snoc_case cs) as [->|[d [c ->]]].
  - rewrite (mem_open_root _ _ t R V). reflexivity.
  - unfold rd_ans. destruct (d ++ [c]) eqn:E; [destruct d; discriminate|]. rewrite <- E in *.
    rewrite (mem_open_snoc _ _ _ _ t R V), Hc. cbn [andb]. rewrite lookup_snoc.
    destruct (lookup t d) as [[|ents mt]|] eqn:Ld; try reflexivity.
    destruct (assoc c ents) as [[data mt2|e2 mt2]|] eqn:Ac; try reflexivity.
    unfold open_init. rewrite Ht, Ha. cbn [fst snd option_map view].
    destruct (m_reading m); [|reflexivity].
    unfold get. rewrite lookup_snoc, Ld, Ac. reflexivity.
Qed.

Lemma run_ans o p cs t : query_path o = Some p -> rpath p = inl cs ->
  snd (mem_run o t) = ans o cs (option_map view (lookup t cs)).
Proof.
  intros Q R. destruct o; try discriminate Q; cbn [query_path] in Q.
  - inversion Q; subst p0. cbn [mem_run ans]. unfold vmap, mbind, ret. rewrite (mem_getinfo_spec _ _ t R).
    destruct (lookup t cs) as [n|]; reflexivity.
  - inversion Q; subst p0. rewrite readbytes_as_openread. cbn [ans].
    apply (openread_ans p cs m_rb t R); reflexivity.
  - destruct (mode_valid_bin mode && negb (m_writing mode)) eqn:E; [|discriminate].
    inversion Q; subst p0. apply andb_true_iff in E as [E1 E2]. apply negb_true_iff in E2.
    cbn [ans]. apply openread_ans; assumption.
  - inversion Q; subst p0. cbn [mem_run ans]. unfold vmap, mbind, ret, mem_exists. rewrite (mem_exists_spec _ _ t R).
    destruct (lookup t cs) as [n|]; reflexivity.
  - inversion Q; subst p0. cbn [mem_run ans]. unfold vmap, mbind, ret. rewrite (mem_isdir_spec _ _ t R).
    destruct (lookup t cs) as [n|]; reflexivity.
  - inversion Q; subst p0. cbn [mem_run ans]. unfold vmap, mbind, ret. rewrite (mem_isfile_spec _ _ t R).
    destruct (lookup t cs) as [n|]; reflexivity.
  - inversion Q; subst p0. cbn [mem_run ans]. unfold vmap, mbind, ret. rewrite (mem_getsize_spec _ _ t R).
    destruct (lookup t cs) as [n|]; reflexivity.
  - inversion Q; subst p0. cbn [mem_run ans]. unfold vmap, mbind, ret. rewrite (mem_gettype_spec _ _ t R).
    destruct (lookup t cs) as [n|]; reflexivity.
Qed.

Lemma ans_none o p cs : query_path o = Some p -> cs <> [] -> ans o cs None = notfound o.
Proof.
  intros Q N. destruct o; try discriminate Q; try reflexivity; cbn [ans notfound]; unfold rd_ans;
    destruct cs; congruence.
Qed.

(* a MultiFS of two members whose trees are compatible (no path is a file in one and a directory in
   the other) answers EVERY point query (getinfo, exists, isdir, isfile, getsize, gettype, readbytes,
   open for reading) as the MemoryFS holding the priority-merged union tree does *)
Theorem multi_read_is_union : forall o p cs st a b, mwf st = true -> order st = [a; b] ->
  compat (tree_at st a) (tree_at st b) = true -> query_path o = Some p -> rpath p = inl cs ->
  snd (multi_run o st) = snd (mem_run o (union st)).
Proof.
  intros o p cs st a b W Ho C Q R. rewrite (multi_read_rule _ _ _ _ W Q R). cbn [snd].
  unfold union, holder. rewrite Ho. cbn [map union_list find].
  pose proof (lookup_union2_nowf cs _ _ C) as LU.
  assert (Ha : a < length st) by (apply order_valid; [exact W|rewrite Ho; left; reflexivity]).
  assert (Hb : b < length st) by (apply order_valid; [exact W|rewrite Ho; right; left; reflexivity]).
  destruct (nth_some_of_lt st a Ha) as (ca & ta & Ea & Ta).
  destruct (nth_some_of_lt st b Hb) as (cb & tb & Eb & Tb).
  unfold has. rewrite Ea, Eb. rewrite Ta, Tb in *.
  rewrite (run_ans o p cs (union2 ta tb) Q R), LU.
  destruct (lookup ta cs) as [h|] eqn:La.
  - rewrite Ta. rewrite (run_ans o p cs ta Q R), La.
    destruct (lookup tb cs); cbn [option_map]; rewrite ?view_union2; reflexivity.
  - destruct (lookup tb cs) as [l|] eqn:Lb.
    + rewrite Tb. rewrite (run_ans o p cs tb Q R), Lb. reflexivity.
    + cbn [option_map]. symmetry. apply (ans_none o p cs Q). intro E. subst cs. discriminate La.
Qed.
Print Assumptions multi_read_is_union.

(* ------------------------------------------------------------------ *)
(* Examples (states of Route/CompositeEx.v)                            *)
(* ------------------------------------------------------------------ *)
From Coq Require Import String.
From PyFS Require Import Base.Render.
Local Open Scope string_scope. Local Open Scope list_scope.

(* A5: "a/x" is in both members; the high-priority member 1 answers *)
Example read_rule_hi : multi_run (OReadbytes (p "a/x")) ex_multi = (ex_multi, Ok (VBytes (lit "hi-x")))
  /\ holder ex_multi [lit "a"; lit "x"] = Some 1
  /\ snd (mem_run (OReadbytes (p "a/x")) ex_lo) = Ok (VBytes (lit "lo-x")).
Proof. vm_compute. repeat split; reflexivity. Qed.

(* equal priorities: the member added last (1) answers *)
Example read_rule_eq : multi_run (OReadbytes (p "a/x")) ex_multi_eq = (ex_multi_eq, Ok (VBytes (lit "hi-x")))
  /\ holder ex_multi_eq [lit "a"; lit "x"] = Some 1 /\ order ex_multi_eq = [1; 0].
Proof. vm_compute. repeat split; reflexivity. Qed.

(* only the low member has "w": member 0 answers *)
Example read_rule_lo : multi_run (OReadbytes (p "w")) ex_multi = (ex_multi, Ok (VBytes (lit "w")))
  /\ holder ex_multi [lit "w"] = Some 0.
Proof. vm_compute. repeat split; reflexivity. Qed.

Example read_rule_none : multi_run (OReadbytes (p "nope")) ex_multi = (ex_multi, Err ResourceNotFound)
  /\ multi_run (OExists (p "nope")) ex_multi = (ex_multi, Ok (VBool false)).
Proof. vm_compute. repeat split; reflexivity. Qed.

(* A6 *)
Example read_bad_path_ex : multi_run (OGetinfo (p "../x")) ex_multi = (ex_multi, Err IllegalBackReference).
Proof. vm_compute. reflexivity. Qed.

(* A7: hi's names first, each name once *)
Example listdir_union_ex : multi_run (OListdir (p "a")) ex_multi = (ex_multi, Ok (VNames [lit "x"; lit "z"; lit "y"])).
Proof. vm_compute. reflexivity. Qed.

(* the high-priority member has a FILE "a": the directory "a" of the low member is hidden *)
Example listdir_clash_file_first : multi_run (OListdir (p "a")) ex_clash = (ex_clash, Err DirectoryExpected).
Proof. vm_compute. reflexivity. Qed.

(* the low member's FILE "b" is ignored below the directory "b" of the high one *)
Example listdir_clash_dir_first : multi_run (OListdir (p "b")) ex_clash = (ex_clash, Ok (VNames [lit "k"])).
Proof. vm_compute. reflexivity. Qed.

Example scandir_page_ex :
  snd (multi_scandir_page (p "a") (Some (1, 3)) ex_multi)
  = Ok [to_info (lit "z") (xf "hi-z"); to_info (lit "y") (xf "lo-y")].
Proof. vm_compute. reflexivity. Qed.

(* A9: on ex_clash a FILE of the high-priority member lies above a directory of the low one: "a/x" exists
   although "a" is a file - no tree can express this, which is why compat is assumed *)
Example ghost_path_ce :
  snd (multi_run (OExists (p "a/x")) ex_clash) = Ok (VBool true)
  /\ snd (multi_run (OIsfile (p "a")) ex_clash) = Ok (VBool true)
  /\ snd (mem_run (OExists (p "a/x")) (union ex_clash)) = Ok (VBool false)
  /\ compat (tree_at ex_clash 1) (tree_at ex_clash 0) = false.
Proof. vm_compute. repeat split; reflexivity. Qed.

Example read_is_union_ex :
  order ex_multi = [1; 0] /\ compat (tree_at ex_multi 1) (tree_at ex_multi 0) = true
  /\ snd (multi_run (OGetinfo (p "a")) ex_multi) = snd (mem_run (OGetinfo (p "a")) (union ex_multi))
  /\ snd (mem_run (OListdir (p "a")) (union ex_multi)) = Ok (VNames [lit "x"; lit "z"; lit "y"]).
Proof. vm_compute. repeat split; reflexivity. Qed.
