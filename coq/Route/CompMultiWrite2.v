(* MultiFS two-path calls: "behaves like the write member alone", copy-up, the frame of the removing calls. *)
From Coq Require Import String.
From Coq Require Import List NArith ZArith Bool Arith Lia Permutation Sorting.
From PyFS Require Import Base.PyStr Base.Outcome Path.PathModel Path.PathSpec Path.PathProofs FS.Tree FS.Monad FS.Mode FS.Base FS.Mem FS.Ops FS.Ref
     FS.Agree FS.Wf FS.TreeLemmas FS.RefineLemmas FS.RefineProofs Route.Route Route.RouteProofs Route.Composite Route.CompositeLemmas Route.CompositeEx
     Route.CompMultiOne Route.CompMultiWrite.
Import ListNotations.

(* ------------------------------------------------------------------ *)
(* G3: the frame of remove / removedir                                 *)
(* ------------------------------------------------------------------ *)
Theorem multi_remove_frame : forall p cs st, mwf st = true -> rpath p = inl cs ->
  frame_but (holder st cs) st (fst (multi_run (ORemove p) st)).
Proof.
  intros p0 cs st W R. rewrite (multi_remove_first_holder _ _ _ W R).
  destruct (holder st cs) as [i|]; [apply on_nth_frame|apply frame_refl].
Qed.
Print Assumptions multi_remove_frame.

Theorem multi_removedir_frame : forall p cs st, mwf st = true -> rpath p = inl cs ->
  frame_but (holder st cs) st (fst (multi_run (ORemovedir p) st)).
Proof.
  intros p0 cs st W R. rewrite (multi_removedir_first_holder _ _ _ W R).
  destruct (holder st cs) as [i|]; [apply on_nth_frame|apply frame_refl].
Qed.
Print Assumptions multi_removedir_frame.

(* ------------------------------------------------------------------ *)
(* simulation by the write member when the other members lack the paths *)
(* ------------------------------------------------------------------ *)
Lemma on_nth_pure {C A} i (m : MM A) (st : list (C * node)) c t o :
  nth_error st i = Some (c, t) -> m t = (t, o) -> on_nth i m st = (st, o).
Proof. intros E H. rewrite (on_nth_query _ _ _ _ _ E); rewrite H; reflexivity. Qed.

Lemma on_nth_const {C A} i (o : outcome A) (st : list (C * node)) : i < length st ->
  on_nth i (fun t => (t, o)) st = (st, o).
Proof.
  intro Lt. destruct (nth_error_some_lt st i Lt) as [[c t] E]. apply (on_nth_pure _ _ _ _ _ _ E). reflexivity.
Qed.

Section Alone.
  Variable w : nat.

  Definition alone (st : mstate) (c : list str) : Prop := forall i, i <> w -> has st i c = false.

  Definition AInv (cs cd : list str) (st : mstate) : Prop :=
    mwf st = true /\ write_index st = Some w /\ alone st cs /\ alone st cd.

  Lemma on_nth_has_other {A} (m : MM A) (st : mstate) i c : i <> w ->
    has (fst (on_nth w m st)) i c = has st i c.
  Proof.
    intro N. unfold on_nth. destruct (nth_error st w) as [[c0 t]|] eqn:E; [|reflexivity].
    destruct (m t) as [t' o]. cbn [fst]. unfold has.
    rewrite nth_error_set_nth_neq; [reflexivity|]. intro H. apply N. symmetry. exact H.
  Qed.

  Lemma AInv_on_nth {A} cs cd (m : MM A) st : AInv cs cd st -> AInv cs cd (fst (on_nth w m st)).
  Proof.
    intros (W & Wi & A1 & A2). pose proof (on_nth_frame w m st) as [Sm _].
    repeat split.
    - rewrite <- (mwf_same_members _ _ Sm). exact W.
    - rewrite <- (write_index_same_members _ _ Sm). exact Wi.
    - intros i N. rewrite on_nth_has_other by exact N. apply A1. exact N.
    - intros i N. rewrite on_nth_has_other by exact N. apply A2. exact N.
  Qed.

  Lemma AInv_lt cs cd st : AInv cs cd st -> w < length st.
  Proof. intros (_ & Wi & _). apply write_index_lt. exact Wi. Qed.

  Lemma sim_bind {A B} (m1 : M mstate A) (m2 : MM A) (k1 : A -> M mstate B) (k2 : A -> MM B) st :
    m1 st = on_nth w m2 st ->
    (forall a, snd (on_nth w m2 st) = Ok a ->
       k1 a (fst (on_nth w m2 st)) = on_nth w (k2 a) (fst (on_nth w m2 st))) ->
    mbind m1 k1 st = on_nth w (mbind m2 k2) st.
  Proof.
    intros H1 H2. rewrite on_nth_bind. unfold mbind. rewrite H1. revert H2.
    destruct (on_nth w m2 st) as [st' [a|e|k]]; intro H2; try reflexivity.
    apply H2. reflexivity.
  Qed.

  Lemma sim_pure {A B} (m1 : M mstate A) (m2 : MM A) (k1 : A -> M mstate B) (k2 : A -> MM B) a st :
    m1 st = (st, Ok a) -> on_nth w m2 st = (st, Ok a) -> k1 a st = on_nth w (k2 a) st ->
    mbind m1 k1 st = on_nth w (mbind m2 k2) st.
  Proof.
    intros H1 H2 H3. rewrite on_nth_bind. unfold mbind. rewrite H1, H2. exact H3.
  Qed.

  Lemma sim_ret {A} (a : A) (st : mstate) : w < length st -> ret a st = on_nth w (ret a) st.
  Proof. intro Lt. symmetry. exact (on_nth_const w (Ok a) st Lt). Qed.

  Lemma sim_raise {A} e (st : mstate) : w < length st -> @raise mstate A e st = on_nth w (raise e) st.
  Proof. intro Lt. symmetry. exact (on_nth_const w (Err e) st Lt). Qed.

  (* the fields *)
  Lemma V_multi q c st : write_index st = Some w -> rpath q = inl c ->
    multi_validatepath q st = (st, Ok (to_path true c)).
  Proof.
    intros Wi R. unfold multi_validatepath. rewrite Wi.
    destruct (nth_error_some_lt st w (write_index_lt _ _ Wi)) as [[c0 t] E].
    unfold mbind. rewrite (on_nth_pure _ _ _ _ _ _ E (validate_inl _ _ t R)).
    destruct (normpath_inl _ _ R) as [n [N1 N2]]. unfold lift, ret. rewrite N1, N2. reflexivity.
  Qed.

  Lemma V_mem q c (st : mstate) : w < length st -> rpath q = inl c ->
    on_nth w (mem_validatepath q) st = (st, Ok (to_path true c)).
  Proof.
    intros Lt R. destruct (nth_error_some_lt st w Lt) as [[c0 t] E].
    exact (on_nth_pure _ _ _ _ _ _ E (validate_inl _ _ t R)).
  Qed.

  Lemma A_getinfo q c st : mwf st = true -> write_index st = Some w -> rpath q = inl c -> alone st c ->
    multi_getinfo q st = on_nth w (mem_getinfo q) st.
  Proof.
    intros W Wi R Al. pose proof (write_index_lt _ _ Wi) as Lt.
    destruct (nth_error_some_lt st w Lt) as [[c0 t] E].
    unfold multi_getinfo. rewrite (m_delegate_bind _ _ _ _ W R), (holder_alone _ _ _ W Lt Al).
    rewrite (on_nth_pure _ _ _ _ _ _ E (mem_getinfo_spec _ _ t R)).
    unfold has. rewrite E. destruct (lookup t c) as [n|] eqn:L; [|reflexivity].
    destruct (normpath_inl _ _ R) as [np [N1 N2]]. unfold mbind, lift. rewrite N1, N2.
    rewrite (on_nth_pure _ _ _ _ _ _ E (mem_getinfo_spec _ _ t (rpath_nf _ (rpath_vp _ _ R)))).
    rewrite L. reflexivity.
  Qed.

  Lemma A_exists q c st : mwf st = true -> write_index st = Some w -> rpath q = inl c -> alone st c ->
    b_exists multi_low q st = on_nth w (b_exists mem_low q) st.
  Proof.
    intros W Wi R Al. pose proof (write_index_lt _ _ Wi) as Lt.
    destruct (nth_error_some_lt st w Lt) as [[c0 t] E].
    rewrite (multi_exists_spec _ _ _ W R), (holder_alone _ _ _ W Lt Al).
    rewrite (on_nth_pure _ _ _ _ _ _ E (mem_exists_spec _ _ t R)).
    unfold has. rewrite E. destruct (lookup t c); reflexivity.
  Qed.

  Lemma A_required {A} q c (f : MM A) st : mwf st = true -> write_index st = Some w -> rpath q = inl c ->
    alone st c -> (forall t, lookup t c = None -> f t = (t, Err ResourceNotFound)) ->
    mbind (m_delegate_required q) (fun i => on_nth i f) st = on_nth w f st.
  Proof.
    intros W Wi R Al Hf. pose proof (write_index_lt _ _ Wi) as Lt.
    destruct (nth_error_some_lt st w Lt) as [[c0 t] E].
    rewrite (delegate_required_bind _ _ _ _ W R), (holder_alone _ _ _ W Lt Al).
    unfold has. rewrite E. destruct (lookup t c) as [n|] eqn:L; [reflexivity|].
    rewrite (on_nth_pure _ _ _ _ _ _ E (Hf t L)). reflexivity.
  Qed.

  Lemma A_openread q c st : mwf st = true -> write_index st = Some w -> rpath q = inl c -> alone st c ->
    multi_openread q st = on_nth w (mem_openread q) st.
  Proof.
    intros W Wi R Al. unfold multi_openread. apply (A_required _ c); try assumption.
    intros t L. exact (mem_openread_missing _ _ t R L).
  Qed.

  Lemma A_remove q c st : mwf st = true -> write_index st = Some w -> rpath q = inl c -> alone st c ->
    multi_remove q st = on_nth w (mem_remove q) st.
  Proof.
    intros W Wi R Al. unfold multi_remove. apply (A_required _ c); try assumption.
    intros t L. exact (mem_remove_missing _ _ t R L).
  Qed.

  Lemma A_upload q dat st : write_index st = Some w ->
    b_upload multi_low q dat st = on_nth w (b_upload mem_low q dat) st.
  Proof.
    intro Wi. unfold b_upload. cbn [l_openwrite multi_low mem_low].
    apply multi_openwrite_w; [exact Wi|reflexivity|reflexivity].
  Qed.

  Lemma A_cmt a b ca cb st : AInv ca cb st -> rpath a = inl ca ->
    b_copy_modified_time multi_low a b st = on_nth w (b_copy_modified_time mem_low a b) st.
  Proof.
    intros I Ra. pose proof I as (W & Wi & A1 & A2). unfold b_copy_modified_time.
    cbn [l_getinfo l_setinfo multi_low mem_low].
    apply sim_bind; [apply (A_getinfo _ ca); assumption|].
    intros i _. pose proof (AInv_on_nth ca cb (mem_getinfo a) st I) as (_ & Wi' & _).
    apply multi_setinfo_w. exact Wi'.
  Qed.

  Variables cs cd : list str.

  Lemma copy_core s d ov pt st : AInv cs cd st -> rpath s = inl cs -> rpath d = inl cd ->
    multi_copy s d ov pt st = on_nth w (mem_copy s d ov pt) st.
  Proof.
    intros I Rs Rd. pose proof I as (W & Wi & A1 & A2). pose proof (AInv_lt _ _ _ I) as Lt.
    pose proof (rpath_nf _ (rpath_vp _ _ Rs)) as Rs'. pose proof (rpath_nf _ (rpath_vp _ _ Rd)) as Rd'.
    unfold multi_copy, mem_copy, b_copy. cbn [l_validatepath l_openread multi_low mem_low].
    apply (sim_pure _ _ _ _ (to_path true cs)); [apply V_multi; assumption|apply V_mem; assumption|].
    apply (sim_pure _ _ _ _ (to_path true cd)); [apply V_multi; assumption|apply V_mem; assumption|].
    apply sim_bind.
    { destruct ov; [apply sim_ret; exact Lt|apply (A_exists _ cd); assumption]. }
    intros e _.
    match goal with |- _ = on_nth w _ (fst (on_nth w ?m st)) =>
      pose proof (AInv_on_nth cs cd m st I) as I1; set (st1 := fst (on_nth w m st)) in * end.
    clearbody st1. pose proof I1 as (W1 & Wi1 & B1 & B2). pose proof (AInv_lt _ _ _ I1) as Lt1.
    destruct e; [apply sim_raise; exact Lt1|].
    destruct (str_eqb (to_path true cs) (to_path true cd)); [apply sim_raise; exact Lt1|].
    apply sim_bind; [apply (A_openread _ cs); assumption|]. intros dat _.
    pose proof (AInv_on_nth cs cd (mem_openread (to_path true cs)) st1 I1) as I2.
    set (st2 := fst (on_nth w (mem_openread (to_path true cs)) st1)) in *. clearbody st2.
    pose proof I2 as (W2 & Wi2 & C1 & C2).
    apply sim_bind; [apply A_upload; exact Wi2|]. intros u _.
    pose proof (AInv_on_nth cs cd (b_upload mem_low (to_path true cd) dat) st2 I2) as I3.
    set (st3 := fst (on_nth w (b_upload mem_low (to_path true cd) dat) st2)) in *. clearbody st3.
    destruct pt; [apply (A_cmt _ _ cs cd); assumption|apply sim_ret; exact (AInv_lt _ _ _ I3)].
  Qed.

  Lemma move_core s d ov pt st : AInv cs cd st -> rpath s = inl cs -> rpath d = inl cd ->
    b_move multi_low s d ov pt st = on_nth w (b_move mem_low s d ov pt) st.
  Proof.
    intros I Rs Rd. pose proof I as (W & Wi & A1 & A2). pose proof (AInv_lt _ _ _ I) as Lt.
    pose proof (rpath_nf _ (rpath_vp _ _ Rs)) as Rs'. pose proof (rpath_nf _ (rpath_vp _ _ Rd)) as Rd'.
    unfold b_move. cbn [l_validatepath l_openread l_getinfo l_remove multi_low mem_low].
    apply (sim_pure _ _ _ _ (to_path true cs)); [apply V_multi; assumption|apply V_mem; assumption|].
    apply (sim_pure _ _ _ _ (to_path true cd)); [apply V_multi; assumption|apply V_mem; assumption|].
    apply sim_bind.
    { destruct ov; [apply sim_ret; exact Lt|apply (A_exists _ cd); assumption]. }
    intros e _.
    match goal with |- _ = on_nth w _ (fst (on_nth w ?m st)) =>
      pose proof (AInv_on_nth cs cd m st I) as I1; set (st1 := fst (on_nth w m st)) in * end.
    clearbody st1. pose proof I1 as (W1 & Wi1 & B1 & B2). pose proof (AInv_lt _ _ _ I1) as Lt1.
    destruct e; [apply sim_raise; exact Lt1|].
    apply sim_bind; [apply (A_getinfo _ cs); assumption|]. intros inf _.
    pose proof (AInv_on_nth cs cd (mem_getinfo (to_path true cs)) st1 I1) as I1'.
    set (st1' := fst (on_nth w (mem_getinfo (to_path true cs)) st1)) in *. clearbody st1'.
    pose proof I1' as (W1' & Wi1' & B1' & B2'). pose proof (AInv_lt _ _ _ I1') as Lt1'.
    destruct (i_isdir inf); [apply sim_raise; exact Lt1'|].
    destruct (str_eqb (to_path true cs) (to_path true cd)); [apply sim_ret; exact Lt1'|].
    apply sim_bind; [apply (A_openread _ cs); assumption|]. intros dat _.
    pose proof (AInv_on_nth cs cd (mem_openread (to_path true cs)) st1' I1') as I2.
    set (st2 := fst (on_nth w (mem_openread (to_path true cs)) st1')) in *. clearbody st2.
    pose proof I2 as (W2 & Wi2 & C1 & C2).
    apply sim_bind; [apply A_upload; exact Wi2|]. intros u _.
    pose proof (AInv_on_nth cs cd (b_upload mem_low (to_path true cd) dat) st2 I2) as I3.
    set (st3 := fst (on_nth w (b_upload mem_low (to_path true cd) dat) st2)) in *. clearbody st3.
    apply sim_bind.
    { destruct pt; [apply (A_cmt _ _ cs cd); assumption|apply sim_ret; exact (AInv_lt _ _ _ I3)]. }
    intros u2 _.
    match goal with |- _ = on_nth w _ (fst (on_nth w ?m st3)) =>
      pose proof (AInv_on_nth cs cd m st3 I3) as I4; set (st4 := fst (on_nth w m st3)) in * end.
    clearbody st4. pose proof I4 as (W4 & Wi4 & D1 & D2).
    apply (A_remove _ cs); assumption.
  Qed.
End Alone.

Lemma AInv_intro w cs cd st : mwf st = true -> write_index st = Some w ->
  (forall i, i <> w -> has st i cs = false /\ has st i cd = false) -> AInv w cs cd st.
Proof.
  intros W Wi H. repeat split; try assumption; intros i N; apply (H i N).
Qed.

(* G1 *)
Theorem multi_copy_alone : forall s d ov pt cs cd st w, mwf st = true -> write_index st = Some w ->
  rpath s = inl cs -> rpath d = inl cd ->
  (forall i, i <> w -> has st i cs = false /\ has st i cd = false) ->
  multi_run (OCopy s d ov pt) st = on_nth w (mem_run (OCopy s d ov pt)) st.
Proof.
  intros s d ov pt cs cd st w W Wi Rs Rd H. cbn [multi_run mem_run]. rewrite on_nth_vmap.
  unfold vmap, mbind. rewrite (copy_core w cs cd s d ov pt st (AInv_intro _ _ _ _ W Wi H) Rs Rd). reflexivity.
Qed.
Print Assumptions multi_copy_alone.

(* G4 *)
Theorem multi_move_alone : forall s d ov pt cs cd st w, mwf st = true -> write_index st = Some w ->
  rpath s = inl cs -> rpath d = inl cd ->
  (forall i, i <> w -> has st i cs = false /\ has st i cd = false) ->
  multi_run (OMove s d ov pt) st = on_nth w (vmap (fun _ => VUnit) (b_move mem_low s d ov pt)) st.
Proof.
  intros s d ov pt cs cd st w W Wi Rs Rd H. cbn [multi_run]. rewrite on_nth_vmap.
  unfold vmap, mbind. rewrite (move_core w cs cd s d ov pt st (AInv_intro _ _ _ _ W Wi H) Rs Rd). reflexivity.
Qed.
Print Assumptions multi_move_alone.

(* ------------------------------------------------------------------ *)
(* G2: copy-up                                                         *)
(* ------------------------------------------------------------------ *)
Lemma mbind_ok {S A B} (m : M S A) (k : A -> M S B) s s' a : m s = (s', Ok a) -> mbind m k s = k a s'.
Proof. intro H. unfold mbind. rewrite H. reflexivity. Qed.

Lemma lookup_put_none : forall cs t cd n, lookup t cs = None -> cs <> cd -> is_dir n = false ->
  lookup (put t cd n) cs = None.
Proof.
  induction cs as [|a q IH]; intros t cd n L Ne Fn; [discriminate L|].
  destruct cd as [|c rest].
  - cbn [put]. destruct n; [reflexivity|discriminate Fn].
  - destruct t as [dt m|ents m]; [cbn [put]; exact L|].
    cbn [lookup] in L.
    destruct rest as [|c2 rest2].
    + cbn [put lookup]. destruct (str_eqb a c) eqn:Eac.
      * apply str_eqb_eq in Eac. subst c. rewrite assoc_set_same.
        destruct q; [congruence|]. destruct n; [reflexivity|discriminate Fn].
      * apply str_eqb_neq in Eac. rewrite assoc_set_other by assumption. exact L.
    + remember (c2 :: rest2) as rest eqn:Er.
      assert (Hne : rest <> []) by (subst; discriminate).
      rewrite put_cons_ne by assumption.
      destruct (assoc c ents) as [ch|] eqn:Ec; [|exact L].
      cbn [lookup]. destruct (str_eqb a c) eqn:Eac.
      * apply str_eqb_eq in Eac. subst c. rewrite assoc_set_same. rewrite Ec in L.
        apply IH; [exact L|congruence|exact Fn].
      * apply str_eqb_neq in Eac. rewrite assoc_set_other by assumption. exact L.
Qed.

Lemma mem_openread_file q cs t data mt : rpath q = inl cs -> cs <> [] ->
  lookup t cs = Some (File data mt) -> mem_openread q t = (t, Ok data).
Proof.
  intros R Ne L. destruct (list_snoc_case cs) as [->|[d0 [c0 ->]]]; [congruence|].
  rewrite (mem_openread_snoc _ _ _ t R). rewrite lookup_snoc in L.
  destruct (lookup t d0) as [[|ents m]|]; try discriminate L. rewrite L. reflexivity.
Qed.

Lemma upload_file q cd t data : rpath q = inl cd -> cd <> [] ->
  (exists ents m, lookup t (removelast cd) = Some (Dir ents m)) ->
  (match lookup t cd with Some (Dir _ _) => False | _ => True end) ->
  exists m', b_upload mem_low q data t = (put t cd (File data m'), Ok tt).
Proof.
  intros R Ne [ents [m P]] ND. destruct (list_snoc_case cd) as [->|[d0 [c0 ->]]]; [congruence|].
  rewrite removelast_last in P. rewrite lookup_snoc, P in ND.
  unfold b_upload. cbn [l_openwrite mem_low].
  rewrite (mem_openwrite_snoc _ _ _ _ _ t R m_wb_valid (or_intror eq_refl)). rewrite P.
  destruct (assoc c0 ents) as [[old mt0|e2 m2]|].
  - change (m_create m_wb && m_exclusive m_wb) with false. cbv iota. unfold ow_state.
    change (m_truncate m_wb) with true. cbv iota.
    destruct data; [exists mt0|exists None]; reflexivity.
  - destruct ND.
  - change (m_create m_wb) with true. cbv iota. destruct data; exists None; reflexivity.
Qed.

Lemma find_stable (f g : nat -> bool) w i l : i <> w -> (forall j, j <> w -> g j = f j) ->
  (f w = false -> g w = false) -> find f l = Some i -> find g l = Some i.
Proof.
  intros N H1 H2. induction l as [|x r IH]; intro F; [discriminate F|]. cbn [find] in *.
  destruct (f x) eqn:Fx.
  - inversion F; subst x. rewrite (H1 i N), Fx. reflexivity.
  - destruct (Nat.eq_dec x w) as [->|Nx].
    + rewrite (H2 Fx). apply IH. exact F.
    + rewrite (H1 x Nx), Fx. apply IH. exact F.
Qed.

Lemma copy_up_core s d pt cs cd (st : mstate) w i data mt c0 t :
  mwf st = true -> write_index st = Some w -> w <> i -> rpath s = inl cs -> rpath d = inl cd ->
  cd <> [] -> cs <> [] -> path_eqb cs cd = false ->
  holder st cs = Some i -> lookup (tree_at st i) cs = Some (File data mt) ->
  nth_error st w = Some (c0, t) ->
  (exists ents m, lookup t (removelast cd) = Some (Dir ents m)) ->
  (match lookup t cd with Some (Dir _ _) => False | _ => True end) ->
  exists m', multi_copy s d true pt st = (set_nth w (c0, put t cd (File data m')) st, Ok tt).
Proof.
  intros W Wi Nwi Rs Rd Ned Nes Neq Hh Li E Par ND.
  pose proof (rpath_vp _ _ Rs) as Vs. pose proof (rpath_vp _ _ Rd) as Vd.
  pose proof (rpath_nf _ Vs) as Rs'. pose proof (rpath_nf _ Vd) as Rd'.
  destruct (has_lookup _ _ _ (holder_has _ _ _ Hh)) as [ci [ti [ni [Ei Lni]]]].
  unfold tree_at in Li. rewrite Ei in Li. clear ni Lni.
  unfold multi_copy, b_copy. cbn [l_validatepath l_openread multi_low].
  rewrite (mbind_ok _ _ _ _ _ (V_multi w s cs st Wi Rs)).
  rewrite (mbind_ok _ _ _ _ _ (V_multi w d cd st Wi Rd)).
  rewrite (mbind_ok (ret false) _ st st false eq_refl). cbv iota.
  rewrite (to_path_eqb _ _ (proj1 Vs) (proj1 Vd)), Neq.
  assert (OR : multi_openread (to_path true cs) st = (st, Ok data)).
  { unfold multi_openread. rewrite (delegate_required_bind _ _ _ _ W Rs'), Hh.
    apply (on_nth_pure _ _ _ _ _ _ Ei). exact (mem_openread_file _ _ _ _ _ Rs' Nes Li). }
  rewrite (mbind_ok _ _ _ _ _ OR).
  destruct (upload_file _ _ t data Rd' Ned Par ND) as [m' Up].
  assert (UP : b_upload multi_low (to_path true cd) data st
               = (set_nth w (c0, put t cd (File data m')) st, Ok tt)).
  { rewrite (A_upload w _ _ _ Wi), (on_nth_some _ _ _ _ _ E), Up. reflexivity. }
  rewrite (mbind_ok _ _ _ _ _ UP).
  destruct pt; [|exists m'; reflexivity].
  set (st1 := set_nth w (c0, put t cd (File data m')) st).
  assert (Sm : same_members st st1).
  { unfold same_members, st1. symmetry. exact (set_nth_map_fst _ _ _ _ _ E). }
  assert (W1 : mwf st1 = true) by (rewrite <- (mwf_same_members _ _ Sm); exact W).
  assert (Wi1 : write_index st1 = Some w) by (rewrite <- (write_index_same_members _ _ Sm); exact Wi).
  assert (Ei1 : nth_error st1 i = Some (ci, ti)).
  { unfold st1. rewrite nth_error_set_nth_neq by exact Nwi. exact Ei. }
  assert (E1 : nth_error st1 w = Some (c0, put t cd (File data m'))).
  { unfold st1. apply nth_error_set_nth_eq. eapply nth_error_lt. exact E. }
  assert (Hh1 : holder st1 cs = Some i).
  { unfold holder in *. rewrite <- (order_same_members _ _ Sm).
    apply (find_stable (fun j => has st j cs) (fun j => has st1 j cs) w i); try assumption.
    - intro X. apply Nwi. symmetry. exact X.
    - intros j Nj. unfold has, st1. rewrite nth_error_set_nth_neq; [reflexivity|].
      intro X. apply Nj. symmetry. exact X.
    - unfold has. rewrite E, E1. destruct (lookup t cs) eqn:Lt; [discriminate|]. intros _.
      rewrite (lookup_put_none _ _ cd (File data m') Lt); [reflexivity| |reflexivity].
      intro X. subst cd. rewrite path_eqb_refl in Neq. discriminate Neq. }
  unfold b_copy_modified_time. cbn [l_getinfo l_setinfo multi_low].
  assert (GI : multi_getinfo (to_path true cs) st1 = (st1, Ok (to_info (last cs []) (File data mt)))).
  { unfold multi_getinfo. rewrite (m_delegate_bind _ _ _ _ W1 Rs'), Hh1.
    destruct (normpath_inl _ _ Rs') as [np [N1 N2]]. unfold mbind, lift. rewrite N1, N2.
    apply (on_nth_pure _ _ _ _ _ _ Ei1). rewrite (mem_getinfo_spec _ _ ti Rs'), Li. reflexivity. }
  rewrite (mbind_ok _ _ _ _ _ GI). cbn [i_mt to_info node_mt].
  rewrite (multi_setinfo_w _ _ _ _ Wi1), (on_nth_some _ _ _ _ _ E1).
  rewrite (mem_setinfo_spec _ _ mt _ Rd').
  destruct Par as [ents [m P]].
  destruct (list_snoc_case cd) as [->|[d0 [cc ->]]]; [congruence|].
  rewrite removelast_last in P. rewrite (lookup_put_same _ _ _ _ _ _ P).
  cbn [fst snd set_mt]. rewrite put_put. unfold st1. rewrite set_nth_set_nth.
  exists mt. reflexivity.
Qed.

Local Open Scope string_scope.

(* STATEMENT CHANGED: "cs <> []" added.  Without it the statement is false in a state (unreachable through the API,
   and not excluded by mwf / the wf hypothesis on the WRITE member) whose holder's root is itself a file: the source "/"
   resolves to [] and looks up to that File, but opening "/" raises FileExpected.  (The hypothesis wf (tree_at st w) is
   kept as given; the proof does not use it.) *)
Definition ex_rootfile : mstate := [(mk 0 0%Z true, xd []); (mk 1 5%Z false, xf "data")].
Lemma ex_rootfile_wf : wf (tree_at ex_rootfile 0).
Proof. split; [reflexivity|]. cbn. repeat split; constructor. Qed.
Example multi_copy_up_ce :
  mwf ex_rootfile = true /\ write_index ex_rootfile = Some 0 /\ rpath (p "/") = inl [] /\ rpath (p "x") = inl [p "x"] /\
  path_eqb [] [p "x"] = false /\ holder ex_rootfile [] = Some 1 /\
  lookup (tree_at ex_rootfile 1) [] = Some (File (p "data") None) /\
  lookup (tree_at ex_rootfile 0) (removelast [p "x"]) = Some (Dir [] None) /\
  lookup (tree_at ex_rootfile 0) [p "x"] = None /\
  multi_run (OCopy (p "/") (p "x") true false) ex_rootfile = (ex_rootfile, Err FileExpected).
Proof. vm_compute. repeat split; reflexivity. Qed.

Theorem multi_copy_up : forall s d pt cs cd st w i data mt, mwf st = true -> write_index st = Some w -> w <> i ->
  rpath s = inl cs -> rpath d = inl cd -> cd <> [] -> cs <> [] -> path_eqb cs cd = false ->
  holder st cs = Some i -> lookup (tree_at st i) cs = Some (File data mt) ->
  wf (tree_at st w) ->
  (exists ents m, lookup (tree_at st w) (removelast cd) = Some (Dir ents m)) ->
  (match lookup (tree_at st w) cd with Some (Dir _ _) => False | _ => True end) ->
  let r := multi_run (OCopy s d true pt) st in
  snd r = Ok VUnit /\ (exists m', lookup (tree_at (fst r) w) cd = Some (File data m')) /\
  (forall k, k <> w -> tree_at (fst r) k = tree_at st k).
Proof.
  intros s d pt cs cd st w i data mt W Wi Nwi Rs Rd Ned Nes Neq Hh Li _ Par ND r.
  pose proof (write_index_lt _ _ Wi) as Lt.
  destruct (nth_error_some_lt st w Lt) as [[c0 t] E].
  assert (Tw : tree_at st w = t) by (unfold tree_at; rewrite E; reflexivity).
  rewrite Tw in Par, ND.
  destruct (copy_up_core s d pt cs cd st w i data mt c0 t W Wi Nwi Rs Rd Ned Nes Neq Hh Li E Par ND) as [m' Hc].
  assert (Hr : r = (set_nth w (c0, put t cd (File data m')) st, Ok VUnit)).
  { subst r. cbn [multi_run]. unfold vmap. rewrite (mbind_ok _ _ _ _ _ Hc). reflexivity. }
  rewrite Hr. cbn [fst snd]. split; [reflexivity|]. split.
  - exists m'. unfold tree_at. rewrite (nth_error_set_nth_eq _ _ _ Lt).
    destruct Par as [ents [m P]].
    destruct (list_snoc_case cd) as [->|[d0 [cc ->]]]; [congruence|].
    rewrite removelast_last in P. exact (lookup_put_same _ _ _ _ _ _ P).
  - intros k Nk. unfold tree_at. rewrite nth_error_set_nth_neq; [reflexivity|].
    intro X. apply Nk. symmetry. exact X.
Qed.
Print Assumptions multi_copy_up.

(* ------------------------------------------------------------------ *)
(* G5: no call changes the members                                      *)
(* ------------------------------------------------------------------ *)
Definition sp {A} (m : M mstate A) : Prop := forall s, same_members s (fst (m s)).

Lemma sp_of_pres {A} (m : M mstate A) : (forall w, pres w m) -> sp m.
Proof. intros H s. exact (proj1 (H (write_index s) s eq_refl)). Qed.

Lemma sp_ret {A} (a : A) : sp (ret a). Proof. intro s. reflexivity. Qed.
Lemma sp_raise {A} e : sp (@raise mstate A e). Proof. intro s. reflexivity. Qed.
Lemma sp_crash {A} k : sp (@Monad.crash mstate A k). Proof. intro s. reflexivity. Qed.
Lemma sp_lift {A} (o : outcome A) : sp (lift o). Proof. intro s. reflexivity. Qed.
Lemma sp_get : sp (@get mstate). Proof. intro s. reflexivity. Qed.

Lemma sp_bind {A B} (m : M mstate A) (f : A -> M mstate B) : sp m -> (forall a, sp (f a)) -> sp (mbind m f).
Proof.
  intros Hm Hf s. unfold mbind. pose proof (Hm s) as F.
  destruct (m s) as [s' [a|e|k]]; cbn [fst] in *; try exact F.
  unfold same_members in *. rewrite F. apply Hf.
Qed.

Lemma sp_mfor {A} (f : A -> M mstate unit) l : (forall a, sp (f a)) -> sp (mfor l f).
Proof.
  intro H. induction l as [|x r IH]; cbn [mfor]; [apply sp_ret|].
  apply sp_bind; [apply H|intros _; exact IH].
Qed.

Lemma sp_vmap {A} (g : A -> value) (m : M mstate A) : sp m -> sp (vmap g m).
Proof. intro H. unfold vmap. apply sp_bind; [exact H|intro; apply sp_ret]. Qed.

Lemma sp_on_nth {A} i (m : MM A) : sp (on_nth i m).
Proof. intro s. exact (proj1 (on_nth_frame i m s)). Qed.

Lemma sp_multi_remove q : sp (multi_remove q).
Proof.
  unfold multi_remove. apply sp_bind; [apply sp_of_pres; intro; apply pres_delegate_required|].
  intro i. apply sp_on_nth.
Qed.

Lemma sp_multi_removedir q : sp (multi_removedir q).
Proof.
  unfold multi_removedir. apply sp_bind; [apply sp_of_pres; intro; apply pres_delegate_required|].
  intro i. apply sp_on_nth.
Qed.

Lemma sp_dfs_remove fuel : forall q, sp (dfs_remove multi_scandir multi_remove multi_removedir fuel q).
Proof.
  induction fuel as [|f IH]; intro q; cbn [dfs_remove]; [apply sp_crash|].
  apply sp_bind; [apply sp_of_pres; intro; apply pres_multi_scandir|]. intro infos.
  apply sp_mfor. intro i. destruct (i_isdir i); [|apply sp_multi_remove].
  apply sp_bind; [apply IH|intros _; apply sp_multi_removedir].
Qed.

Lemma sp_multi_removetree q : sp (multi_removetree q).
Proof.
  unfold multi_removetree, b_removetree.
  apply sp_bind; [apply sp_of_pres; intro; apply pres_multi_validatepath|]. intro n.
  apply sp_bind; [apply sp_get|]. intro s0.
  apply sp_bind; [apply sp_dfs_remove|]. intros _.
  destruct (str_eqb n s_slash); [apply sp_ret|apply sp_multi_removedir].
Qed.

Lemma sp_b_move a b o t : sp (b_move multi_low a b o t).
Proof.
  unfold b_move. cbn [l_validatepath l_getinfo l_openread l_remove multi_low].
  apply sp_bind; [apply sp_of_pres; intro; apply pres_multi_validatepath|]. intro _src.
  apply sp_bind; [apply sp_of_pres; intro; apply pres_multi_validatepath|]. intro _dst.
  apply sp_bind.
  { destruct o; [apply sp_ret|]. apply sp_of_pres. intro w0. apply pres_b_exists. apply multi_low_pres. }
  intro e. destruct e; [apply sp_raise|].
  apply sp_bind; [apply sp_of_pres; intro; apply pres_multi_getinfo|]. intro inf.
  destruct (i_isdir inf); [apply sp_raise|]. destruct (str_eqb _src _dst); [apply sp_ret|].
  apply sp_bind; [apply sp_of_pres; intro; apply pres_multi_openread|]. intro dat.
  apply sp_bind; [apply sp_of_pres; intro w0; apply pres_b_upload; apply multi_low_pres|]. intros _.
  apply sp_bind.
  { destruct t; [|apply sp_ret]. apply sp_of_pres. intro w0. apply pres_b_copy_modified_time. apply multi_low_pres. }
  intros _. apply sp_multi_remove.
Qed.

Lemma sp_b_movedir2 a b c t : sp (b_movedir2 multi_low multi_makedirs multi_copy a b c t).
Proof.
  unfold b_movedir2. cbn [l_validatepath l_getinfo multi_low].
  apply sp_bind; [apply sp_of_pres; intro; apply pres_multi_validatepath|]. intro _src.
  apply sp_bind; [apply sp_of_pres; intro; apply pres_multi_validatepath|]. intro _dst.
  destruct (str_eqb _src _dst); [apply sp_ret|]. destruct (isbase _src _dst); [apply sp_raise|].
  apply sp_bind.
  { destruct c; [apply sp_ret|]. apply sp_of_pres. intro w0. apply pres_b_exists. apply multi_low_pres. }
  intro e. destruct (negb e); [apply sp_raise|].
  apply sp_bind; [apply sp_of_pres; intro; apply pres_multi_getinfo|]. intro inf.
  destruct (negb (i_isdir inf)); [apply sp_raise|].
  unfold move_dir2. cbn [l_makedir l_removetree multi_low].
  apply sp_bind; [apply sp_of_pres; intro; apply pres_multi_makedir|]. intros _.
  apply sp_bind; [|intros _; apply sp_multi_removetree].
  apply sp_of_pres. intro w0. apply pres_copy_dir2.
  - apply multi_low_pres.
  - intros. apply pres_multi_makedirs.
  - intros. apply pres_b_copy. apply multi_low_pres.
Qed.

Theorem multi_same_members : forall o st, same_members st (fst (multi_run o st)).
Proof.
  intros o st. destruct (removing o) eqn:Rm.
  - destruct o; try discriminate Rm; cbn [multi_run]; apply sp_vmap.
    + apply sp_multi_remove.
    + apply sp_multi_removedir.
    + apply sp_multi_removetree.
    + apply sp_b_move.
    + apply sp_b_movedir2.
  - exact (proj1 (multi_frame o st Rm)).
Qed.
Print Assumptions multi_same_members.

(* ------------------------------------------------------------------ *)
(* Examples                                                            *)
(* ------------------------------------------------------------------ *)
(* copy-up: "h" lives in the high-priority read-only member 1; the copy lands in the write member 0, member 1 is untouched *)
Example multi_copy_up_ex :
  let r := multi_run (OCopy (p "h") (p "h2") true false) ex_multi in
  snd r = Ok VUnit /\ holder ex_multi [p "h"] = Some 1 /\ write_index ex_multi = Some 0 /\
  has ex_multi 0 [p "h"] = false /\
  lookup (tree_at (fst r) 0) [p "h2"] = Some (File (p "h") None) /\
  tree_at (fst r) 1 = ex_hi /\ lookup (tree_at (fst r) 1) [p "h2"] = None.
Proof. vm_compute. repeat split; reflexivity. Qed.

(* move = copy-up + remove(src): the source is REMOVED from member 1, which is not the write member *)
Example multi_move_removes_lower :
  let r := multi_run (OMove (p "h") (p "h2") true false) ex_multi in
  snd r = Ok VUnit /\ write_index ex_multi = Some 0 /\
  lookup (tree_at (fst r) 0) [p "h2"] = Some (File (p "h") None) /\
  lookup (tree_at ex_multi 1) [p "h"] = Some (File (p "h") None) /\
  lookup (tree_at (fst r) 1) [p "h"] = None /\
  node_eqb true (tree_at (fst r) 1) ex_hi = false.
Proof. vm_compute. repeat split; reflexivity. Qed.

Example multi_copy_alone_ex :
  multi_run (OCopy (p "w") (p "w2") true false) ex_multi
  = on_nth 0 (mem_run (OCopy (p "w") (p "w2") true false)) ex_multi /\
  multi_run (OCopy (p "w") (p "w2") false true) ex_multi
  = on_nth 0 (mem_run (OCopy (p "w") (p "w2") false true)) ex_multi /\
  lookup (tree_at (fst (multi_run (OCopy (p "w") (p "w2") true false) ex_multi)) 0) [p "w2"] = Some (File (p "w") None) /\
  tree_at (fst (multi_run (OCopy (p "w") (p "w2") true false) ex_multi)) 1 = ex_hi.
Proof. vm_compute. repeat split; reflexivity. Qed.

Example multi_move_alone_ex :
  multi_run (OMove (p "w") (p "w2") false true) ex_multi
  = on_nth 0 (vmap (fun _ => VUnit) (b_move mem_low (p "w") (p "w2") false true)) ex_multi /\
  lookup (tree_at (fst (multi_run (OMove (p "w") (p "w2") false true) ex_multi)) 0) [p "w"] = None /\
  lookup (tree_at (fst (multi_run (OMove (p "w") (p "w2") false true) ex_multi)) 0) [p "w2"] = Some (File (p "w") None).
Proof. vm_compute. repeat split; reflexivity. Qed.

Example multi_remove_frame_ex :
  let r := multi_run (ORemove (p "h")) ex_multi in
  snd r = Ok VUnit /\ holder ex_multi [p "h"] = Some 1 /\ tree_at (fst r) 0 = ex_lo /\
  lookup (tree_at (fst r) 1) [p "h"] = None /\
  fst (multi_run (ORemovedir (p "a")) ex_multi) = ex_multi /\
  snd (multi_run (ORemovedir (p "a")) ex_multi) = Err DirectoryNotEmpty.
Proof. vm_compute. repeat split; reflexivity. Qed.

Example multi_same_members_ex :
  map fst (fst (multi_run (OMovedir (p "a") (p "c") true false) ex_multi)) = map fst ex_multi /\
  map fst (fst (multi_run (ORemovetree (p "/")) ex_multi)) = map fst ex_multi /\
  snd (multi_run (OMovedir (p "a") (p "c") true false) ex_multi) = Ok VUnit.
Proof. vm_compute. repeat split; reflexivity. Qed.
