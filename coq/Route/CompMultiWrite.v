(* The MultiFS WRITE rule: theorems about the model of Route/Composite.v. *)
From Coq Require Import String.
From Coq Require Import List NArith ZArith Bool Arith Lia Permutation Sorting.
From PyFS Require Import Base.PyStr Base.Outcome Path.PathModel Path.PathSpec Path.PathProofs FS.Tree FS.Monad FS.Mode FS.Base FS.Mem FS.Ops FS.Ref
     FS.Agree FS.Wf FS.TreeLemmas FS.RefineLemmas FS.RefineProofs FS.PropsProofs FS.ReadOnly FS.ReadOnlyProofs
     Route.Route Route.RouteProofs Route.Composite Route.CompositeLemmas Route.CompositeEx.
Import ListNotations.

(* ------------------------------------------------------------------ *)
(* on_nth and the monad                                                *)
(* ------------------------------------------------------------------ *)
Lemma set_nth_set_nth {A} i (x y : A) l : set_nth i x (set_nth i y l) = set_nth i x l.
Proof. revert i. induction l as [|z r IH]; intros [|i]; cbn; auto. f_equal. apply IH. Qed.

Lemma nth_error_lt {A} (l : list A) i x : nth_error l i = Some x -> i < length l.
Proof. intro H. apply nth_error_Some. congruence. Qed.

Lemma on_nth_bind {C A B} i (m : MM A) (f : A -> MM B) (st : list (C * node)) :
  on_nth i (mbind m f) st = mbind (on_nth i m) (fun a => on_nth i (f a)) st.
Proof.
  unfold on_nth at 1 2. unfold mbind at 1 2.
  destruct (nth_error st i) as [[c t]|] eqn:E; [|reflexivity].
  destruct (m t) as [t' [a|e|k]]; try reflexivity.
  unfold on_nth. rewrite nth_error_set_nth_eq by (eapply nth_error_lt; eassumption).
  destruct (f a t') as [t'' o]. rewrite set_nth_set_nth. reflexivity.
Qed.

Lemma on_nth_vmap {C A} i (g : A -> value) (m : MM A) (st : list (C * node)) :
  on_nth i (vmap g m) st = vmap g (on_nth i m) st.
Proof.
  unfold vmap. rewrite on_nth_bind. unfold mbind.
  destruct (on_nth i m st) as [s' [a|e|k]] eqn:E; try reflexivity.
  unfold on_nth, ret. unfold on_nth in E.
  destruct (nth_error st i) as [[c t]|] eqn:N; [|discriminate].
  destruct (m t) as [t' o]. inversion E; subst.
  rewrite nth_error_set_nth_eq by (eapply nth_error_lt; eassumption).
  rewrite set_nth_set_nth. reflexivity.
Qed.

Lemma write_index_from_lt st : forall k acc w, write_index_from st k acc = Some w ->
  acc = Some w \/ (k <= w /\ w < k + length st).
Proof.
  induction st as [|[c t] r IH]; intros k acc w H; cbn in H.
  - left. exact H.
  - apply IH in H. destruct H as [H|H].
    + destruct (cm_write c); [inversion H; subst; right; cbn; lia|left; exact H].
    + right. cbn. lia.
Qed.

Lemma write_index_lt st w : write_index st = Some w -> w < length st.
Proof.
  intro H. apply write_index_from_lt in H. destruct H as [H|H]; [discriminate|lia].
Qed.

Lemma writable_some st w : write_index st = Some w -> m_writable_required st = (st, Ok w).
Proof. intro H. unfold m_writable_required. rewrite H. reflexivity. Qed.

Lemma writable_none st : write_index st = None -> m_writable_required st = (st, Err ResourceReadOnly).
Proof. intro H. unfold m_writable_required. rewrite H. reflexivity. Qed.

Lemma m_ab_mode_valid : mode_valid m_ab = true. Proof. reflexivity. Qed.
Lemma m_ab_writing : m_writing m_ab = true. Proof. reflexivity. Qed.
Lemma m_wb_mode_valid : mode_valid m_wb = true. Proof. reflexivity. Qed.
Lemma m_wb_writing : m_writing m_wb = true. Proof. reflexivity. Qed.

Lemma multi_pick_writing_some p m st w : write_index st = Some w -> mode_valid m = true ->
  m_writing m = true -> multi_pick p m st = (st, Ok w).
Proof.
  intros W V Wr. unfold multi_pick. rewrite V, Wr. cbn [negb]. apply writable_some. exact W.
Qed.

Lemma multi_pick_writing_none p m st : write_index st = None -> mode_valid m = true ->
  m_writing m = true -> multi_pick p m st = (st, Err ResourceReadOnly).
Proof.
  intros W V Wr. unfold multi_pick. rewrite V, Wr. cbn [negb]. apply writable_none. exact W.
Qed.

(* a writable_required-headed method *)
Lemma wr_bind_some {A} (f : nat -> M mstate A) st w : write_index st = Some w ->
  mbind m_writable_required f st = f w st.
Proof. intro H. unfold mbind. rewrite (writable_some _ _ H). reflexivity. Qed.

Lemma wr_bind_none {A} (f : nat -> M mstate A) st : write_index st = None ->
  mbind m_writable_required f st = (st, Err ResourceReadOnly).
Proof. intro H. unfold mbind. rewrite (writable_none _ H). reflexivity. Qed.

Lemma vmap_bind_eq {A B} (g : B -> value) (m : M mstate A) (f : A -> M mstate B) st :
  vmap g (mbind m f) st = mbind m (fun a => vmap g (f a)) st.
Proof.
  unfold vmap, mbind. destruct (m st) as [s' [a|e|k]]; reflexivity.
Qed.

(* B1 *)
Theorem multi_direct_write : forall o st w, write_index st = Some w -> direct_write o = true ->
  multi_run o st = on_nth w (mem_run o) st.
Proof.
  intros o st w W D. destruct o; try discriminate D; cbn [multi_run mem_run].
  - rewrite on_nth_vmap. unfold multi_makedir. rewrite vmap_bind_eq, (wr_bind_some _ _ _ W). reflexivity.
  - rewrite on_nth_vmap. unfold multi_makedirs. rewrite vmap_bind_eq, (wr_bind_some _ _ _ W). reflexivity.
  - rewrite on_nth_vmap. unfold multi_writebytes. rewrite vmap_bind_eq, (wr_bind_some _ _ _ W). reflexivity.
  - rewrite on_nth_vmap. unfold b_appendbytes. cbn [l_openwrite multi_low]. unfold multi_openwrite.
    rewrite vmap_bind_eq. unfold mbind at 1.
    rewrite (multi_pick_writing_some _ _ _ _ W m_ab_mode_valid m_ab_writing). reflexivity.
  - cbn [direct_write] in D. apply andb_true_iff in D as [V Wr].
    rewrite on_nth_vmap. unfold multi_openwrite. rewrite vmap_bind_eq. unfold mbind at 1.
    rewrite (multi_pick_writing_some _ _ _ _ W V Wr). reflexivity.
  - cbn [direct_write] in D. apply andb_true_iff in D as [V Wr].
    unfold mbind at 1. rewrite (multi_pick_writing_some _ _ _ _ W V Wr). reflexivity.
  - rewrite on_nth_vmap. unfold multi_setinfo. rewrite vmap_bind_eq, (wr_bind_some _ _ _ W). reflexivity.
Qed.
Print Assumptions multi_direct_write.

(* B2 *)
Theorem multi_readonly : forall o st, write_index st = None -> direct_write o = true ->
  multi_run o st = (st, Err ResourceReadOnly).
Proof.
  intros o st W D. destruct o; try discriminate D; cbn [multi_run].
  - unfold multi_makedir. rewrite vmap_bind_eq, (wr_bind_none _ _ W). reflexivity.
  - unfold multi_makedirs. rewrite vmap_bind_eq, (wr_bind_none _ _ W). reflexivity.
  - unfold multi_writebytes. rewrite vmap_bind_eq, (wr_bind_none _ _ W). reflexivity.
  - unfold b_appendbytes. cbn [l_openwrite multi_low]. unfold multi_openwrite.
    rewrite vmap_bind_eq. unfold mbind at 1.
    rewrite (multi_pick_writing_none _ _ _ W m_ab_mode_valid m_ab_writing). reflexivity.
  - cbn [direct_write] in D. apply andb_true_iff in D as [V Wr].
    unfold multi_openwrite. rewrite vmap_bind_eq. unfold mbind at 1.
    rewrite (multi_pick_writing_none _ _ _ W V Wr). reflexivity.
  - cbn [direct_write] in D. apply andb_true_iff in D as [V Wr].
    unfold mbind at 1. rewrite (multi_pick_writing_none _ _ _ W V Wr). reflexivity.
  - unfold multi_setinfo. rewrite vmap_bind_eq, (wr_bind_none _ _ W). reflexivity.
Qed.
Print Assumptions multi_readonly.

Example multi_direct_write_ex :
  let r := multi_run (OWritebytes (p "a/x"%string) (p "new"%string)) ex_multi in
  snd r = Ok VUnit /\ has ex_multi 1 [p "a"%string; p "x"%string] = true /\ order ex_multi = [1; 0] /\
  write_index ex_multi = Some 0 /\
  lookup (tree_at (fst r) 0) [p "a"%string; p "x"%string] = Some (File (p "new"%string) None) /\
  node_eqb true (tree_at (fst r) 1) ex_hi = true /\
  lookup (tree_at (fst r) 1) [p "a"%string; p "x"%string] = Some (File (p "hi-x"%string) None).
Proof. vm_compute. repeat split; reflexivity. Qed.

Example multi_readonly_ex :
  multi_run (OWritebytes (p "a/x"%string) (p "new"%string)) ex_multi_ro = (ex_multi_ro, Err ResourceReadOnly).
Proof. vm_compute. reflexivity. Qed.

(* ------------------------------------------------------------------ *)
(* B5: remove / removedir go to the first holder                       *)
(* ------------------------------------------------------------------ *)
Lemma ask_exists (st : mstate) i c t p0 cs : nth_error st i = Some (c, t) -> rpath p0 = inl cs ->
  ask st i (mem_exists p0) = Ok (has st i cs).
Proof.
  intros E R. unfold ask, has. rewrite E. unfold mem_exists. rewrite (mem_exists_spec _ _ t R).
  reflexivity.
Qed.

Lemma nth_error_some_lt {A} (l : list A) i : i < length l -> exists x, nth_error l i = Some x.
Proof.
  intro H. destruct (nth_error l i) eqn:E; [eauto|]. apply nth_error_None in E. lia.
Qed.

Lemma delegate_in_find ids p0 cs (st : mstate) : rpath p0 = inl cs ->
  (forall i, In i ids -> i < length st) ->
  delegate_in ids p0 st = Ok (find (fun i => has st i cs) ids).
Proof.
  intros R. induction ids as [|i r IH]; intro V; [reflexivity|].
  cbn [delegate_in find].
  destruct (nth_error_some_lt st i (V i (or_introl eq_refl))) as [[c t] E].
  rewrite (ask_exists _ _ _ _ _ _ E R).
  destruct (has st i cs); [reflexivity|]. apply IH. intros j J. apply V. right. exact J.
Qed.

Lemma delegate_first_holder_local p0 cs st : mwf st = true -> rpath p0 = inl cs ->
  delegate_in (order st) p0 st = Ok (holder st cs).
Proof.
  intros W R. unfold holder. apply delegate_in_find; [exact R|].
  intros i I. apply order_valid; assumption.
Qed.

Lemma m_delegate_bind {A} p0 cs st (f : option nat -> M mstate A) : mwf st = true -> rpath p0 = inl cs ->
  mbind (m_delegate p0) f st = f (holder st cs) st.
Proof.
  intros W R. unfold mbind, m_delegate. rewrite (delegate_first_holder_local _ _ _ W R). reflexivity.
Qed.

Lemma delegate_required_bind {A} p0 cs st (f : nat -> M mstate A) : mwf st = true -> rpath p0 = inl cs ->
  mbind (m_delegate_required p0) f st =
  match holder st cs with Some i => f i st | None => (st, Err ResourceNotFound) end.
Proof.
  intros W R. unfold m_delegate_required, mbind, m_delegate, ret, raise.
  rewrite (delegate_first_holder_local _ _ _ W R). destruct (holder st cs); reflexivity.
Qed.

Theorem multi_remove_first_holder : forall p cs st, mwf st = true -> rpath p = inl cs ->
  multi_run (ORemove p) st = match holder st cs with
                             | Some i => on_nth i (mem_run (ORemove p)) st
                             | None => (st, Err ResourceNotFound)
                             end.
Proof.
  intros p0 cs st W R. cbn [multi_run mem_run]. unfold multi_remove.
  rewrite vmap_bind_eq, (delegate_required_bind _ _ _ _ W R).
  destruct (holder st cs); [rewrite on_nth_vmap|]; reflexivity.
Qed.
Print Assumptions multi_remove_first_holder.

Theorem multi_removedir_first_holder : forall p cs st, mwf st = true -> rpath p = inl cs ->
  multi_run (ORemovedir p) st = match holder st cs with
                                | Some i => on_nth i (mem_run (ORemovedir p)) st
                                | None => (st, Err ResourceNotFound)
                                end.
Proof.
  intros p0 cs st W R. cbn [multi_run mem_run]. unfold multi_removedir.
  rewrite vmap_bind_eq, (delegate_required_bind _ _ _ _ W R).
  destruct (holder st cs); [rewrite on_nth_vmap|]; reflexivity.
Qed.
Print Assumptions multi_removedir_first_holder.

(* the frame property is false for the removing calls: remove "h" succeeds on member 1, which is
   not the write member *)
Example multi_frame_remove_ce :
  let r := multi_run (ORemove (p "h"%string)) ex_multi in
  snd r = Ok VUnit /\ write_index ex_multi = Some 0 /\
  node_eqb true (tree_at (fst r) 1) ex_hi = false /\ node_eqb true (tree_at (fst r) 0) ex_lo = true.
Proof. vm_compute. repeat split; reflexivity. Qed.

(* ------------------------------------------------------------------ *)
(* B6 / B7: create, touch, setinfo, makedir                            *)
(* ------------------------------------------------------------------ *)
Lemma normpath_inl p0 cs : rpath p0 = inl cs ->
  exists n, normpath p0 = Ok n /\ abspath n = to_path true cs.
Proof.
  intro R. pose proof (rpath_good _ _ R) as G. apply rpath_inl in R as [_ R2].
  rewrite normpath_spec. unfold spec_normpath. rewrite R2. eexists. split; [reflexivity|].
  apply abspath_nf_gen. exact G.
Qed.

Lemma holder_has (st : mstate) cs i : holder st cs = Some i -> has st i cs = true.
Proof. unfold holder. intro H. apply find_some in H. apply H. Qed.

Lemma has_lookup (st : mstate) i cs : has st i cs = true ->
  exists c t n, nth_error st i = Some (c, t) /\ lookup t cs = Some n.
Proof.
  unfold has. destruct (nth_error st i) as [[c t]|]; [|discriminate].
  destruct (lookup t cs) as [n|] eqn:L; [|discriminate]. intros _. eauto.
Qed.

Lemma multi_getinfo_spec p0 cs st : mwf st = true -> rpath p0 = inl cs ->
  (holder st cs = None /\ multi_getinfo p0 st = (st, Err ResourceNotFound)) \/
  exists i x, holder st cs = Some i /\ multi_getinfo p0 st = (st, Ok x).
Proof.
  intros W R. unfold multi_getinfo. rewrite (m_delegate_bind _ _ _ _ W R).
  destruct (holder st cs) as [i|] eqn:Hh.
  - right. exists i.
    destruct (normpath_inl _ _ R) as [n [N1 N2]]. unfold mbind, lift. rewrite N1, N2.
    destruct (has_lookup _ _ _ (holder_has _ _ _ Hh)) as [c [t [nd [E L]]]].
    pose proof (mem_getinfo_spec _ _ t (rpath_nf _ (rpath_vp _ _ R))) as Sp. rewrite L in Sp.
    eexists. split; [reflexivity|]. rewrite (on_nth_query _ _ _ _ _ E); rewrite Sp; reflexivity.
  - left. split; reflexivity.
Qed.

Lemma multi_exists_spec p0 cs st : mwf st = true -> rpath p0 = inl cs ->
  b_exists multi_low p0 st = (st, Ok (match holder st cs with Some _ => true | None => false end)).
Proof.
  intros W R. unfold b_exists. cbn [l_getinfo multi_low]. mstep.
  destruct (multi_getinfo_spec _ _ _ W R) as [[H1 H2]|[i [x [H1 H2]]]]; rewrite H2, H1; reflexivity.
Qed.

Lemma b_create_unfold {S} (L : low S) p0 wipe s :
  b_create L p0 wipe s =
  match (if wipe then (s, Ok false) else b_exists L p0 s) with
  | (s', Ok true) => (s', Ok false)
  | (s', Ok false) =>
    match l_openwrite L p0 m_wb None s' with
    | (s'', Ok _) => (s'', Ok true)
    | (s'', Err e) => (s'', Err e)
    | (s'', Crash k) => (s'', Crash k)
    end
  | (s', Err e) => (s', Err e)
  | (s', Crash k) => (s', Crash k)
  end.
Proof.
  unfold b_create. mstep. destruct wipe; [reflexivity|].
  destruct (b_exists L p0 s) as [s' [[|]|e|k]]; reflexivity.
Qed.

Lemma b_touch_unfold {S} (L : low S) p0 s :
  b_touch L p0 s =
  match b_create L p0 false s with
  | (s', Ok true) => (s', Ok tt)
  | (s', Ok false) => l_setinfo L p0 None s'
  | (s', Err e) => (s', Err e)
  | (s', Crash k) => (s', Crash k)
  end.
Proof.
  unfold b_touch. mstep. destruct (b_create L p0 false s) as [s' [[|]|e|k]]; reflexivity.
Qed.

Lemma find_alone_some (f : nat -> bool) w l : (forall i, i <> w -> f i = false) -> In w l ->
  f w = true -> find f l = Some w.
Proof.
  intros H I T. induction l as [|x r IH]; [destruct I|]. cbn [find].
  destruct (Nat.eq_dec x w) as [->|N]; [rewrite T; reflexivity|].
  rewrite (H x N). apply IH. destruct I as [I|I]; [congruence|exact I].
Qed.

Lemma find_alone_none (f : nat -> bool) w l : (forall i, i <> w -> f i = false) ->
  f w = false -> find f l = None.
Proof.
  intros H T. induction l as [|x r IH]; [reflexivity|]. cbn [find].
  destruct (Nat.eq_dec x w) as [->|N]; [rewrite T|rewrite (H x N)]; exact IH.
Qed.

Lemma holder_alone st w cs : mwf st = true -> w < length st ->
  (forall i, i <> w -> has st i cs = false) ->
  holder st cs = if has st w cs then Some w else None.
Proof.
  intros W Lt H. unfold holder. destruct (has st w cs) eqn:E.
  - apply find_alone_some; [exact H|apply order_complete; assumption|exact E].
  - eapply find_alone_none; eassumption.
Qed.

Lemma multi_openwrite_w p0 m d st w : write_index st = Some w -> mode_valid m = true ->
  m_writing m = true -> multi_openwrite p0 m d st = on_nth w (mem_openwrite p0 m d) st.
Proof.
  intros W V Wr. unfold multi_openwrite, mbind. rewrite (multi_pick_writing_some _ _ _ _ W V Wr).
  reflexivity.
Qed.

Lemma multi_setinfo_w p0 mt st w : write_index st = Some w ->
  multi_setinfo p0 mt st = on_nth w (mem_setinfo p0 mt) st.
Proof. intro W. unfold multi_setinfo. exact (wr_bind_some (fun i => on_nth i (mem_setinfo p0 mt)) st w W). Qed.

Lemma multi_create_core p0 cs wipe st w : mwf st = true -> write_index st = Some w ->
  rpath p0 = inl cs -> (forall i, i <> w -> has st i cs = false) ->
  b_create multi_low p0 wipe st = on_nth w (mem_create p0 wipe) st.
Proof.
  intros W Wi R Al. pose proof (write_index_lt _ _ Wi) as Lt.
  destruct (nth_error_some_lt st w Lt) as [[c t] E].
  rewrite (on_nth_some _ _ _ _ _ E). unfold mem_create. rewrite !b_create_unfold.
  cbn [l_openwrite multi_low mem_low].
  assert (OW : forall s0 : mstate * outcome bool,
     s0 = match multi_openwrite p0 m_wb None st with
          | (s'', Ok _) => (s'', Ok true)
          | (s'', Err e) => (s'', Err e)
          | (s'', Crash k) => (s'', Crash k)
          end ->
     s0 = (set_nth w (c, fst (match mem_openwrite p0 m_wb None t with
                              | (s'', Ok _) => (s'', Ok true)
                              | (s'', Err e) => (s'', Err e)
                              | (s'', Crash k) => (s'', Crash k)
                              end)) st,
           snd (match mem_openwrite p0 m_wb None t with
                | (s'', Ok _) => (s'', Ok true)
                | (s'', Err e) => (s'', Err e)
                | (s'', Crash k) => (s'', Crash k)
                end))).
  { intros s0 ->. rewrite (multi_openwrite_w _ _ _ _ _ Wi m_wb_mode_valid m_wb_writing).
    rewrite (on_nth_some _ _ _ _ _ E).
    destruct (mem_openwrite p0 m_wb None t) as [t' [u|e|k]]; reflexivity. }
  destruct wipe.
  - apply OW. reflexivity.
  - rewrite (multi_exists_spec _ _ _ W R), (mem_exists_spec _ _ t R).
    rewrite (holder_alone _ _ _ W Lt Al). unfold has. rewrite E.
    destruct (lookup t cs) as [n|].
    + cbn [fst snd]. rewrite (set_nth_same _ _ _ E). reflexivity.
    + apply OW. reflexivity.
Qed.

Theorem multi_create_alone : forall p cs wipe st w, mwf st = true -> write_index st = Some w -> rpath p = inl cs ->
  (forall i, i <> w -> has st i cs = false) ->
  multi_run (OCreate p wipe) st = on_nth w (mem_run (OCreate p wipe)) st.
Proof.
  intros p0 cs wipe st w W Wi R Al. cbn [multi_run mem_run]. rewrite on_nth_vmap.
  unfold vmap, mbind. rewrite (multi_create_core _ _ _ _ _ W Wi R Al). reflexivity.
Qed.
Print Assumptions multi_create_alone.

Lemma frame_length {C} w (a b : list (C * node)) : frame_but w a b -> length a = length b.
Proof.
  intros [H _]. unfold same_members in H. rewrite <- (map_length fst a), H. apply map_length.
Qed.

Lemma on_nth_ret {C A} i (a : A) (st : list (C * node)) : i < length st -> on_nth i (ret a) st = (st, Ok a).
Proof.
  intro Lt. destruct (nth_error_some_lt st i Lt) as [[c t] E].
  rewrite (on_nth_query _ _ _ _ _ E); reflexivity.
Qed.

Lemma multi_touch_core p0 cs st w : mwf st = true -> write_index st = Some w ->
  rpath p0 = inl cs -> (forall i, i <> w -> has st i cs = false) ->
  b_touch multi_low p0 st = on_nth w (mem_touch p0) st.
Proof.
  intros W Wi R Al. pose proof (write_index_lt _ _ Wi) as Lt.
  unfold mem_touch. rewrite b_touch_unfold. unfold b_touch. rewrite on_nth_bind. unfold mbind.
  rewrite (multi_create_core _ _ _ _ _ W Wi R Al). fold (mem_create p0 false).
  pose proof (on_nth_frame w (mem_create p0 false) st) as Fr.
  destruct (on_nth w (mem_create p0 false) st) as [s' [[|]|e|k]]; try reflexivity; cbn [fst] in Fr.
  - rewrite on_nth_ret; [reflexivity|]. rewrite <- (frame_length _ _ _ Fr). exact Lt.
  - cbn [l_setinfo multi_low mem_low]. apply multi_setinfo_w.
    rewrite <- (write_index_same_members _ _ (proj1 Fr)). exact Wi.
Qed.

Theorem multi_touch_alone : forall p cs st w, mwf st = true -> write_index st = Some w -> rpath p = inl cs ->
  (forall i, i <> w -> has st i cs = false) ->
  multi_run (OTouch p) st = on_nth w (mem_run (OTouch p)) st.
Proof.
  intros p0 cs st w W Wi R Al. cbn [multi_run mem_run]. rewrite on_nth_vmap.
  unfold vmap, mbind. rewrite (multi_touch_core _ _ _ _ W Wi R Al). reflexivity.
Qed.
Print Assumptions multi_touch_alone.

(* B7 *)
Theorem multi_setinfo_lower_only : forall p cs mt st w, write_index st = Some w -> w < length st -> rpath p = inl cs ->
  has st w cs = false -> multi_run (OSetinfo p mt) st = (st, Err ResourceNotFound).
Proof.
  intros p0 cs mt st w Wi Lt R H. cbn [multi_run]. unfold vmap, mbind.
  rewrite (multi_setinfo_w _ _ _ _ Wi).
  destruct (nth_error_some_lt st w Lt) as [[c t] E]. unfold has in H. rewrite E in H.
  pose proof (mem_setinfo_spec _ _ mt t R) as Sp.
  destruct (lookup t cs); [discriminate|].
  rewrite (on_nth_query _ _ _ _ _ E); rewrite Sp; reflexivity.
Qed.
Print Assumptions multi_setinfo_lower_only.

Theorem multi_touch_lower_only : forall p cs st w i, mwf st = true -> write_index st = Some w -> rpath p = inl cs ->
  holder st cs = Some i -> has st w cs = false -> multi_run (OTouch p) st = (st, Err ResourceNotFound).
Proof.
  intros p0 cs st w i W Wi R Hh H. pose proof (write_index_lt _ _ Wi) as Lt.
  pose proof (multi_setinfo_lower_only p0 cs None st w Wi Lt R H) as SI.
  cbn [multi_run] in *. unfold vmap, mbind in *.
  rewrite b_touch_unfold, b_create_unfold, (multi_exists_spec _ _ _ W R), Hh.
  cbn [l_setinfo multi_low].
  destruct (multi_setinfo p0 None st) as [s' [u|e|k]]; inversion SI; reflexivity.
Qed.
Print Assumptions multi_touch_lower_only.

Theorem multi_makedir_parent_lower_only : forall p d c r st w, write_index st = Some w -> w < length st ->
  rpath p = inl (d ++ [c]) -> lookup (tree_at st w) d = None ->
  multi_run (OMakedir p r) st = (st, Err ResourceNotFound).
Proof.
  intros p0 d c r st w Wi Lt R H. cbn [multi_run]. unfold multi_makedir.
  rewrite vmap_bind_eq, (wr_bind_some _ _ _ Wi). unfold vmap, mbind.
  destruct (nth_error_some_lt st w Lt) as [[c0 t] E]. unfold tree_at in H. rewrite E in H.
  pose proof (mem_makedir_snoc _ _ _ r t R) as Sp. rewrite H in Sp.
  rewrite (on_nth_query _ _ _ _ _ E); rewrite Sp; reflexivity.
Qed.
Print Assumptions multi_makedir_parent_lower_only.

Example multi_lower_only_ex :
  multi_run (OTouch (p "h"%string)) ex_multi = (ex_multi, Err ResourceNotFound) /\
  multi_run (OExists (p "h"%string)) ex_multi = (ex_multi, Ok (VBool true)) /\
  multi_run (OSetinfo (p "h"%string) (Some 5%Z)) ex_multi = (ex_multi, Err ResourceNotFound) /\
  multi_run (OMakedir (p "e/n"%string) false) ex_multi = (ex_multi, Err ResourceNotFound) /\
  multi_run (OIsdir (p "e"%string)) ex_multi = (ex_multi, Ok (VBool true)) /\
  write_index ex_multi = Some 0 /\ holder ex_multi [p "h"%string] = Some 1 /\
  has ex_multi 0 [p "h"%string] = false /\ lookup (tree_at ex_multi 0) [p "e"%string] = None.
Proof. vm_compute. repeat split; reflexivity. Qed.

(* ------------------------------------------------------------------ *)
(* B3: the frame                                                       *)
(* ------------------------------------------------------------------ *)
Definition pres {A} (w : option nat) (m : M mstate A) : Prop :=
  forall s, write_index s = w -> frame_but w s (fst (m s)).

Lemma frame_refl {C} w (a : list (C * node)) : frame_but w a a.
Proof. split; [reflexivity|]. intros; reflexivity. Qed.

Lemma frame_trans {C} w (a b c : list (C * node)) : frame_but w a b -> frame_but w b c -> frame_but w a c.
Proof.
  intros [S1 T1] [S2 T2]. split.
  - unfold same_members in *. congruence.
  - intros i Hi. rewrite (T2 i Hi). apply T1. exact Hi.
Qed.

Lemma frame_wi w (a b : mstate) : frame_but w a b -> write_index b = write_index a.
Proof. intros [S1 _]. symmetry. apply write_index_same_members. exact S1. Qed.

Lemma pres_state {A} w (g : mstate -> outcome A) : pres w (fun st => (st, g st)).
Proof. intros s _. apply frame_refl. Qed.

Lemma pres_ret {A} w (a : A) : pres w (ret a).
Proof. intros s _. apply frame_refl. Qed.
Lemma pres_raise {A} w e : pres w (@raise mstate A e).
Proof. intros s _. apply frame_refl. Qed.
Lemma pres_crash {A} w k : pres w (@Monad.crash mstate A k).
Proof. intros s _. apply frame_refl. Qed.
Lemma pres_lift {A} w (o : outcome A) : pres w (lift o).
Proof. intros s _. apply frame_refl. Qed.
Lemma pres_get w : pres w (@get mstate).
Proof. intros s _. apply frame_refl. Qed.

Lemma pres_bind {A B} w (m : M mstate A) (f : A -> M mstate B) :
  pres w m -> (forall a, pres w (f a)) -> pres w (mbind m f).
Proof.
  intros Hm Hf s Ws. unfold mbind. pose proof (Hm s Ws) as F.
  destruct (m s) as [s' [a|e|k]]; cbn [fst] in *; try exact F.
  eapply frame_trans; [exact F|]. apply Hf. rewrite (frame_wi _ _ _ F). exact Ws.
Qed.

Lemma pres_catch {A} w (m h : M mstate A) e : pres w m -> pres w h -> pres w (catch m e h).
Proof.
  intros Hm Hh s Ws. unfold catch. pose proof (Hm s Ws) as F.
  destruct (m s) as [s' [a|e'|k]]; cbn [fst] in *; try exact F.
  destruct (ecls_eqb e e'); [|exact F].
  eapply frame_trans; [exact F|]. apply Hh. rewrite (frame_wi _ _ _ F). exact Ws.
Qed.

Lemma pres_mfor {A} w (f : A -> M mstate unit) l : (forall a, pres w (f a)) -> pres w (mfor l f).
Proof.
  intro H. induction l as [|x r IH]; cbn [mfor]; [apply pres_ret|].
  apply pres_bind; [apply H|intros _; exact IH].
Qed.

Lemma pres_vmap {A} w (g : A -> value) (m : M mstate A) : pres w m -> pres w (vmap g m).
Proof. intro H. unfold vmap. apply pres_bind; [exact H|intro; apply pres_ret]. Qed.

Definition ro {A} (m : MM A) : Prop := forall t, fst (m t) = t.

Lemma pres_on_nth_ro {A} w i (m : MM A) : ro m -> pres w (on_nth i m).
Proof.
  intros H s _. unfold on_nth. destruct (nth_error s i) as [[c t]|] eqn:E; [|apply frame_refl].
  specialize (H t). destruct (m t) as [t' o]. cbn [fst] in *. subst t'.
  rewrite (set_nth_same _ _ _ E). apply frame_refl.
Qed.

Lemma pres_on_nth_w {A} i (m : MM A) : pres (Some i) (on_nth i m).
Proof. intros s _. apply on_nth_frame. Qed.

Lemma pres_writable_bind {A} w (f : nat -> M mstate A) :
  (forall i, w = Some i -> pres w (f i)) -> pres w (mbind m_writable_required f).
Proof.
  intros H s Ws. unfold mbind, m_writable_required. rewrite Ws.
  destruct w as [i|]; [apply (H i eq_refl); exact Ws|apply frame_refl].
Qed.

Lemma pres_delegate w p0 : pres w (m_delegate p0).
Proof. unfold m_delegate. apply pres_state. Qed.

Lemma pres_delegate_required w p0 : pres w (m_delegate_required p0).
Proof.
  unfold m_delegate_required. apply pres_bind; [apply pres_delegate|].
  intros [i|]; [apply pres_ret|apply pres_raise].
Qed.

Lemma ro_openwrite p0 mode d : m_writing mode = false -> ro (mem_openwrite p0 mode d).
Proof.
  intros H t. unfold mem_openwrite. mstep. pose proof (mem_open_pure p0 mode t H) as P.
  destruct (mem_open p0 mode t) as [s' [h|e|k]]; cbn [fst] in *; try exact P.
  destruct d; [|exact P]. rewrite H. cbn [negb fst]. exact P.
Qed.

Lemma ro_run_openread p0 mode : m_writing mode = false -> ro (mem_run (OOpenread p0 mode)).
Proof. intros H t. apply mem_nonmutating_pure. exact H. Qed.

Lemma pres_pick_bind {A} w p0 m (X : MM A) : (m_writing m = false -> ro X) ->
  pres w (mbind (multi_pick p0 m) (fun i => on_nth i X)).
Proof.
  intro H. unfold multi_pick. destruct (mode_valid m); cbn [negb].
  - destruct (m_writing m).
    + apply pres_writable_bind. intros i ->. apply pres_on_nth_w.
    + apply pres_bind; [apply pres_delegate_required|]. intro i. apply pres_on_nth_ro. apply H. reflexivity.
  - intros s _. apply frame_refl.
Qed.

Lemma ro_q p0 :
  ro (mem_getinfo p0) /\ ro (mem_isdir p0) /\ ro (mem_isfile p0) /\ ro (mem_getsize p0) /\
  ro (mem_gettype p0) /\ ro (mem_readbytes p0) /\ ro (mem_validatepath p0) /\ ro (mem_openread p0).
Proof.
  repeat split; intro t;
    destruct (mem_query_pure p0 t) as (Q1 & Q2 & Q3 & Q4 & Q5 & Q6 & Q7 & Q8 & Q9 & Q10 & Q11);
    assumption.
Qed.

Lemma pres_multi_validatepath w p0 : pres w (multi_validatepath p0).
Proof.
  intros s Ws. unfold multi_validatepath. rewrite Ws. destruct w as [i|].
  - assert (P : pres (Some i) (mbind (on_nth i (mem_validatepath p0))
                 (fun _ => mbind (lift (normpath p0)) (fun n => ret (abspath n))))).
    { apply pres_bind; [apply pres_on_nth_w|]. intros _. apply pres_bind; [apply pres_lift|].
      intro n. apply pres_ret. }
    apply P. exact Ws.
  - assert (P : pres None (mbind (@lift mstate _ (normpath p0)) (fun n => ret (abspath n)))).
    { apply pres_bind; [apply pres_lift|]. intro n. apply pres_ret. }
    apply P. exact Ws.
Qed.

Lemma pres_multi_getinfo w p0 : pres w (multi_getinfo p0).
Proof.
  unfold multi_getinfo. apply pres_bind; [apply pres_delegate|].
  intros [i|]; [|apply pres_raise]. apply pres_bind; [apply pres_lift|]. intro n.
  apply pres_on_nth_ro. apply ro_q.
Qed.

Lemma pres_multi_query {A} w p0 (none : M mstate A) (f : MM A) : pres w none -> ro f ->
  pres w (multi_query p0 none f).
Proof.
  intros Hn Hf. unfold multi_query. apply pres_bind; [apply pres_delegate|].
  intros [i|]; [apply pres_on_nth_ro; exact Hf|exact Hn].
Qed.

Lemma pres_multi_makedir w p0 r : pres w (multi_makedir p0 r).
Proof. unfold multi_makedir. apply pres_writable_bind. intros i ->. apply pres_on_nth_w. Qed.
Lemma pres_multi_makedirs w p0 r : pres w (multi_makedirs p0 r).
Proof. unfold multi_makedirs. apply pres_writable_bind. intros i ->. apply pres_on_nth_w. Qed.
Lemma pres_multi_setinfo w p0 mt : pres w (multi_setinfo p0 mt).
Proof. unfold multi_setinfo. apply pres_writable_bind. intros i ->. apply pres_on_nth_w. Qed.
Lemma pres_multi_writebytes w p0 d : pres w (multi_writebytes p0 d).
Proof. unfold multi_writebytes. apply pres_writable_bind. intros i ->. apply pres_on_nth_w. Qed.
Lemma pres_multi_openwrite w p0 m d : pres w (multi_openwrite p0 m d).
Proof. unfold multi_openwrite. apply pres_pick_bind. apply ro_openwrite. Qed.
Lemma pres_multi_openread w p0 : pres w (multi_openread p0).
Proof.
  unfold multi_openread. apply pres_bind; [apply pres_delegate_required|]. intro i.
  apply pres_on_nth_ro. apply ro_q.
Qed.
Lemma pres_multi_listdir w p0 : pres w (multi_listdir p0).
Proof. unfold multi_listdir. apply pres_state. Qed.
Lemma pres_multi_scandir w p0 : pres w (multi_scandir p0).
Proof. unfold multi_scandir, multi_scandir_page. apply pres_state. Qed.

(* the derived methods over any record whose non-removing fields keep the frame *)
Definition low_pres (w : option nat) (L : low mstate) : Prop :=
  (forall q, pres w (l_validatepath L q)) /\ (forall q, pres w (l_getinfo L q)) /\
  (forall q, pres w (l_scandir L q)) /\ (forall q r, pres w (l_makedir L q r)) /\
  (forall q, pres w (l_openread L q)) /\ (forall q m d, pres w (l_openwrite L q m d)) /\
  (forall q mt, pres w (l_setinfo L q mt)).

Lemma multi_low_pres w : low_pres w multi_low.
Proof.
  unfold low_pres. cbn [multi_low l_validatepath l_getinfo l_scandir l_makedir l_openread l_openwrite l_setinfo].
  repeat match goal with |- _ /\ _ => split end; intros.
  - apply pres_multi_validatepath.
  - apply pres_multi_getinfo.
  - apply pres_multi_scandir.
  - apply pres_multi_makedir.
  - apply pres_multi_openread.
  - apply pres_multi_openwrite.
  - apply pres_multi_setinfo.
Qed.

Ltac pres_step :=
  first [ apply pres_ret | apply pres_raise | apply pres_lift | apply pres_crash | apply pres_get
        | assumption
        | match goal with
          | |- forall _, _ => intro
          | |- pres _ (if ?b then _ else _) => destruct b
          | |- pres _ (mbind _ _) => apply pres_bind
          | |- pres _ (catch _ _ _) => apply pres_catch
          | |- pres _ (mfor _ _) => apply pres_mfor
          end
        | progress cbv zeta ].

Section PresDerived.
  Variable w : option nat.
  Variable L : low mstate.
  Hypothesis HL : low_pres w L.

  Lemma Hv : forall q, pres w (l_validatepath L q). Proof. apply HL. Qed.
  Lemma Hg : forall q, pres w (l_getinfo L q). Proof. apply HL. Qed.
  Lemma Hs : forall q, pres w (l_scandir L q). Proof. apply HL. Qed.
  Lemma Hmk : forall q r, pres w (l_makedir L q r). Proof. apply HL. Qed.
  Lemma Hor : forall q, pres w (l_openread L q). Proof. apply HL. Qed.
  Lemma How : forall q m d, pres w (l_openwrite L q m d). Proof. apply HL. Qed.
  Lemma Hsi : forall q mt, pres w (l_setinfo L q mt). Proof. apply HL. Qed.

  Ltac pres_auto :=
    repeat first [ apply Hv | apply Hg | apply Hs | apply Hmk | apply Hor | apply How | apply Hsi | pres_step ].

  Lemma pres_b_exists q : pres w (b_exists L q).
  Proof. unfold b_exists. pres_auto. Qed.

  Lemma pres_b_isempty q : pres w (b_isempty L q).
  Proof. unfold b_isempty. pres_auto. Qed.

  Lemma pres_b_create q wipe : pres w (b_create L q wipe).
  Proof. unfold b_create. pres_auto; apply pres_b_exists. Qed.

  Lemma pres_b_touch q : pres w (b_touch L q).
  Proof. unfold b_touch. apply pres_bind; [apply pres_b_create|]. pres_auto. Qed.

  Lemma pres_b_appendbytes q d : pres w (b_appendbytes L q d).
  Proof. unfold b_appendbytes. apply How. Qed.

  Lemma pres_b_upload q d : pres w (b_upload L q d).
  Proof. unfold b_upload. apply How. Qed.

  Lemma pres_b_copy_modified_time a b : pres w (b_copy_modified_time L a b).
  Proof. unfold b_copy_modified_time. pres_auto. Qed.

  Lemma pres_b_copy a b o t : pres w (b_copy L a b o t).
  Proof.
    unfold b_copy. apply pres_bind; [apply Hv|]. intro _src. apply pres_bind; [apply Hv|]. intro _dst.
    apply pres_bind; [destruct o; [apply pres_ret|apply pres_b_exists]|]. intro e.
    destruct e; [apply pres_raise|]. destruct (str_eqb _src _dst); [apply pres_raise|].
    apply pres_bind; [apply Hor|]. intro d. apply pres_bind; [apply pres_b_upload|]. intros _.
    destruct t; [apply pres_b_copy_modified_time|apply pres_ret].
  Qed.

  Lemma pres_walk_fuel : pres w (walk_fuel L).
  Proof. unfold walk_fuel. pres_auto. Qed.

  Lemma pres_bfs_walk visit : (forall d i, pres w (visit d i)) ->
    forall fuel queue, pres w (bfs_walk L fuel queue visit).
  Proof.
    intro Hvis. induction fuel as [|f IH]; intro queue; cbn [bfs_walk]; [apply pres_crash|].
    destruct queue as [|d q]; [apply pres_ret|].
    apply pres_bind; [apply Hs|]. intro infos.
    apply pres_bind; [|intro nd; apply IH].
    match goal with
    | |- pres _ (?g infos []) => assert (G : forall l acc, pres w (g l acc)); [|apply G]
    end.
    induction l as [|i r IHr]; intro acc; [apply pres_ret|].
    apply pres_bind; [apply Hvis|]. intros _. apply IHr.
  Qed.

  Variable makedirs : str -> bool -> M mstate unit.
  Hypothesis Hmds : forall q r, pres w (makedirs q r).
  Variable copy : str -> str -> bool -> bool -> M mstate unit.
  Hypothesis Hcopy : forall a b o t, pres w (copy a b o t).

  Lemma pres_copy_structure2 a b : pres w (copy_structure2 L makedirs a b).
  Proof.
    unfold copy_structure2. apply pres_bind; [apply Hv|]. intro _src. apply pres_bind; [apply Hv|]. intro _dst.
    destruct (isbase _src _dst); [apply pres_raise|].
    apply pres_bind; [apply Hmds|]. intros _. apply pres_bind; [apply pres_walk_fuel|]. intro fuel.
    apply pres_bfs_walk. intros d i. destruct (i_isdir i); [|apply pres_ret].
    apply pres_bind; [apply pres_lift|]. intro rel. apply Hmds.
  Qed.

  Lemma pres_copy_file_internal a b t : pres w (copy_file_internal L copy a b t).
  Proof.
    unfold copy_file_internal. apply pres_bind; [apply Hv|]. intro _src. apply pres_bind; [apply Hv|]. intro _dst.
    destruct (str_eqb _src _dst); [apply pres_raise|apply Hcopy].
  Qed.

  Lemma pres_copy_dir2 a b t : pres w (copy_dir2 L makedirs copy a b t).
  Proof.
    unfold copy_dir2. apply pres_bind; [apply pres_lift|]. intro ns. apply pres_bind; [apply pres_lift|]. intro nd.
    cbv zeta. apply pres_bind; [apply pres_copy_structure2|]. intros _.
    apply pres_bind; [apply pres_walk_fuel|]. intro fuel.
    apply pres_bfs_walk. intros d i. destruct (i_isdir i); [apply pres_ret|].
    cbv zeta. apply pres_bind; [apply pres_lift|]. intro rel. apply pres_copy_file_internal.
  Qed.

  Lemma pres_b_copydir2 a b c t : pres w (b_copydir2 L makedirs copy a b c t).
  Proof.
    unfold b_copydir2. apply pres_bind; [apply Hv|]. intro _src. apply pres_bind; [apply Hv|]. intro _dst.
    destruct (isbase _src _dst); [apply pres_raise|].
    apply pres_bind; [destruct c; [apply pres_ret|apply pres_b_exists]|]. intro e.
    destruct (negb e); [apply pres_raise|].
    apply pres_bind; [apply Hg|]. intro i. destruct (negb (i_isdir i)); [apply pres_raise|].
    apply pres_copy_dir2.
  Qed.
End PresDerived.

Lemma multi_pres : forall o w, removing o = false -> pres w (multi_run o).
Proof.
  intros o w R. pose proof (multi_low_pres w) as HL.
  destruct o; try discriminate R; cbn [multi_run]; try apply pres_vmap.
  - apply pres_multi_getinfo.
  - apply pres_multi_listdir.
  - apply pres_multi_scandir.
  - apply pres_multi_makedir.
  - apply pres_multi_makedirs.
  - apply pres_multi_writebytes.
  - apply pres_b_appendbytes. exact HL.
  - apply pres_multi_query; [apply pres_raise|apply ro_q].
  - apply pres_b_create. exact HL.
  - apply pres_b_touch. exact HL.
  - apply pres_multi_openwrite.
  - apply pres_pick_bind. apply ro_run_openread.
  - apply pres_b_copy. exact HL.
  - apply pres_b_copydir2; [exact HL|apply pres_multi_makedirs|].
    intros. apply pres_b_copy. exact HL.
  - apply pres_multi_setinfo.
  - apply pres_b_exists. exact HL.
  - apply pres_multi_query; [apply pres_ret|apply ro_q].
  - apply pres_multi_query; [apply pres_ret|apply ro_q].
  - apply pres_b_isempty. exact HL.
  - apply pres_multi_query; [apply pres_raise|apply ro_q].
  - apply pres_multi_query; [apply pres_raise|apply ro_q].
Qed.

(* B3 *)
Theorem multi_frame : forall o st, removing o = false -> frame_but (write_index st) st (fst (multi_run o st)).
Proof. intros o st R. apply (multi_pres o (write_index st) R st eq_refl). Qed.
Print Assumptions multi_frame.

(* B4 *)
Lemma trees_eq {C} (a b : list (C * node)) : map fst a = map fst b ->
  (forall i, tree_at b i = tree_at a i) -> map snd b = map snd a.
Proof.
  revert b. induction a as [|[c t] r IH]; intros [|[c' t'] r'] H T; cbn in H; try discriminate;
    [reflexivity|].
  cbn [map snd]. f_equal.
  - exact (T 0).
  - apply IH; [inversion H; reflexivity|]. intro i. exact (T (S i)).
Qed.

Theorem multi_no_write_member_unchanged : forall o st, write_index st = None -> removing o = false ->
  map snd (fst (multi_run o st)) = map snd st.
Proof.
  intros o st W R. pose proof (multi_frame o st R) as [S1 T1]. rewrite W in T1.
  apply trees_eq; [exact S1|]. intro i. apply T1. discriminate.
Qed.
Print Assumptions multi_no_write_member_unchanged.

Example multi_no_write_member_unchanged_ex :
  write_index ex_multi_ro = None /\
  multi_run (OCopydir (p "a"%string) (p "b"%string) true false) ex_multi_ro = (ex_multi_ro, Err ResourceReadOnly) /\
  fst (multi_run (OCreate (p "n"%string) false) ex_multi_ro) = ex_multi_ro.
Proof. vm_compute. repeat split; reflexivity. Qed.

(* the frame on an example: copydir "a" -> "c" reads both members and writes member 0 only *)
Example multi_frame_ex :
  let r := multi_run (OCopydir (p "a"%string) (p "c"%string) true false) ex_multi in
  snd r = Ok VUnit /\ node_eqb true (tree_at (fst r) 1) ex_hi = true /\
  lookup (tree_at (fst r) 0) [p "c"%string; p "z"%string] = Some (File (p "hi-z"%string) None) /\
  lookup (tree_at (fst r) 0) [p "c"%string; p "x"%string] = Some (File (p "hi-x"%string) None).
Proof. vm_compute. repeat split; reflexivity. Qed.
