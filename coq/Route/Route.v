(* fs/mountfs.py MountFS._delegate / mount and fs/multifs.py MultiFS ordering and
   delegation, with their component-level specifications. *)
From Coq Require Import List NArith ZArith Bool Arith Lia.
From PyFS Require Import Base.PyStr Base.Outcome Path.PathModel Path.PathSpec.
Import ListNotations.

(* ---------- MountFS ---------- *)
(* self.mounts: list of (forcedir(abspath(normpath(path))), filesystem id) in mount order *)
Definition mounts := list (str * nat).

Definition mount_key (p : str) : outcome str :=
  match normpath p with
  | Ok n => Ok (forcedir (abspath n))
  | Err e => Err e
  | Crash k => Crash k
  end.

(* MountFS._delegate: Some (fs id, path inside it) or None = default filesystem, raw path *)
Fixpoint delegate_scan (ms : mounts) (_path : str) : option (nat * str) :=
  match ms with
  | [] => None
  | (mp, i) :: r =>
    if starts_with mp _path then Some (i, rstrip_c slash (skipn (length mp) _path))
    else delegate_scan r _path
  end.

Definition mount_delegate (ms : mounts) (path : str) : outcome (option (nat * str)) :=
  match mount_key path with
  | Ok k => Ok (delegate_scan ms k)
  | Err e => Err e
  | Crash k => Crash k
  end.

(* MountFS.mount: refused (MountError) when the new point lies inside an existing mount *)
Definition mount_overlaps (ms : mounts) (key : str) : bool :=
  existsb (fun m => starts_with (fst m) key) ms.

Definition mount_add (ms : mounts) (path : str) (i : nat) : outcome (option mounts) :=
  match mount_key path with
  | Ok k => Ok (if mount_overlaps ms k then None else Some (ms ++ [(k, i)]))
  | Err e => Err e
  | Crash c => Crash c
  end.

(* specification on components: first mount (in mount order) whose point is a whole-component
   prefix of the path; the path is made relative to it *)
Fixpoint route_spec (ms : list (list str * nat)) (cs : list str) : option (nat * list str) :=
  match ms with
  | [] => None
  | (mc, i) :: r => if cprefix mc cs then Some (i, skipn (length mc) cs) else route_spec r cs
  end.

Definition key_of (mc : list str) : str := forcedir (to_path true mc).

(* ---------- MultiFS ---------- *)
(* _filesystems: name -> ((priority, insertion index), fs id); iterate_fs = sorted(reverse) *)
Record member := { m_prio : Z; m_index : nat; m_id : nat }.

Definition key_gt (a b : member) : bool :=     (* (priority, index) of a  >  that of b *)
  (m_prio b <? m_prio a)%Z || ((m_prio a =? m_prio b)%Z && (m_index b <? m_index a)).

Fixpoint insert_desc (x : member) (l : list member) : list member :=
  match l with
  | [] => [x]
  | y :: r => if key_gt x y then x :: l else y :: insert_desc x r
  end.

Definition iterate_fs (l : list member) : list member := fold_right insert_desc [] l.

(* add_fs: the index is the running counter *)
Definition add_fs (l : list member) (counter : nat) (prio : Z) (id : nat) : list member :=
  l ++ [{| m_prio := prio; m_index := counter; m_id := id |}].

(* _delegate: first member in iterate order that has the path *)
Definition multi_delegate (l : list member) (has : nat -> bool) : option nat :=
  match find (fun m => has (m_id m)) (iterate_fs l) with
  | Some m => Some (m_id m)
  | None => None
  end.

(* listdir: union in iterate order, each name once; None when no member has the directory *)
Fixpoint dedup_add (seen : list str) (names : list str) : list str :=
  match names with
  | [] => seen
  | n :: r => if existsb (str_eqb n) seen then dedup_add seen r else dedup_add (seen ++ [n]) r
  end.

Definition multi_listdir (l : list member) (listing : nat -> option (list str)) : option (list str) :=
  let ls := map (fun m => listing (m_id m)) (iterate_fs l) in
  if existsb (fun o => match o with Some _ => true | None => false end) ls then
    Some (fold_left (fun acc o => match o with Some ns => dedup_add acc ns | None => acc end) ls [])
  else None.
