(* A MultiFS with exactly ONE member, which is the write member, refines that member. *)
From Coq Require Import List NArith ZArith Bool Arith Lia Permutation Sorting.
From PyFS Require Import Base.PyStr Base.Outcome Path.PathModel Path.PathSpec FS.Tree FS.Monad FS.Mode FS.Base FS.Mem FS.Ops FS.Ref
     FS.Agree FS.Wf FS.TreeLemmas FS.RefineLemmas Route.Route Route.RouteProofs Route.Composite Route.CompositeLemmas Route.CompositeEx.
From PyFS Require Import Path.PathProofs FS.RefineProofs.
Import ListNotations.
Local Open Scope monad_scope.

Definition lift1' {A} (c : cmember) (r : node * outcome A) : mstate * outcome A := ([(c, fst r)], snd r).
Definition lift1 (c : cmember) (r : node * outcome value) : mstate * outcome value := ([(c, fst r)], snd r).

Lemma lift1_eq c r : lift1 c r = lift1' c r.
Proof. reflexivity. Qed.

Lemma lift1'_pair {A} c t (o : outcome A) : lift1' c (t, o) = ([(c, t)], o).
Proof. reflexivity. Qed.

(* vmap commutes with the embedding *)
Lemma vmap_lift1 {A} (f : A -> value) (m1 : M mstate A) (m2 : MM A) c t :
  m1 [(c, t)] = lift1' c (m2 t) -> vmap f m1 [(c, t)] = lift1 c (vmap f m2 t).
Proof.
  intro H. unfold vmap, mbind, ret. rewrite H. unfold lift1, lift1'.
  destruct (m2 t) as [t' [a|e|k]]; reflexivity.
Qed.

(* ---- path and listing helpers ---- *)
Lemma normpath_inl p cs : rpath p = inl cs -> exists n, normpath p = Ok n /\ abspath n = to_path true cs.
Proof.
  intro R. pose proof (rpath_good _ _ R) as G. apply rpath_inl in R as [H1 H2].
  rewrite normpath_spec. unfold spec_normpath. rewrite H2. eexists. split; [reflexivity|].
  now apply abspath_nf_gen.
Qed.

Lemma normpath_inr p adm : rpath p = inr adm -> has_char Mem.nul p = false ->
  normpath p = Err IllegalBackReference.
Proof.
  unfold rpath. change Ref.nul with Mem.nul. intros R H. rewrite H in R.
  rewrite normpath_spec. unfold spec_normpath. destruct (resolve (comps p)); [discriminate|reflexivity].
Qed.

Lemma existsb_str_notin n seen : ~ In n seen -> existsb (str_eqb n) seen = false.
Proof.
  intro H. destruct (existsb (str_eqb n) seen) eqn:E; [|reflexivity].
  apply existsb_exists in E as [x [I X]]. apply str_eqb_eq in X. subst. contradiction.
Qed.

Lemma dedup_add_nodup l : forall seen, NoDup (seen ++ l) -> dedup_add seen l = seen ++ l.
Proof.
  induction l as [|n r IH]; intros seen H; cbn [dedup_add].
  - now rewrite app_nil_r.
  - rewrite existsb_str_notin.
    + rewrite IH; rewrite <- app_assoc; [reflexivity|exact H].
    + apply NoDup_remove_2 in H. intro I. apply H. apply in_or_app. now left.
Qed.

Lemma dedup_infos_nodup l : forall seen, NoDup (seen ++ map i_name l) -> dedup_infos seen l = l.
Proof.
  induction l as [|i r IH]; intros seen H; cbn [dedup_infos]; [reflexivity|].
  cbn [map] in H. rewrite existsb_str_notin.
  - f_equal. apply IH. rewrite <- app_assoc. exact H.
  - apply NoDup_remove_2 in H. intro I. apply H. apply in_or_app. now left.
Qed.

Lemma names_to_info (ents : list (str * node)) :
  map i_name (map (fun kn => to_info (fst kn) (snd kn)) ents) = keys ents.
Proof. unfold keys. rewrite map_map. apply map_ext. intros [k n]. reflexivity. Qed.

Lemma wf_lookup_nodup t cs ents m : wf t -> lookup t cs = Some (Dir ents m) -> NoDup (keys ents).
Proof.
  intros [_ W] L. pose proof (wf_lookup _ _ _ W L) as X. cbn in X. exact (proj1 X).
Qed.

(* a missing path: its parent is missing, is a file, or lacks the name *)
Lemma lookup_none_cases t cs : lookup t cs = None ->
  exists d c0, cs = d ++ [c0] /\
    match lookup t d with Some (Dir ents _) => assoc c0 ents = None | _ => True end.
Proof.
  intro L. destruct (list_snoc_case cs) as [->|[d [c0 ->]]]; [discriminate|].
  exists d, c0. split; [reflexivity|]. rewrite lookup_snoc in L.
  destruct (lookup t d) as [[|ents m]|]; auto.
Qed.

Lemma mem_open_missing p cs mode t : rpath p = inl cs -> lookup t cs = None ->
  mode_valid_bin mode = true -> m_create mode = false -> mem_open p mode t = (t, Err ResourceNotFound).
Proof.
  intros R L V C. destruct (lookup_none_cases _ _ L) as [d [c0 [-> H]]].
  rewrite (mem_open_snoc _ _ _ _ t R V).
  destruct (lookup t d) as [[|ents m]|]; try reflexivity. rewrite H, C. reflexivity.
Qed.

Lemma mem_openread_missing p cs t : rpath p = inl cs -> lookup t cs = None ->
  mem_openread p t = (t, Err ResourceNotFound).
Proof.
  intros R L. unfold mem_openread. mstep. rewrite (mem_open_missing _ _ _ t R L); reflexivity.
Qed.

Lemma mem_remove_missing p cs t : rpath p = inl cs -> lookup t cs = None ->
  mem_remove p t = (t, Err ResourceNotFound).
Proof.
  intros R L. destruct (lookup_none_cases _ _ L) as [d [c0 [-> H]]].
  rewrite (mem_remove_snoc _ _ _ t R).
  destruct (lookup t d) as [[|ents m]|]; try reflexivity. rewrite H. reflexivity.
Qed.

Lemma mem_removedir_missing p cs t : rpath p = inl cs -> lookup t cs = None ->
  mem_removedir p t = (t, Err ResourceNotFound).
Proof.
  intros R L. destruct (lookup_none_cases _ _ L) as [d [c0 [-> H]]].
  rewrite (mem_removedir_snoc _ _ _ t R). rewrite L. reflexivity.
Qed.

Lemma mode_bin_valid m : mode_valid_bin m = true -> mode_valid m = true.
Proof. unfold mode_valid_bin. intro H. apply andb_true_iff in H. tauto. Qed.

Lemma not_writing_not_create m : m_writing m = false -> m_create m = false.
Proof.
  unfold m_writing, m_create. intro H.
  apply orb_false_iff in H as [H H4]. apply orb_false_iff in H as [H H3]. apply orb_false_iff in H as [H1 H2].
  rewrite H1, H2, H4. reflexivity.
Qed.

(* ---- simulation of the monad combinators under the embedding t |-> [(c, t)] ---- *)
Lemma bind_sim {A B} (m1 : M mstate A) (m2 : MM A) (k1 : A -> M mstate B) (k2 : A -> MM B) c t :
  m1 [(c, t)] = lift1' c (m2 t) ->
  (forall a t', k1 a [(c, t')] = lift1' c (k2 a t')) ->
  mbind m1 k1 [(c, t)] = lift1' c (mbind m2 k2 t).
Proof.
  intros H1 H2. unfold mbind. rewrite H1. unfold lift1' at 1.
  destruct (m2 t) as [t' [a|e|k]]; cbn [fst snd]; [apply H2|reflexivity|reflexivity].
Qed.

Lemma catch_sim {A} (m1 : M mstate A) (m2 : MM A) e (h1 : M mstate A) (h2 : MM A) c t :
  m1 [(c, t)] = lift1' c (m2 t) ->
  (forall t', h1 [(c, t')] = lift1' c (h2 t')) ->
  catch m1 e h1 [(c, t)] = lift1' c (catch m2 e h2 t).
Proof.
  intros H1 H2. unfold catch. rewrite H1. unfold lift1' at 1.
  destruct (m2 t) as [t' [a|e'|k]]; cbn [fst snd]; try reflexivity.
  destruct (ecls_eqb e e'); [apply H2|reflexivity].
Qed.

Section One.
  Variable c : cmember.
  Hypothesis Hw : cm_write c = true.
  Hypothesis Hid : m_id (cm c) = 0.

  Lemma order_one t : order [(c, t)] = [0].
  Proof. unfold order, members_of. cbn. rewrite Hid. reflexivity. Qed.

  Lemma write_index_one t : write_index [(c, t)] = Some 0.
  Proof. unfold write_index. cbn. rewrite Hw. reflexivity. Qed.

  Lemma on_nth_one {A} (m : MM A) t : on_nth 0 m [(c, t)] = lift1' c (m t).
  Proof. unfold on_nth, lift1'. cbn. destruct (m t). reflexivity. Qed.

  Lemma writable_one t : m_writable_required [(c, t)] = ([(c, t)], Ok 0).
  Proof. unfold m_writable_required. rewrite write_index_one. reflexivity. Qed.

  Lemma writable_sim {A} (f : MM A) t :
    (i <- m_writable_required ;; on_nth i f) [(c, t)] = lift1' c (f t).
  Proof. unfold mbind. rewrite writable_one. apply on_nth_one. Qed.

  Lemma delegate_one p t :
    m_delegate p [(c, t)] =
    ([(c, t)], match snd (mem_exists p t) with
               | Ok true => Ok (Some 0) | Ok false => Ok None | Err e => Err e | Crash k => Crash k
               end).
  Proof.
    unfold m_delegate. rewrite order_one. unfold delegate_in, ask. cbn [nth_error].
    destruct (snd (mem_exists p t)) as [[|]|e|k]; reflexivity.
  Qed.

  Lemma query_sim {A} p (none : M mstate A) (f : MM A) t :
    (forall cs, rpath p = inl cs -> lookup t cs = None -> none [(c, t)] = lift1' c (f t)) ->
    (forall adm, rpath p = inr adm -> f t = (t, Err (bad_err p))) ->
    multi_query p none f [(c, t)] = lift1' c (f t).
  Proof.
    intros H1 H2. unfold multi_query, mbind. rewrite delegate_one. unfold mem_exists.
    destruct (rpath p) as [cs|adm] eqn:R.
    - rewrite (mem_exists_spec _ _ t R). cbn [snd].
      destruct (lookup t cs) eqn:L.
      + apply on_nth_one.
      + apply (H1 cs eq_refl L).
    - rewrite (mem_exists_bad _ _ t R). cbn [snd]. rewrite (H2 adm eq_refl). reflexivity.
  Qed.

  Lemma required_sim {A} p (f : MM A) t :
    (forall cs, rpath p = inl cs -> lookup t cs = None -> f t = (t, Err ResourceNotFound)) ->
    (forall adm, rpath p = inr adm -> f t = (t, Err (bad_err p))) ->
    (i <- m_delegate_required p ;; on_nth i f) [(c, t)] = lift1' c (f t).
  Proof.
    intros H1 H2. unfold m_delegate_required, mbind. rewrite delegate_one. unfold mem_exists.
    destruct (rpath p) as [cs|adm] eqn:R.
    - rewrite (mem_exists_spec _ _ t R). cbn [snd].
      destruct (lookup t cs) eqn:L.
      + unfold ret. apply on_nth_one.
      + unfold raise. rewrite (H1 cs eq_refl L). reflexivity.
    - rewrite (mem_exists_bad _ _ t R). cbn [snd]. rewrite (H2 adm eq_refl). reflexivity.
  Qed.

  (* ---- the fields of multi_low ---- *)
  Lemma F_validatepath p t : multi_validatepath p [(c, t)] = lift1' c (mem_validatepath p t).
  Proof.
    unfold multi_validatepath. rewrite write_index_one. unfold mbind. rewrite on_nth_one.
    unfold mem_validatepath, lift1'. destruct (has_char Mem.nul p); [reflexivity|].
    mstep. destruct (normpath p); reflexivity.
  Qed.

  Lemma F_getinfo p t : multi_getinfo p [(c, t)] = lift1' c (mem_getinfo p t).
  Proof.
    unfold multi_getinfo, mbind. rewrite delegate_one. unfold mem_exists.
    destruct (rpath p) as [cs|adm] eqn:R.
    - rewrite (mem_exists_spec _ _ t R), (mem_getinfo_spec _ _ t R). cbn [snd].
      destruct (lookup t cs) as [nd|] eqn:L; [|reflexivity].
      destruct (normpath_inl _ _ R) as [np [N1 N2]]. unfold lift. rewrite N1, N2.
      rewrite on_nth_one. rewrite (mem_getinfo_spec _ _ t (rpath_nf _ (rpath_vp _ _ R))). rewrite L.
      reflexivity.
    - rewrite (mem_exists_bad _ _ t R), (mem_getinfo_bad _ _ t R). reflexivity.
  Qed.

  Lemma F_listdir p t : wf t -> multi_listdir p [(c, t)] = lift1' c (mem_listdir p t).
  Proof.
    intro W. unfold multi_listdir. rewrite order_one. unfold listdir_loop, ask. cbn [nth_error].
    destruct (rpath p) as [cs|adm] eqn:R.
    - rewrite (mem_listdir_spec _ _ t R). cbn [snd]. unfold lift1'. cbn [fst snd].
      destruct (lookup t cs) as [[|ents m]|] eqn:L; try reflexivity.
      cbn [app]. rewrite dedup_add_nodup; [reflexivity|]. cbn [app]. eapply wf_lookup_nodup; eauto.
    - rewrite (mem_listdir_bad _ _ t R). cbn [snd]. unfold lift1', bad_err.
      destruct (has_char Mem.nul p); reflexivity.
  Qed.

  Lemma F_scandir p t : wf t -> multi_scandir p [(c, t)] = lift1' c (mem_scandir p t).
  Proof.
    intro W. unfold multi_scandir, multi_scandir_page. rewrite order_one. unfold scandir_loop, ask.
    cbn [nth_error].
    destruct (rpath p) as [cs|adm] eqn:R.
    - rewrite (mem_scandir_spec _ _ t R). cbn [snd]. unfold lift1'. cbn [fst snd].
      destruct (lookup t cs) as [[|ents m]|] eqn:L; try reflexivity.
      cbn [app]. rewrite dedup_infos_nodup; [reflexivity|]. cbn [app]. rewrite names_to_info.
      eapply wf_lookup_nodup; eauto.
    - rewrite (mem_scandir_bad _ _ t R). cbn [snd]. unfold lift1', bad_err.
      destruct (has_char Mem.nul p); reflexivity.
  Qed.

  Lemma F_makedir p r t : multi_makedir p r [(c, t)] = lift1' c (mem_makedir p r t).
  Proof. apply writable_sim. Qed.

  Lemma F_makedirs p r t : multi_makedirs p r [(c, t)] = lift1' c (mem_makedirs p r t).
  Proof. apply writable_sim. Qed.

  Lemma F_setinfo p mt t : multi_setinfo p mt [(c, t)] = lift1' c (mem_setinfo p mt t).
  Proof. apply writable_sim. Qed.

  Lemma F_writebytes p d t : multi_writebytes p d [(c, t)] = lift1' c (mem_writebytes p d t).
  Proof. apply writable_sim. Qed.

  Lemma F_openread p t : multi_openread p [(c, t)] = lift1' c (mem_openread p t).
  Proof.
    apply required_sim.
    - intros cs R L. exact (mem_openread_missing _ _ t R L).
    - intros adm R. exact (mem_openread_bad _ _ t R).
  Qed.

  Lemma F_remove p t : multi_remove p [(c, t)] = lift1' c (mem_remove p t).
  Proof.
    apply required_sim.
    - intros cs R L. exact (mem_remove_missing _ _ t R L).
    - intros adm R. exact (mem_remove_bad _ _ t R).
  Qed.

  Lemma F_removedir p t : multi_removedir p [(c, t)] = lift1' c (mem_removedir p t).
  Proof.
    apply required_sim.
    - intros cs R L. exact (mem_removedir_missing _ _ t R L).
    - intros adm R. exact (mem_removedir_bad _ _ t R).
  Qed.

  (* openbin: the mode is binary-valid, or not a mode at all *)
  Lemma F_pick {A} p mode (f : MM A) t :
    mode_valid_bin mode || negb (mode_valid mode) = true ->
    (mode_valid_bin mode = false -> f t = (t, Crash ValueError)) ->
    (forall cs, mode_valid_bin mode = true -> m_writing mode = false ->
       rpath p = inl cs -> lookup t cs = None -> f t = (t, Err ResourceNotFound)) ->
    (forall adm, mode_valid_bin mode = true -> m_writing mode = false ->
       rpath p = inr adm -> f t = (t, Err (bad_err p))) ->
    (i <- multi_pick p mode ;; on_nth i f) [(c, t)] = lift1' c (f t).
  Proof.
    intros E H0 H1 H2. unfold multi_pick.
    destruct (mode_valid_bin mode) eqn:VB.
    - rewrite (mode_bin_valid _ VB). cbn [negb].
      destruct (m_writing mode) eqn:Wr.
      + apply writable_sim.
      + apply required_sim; intros; eauto.
    - cbn [orb] in E. rewrite E. unfold mbind, Monad.crash. rewrite (H0 eq_refl). reflexivity.
  Qed.

  Lemma F_openwrite p mode d t : mode_valid_bin mode || negb (mode_valid mode) = true ->
    (m_writing mode = false -> d = None) ->
    multi_openwrite p mode d [(c, t)] = lift1' c (mem_openwrite p mode d t).
  Proof.
    intros E D. unfold multi_openwrite. apply F_pick; [exact E| | |].
    - intro V. apply mem_openwrite_invalid. exact V.
    - intros cs V Wr R L. rewrite (D Wr). unfold mem_openwrite. mstep.
      rewrite (mem_open_missing _ _ _ t R L V (not_writing_not_create _ Wr)). reflexivity.
    - intros adm V Wr R. apply (mem_openwrite_bad _ _ _ _ t R V).
  Qed.

  Lemma F_openwrite_w p mode d t : mode_valid_bin mode = true -> m_writing mode = true ->
    multi_openwrite p mode d [(c, t)] = lift1' c (mem_openwrite p mode d t).
  Proof.
    intros V Wr. apply F_openwrite; [rewrite V; reflexivity|]. intro X. congruence.
  Qed.

  (* ---- the derived methods of fs/base.py over multi_low ---- *)
  Lemma D_exists p t : b_exists multi_low p [(c, t)] = lift1' c (b_exists mem_low p t).
  Proof.
    unfold b_exists. apply catch_sim; [|reflexivity].
    apply bind_sim; [apply F_getinfo|reflexivity].
  Qed.

  Lemma D_upload p d t : b_upload multi_low p d [(c, t)] = lift1' c (b_upload mem_low p d t).
  Proof. unfold b_upload. apply F_openwrite_w; reflexivity. Qed.

  Lemma D_appendbytes p d t :
    b_appendbytes multi_low p d [(c, t)] = lift1' c (b_appendbytes mem_low p d t).
  Proof. unfold b_appendbytes. apply F_openwrite_w; reflexivity. Qed.

  Lemma D_cmt s d t :
    b_copy_modified_time multi_low s d [(c, t)] = lift1' c (b_copy_modified_time mem_low s d t).
  Proof.
    unfold b_copy_modified_time. apply bind_sim; [apply F_getinfo|]. intros i t'. apply F_setinfo.
  Qed.

  Lemma D_create p w t : b_create multi_low p w [(c, t)] = lift1' c (b_create mem_low p w t).
  Proof.
    unfold b_create. apply bind_sim.
    - destruct w; [reflexivity|apply D_exists].
    - intros e t'. destruct e; [reflexivity|].
      apply bind_sim; [|reflexivity]. apply F_openwrite_w; reflexivity.
  Qed.

  Lemma D_touch p t : b_touch multi_low p [(c, t)] = lift1' c (b_touch mem_low p t).
  Proof.
    unfold b_touch. apply bind_sim; [apply D_create|]. intros b t'.
    destruct b; [reflexivity|apply F_setinfo].
  Qed.

  Lemma D_isempty p t : wf t -> b_isempty multi_low p [(c, t)] = lift1' c (b_isempty mem_low p t).
  Proof.
    intro W. unfold b_isempty. apply bind_sim; [apply F_scandir; exact W|reflexivity].
  Qed.

  Lemma D_copy s d ov pt t : multi_copy s d ov pt [(c, t)] = lift1' c (mem_copy s d ov pt t).
  Proof.
    unfold multi_copy, mem_copy, b_copy.
    apply bind_sim; [apply F_validatepath|intros _src t1].
    apply bind_sim; [apply F_validatepath|intros _dst t2].
    apply bind_sim; [destruct ov; [reflexivity|apply D_exists]|intros e t3].
    destruct e; [reflexivity|]. destruct (str_eqb _src _dst); [reflexivity|].
    apply bind_sim; [apply F_openread|intros dat t4].
    apply bind_sim; [apply D_upload|intros u t5].
    destruct pt; [apply D_cmt|reflexivity].
  Qed.

  (* ---- MultiFS's own query overrides ---- *)
  Lemma Q_isdir p t : multi_isdir p [(c, t)] = lift1' c (mem_isdir p t).
  Proof.
    apply query_sim.
    - intros cs R L. unfold mem_isdir, b_isdir. cbn [l_getinfo mem_low]. mstep.
      rewrite (mem_getinfo_spec _ _ t R), L. reflexivity.
    - intros adm R. unfold mem_isdir, b_isdir. cbn [l_getinfo mem_low]. mstep.
      rewrite (mem_getinfo_bad _ _ t R). rewrite bad_err_not_rnf. reflexivity.
  Qed.

  Lemma Q_isfile p t : multi_isfile p [(c, t)] = lift1' c (mem_isfile p t).
  Proof.
    apply query_sim.
    - intros cs R L. unfold mem_isfile, b_isfile. cbn [l_getinfo mem_low]. mstep.
      rewrite (mem_getinfo_spec _ _ t R), L. reflexivity.
    - intros adm R. unfold mem_isfile, b_isfile. cbn [l_getinfo mem_low]. mstep.
      rewrite (mem_getinfo_bad _ _ t R). rewrite bad_err_not_rnf. reflexivity.
  Qed.

  Lemma Q_readbytes p t : multi_readbytes p [(c, t)] = lift1' c (mem_readbytes p t).
  Proof.
    apply query_sim.
    - intros cs R L. unfold mem_readbytes, b_readbytes. cbn [l_openread mem_low].
      rewrite (mem_openread_missing _ _ t R L). reflexivity.
    - intros adm R. exact (mem_openread_bad _ _ t R).
  Qed.

  Lemma Q_getsize p t : multi_getsize p [(c, t)] = lift1' c (mem_getsize p t).
  Proof.
    apply query_sim.
    - intros cs R L. unfold mem_getsize, b_getsize. cbn [l_getinfo mem_low]. mstep.
      rewrite (mem_getinfo_spec _ _ t R), L. reflexivity.
    - intros adm R. unfold mem_getsize, b_getsize. cbn [l_getinfo mem_low]. mstep.
      rewrite (mem_getinfo_bad _ _ t R). reflexivity.
  Qed.

  Lemma Q_gettype p t : multi_gettype p [(c, t)] = lift1' c (mem_gettype p t).
  Proof.
    apply query_sim.
    - intros cs R L. unfold mem_gettype, b_gettype. cbn [l_getinfo mem_low]. mstep.
      rewrite (mem_getinfo_spec _ _ t R), L. reflexivity.
    - intros adm R. unfold mem_gettype, b_gettype. cbn [l_getinfo mem_low]. mstep.
      rewrite (mem_getinfo_bad _ _ t R). reflexivity.
  Qed.

  Lemma R_openread p m t : mode_valid_bin m || negb (mode_valid m) = true ->
    (i <- multi_pick p m ;; on_nth i (mem_run (OOpenread p m))) [(c, t)]
    = lift1 c (mem_run (OOpenread p m) t).
  Proof.
    intro E. rewrite lift1_eq. apply F_pick; [exact E| | |].
    - intro V. unfold mem_run. mstep. rewrite (mem_open_invalid _ _ t V). reflexivity.
    - intros cs V Wr R L. unfold mem_run. mstep.
      rewrite (mem_open_missing _ _ _ t R L V (not_writing_not_create _ Wr)). reflexivity.
    - intros adm V Wr R. unfold mem_run. mstep. rewrite (mem_open_bad _ _ _ t R V). reflexivity.
  Qed.

End One.

Definition one_exact (o : op) : bool :=
  match o with
  | ORemovetree _ | OMove _ _ _ _ | OMovedir _ _ _ _ | OCopydir _ _ _ _ => false
  | OOpenread _ m | OOpenwrite _ m _ => mode_valid_bin m || negb (mode_valid m)
  | _ => true
  end.

Theorem multi_one_refines : forall o c t, cm_write c = true -> m_id (cm c) = 0 -> wf t -> one_exact o = true ->
  multi_run o [(c, t)] = lift1 c (mem_run o t).
Proof.
  intros o c t Hw Hid W E.
  destruct o; try discriminate E; unfold multi_run, mem_run; try apply vmap_lift1.
  - apply F_getinfo; assumption.
  - apply F_listdir; assumption.
  - apply F_scandir; assumption.
  - apply F_makedir; assumption.
  - apply F_makedirs; assumption.
  - apply F_writebytes; assumption.
  - apply D_appendbytes; assumption.
  - apply Q_readbytes; assumption.
  - apply D_create; assumption.
  - apply D_touch; assumption.
  - apply F_openwrite; try assumption. intro Wr. rewrite Wr. reflexivity.
  - apply (R_openread c Hw Hid p mode t E).
  - apply F_remove; assumption.
  - apply F_removedir; assumption.
  - apply D_copy; assumption.
  - apply F_setinfo; assumption.
  - apply D_exists; assumption.
  - apply Q_isdir; assumption.
  - apply Q_isfile; assumption.
  - apply D_isempty; assumption.
  - apply Q_getsize; assumption.
  - apply Q_gettype; assumption.
Qed.
Print Assumptions multi_one_refines.

(* corollary: hence it refines the reference semantics (FS/RefineProofs.v mem_refines_ref) *)
Theorem multi_one_refines_ref : forall o c t, cm_write c = true -> m_id (cm c) = 0 -> wf t -> one_exact o = true -> covered o = true ->
  agree (tree_at (fst (multi_run o [(c, t)])) 0, snd (multi_run o [(c, t)])) (ref_run o t) = true.
Proof.
  intros o c t Hw Hid W E C. rewrite (multi_one_refines o c t Hw Hid W E).
  unfold lift1. cbn [fst snd]. unfold tree_at. cbn [nth_error].
  rewrite <- surjective_pairing. apply mem_refines_ref; assumption.
Qed.
Print Assumptions multi_one_refines_ref.

(* ---- stretch: removetree where the walk has nothing to visit, or the path is rejected (see the STATEMENT CHANGED note below) ---- *)
Definition removetree_leaf (p : str) (t : node) : bool :=
  match rpath p with
  | inl cs => match lookup t cs with Some (Dir (_ :: _) _) => false | _ => true end
  | inr _ => true
  end.

Theorem multi_one_removetree_leaf : forall p c t, cm_write c = true -> m_id (cm c) = 0 -> wf t ->
  removetree_leaf p t = true ->
  multi_run (ORemovetree p) [(c, t)] = lift1 c (mem_run (ORemovetree p) t).
Proof.
  intros p c t Hw Hid W Lf. unfold multi_run, mem_run. apply vmap_lift1.
  unfold multi_removetree, b_removetree. unfold removetree_leaf in Lf.
  destruct (rpath p) as [cs|adm] eqn:R.
  - pose proof (rpath_vp _ _ R) as V. pose proof (rpath_nf _ V) as Rq. pose proof (rpath_good _ _ R) as G.
    unfold mbind at 1. rewrite (F_validatepath c Hw p t), (validate_inl _ _ t R).
    unfold lift1' at 1. cbn [fst snd].
    unfold mbind at 1. unfold get.
    unfold mbind at 1. cbn [dfs_remove]. unfold mbind at 1.
    rewrite (F_scandir c Hid _ t W). rewrite (mem_scandir_spec _ _ t Rq). unfold lift1' at 1. cbn [fst snd].
    destruct (list_snoc_case cs) as [->|[d [c0 ->]]].
    + (* the root *)
      rewrite (mem_removetree_root _ t R). cbn [lookup] in Lf |- *.
      destruct W as [Wd _]. destruct t as [dat mt|ents m]; [discriminate Wd|].
      destruct ents as [|e ents]; [|discriminate Lf].
      cbn [map mfor]. unfold ret. rewrite to_path_root, str_eqb_refl. reflexivity.
    + rewrite (mem_removetree_snoc _ _ _ t R).
      destruct (lookup t (d ++ [c0])) as [[dat mt|ents m]|] eqn:L; rewrite lookup_snoc in L.
      * destruct (lookup t d) as [[|ents2 m2]|]; try discriminate L. rewrite L. reflexivity.
      * destruct ents as [|e ents]; [|discriminate Lf].
        cbn [map mfor]. unfold ret. rewrite (to_path_snoc_not_root _ _ G).
        rewrite (F_removedir c Hid _ t). rewrite (mem_removedir_snoc _ _ _ t R).
        rewrite lookup_snoc.
        destruct (lookup t d) as [[|ents2 m2]|]; try discriminate L. rewrite L. reflexivity.
      * destruct (lookup t d) as [[|ents2 m2]|]; try reflexivity. rewrite L. reflexivity.
  - unfold mbind at 1. rewrite (F_validatepath c Hw p t), (validate_inr _ _ t R).
    rewrite (mem_removetree_bad _ _ t R). reflexivity.
Qed.
Print Assumptions multi_one_removetree_leaf.

From Coq Require Import String.
Local Open Scope string_scope.

Example multi_one_writebytes_ex :
  multi_run (OWritebytes (p "a/new") (p "data")) ex_one
  = lift1 (mk 0 0%Z true) (mem_run (OWritebytes (p "a/new") (p "data")) (tree_at ex_one 0))
  /\ snd (multi_run (OWritebytes (p "a/new") (p "data")) ex_one) = Ok VUnit
  /\ lookup (tree_at (fst (multi_run (OWritebytes (p "a/new") (p "data")) ex_one)) 0) [p "a"; p "new"]
     = Some (File (p "data") None).
Proof. vm_compute. repeat split; reflexivity. Qed.

Example multi_one_listdir_ex :
  multi_run (OListdir (p "a")) ex_one = lift1 (mk 0 0%Z true) (mem_run (OListdir (p "a")) (tree_at ex_one 0))
  /\ multi_run (OListdir (p "a")) ex_one = (ex_one, Ok (VNames [p "x"])).
Proof. vm_compute. split; reflexivity. Qed.

Example multi_one_copy_ex :
  multi_run (OCopy (p "w") (p "a/w2") false true) ex_one
  = lift1 (mk 0 0%Z true) (mem_run (OCopy (p "w") (p "a/w2") false true) (tree_at ex_one 0))
  /\ snd (multi_run (OCopy (p "w") (p "a/w2") false true) ex_one) = Ok VUnit
  /\ lookup (tree_at (fst (multi_run (OCopy (p "w") (p "a/w2") false true) ex_one)) 0) [p "a"; p "w2"]
     = Some (File (p "w") (Some 3%Z)).
Proof. vm_compute. repeat split; reflexivity. Qed.

(* the excluded calls really differ: MultiFS.move (the base-class copy + remove) builds a new file, whose modification
   time is None = "now", where MemoryFS.move keeps the entry with its time *)
Example multi_one_move_ce :
  node_eqb true (tree_at (fst (multi_run (OMove (p "w") (p "w2") false false) ex_one)) 0)
                (fst (mem_run (OMove (p "w") (p "w2") false false) (tree_at ex_one 0))) = false
  /\ node_eqb false (tree_at (fst (multi_run (OMove (p "w") (p "w2") false false) ex_one)) 0)
                   (fst (mem_run (OMove (p "w") (p "w2") false false) (tree_at ex_one 0))) = true.
Proof. vm_compute. split; reflexivity. Qed.

(* a text mode is a Mode() for MultiFS, which looks the path up before the member rejects the mode *)
Example multi_one_textmode_ce :
  snd (multi_run (OOpenread (p "missing") (p "rt")) ex_one) = Err ResourceNotFound
  /\ snd (mem_run (OOpenread (p "missing") (p "rt")) (tree_at ex_one 0)) = Crash ValueError.
Proof. vm_compute. split; reflexivity. Qed.

(* stretch: on ex_one the four excluded calls agree up to modification times *)
Definition agree_upto_times (o : op) (st : mstate) : Prop :=
  node_eqb false (tree_at (fst (multi_run o st)) 0) (fst (mem_run o (tree_at st 0))) = true
  /\ snd (multi_run o st) = snd (mem_run o (tree_at st 0)).

Example multi_one_removetree_ex : agree_upto_times (ORemovetree (p "a")) ex_one.
Proof. unfold agree_upto_times. vm_compute. split; reflexivity. Qed.
Example multi_one_removetree_root_ex : agree_upto_times (ORemovetree (p "/")) ex_one.
Proof. unfold agree_upto_times. vm_compute. split; reflexivity. Qed.
Example multi_one_move_ex : agree_upto_times (OMove (p "w") (p "a/w2") false true) ex_one.
Proof. unfold agree_upto_times. vm_compute. split; reflexivity. Qed.
Example multi_one_movedir_ex : agree_upto_times (OMovedir (p "a") (p "b") true false) ex_one.
Proof. unfold agree_upto_times. vm_compute. split; reflexivity. Qed.
Example multi_one_copydir_ex : agree_upto_times (OCopydir (p "a") (p "b") true true) ex_one.
Proof. unfold agree_upto_times. vm_compute. split; reflexivity. Qed.

(* the exact times do differ for movedir (the moved entries are rebuilt), not for copydir on this example *)
Example multi_one_movedir_ce :
  node_eqb true (tree_at (fst (multi_run (OMovedir (p "a") (p "b") true false) ex_one)) 0)
                (fst (mem_run (OMovedir (p "a") (p "b") true false) (tree_at ex_one 0))) = false.
Proof. vm_compute. reflexivity. Qed.

(* ---- stretch: removetree ---- *)
(* STATEMENT CHANGED: "forall p c t, ... wf t -> multi_run (ORemovetree p) [(c,t)] = lift1 c (mem_run (ORemovetree p) t)" is
   false: wf does not exclude NUL inside a NAME of the tree (unreachable through the API); the walk's
   remove(join(dir, name)) then fails with InvalidCharsInPath where MemoryFS.removetree just drops the entry
   (multi_one_removetree_nulname_ce below).
   The former second deviation - FS.removetree normalised the path with abspath(normpath(.)) before any filesystem saw
   it, so that a NUL inside a component that ".." cancels ("x\0/..") disappeared and the MultiFS emptied the root where
   MemoryFS.removetree raises InvalidCharsInPath - was REPAIRED in /repo b9cf049: FS.removetree now starts with
   self.validatepath(dir_path), which on a one-member MultiFS is the member's validatepath (NUL check first).  The call
   is now rejected with InvalidCharsInPath and the state unchanged, exactly like MemoryFS
   (multi_one_removetree_nulpath_ex below; multi_one_removetree_leaf no longer needs "has_char Mem.nul p = false").
   Proved above: the statement for paths that are rejected or whose target is not a non-empty directory
   (removetree_leaf). The general case additionally needs "no name of t contains NUL" and an induction over dfs_remove
   (each visited entry is deleted from the front of its directory, ending in put t cs (Dir [] m), then del); not done
   within the budget. *)
Definition p_nul_dotdot : str := [120%N; 0%N; 47%N; 46%N; 46%N].   (* "x\0/.." *)
Example multi_one_removetree_nulpath_ex :
  multi_run (ORemovetree p_nul_dotdot) ex_one = (ex_one, Err InvalidCharsInPath)
  /\ multi_run (ORemovetree p_nul_dotdot) ex_one
     = lift1 (mk 0 0%Z true) (mem_run (ORemovetree p_nul_dotdot) (tree_at ex_one 0))
  /\ mem_run (ORemovetree p_nul_dotdot) (tree_at ex_one 0) = (tree_at ex_one 0, Err InvalidCharsInPath).
Proof. vm_compute. repeat split; reflexivity. Qed.

Definition t_nul_name : node := Dir [(p "a", Dir [([120%N; 0%N], File [] None)] None)] None.
Lemma t_nul_name_wf : wf t_nul_name.
Proof.
  split; [reflexivity|]. cbn.
  repeat split; try (repeat constructor; cbn; intuition discriminate); try discriminate.
Qed.
Example multi_one_removetree_nulname_ce :
  multi_run (ORemovetree (p "a")) [(mk 0 0%Z true, t_nul_name)] = ([(mk 0 0%Z true, t_nul_name)], Err InvalidCharsInPath)
  /\ mem_run (ORemovetree (p "a")) t_nul_name = (Dir [] None, Ok VUnit).
Proof. vm_compute. split; reflexivity. Qed.

(* wf is needed in multi_one_refines: on a (unreachable) tree with a repeated name MultiFS.listdir de-duplicates *)
Definition t_dup : node := Dir [(p "a", File [] None); (p "a", File [] None)] None.
Example multi_one_wf_needed_ce :
  snd (multi_run (OListdir (p "/")) [(mk 0 0%Z true, t_dup)]) = Ok (VNames [p "a"])
  /\ snd (mem_run (OListdir (p "/")) t_dup) = Ok (VNames [p "a"; p "a"]).
Proof. vm_compute. split; reflexivity. Qed.
