(* Example states for the Examples of the Route/Comp*.v theorem files. *)
From Coq Require Import List NArith ZArith Bool Arith String.
From PyFS Require Import Base.PyStr Base.Outcome Base.Render Path.PathModel FS.Tree FS.Monad FS.Mode FS.Base
     FS.Mem FS.Ops Route.Route Route.Composite.
Import ListNotations.
Local Open Scope string_scope. Local Open Scope list_scope.

Definition mk (i : nat) (prio : Z) (w : bool) : cmember :=
  {| cm := {| m_prio := prio; m_index := i; m_id := i |}; cm_name := lit "m" ++ nat_dec i; cm_write := w |}.
Definition xf (s : string) : node := File (lit s) None.
Definition xft (s : string) (t : Z) : node := File (lit s) (Some t).
Definition xd (l : list (string * node)) : node := Dir (map (fun kn => (lit (fst kn), snd kn)) l) None.

(* MultiFS: member 0 = low priority, the write member; member 1 = high priority, read only *)
Definition ex_lo : node := xd [("a", xd [("x", xf "lo-x"); ("y", xf "lo-y")]); ("w", xf "w")].
Definition ex_hi : node := xd [("a", xd [("x", xf "hi-x"); ("z", xf "hi-z")]); ("h", xf "h"); ("e", xd [])].
Definition ex_multi : mstate := [(mk 0 0%Z true, ex_lo); (mk 1 5%Z false, ex_hi)].
(* the same members without a write member *)
Definition ex_multi_ro : mstate := [(mk 0 0%Z false, ex_lo); (mk 1 5%Z false, ex_hi)].
(* equal priorities: the member added last (1) comes first *)
Definition ex_multi_eq : mstate := [(mk 0 0%Z true, ex_lo); (mk 1 0%Z false, ex_hi)].
(* a file in the high-priority member where the low one has a directory (and the reverse) *)
Definition ex_clash : mstate :=
  [(mk 0 0%Z true, xd [("a", xd [("x", xf "below")]); ("b", xf "file")]);
   (mk 1 5%Z false, xd [("a", xf "file"); ("b", xd [("k", xf "k")])])].
(* one member, which is the write member *)
Definition ex_one : mstate := [(mk 0 0%Z true, xd [("a", xd [("x", xft "x" 7)]); ("w", xft "w" 3)])].

(* MountFS: "/a" and "/ab" mounted, "/c/d" mounted at depth 2 *)
Definition ex_mount : tstate :=
  {| t_default := xd [("a", xd []); ("ab", xd []); ("c", xd [("d", xd [])]); ("own", xf "own")];
     t_mounts := [(lit "/a/", xd [("x", xf "in-a"); ("s", xd [("t", xf "t")])]);
                  (lit "/ab/", xd [("x", xf "in-ab")]);
                  (lit "/c/d/", xd [])] |}.

Definition p (s : string) : str := lit s.
